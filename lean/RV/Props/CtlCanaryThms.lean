import RV.Lemmas.CtlCanary
/-!
# Theorems about the canary-style Deployment control plane (attached to C06, C01, C05, C18)

`call br op c w exp` is one call of the real plane (`Initialize` / `UpgradeBatch` /
`EnsureBatchPodsReadyAndLabeled` / `Finalize`, a fresh plane object per call) from the world `w`
(any list of Deployments: the stable one, any number of canary candidates, foreign ones) with the
in-memory creation expectation `exp`, under the fault configuration `c` (the `k`-th counted API call
and every later one fail, for **every** `k`; reads counted or not).  `run` chains calls, with an
environment event before each.  All statements quantify over every world, BatchRelease, fault
configuration and run; the only hypothesis on worlds is the API-server fact that object names are
unique (`namesNodup`), and only where a statement needs it.
-/
namespace RV.Props.CtlCanary
open RV.Arith RV.CtlCanary RV.Oracle.CtlCanary

/-! ## C06 — faults are reported, `Finalize` returning nil means nothing is leaked -/

/-- **C06 errors are never swallowed** — if any API call made by a call of the plane failed (the fault
    index was reached), the call returns an error; for every operation, fault index and world. -/
theorem fault_reported (br : BR) (op : Op) (c : Cfg) (w : World) (exp : Exp) :
    faultReported c (call br op c w exp) = true := by
  unfold faultReported
  cases hk : c.failAt with
  | none => rfl
  | some k =>
    simp only
    split
    · rename_i hlt
      have h0 : ¬ faulted c (S0 w exp).n := by rintro ⟨k', _, h⟩; simp [S0] at h
      cases op
      · exact decide_eq_true (planeInitialize_fault c br (S0 w exp) h0 ⟨k, hk, hlt⟩)
      · exact decide_eq_true (planeUpgradeBatch_fault c br (S0 w exp) h0 ⟨k, hk, hlt⟩)
      · exact decide_eq_true (planeEnsureReady_fault c br (S0 w exp) h0 ⟨k, hk, hlt⟩)
      · exact decide_eq_true (planeFinalize_fault c br (S0 w exp) h0 ⟨k, hk, hlt⟩)
    · rfl

/-- **C06 `finalize_ok_means_gone`** — whenever `Finalize` returns no error, no Deployment owned by this
    BatchRelease still carries the batch-release finalizer: every failed finalizer removal is reported,
    whatever the number of canary Deployments and wherever the fault hits. -/
theorem finalize_ok_means_gone (br : BR) (op : Op) (c : Cfg) (w : World) (exp : Exp)
    (hnd : namesNodup w = true) :
    finalizeOkMeansGone op (call br op c w exp) = true := by
  unfold finalizeOkMeansGone
  split
  · rename_i h
    obtain ⟨hop, hres⟩ := h
    subst hop
    obtain ⟨w1, ids, hw1, _, _, _, hok⟩ := planeFinalize_spec c br w exp
    have hcall : planeFinalize c br (S0 w exp) = ((planeFinalize c br (S0 w exp)).1, .ok) := by
      have : (planeFinalize c br (S0 w exp)).2 = .ok := hres
      rw [← this]
    obtain ⟨s3, hs3, hloop⟩ := hok _ hcall
    have hnd1 : (names s3.w).Nodup := by
      rw [hs3]
      rcases hw1 with ⟨h, _⟩ | ⟨_, h⟩
      · rw [h]; exact (namesNodup_iff w).mp hnd
      · rw [h, names_modify _ _ _ (by intro d; rfl)]; exact (namesNodup_iff w).mp hnd
    have hgone := deleteLoop_ok_gone c (ownedDeps w1) s3 _ hnd1 hloop
    apply List.all_eq_true.mpr
    intro x hx
    show (!(owned x && x.finalizer)) = true
    cases hxf : x.finalizer
    · simp
    · cases hxo : owned x
      · simp
      · exfalso
        obtain ⟨hx1, hx2⟩ := hgone x hx hxf
        have hmem : x ∈ ownedDeps w1 := by
          rw [hs3] at hx1
          unfold ownedDeps
          exact List.mem_filter.mpr ⟨hx1, by simpa [owned] using hxo⟩
        exact hx2 x hmem hxf rfl
  · rfl

/-! ## C05 — `Finalize` releases the stable Deployment -/

/-- **C05 `finalize_releases_stable`** — after a successful `Finalize` the stable Deployment, if it
    exists, carries no control-info and `paused = (batchPartition ≠ nil)`: un-paused when the release
    is promoted (`batchPartition = nil`), kept paused otherwise. -/
theorem finalize_releases_stable (br : BR) (op : Op) (c : Cfg) (w : World) (exp : Exp)
    (hnd : namesNodup w = true) :
    finalizeReleasesStable br op (call br op c w exp) = true := by
  unfold finalizeReleasesStable
  split
  · rename_i h
    obtain ⟨hop, hres⟩ := h
    subst hop
    obtain ⟨w1, ids, hw1, hw', _, _, _⟩ := planeFinalize_spec c br w exp
    have hres' : (planeFinalize c br (S0 w exp)).2 = .ok := hres
    have hwc : (call br .fin c w exp).w = dropAll w1 ids := hw'
    rw [hwc]
    have hndw : (names w).Nodup := (namesNodup_iff w).mp hnd
    rcases hw1 with ⟨h1, h2⟩ | ⟨h1, h2⟩
    · -- the stable Deployment does not exist
      subst h1
      rw [find_dropAll ids br.key hndw, h2 hres']
      rfl
    · subst h2
      have hnd1 : (names (w.modify br.key (releaseStable br.partition.isSome))).Nodup := by
        rw [names_modify _ _ _ (by intro d; rfl)]; exact hndw
      rw [find_dropAll ids br.key hnd1, find_modify _ _ _ _ (by intro d; rfl)]
      cases hf : w.find br.key with
      | none => rfl
      | some st =>
        have hname := (find_some hf).2
        simp only [Option.map_some, hname, if_true, Option.bind_some]
        cases hdf : dropFn ids (releaseStable br.partition.isSome st) with
        | none => rfl
        | some st' =>
          rcases dropFn_some hdf with h | ⟨_, h⟩ <;> subst h <;> simp [releaseStable]
  · rfl

end RV.Props.CtlCanary
