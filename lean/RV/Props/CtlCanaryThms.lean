import RV.Lemmas.CtlCanary
/-!
# Theorems about the canary-style Deployment control plane (attached to C06, C01, C05, C18)

`call br op c w exp` is one call of the real plane (`Initialize` / `UpgradeBatch` /
`EnsureBatchPodsReadyAndLabeled` / `Finalize`, a fresh plane object per call) from the world `w`
(any list of Deployments: the stable one, any number of canary candidates, foreign ones) with the
in-memory creation expectation `exp`, under the fault configuration `c` (the `k`-th counted API call
and every later one fail, for **every** `k`; reads counted or not).  `run` chains calls, with an
environment event before each.  All statements quantify over every world, BatchRelease, fault
configuration and run; the only hypothesis on worlds is the API-server fact that object names are
unique (`namesNodup`), and only where a statement needs it.
-/
namespace RV.Props.CtlCanary
open RV.Arith RV.CtlCanary RV.Oracle.CtlCanary

/-! ## C06 — faults are reported, `Finalize` returning nil means nothing is leaked -/

/-- **C06 errors are never swallowed** — if any API call made by a call of the plane failed (the fault
    index was reached), the call returns an error; for every operation, fault index and world. -/
theorem fault_reported (br : BR) (op : Op) (c : Cfg) (w : World) (exp : Exp) :
    faultReported c (call br op c w exp) = true := by
  unfold faultReported
  cases hk : c.failAt with
  | none => rfl
  | some k =>
    simp only
    split
    · rename_i hlt
      have h0 : ¬ faulted c (S0 w exp).n := by rintro ⟨k', _, h⟩; simp [S0] at h
      cases op
      · exact decide_eq_true (planeInitialize_fault c br (S0 w exp) h0 ⟨k, hk, hlt⟩)
      · exact decide_eq_true (planeUpgradeBatch_fault c br (S0 w exp) h0 ⟨k, hk, hlt⟩)
      · exact decide_eq_true (planeEnsureReady_fault c br (S0 w exp) h0 ⟨k, hk, hlt⟩)
      · exact decide_eq_true (planeFinalize_fault c br (S0 w exp) h0 ⟨k, hk, hlt⟩)
    · rfl

/-- **C06 `finalize_ok_means_gone`** — whenever `Finalize` returns no error, no Deployment owned by this
    BatchRelease still carries the batch-release finalizer: every failed finalizer removal is reported,
    whatever the number of canary Deployments and wherever the fault hits. -/
theorem finalize_ok_means_gone (br : BR) (op : Op) (c : Cfg) (w : World) (exp : Exp)
    (hnd : namesNodup w = true) :
    finalizeOkMeansGone op (call br op c w exp) = true := by
  unfold finalizeOkMeansGone
  split
  · rename_i h
    obtain ⟨hop, hres⟩ := h
    subst hop
    obtain ⟨w1, ids, hw1, _, _, _, hok⟩ := planeFinalize_spec c br w exp
    have hcall : planeFinalize c br (S0 w exp) = ((planeFinalize c br (S0 w exp)).1, .ok) := by
      have : (planeFinalize c br (S0 w exp)).2 = .ok := hres
      rw [← this]
    obtain ⟨s3, hs3, hloop⟩ := hok _ hcall
    have hnd1 : (names s3.w).Nodup := by
      rw [hs3]
      rcases hw1 with ⟨h, _⟩ | ⟨_, h⟩
      · rw [h]; exact (namesNodup_iff w).mp hnd
      · rw [h, names_modify _ _ _ (by intro d; rfl)]; exact (namesNodup_iff w).mp hnd
    have hgone := deleteLoop_ok_gone c (ownedDeps w1) s3 _ hnd1 hloop
    apply List.all_eq_true.mpr
    intro x hx
    show (!(owned x && x.finalizer)) = true
    cases hxf : x.finalizer
    · simp
    · cases hxo : owned x
      · simp
      · exfalso
        obtain ⟨hx1, hx2⟩ := hgone x hx hxf
        have hmem : x ∈ ownedDeps w1 := by
          rw [hs3] at hx1
          unfold ownedDeps
          exact List.mem_filter.mpr ⟨hx1, by simpa [owned] using hxo⟩
        exact hx2 x hmem hxf rfl
  · rfl

/-! ## C05 — `Finalize` releases the stable Deployment -/

/-- **C05 `finalize_releases_stable`** — after a successful `Finalize` the stable Deployment, if it
    exists, carries no control-info and `paused = (batchPartition ≠ nil)`: un-paused when the release
    is promoted (`batchPartition = nil`), kept paused otherwise. -/
theorem finalize_releases_stable (br : BR) (op : Op) (c : Cfg) (w : World) (exp : Exp)
    (hnd : namesNodup w = true) :
    finalizeReleasesStable br op (call br op c w exp) = true := by
  unfold finalizeReleasesStable
  split
  · rename_i h
    obtain ⟨hop, hres⟩ := h
    subst hop
    obtain ⟨w1, ids, hw1, hw', _, _, _⟩ := planeFinalize_spec c br w exp
    have hres' : (planeFinalize c br (S0 w exp)).2 = .ok := hres
    have hwc : (call br .fin c w exp).w = dropAll w1 ids := hw'
    rw [hwc]
    have hndw : (names w).Nodup := (namesNodup_iff w).mp hnd
    rcases hw1 with ⟨h1, h2⟩ | ⟨h1, h2⟩
    · -- the stable Deployment does not exist
      subst h1
      rw [find_dropAll ids br.key hndw, h2 hres']
      rfl
    · subst h2
      have hnd1 : (names (w.modify br.key (releaseStable br.partition.isSome))).Nodup := by
        rw [names_modify _ _ _ (by intro d; rfl)]; exact hndw
      rw [find_dropAll ids br.key hnd1, find_modify _ _ _ _ (by intro d; rfl)]
      cases hf : w.find br.key with
      | none => rfl
      | some st =>
        have hname := (find_some hf).2
        simp only [Option.map_some, hname, if_true, Option.bind_some]
        cases hdf : dropFn ids (releaseStable br.partition.isSome st) with
        | none => rfl
        | some st' =>
          rcases dropFn_some hdf with h | ⟨_, h⟩ <;> subst h <;> simp [releaseStable]
  · rfl

/-! ## C18 — the finalizer on canary Deployments is removed only by `Finalize` -/

/-- **C18** — outside `Finalize` no Deployment loses the batch-release finalizer (or any finalizer), none
    is put into deletion and none disappears: `Initialize`, `UpgradeBatch` and
    `EnsureBatchPodsReadyAndLabeled` never tear anything down, under any fault. -/
theorem finalizer_only_by_finalize (br : BR) (op : Op) (c : Cfg) (w : World) (exp : Exp)
    (hnd : namesNodup w = true) :
    finalizerOnlyByFinalize op w (call br op c w exp) = true := by
  unfold finalizerOnlyByFinalize
  split
  · rfl
  · rename_i hop
    have hndw := (namesNodup_iff w).mp hnd
    obtain ⟨id, f, ids, hf, hwhich, hids, hworld⟩ := call_shape br op c w exp
    have hids' : ids = [] := by
      rcases hids with h | ⟨h, _⟩
      · exact h
      · exact absurd h hop
    subst hids'
    have hfields : ∀ d, (f d).finalizer = d.finalizer ∧ (f d).otherFinalizer = d.otherFinalizer ∧
        (f d).deleting = d.deleting := by
      intro d
      rcases hwhich with rfl | ⟨_, _, rfl⟩ | ⟨h, _⟩ | ⟨_, cd, t, cur, st, _, rfl, _⟩
      · exact ⟨rfl, rfl, rfl⟩
      · exact ⟨rfl, rfl, rfl⟩
      · exact absurd h hop
      · exact ⟨rfl, rfl, rfl⟩
    apply List.all_eq_true.mpr
    intro d hd
    rw [find_after hf hndw (shape_after hf hworld) hd, eff_nil]
    dsimp only
    split <;> simp [hfields]

/-- **C18 / isolation** — a Deployment that is neither owned by this BatchRelease nor its workload is never
    touched by any call, under any fault. -/
theorem foreign_untouched (br : BR) (op : Op) (c : Cfg) (w : World) (exp : Exp)
    (hnd : namesNodup w = true) :
    foreignUntouched br w (call br op c w exp) = true := by
  unfold foreignUntouched
  have hndw := (namesNodup_iff w).mp hnd
  obtain ⟨id, f, ids, hf, hwhich, hids, hworld⟩ := call_shape br op c w exp
  have hafter := shape_after hf hworld
  apply List.all_eq_true.mpr
  intro d hd
  cases ho : owned d
  case true => simp
  case false =>
    by_cases hk : d.name = br.key
    · simp [hk]
    · have hown : d.owner ≠ .this := by simpa [owned] using ho
      -- the single write does not hit `d`
      have hx : (if d.name = id then f d else d) = d := by
        rcases hwhich with rfl | ⟨_, rfl, _⟩ | ⟨_, rfl, _⟩ | ⟨_, cd, t, cur, st, rfl, _, _, _, hsel, _⟩
        · simp
        · simp [hk]
        · simp [hk]
        · obtain ⟨hcd, hcdo, _⟩ := selectCanary_mem hsel
          have : d.name ≠ cd.name := by
            intro he
            have h1 := find_of_mem hndw hd
            have h2 := find_of_mem hndw hcd
            rw [he, h2] at h1
            cases h1
            exact hown hcdo
          simp [this]
      -- nor do the finalizer removals
      have hnin : d.name ∉ ids := by
        rcases hids with rfl | ⟨_, hids⟩
        · simp
        · intro hin
          have := (ids_owned hf hndw hids hd hin).1
          rw [hx] at this
          exact hown this
      have : eff id f ids d = some d := by
        unfold eff dropFn
        rw [hx]; simp [hnin]
      rw [find_after hf hndw hafter hd, this]
      simp

/-- **C18** — `Finalize` takes nothing from the Deployments but the batch-release finalizer, and only from
    Deployments this BatchRelease owns; an owned Deployment disappears only if it was already in deletion
    and that finalizer was its last one. -/
theorem finalize_only_drops_finalizer (br : BR) (op : Op) (c : Cfg) (w : World) (exp : Exp)
    (hnd : namesNodup w = true) :
    finalizeOnlyDropsFinalizer br op w (call br op c w exp) = true := by
  unfold finalizeOnlyDropsFinalizer
  split
  · rename_i hop
    subst hop
    have hndw := (namesNodup_iff w).mp hnd
    obtain ⟨id, f, ids, hf, hwhich, hids, hworld⟩ := call_shape br .fin c w exp
    have hafter := shape_after hf hworld
    apply List.all_eq_true.mpr
    intro d hd
    by_cases hk : d.name = br.key
    · simp [hk]
    · have hx : (if d.name = id then f d else d) = d := by
        rcases hwhich with rfl | ⟨h, _⟩ | ⟨_, rfl, _⟩ | ⟨h, _⟩
        · simp
        · cases h
        · simp [hk]
        · cases h
      have hown : d.name ∈ ids → owned d = true ∧ d.finalizer = true := by
        intro hin
        rcases hids with rfl | ⟨_, hids⟩
        · simp at hin
        · have := ids_owned hf hndw hids hd hin
          rw [hx] at this
          exact ⟨by simp [owned, this.1], this.2⟩
      rw [find_after hf hndw hafter hd]
      unfold eff
      rw [hx]
      cases hdf : dropFn ids d with
      | none =>
        obtain ⟨h1, h2, h3⟩ := dropFn_none hdf
        obtain ⟨h4, h5⟩ := hown h1
        simp [hk, h2, h3, h4, h5]
      | some d' =>
        rcases dropFn_some hdf with h | ⟨h1, h⟩
        · subst h; simp
        · obtain ⟨h4, h5⟩ := hown h1
          subst h
          simp [hk, h4, h5]
  · rfl

/-! ## C01 — the canary Deployment's replicas follow the current step -/

/-- **C01 `canary_replicas_within_step`** — on every path of every call (any fault index, retries
    included) `spec.replicas` of every Deployment is left as it was, except that `UpgradeBatch` may raise
    the replicas of a Deployment owned by this BatchRelease to **exactly**
    `CalculateBatchReplicas(stable replicas, batches[currentBatch])`, and only from a smaller value;
    a Deployment the plane creates starts with 0 replicas. -/
theorem canary_replicas_within_step (br : BR) (op : Op) (c : Cfg) (w : World) (exp : Exp)
    (hnd : namesNodup w = true) :
    replicasWithinStep br op w (call br op c w exp) = true := by
  unfold replicasWithinStep
  have hndw := (namesNodup_iff w).mp hnd
  obtain ⟨id, f, ids, hf, hwhich, hids, hworld⟩ := call_shape br op c w exp
  have hafter := shape_after hf hworld
  apply List.all_eq_true.mpr
  intro d' hd'
  rcases mem_after hf hndw hafter hd' with ⟨d, hd, heff, hfind⟩ | ⟨_, ⟨_, _, st, _, hnew, _⟩, _, hnone, _⟩
  · rw [hfind]
    dsimp only
    have hrep : d'.replicas = (if d.name = id then f d else d).replicas := by
      rcases eff_some heff with h | ⟨_, h⟩ <;> rw [h]
    rcases hwhich with rfl | ⟨_, _, rfl⟩ | ⟨_, _, rfl⟩ | ⟨hop, cd, t, cur, st, rfl, rfl, _, _, hsel, htgt, hcur, hlt, _⟩
    · have : d'.replicas = d.replicas := by rw [hrep]; simp
      simp [this]
    · have : d'.replicas = d.replicas := by rw [hrep]; split <;> rfl
      simp [this]
    · have : d'.replicas = d.replicas := by rw [hrep]; split <;> rfl
      simp [this]
    · by_cases hn : d.name = cd.name
      · obtain ⟨hcd, hcdo, _⟩ := selectCanary_mem hsel
        have hdcd : d = cd := by
          have h1 := find_of_mem hndw hd
          have h2 := find_of_mem hndw hcd
          rw [hn, h2] at h1
          cases h1; rfl
        subst hdcd
        have : d'.replicas = some t := by rw [hrep]; simp [setReplicas]
        simp [this, hop, owned, hcdo, htgt, hcur, hlt]
      · have : d'.replicas = d.replicas := by rw [hrep]; simp [hn]
        simp [this]
  · rw [hnone]
    obtain ⟨tp, _, rfl⟩ := newCanary_some hnew
    simp

/-- **C01** — a successful `UpgradeBatch` leaves the selected canary Deployment at
    `max(current, CalculateBatchReplicas(stable replicas, batches[currentBatch]))`: exactly the step's
    target unless the canary was already larger (the plane never scales a canary down). -/
theorem upgrade_reaches_target (br : BR) (op : Op) (c : Cfg) (w : World) (exp : Exp)
    (hnd : namesNodup w = true) :
    upgradeReachesTarget br op w (call br op c w exp) = true := by
  unfold upgradeReachesTarget
  split
  · rename_i h
    obtain ⟨hop, hres⟩ := h
    subst hop
    have hndw := (namesNodup_iff w).mp hnd
    have hres' : (planeUpgradeBatch c br (S0 w exp)).2 = .ok := hres
    obtain ⟨_, hspec⟩ := planeUpgradeBatch_spec c br w exp
    rcases hspec with ⟨hw, hok⟩ | ⟨cd, t, cur, st, hst, hne, hsel, htgt, hcur, hlt, _, hw⟩
    · obtain ⟨st, hst, hcase⟩ := hok hres'
      rw [hst]
      dsimp only
      rcases hcase with h0 | ⟨cd, t, cur, hsel, htgt, hcur, hle⟩
      · simp [h0]
      · split
        · rfl
        · rw [hsel, htgt]
          dsimp only
          have hwc : (call br .upgrade c w exp).w = w := hw
          rw [hwc, hcur, find_of_mem hndw (selectCanary_mem hsel).1]
          simp [hcur, Int.max_eq_left hle]
    · rw [hst]
      dsimp only
      rw [if_neg (by simpa using hne), hsel, htgt]
      dsimp only
      have hwc : (call br .upgrade c w exp).w = w.modify cd.name (setReplicas t) := hw
      rw [hwc, hcur, find_modify _ _ _ _ (by intro d; rfl), find_of_mem hndw (selectCanary_mem hsel).1]
      simp [setReplicas, Int.max_eq_right (Int.le_of_lt hlt)]
  · rfl

end RV.Props.CtlCanary
