import RV.Props.ExecutorXThms
import RV.Props.CtlPDeployThms
import RV.Props.C11
/-!
# The partition-style Deployment plane is a lawful plane of the executor (C01, C06, C11, C18)

`RV.ExecutorX.pdepPlane` is a thin adapter over the plane model `RV.CtlPDeploy` (`planeInitialize` / `planeUpgradeBatch` /
`planeFinalize` without API fault, plus `pdepReady` = `CalculateBatchContext` → `IsBatchReady`).  Here the plane laws
(`Laws`) and the exposure laws (`ExposureLaws`) are proved for it with its own predicates `pdepPreds`, **from the
theorems of the plane model** (`RV.Props.CtlPDeploy`): every call of the adapter is one `CtlPDeploy.step` without fault.

With `pdepLaws` / `pdepExposure` every theorem of `RV.Props.ExecutorXThms` holds of `reconcileX pdepPlane`.
-/
namespace RV.Props.ExecutorX
open RV.Arith RV.BatchCtx RV.Executor RV.ExecutorX RV.Oracle.ExecutorX

/-! ## the calls of the adapter are steps of the plane model -/

/-- the configuration of the plane model a call of the adapter runs in (the webhook world is not read by controller calls) -/
def pdepCfg (br : BR) (ns : Status) : CtlPDeploy.Cfg := { rel := pdepRel br ns, world := default }

/-- a controller call without API fault as a step of the plane model -/
def pdepStep (call : CtlPDeploy.Call) (batch : Int := 0) (bpNil : Bool := false) : CtlPDeploy.Step :=
  { call := call, fault := .none, batch := batch, bpNil := bpNil, edit := CtlPDeploy.Edit.none }

theorem pdep_init_is_step (br : BR) (ns : Status) (d : Option CtlPDeploy.Dep) :
    CtlPDeploy.planeInitialize (pdepRel br ns) d .none = CtlPDeploy.step (pdepCfg br ns) d (pdepStep .initialize) := rfl

theorem pdep_upgrade_is_step (br : BR) (ns : Status) (d : Option CtlPDeploy.Dep) :
    CtlPDeploy.planeUpgradeBatch (pdepRel br ns) br.status.currentBatch d .none =
      CtlPDeploy.step (pdepCfg br ns) d (pdepStep .upgradeBatch br.status.currentBatch) := rfl

theorem pdep_fin_is_step (br : BR) (ns : Status) (d : Option CtlPDeploy.Dep) :
    CtlPDeploy.planeFinalize br.partition.isNone d .none =
      CtlPDeploy.step (pdepCfg br ns) d (pdepStep .finalize 0 br.partition.isNone) := rfl

/-- what a returning `Initialize` of the adapter is: one `initialize` step `o` of the plane model; the world after carries
    `o.dep`, the new status differs from the old one in the four recorded fields only, and `ok` means the step said ok. -/
theorem pdep_init_inv {br : BR} {ns ns' : Status} {w w' : PDepW} {r : CallResult}
    (h : pdepPlane.init br ns w = .val (w', ns', r)) :
    ∃ o, CtlPDeploy.step (pdepCfg br ns) w.dep (pdepStep .initialize) = .val o ∧ w' = { w with dep := o.dep } ∧
      (r = .ok → o.res = .ok) ∧
      (∃ sr ur orp nn, ns' = { ns with stableRevision := sr, updateRevision := ur, observedReplicas := orp, noNeedUpdate := nn }) := by
  simp only [pdepPlane, pdep_init_is_step] at h
  split at h
  · cases h
  · rename_i o ho
    refine ⟨o, ho, ?_⟩
    split at h
    · rename_i hres _ _
      simp only [Out.val.injEq, Prod.mk.injEq] at h
      obtain ⟨h1, h2, _⟩ := h
      exact ⟨h1.symm, fun _ => hres, ⟨_, _, _, _, h2.symm⟩⟩
    · simp only [Out.val.injEq, Prod.mk.injEq] at h
      obtain ⟨h1, h2, h3⟩ := h
      refine ⟨h1.symm, fun hr => ?_, ⟨ns.stableRevision, ns.updateRevision, ns.observedReplicas, ns.noNeedUpdate, ?_⟩⟩
      · rw [← h3] at hr; cases hr
      · rw [← h2]

/-- what a returning `UpgradeBatch` of the adapter is -/
theorem pdep_upgrade_inv {br : BR} {ns : Status} {w w' : PDepW} {r : CallResult}
    (h : pdepPlane.upgrade br ns w = .val (w', r)) :
    ∃ o, CtlPDeploy.step (pdepCfg br ns) w.dep (pdepStep .upgradeBatch br.status.currentBatch) = .val o ∧
      w' = { w with dep := o.dep } ∧ (r = .ok ↔ o.res = .ok) := by
  simp only [pdepPlane, pdep_upgrade_is_step] at h
  split at h
  · cases h
  · rename_i o ho
    simp only [Out.val.injEq, Prod.mk.injEq] at h
    obtain ⟨h1, h2⟩ := h
    refine ⟨o, ho, h1.symm, ?_⟩
    rw [← h2]
    cases o.res <;> simp [resOfBool]

/-- what a returning `Finalize` of the adapter is -/
theorem pdep_fin_inv {br : BR} {w w' : PDepW} {r : CallResult}
    (h : pdepPlane.fin br w = .val (w', r)) :
    ∃ o, CtlPDeploy.step (pdepCfg br br.status) w.dep (pdepStep .finalize 0 br.partition.isNone) = .val o ∧
      w' = { w with dep := o.dep } ∧ (r = .ok ↔ o.res = .ok) := by
  simp only [pdepPlane, pdep_fin_is_step br br.status] at h
  split at h
  · cases h
  · rename_i o ho
    simp only [Out.val.injEq, Prod.mk.injEq] at h
    obtain ⟨h1, h2⟩ := h
    refine ⟨o, ho, h1.symm, ?_⟩
    rw [← h2]
    cases o.res <;> simp [resOfBool]

/-- the plan entry the plane model's `UpgradeBatch` works on is the executor's -/
theorem pdep_entryOf (br : BR) (ns : Status) :
    RV.Oracle.CtlPDeploy.entryOf (pdepRel br ns) br.status.currentBatch = entryOf br := rfl

/-- the exposure of a world is the limit of its Deployment -/
theorem pdep_exposure_same {w : PDepW} {d : Option CtlPDeploy.Dep} (h : d = w.dep) :
    pdepPreds.exposure { w with dep := d } = pdepPreds.exposure w := by
  subst h; rfl

/-! ## the plane laws -/

/-- **`Laws pdepPlane pdepPreds`** — `EnsureBatchPodsReadyAndLabeled` is the readiness predicate; a `Finalize` that returns
    nil leaves no Deployment that is paused with a control-info; `Initialize` records revisions, replicas and the
    no-need-update count only, and when it returns nil the Deployment `IsUnderRolloutControl`. -/
theorem pdepLaws : Laws pdepPlane pdepPreds where
  ensure_ok_iff := by
    intro br ns w _
    simp only [pdepPlane, pdepPreds]
    generalize pdepReady br w = x
    rcases x with (_ | _) | _ <;> simp [outBool, resOfBool]
  fin_ok_released := by
    intro br w w' _ h
    obtain ⟨o, ho, hw, hr⟩ := pdep_fin_inv h
    have hok : o.res = .ok := hr.mp rfl
    -- C06 `ok_has_effect_partial` is silent in the region of finding `unclaimedFinalize`; `released` is the test `Finalize`
    -- itself makes (`control-info ∧ paused`), so the call is unfolded: it either finds the test false or clears the control-info
    subst hw
    simp only [pdepPreds]
    simp only [CtlPDeploy.step, pdepStep, CtlPDeploy.planeFinalize, CtlPDeploy.build] at ho
    cases hd : w.dep with
    | none =>
      simp only [hd] at ho
      cases ho; rfl
    | some d =>
      simp only [hd] at ho
      cases hrep : d.replicas with
      | none => simp [hrep] at ho
      | some n =>
        simp only [hrep, if_false, reduceCtorEq, CtlPDeploy.Out.val.injEq] at ho
        rcases CtlPDeploy.commit_cases d (CtlPDeploy.ctrlFinalize d br.partition.isNone) .none none with
          ⟨hn, hc⟩ | ⟨_, _, hf, _⟩ | ⟨d', hs, _, hc⟩
        · rw [hc] at ho; subst ho
          have := CtlPDeploy.ctrlFinalize_none hn
          simp only [pdepClaimed]
          rw [show (d.control != .none && d.paused) = RV.Oracle.CtlPDeploy.claimed d from rfl, this]; rfl
        · cases hf
        · rw [hc] at ho; subst ho
          obtain ⟨_, hd'⟩ := CtlPDeploy.ctrlFinalize_some hs
          subst hd'
          simp only [pdepClaimed, CtlPDeploy.finalized]
          split <;> simp
  init_frame := by
    intro br ns w w' ns' r h
    obtain ⟨_, _, _, _, sr, ur, orp, nn, hns⟩ := pdep_init_inv h
    subst hns
    exact ⟨rfl, rfl, rfl, rfl, rfl⟩
  init_ok_claimed := by
    intro br ns w w' ns' _ h
    obtain ⟨o, ho, hw, hr, _⟩ := pdep_init_inv h
    have hok : o.res = .ok := hr rfl
    -- C06 `ok_has_effect`: after a successful `Initialize` the Deployment is under rollout control
    have he := RV.Props.CtlPDeploy.ok_has_effect_partial _ _ _ _ ho
    subst hw
    simp only [RV.Oracle.CtlPDeploy.okHasEffectPartial, RV.Oracle.CtlPDeploy.guardUnclaimedStep, pdepStep,
      RV.Oracle.CtlPDeploy.okHasEffect, hok, if_true] at he
    simp only [pdepPreds]
    cases hd : w.dep <;> cases hd' : o.dep <;> simp [hd, hd'] at he ⊢
    exact he

/-! ## the exposure laws -/

/-- **`ExposureLaws pdepPlane pdepPreds`** — exposure = `NewRSReplicasLimit` of the strategy annotation's partition
    (`limitOf`), allowed = `CalculateBatchReplicas` of the current plan entry.  From C01 `initialize_exposes_nothing`,
    `upgradeBatch_monotone`, `upgradeBatch_within_step` and C06 `fault_safe` of the plane model. -/
theorem pdepExposure : ExposureLaws pdepPlane pdepPreds where
  init_exposes_nothing := by
    intro br ns w w' ns' r _ _ h
    obtain ⟨o, ho, hw, _, _⟩ := pdep_init_inv h
    subst hw
    have h1 := RV.Props.CtlPDeploy.initialize_exposes_nothing _ _ _ _ rfl ho
    have h2 := RV.Props.CtlPDeploy.fault_safe _ _ _ _ ho
    cases hres : o.res with
    | err =>
      -- an error never comes with a change
      simp only [RV.Oracle.CtlPDeploy.faultSafe, pdepStep, hres] at h2
      have hdep : o.dep = w.dep := by simpa using h2
      rw [pdep_exposure_same hdep]
      exact Int.le_refl _
    | ok =>
      simp only [RV.Oracle.CtlPDeploy.initExposesNothing, hres, if_true] at h1
      simp only [pdepPreds]
      cases hd : w.dep with
      | none => simp [hd] at h1
      | some d =>
        cases hd' : o.dep with
        | none => simp [hd, hd'] at h1
        | some d' =>
          simp only [hd, hd'] at h1
          split at h1
          · have : d' = d := by simpa using h1
            subst this; exact Int.le_refl _
          · simp only [Bool.and_eq_true, beq_iff_eq] at h1
            show RV.Oracle.CtlPDeploy.limitOf d' ≤ RV.Oracle.CtlPDeploy.limitOf d
            rw [h1.1.2]
            exact CtlPDeploy.limitOf_nonneg d
  upgrade_monotone := by
    intro br ns w w' r _ _ h
    obtain ⟨o, ho, hw, _⟩ := pdep_upgrade_inv h
    subst hw
    have h1 := RV.Props.CtlPDeploy.upgradeBatch_monotone _ _ _ _ rfl ho
    simp only [RV.Oracle.CtlPDeploy.upgradeMonotone] at h1
    simp only [pdepPreds]
    cases hd : w.dep <;> cases hd' : o.dep <;> simp [hd, hd'] at h1 ⊢
    exact h1
  upgrade_within := by
    intro br ns w w' r _ _ h
    obtain ⟨o, ho, hw, _⟩ := pdep_upgrade_inv h
    subst hw
    have h1 := RV.Props.CtlPDeploy.upgradeBatch_within_step _ _ _ _ rfl ho
    simp only [RV.Oracle.CtlPDeploy.upgradeWithinStep, pdepCfg, pdepStep, pdep_entryOf] at h1
    simp only [pdepPreds]
    cases hd : w.dep with
    | none =>
      cases hd' : o.dep with
      | none => simp
      | some d' => simp [hd, hd'] at h1
    | some d =>
      cases hd' : o.dep with
      | none => simp [hd, hd'] at h1
      | some d' =>
        simp only [hd, hd', Bool.and_eq_true] at h1
        obtain ⟨_, h1⟩ := h1
        have hsame : d' = d → RV.Oracle.CtlPDeploy.limitOf d' ≤
            max (RV.Oracle.CtlPDeploy.limitOf d) (pdepPreds.allowed br w) := by
          intro e; subst e; exact Int.le_max_left _ _
        simp only [pdepPreds, hd] at hsame
        simp only
        cases hrep : d.replicas with
        | none =>
          simp only [hrep] at h1
          have : d' = d := by simpa using h1
          simpa [hrep] using hsame this
        | some n =>
          cases he : entryOf br with
          | none =>
            simp only [hrep, he] at h1
            have : d' = d := by simpa using h1
            simpa [hrep, he] using hsame this
          | some e =>
            simp only [hrep, he, Bool.and_eq_true, decide_eq_true_eq] at h1
            simpa [hrep] using h1.2
  upgrade_err_same := by
    intro br ns w w' h
    obtain ⟨o, ho, hw, hr⟩ := pdep_upgrade_inv h
    have hres : o.res = .err := by
      cases hres : o.res with
      | err => rfl
      | ok => exact absurd (hr.mpr hres) (by simp)
    have h2 := RV.Props.CtlPDeploy.fault_safe _ _ _ _ ho
    simp only [RV.Oracle.CtlPDeploy.faultSafe, pdepStep, hres] at h2
    have hdep : o.dep = w.dep := by simpa using h2
    rw [hw, hdep]

/-! ## what "ready" means for this plane (C11.i) -/

/-- what `CalculateBatchContext` of the partition-style Deployment control reads for Deployment `d` of size `r`: the plan entry
    of the current batch, the partition of the strategy annotation, `status.updatedReplicas`, and the
    `updatedReadyReplicas` of the extra-status annotation (0 without the annotation) -/
def pdepCtxObs (br : BR) (w : PDepW) (d : CtlPDeploy.Dep) (r : Int) : RV.BatchCtx.Obs :=
  { kind := .depPartition, replicas := r, entry := entryOf br, noNeedUpdate := br.status.noNeedUpdate,
    knobCur := (CtlPDeploy.getStrategy d).partition, updated := w.obs.updated,
    updatedReady := if d.extraStatus then w.obs.updatedReady else 0, failureThreshold := br.failureThreshold }

/-- **C11.i for the partition-style Deployment plane** — when the plane's readiness predicate holds, the Deployment exists
    (with a non-nil size), and either it has 0 replicas or the batch context `c` of `CalculateBatchContext` has at least
    the desired number of updated pods, enough ready ones within the failure threshold, and at least one ready pod when
    any is called for.  From `RV.Props.C11.ready_sound`; `h0`: the API server's counter is not negative
    (`pdep_ready_means_needs_nonneg`: without it the last clause fails). -/
theorem pdep_ready_means (br : BR) (w : PDepW) (h0 : 0 ≤ w.obs.updatedReady) (h : pdepPreds.ready br w = true) :
    ∃ d r, w.dep = some d ∧ d.replicas = some r ∧
      (r = 0 ∨
       ∃ c, calcCtx (pdepCtxObs br w d r) = .ok c ∧
         c.updated ≥ c.desired ∧ allowedUnavailable c.failureThreshold c.updated + c.updatedReady ≥ c.desired ∧
         (c.desired > 0 → c.updatedReady > 0)) := by
  simp only [pdepPreds, pdepReady, pdepInfo] at h
  cases hd : w.dep with
  | none => simp [hd, outBool] at h
  | some d =>
    cases hrep : d.replicas with
    | none => simp [hd, hrep, outBool] at h
    | some r =>
      refine ⟨d, r, rfl, hrep, ?_⟩
      simp only [hd, hrep, mkInfo] at h
      by_cases hr : r = 0
      · exact Or.inl hr
      · right
        simp only [hr, if_false] at h
        change outBool (match calcCtx (pdepCtxObs br w d r) with
          | .panic => .panic
          | .ok c => .val (decide (isBatchReady c none = .ok))) = true at h
        cases hc : calcCtx (pdepCtxObs br w d r) with
        | panic => simp [hc, outBool] at h
        | ok c =>
          simp only [hc, outBool, decide_eq_true_eq] at h
          have hur : 0 ≤ c.updatedReady := by
            simp only [calcCtx, pdepCtxObs] at hc
            split at hc
            · cases hc
            · cases hc
              show 0 ≤ (if d.extraStatus then w.obs.updatedReady else 0)
              split
              · exact h0
              · exact Int.le_refl 0
          have hm := RV.Props.C11.ready_sound c none hur h
          simp only [RV.Oracle.Batch.readyMeans, Bool.and_eq_true, decide_eq_true_eq, Bool.and_true] at hm
          exact ⟨c, rfl, hm.1.1, hm.1.2, hm.2⟩

/-! ## non-vacuity (tests on literals, not the ∀ claims) -/

/-- a Deployment of 10 pods under rollout control at partition 20 % -/
def exPDep : CtlPDeploy.Dep :=
  { replicas := some 10, paused := true, stratType := "Recreate", stratRU := none,
    stratAnno := .valid { rollingStyle := "Partition", ru := none, paused := false, partition := .pct 20 },
    control := .this, ctrlLabel := true, stableRev := "s1", extraStatus := true, inProgress := true, tmpl := 2, rest := 0 }

/-- its status: 2 updated pods, both ready -/
def exPDepW : PDepW :=
  { dep := some exPDep,
    obs := { generation := 3, observedGeneration := 3, statusReplicas := 10, updated := 2, updatedReady := 2,
             updateRevision := "", stableRevision := "" } }

/-- a BatchRelease verifying batch 0 (20 %) of a three-batch plan -/
def exPDepBR : BR :=
  { batches := [.pct 20, .pct 50, .pct 100], partition := none, failureThreshold := none, deleting := false,
    hasFinalizer := true, rollbackAnno := false,
    status := { phase := .progressing, currentBatch := 0, batchState := .verifying, hasReadyTime := false, hash := .same,
                rolloutIDSame := true, observedReplicas := 10, updateRevision := "t2", stableRevision := "s1",
                noNeedUpdate := none, updated := 0, updatedReady := 0 } }

/-- the readiness predicate is satisfiable: 2 of 10 updated and ready for the 20 % batch … -/
example : pdepPreds.ready exPDepBR exPDepW = true := by decide

/-- … and refutable: with one of them not ready it fails -/
example : pdepPreds.ready exPDepBR { exPDepW with obs := { exPDepW.obs with updatedReady := 1 } } = false := by decide

/-- a successful `Finalize` (`batchPartition = nil`) of that world leaves a Deployment that satisfies `released`
    (control-info gone, un-paused) -/
example : ∃ w', pdepPlane.fin exPDepBR exPDepW = .val (w', .ok) ∧ pdepPreds.released exPDepBR w' = true ∧
    pdepPreds.released exPDepBR exPDepW = false :=
  ⟨_, rfl, by decide, by decide⟩

/-- a successful `Initialize` claims a Deployment as its user configured it -/
example : ∃ w' ns', pdepPlane.init exPDepBR exPDepBR.status
      { exPDepW with dep := some RV.Props.CtlPDeploy.exD } = .val (w', ns', .ok) ∧
    pdepPreds.claimed exPDepBR { exPDepW with dep := some RV.Props.CtlPDeploy.exD } w' = true ∧ pdepPreds.exposure w' = 0 :=
  ⟨_, _, rfl, by decide, by decide⟩

/-- `pdep_ready_means` needs `h0`: with a negative `updatedReadyReplicas` in the extra-status annotation and a failure
    threshold, `IsBatchReady` says ready although no pod is ready -/
theorem pdep_ready_means_needs_nonneg :
    pdepPreds.ready { exPDepBR with failureThreshold := some (.int 5) }
      { exPDepW with obs := { exPDepW.obs with updatedReady := -1 } } = true := by decide

end RV.Props.ExecutorX
