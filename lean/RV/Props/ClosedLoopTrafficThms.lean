/-
  # Traffic clauses of C03 / C04 / C05 over EVERY history of the closed loop

  `RV.ClosedLoop.step` (RV/Model/ClosedLoop.lean) runs the Rollout reconciler — and with it the traffic Manager model
  (`RV/Model/Traffic.lean`) — the BatchRelease executor, the simulated CloneSet controller, the user and crashes on ONE joint
  state; suite `closedloop` compares it with the real controllers on every transition of every walk.  The theorems below
  quantify over every plan (steps with a weight, steps without, 100 %-replica steps anywhere, any replicas entries the
  validating webhook admits), `disableGenerateCanaryService` both ways, `hasTraffic` both ways, every workload size ≥ 1,
  every grace period, every content of the grace memory, and every history (`List Label`) — by induction over the label list.

  **Label set (`legal`, as in `RV.Props.ClosedLoop`)**: `ro`, `br`, `env`, `approve`, `tick`, `crash` at any time, in any order,
  any number of times; `release rev` whenever the rollout is idle — histories contain any number of successive rollouts.
  Not covered (hence `_partial`): a release / rollback *during* a rollout, deletion, disabling, pausing, step jumps, plan
  edits, scaling, API faults inside a reconcile.  Those histories are compared step by step on the walks and judged by the
  same oracles on the implementation (`C04.loop_no_void`, `C05.loop_terminal_clean`, `C03.loop_first_step_pins`,
  `C03.loop_route_after_ready`, `C10.loop_rollback_routes_first`); for supersession see section 4.
-/
import RV.Props.ClosedLoopThms
import RV.Lemmas.ClosedLoopTrafficLabels
import RV.Lemmas.ClosedLoopTrafficBr
import RV.Lemmas.ClosedLoopTrafficRoll
import RV.Lemmas.ClosedLoopTrafficFin
import RV.Lemmas.ClosedLoopTrafficRoute
import RV.Lemmas.ClosedLoopTrafficReset
import RV.Lemmas.ClosedLoopTrafficExact
import RV.Lemmas.ClosedLoopTrafficLive
import RV.Lemmas.ClosedLoopMono
import RV.Model.ClosedLoopRb
namespace RV.Props.ClosedLoopTraffic
open RV.Arith RV.Traffic RV.RolloutSM RV.ClosedLoop RV.Oracle.ClosedLoop RV.Oracle.ClosedLoopTraffic RV.Lemmas.ClosedLoop
  RV.Lemmas.ClosedLoopTraffic RV.Props.ClosedLoop

/-- the initial states: `RV.Props.ClosedLoop.Init` (a Healthy, live canary rollout in partition style, its CloneSet running one
    revision, no BatchRelease), and the cluster as the user configured it: no canary Ingress / canary Service, the stable Service
    not pinned, the CloneSet (at least one replica) without partition, pause or control annotation -/
def InitT (s : CS) : Prop :=
  Init s ∧ netClean s.net = true ∧ ∃ w, s.wl = some w ∧ 0 < w.replicas ∧ released w = true

theorem initT_inv (s : CS) (h : InitT s) : trInv s = true := by
  obtain ⟨hi, hn, w, hw, hR, hrel⟩ := h
  have hf := init_inv s hi
  obtain ⟨_, hph, _, w', hw', _, _, ha⟩ := hi
  rw [hw] at hw'; cases hw'
  refine (trInv_iff s).2 ⟨hf, (trRest_some s w hw).2 ⟨hR, ?_⟩⟩
  rw [trPhase_healthy s w hph, hn, ha]
  simpa using hrel

/-- one Rollout reconcile preserves the traffic part of the invariant -/
theorem stepRo_tr (s s' : CS) (h : trInv s = true) (hs : stepRo s = some s') : trRest s' = true := by
  obtain ⟨_, _, _, w, hw, _, _, _, hpi, _, _⟩ := tr_parts s h
  cases hc : (roWl w).consistent with
  | false => exact ro_easy_tr s s' h (Or.inl ⟨w, hw, hc⟩) hs
  | true =>
    have hpi' := hpi
    unfold phaseInv at hpi'
    split at hpi'
    · rename_i hph
      exact ro_easy_tr s s' h (Or.inr (Or.inl hph)) hs
    · rename_i hph hr
      exact ro_easy_tr s s' h (Or.inr (Or.inr ⟨hph, Or.inl hr⟩)) hs
    · rename_i hph hr
      exact ro_rolling_tr s s' w h hw hc hph hr hs
    · rename_i hph hr
      exact ro_finalising_tr s s' w h hw hc hph hr hs
    · rename_i hph hr
      exact ro_easy_tr s s' h (Or.inr (Or.inr ⟨hph, Or.inr hr⟩)) hs
    · cases hpi'

/-- **the traffic invariant is inductive** — from any state satisfying it, every legal label can be taken (no reconciler
    panics) and leads to a state satisfying it -/
theorem tr_step (s : CS) (l : Label) (h : trInv s = true) (hl : legal s l = true) :
    ∃ s', step s l = some s' ∧ trInv s' = true := by
  obtain ⟨hf, _⟩ := (trInv_iff s).1 h
  obtain ⟨s', hs, hf'⟩ := fwd_step s l hf hl
  refine ⟨s', hs, (trInv_iff s').2 ⟨hf', ?_⟩⟩
  cases l with
  | ro => exact stepRo_tr s s' h hs
  | br => exact stepBr_tr s s' h hs
  | env => cases hs; exact env_tr s h
  | release rev => cases hs; exact release_tr s rev h hl
  | approve => cases hs; exact approve_tr s h
  | tick => cases hs; exact tick_tr s h
  | crash => cases hs; exact crash_tr s h
  | delete => cases hl

/-- **every reachable state satisfies the traffic invariant** (induction over the history) -/
theorem loop_tr_inv_partial (s0 s : CS) (ls : List Label) (h0 : InitT s0) (hr : Reach s0 ls s) : trInv s = true := by
  have h := initT_inv s0 h0
  clear h0
  induction hr with
  | nil => exact h
  | cons s s' s'' l ls hl hs _ ih =>
    obtain ⟨t, ht, hinv⟩ := tr_step s l h hl
    rw [hs] at ht; cases ht
    exact ih hinv

/-! ### 3. `loop_no_void` (C04) -/

/-- the traffic invariant implies `noVoid` on the joint state -/
theorem noVoid_of_tr (s : CS) (h : trInv s = true) : noVoidOK s = true := by
  obtain ⟨hf, hgone, hg, w, hw, hwok, hm, hbr, hpi, hR, htp⟩ := tr_parts s h
  unfold noVoidOK
  rw [hgone, hw]
  simp only [Bool.false_or]
  unfold RV.Oracle.Cluster.noVoid
  have hnet : (roWorld s).net = s.net := rfl
  have hro : (roWorld s).ro = s.ro := rfl
  have hwl : (roWorld s).wl = some (roWl w) := by simp only [roWorld, hw, Option.map_some]
  rw [hnet, hro, hwl]
  have clean : netClean s.net = true →
      ((match s.net.canaryIng with
        | some wt => if wt > 0 ∧ ¬ s.ro.disableGen = true then
            (match s.ro.sub, s.net.canarySvc with
             | some s, some r => r = s.podHash || r = s.canaryRev
             | _, _ => false) else true
        | none => true) &&
       (match s.net.stableSel, some (roWl w) with
        | some r, some wl => if r = wl.canaryRev then decide ((wlx w).updated > 0) else decide ((wlx w).updated < wl.replicas)
        | _, _ => true)) = true := by
    intro hc
    obtain ⟨h1, _, h3⟩ := (netClean_iff s.net).1 hc
    rw [h1, h3]; rfl
  -- the two clauses from the rolling / finalising facts
  have core : ∀ sub : Sub, s.ro.sub = some sub → sub.canaryRev = w.updateRevision →
      (s.net.stableSel.isNone = true ∨ stableAlive sub w = true) → pinOK s sub w = true → svcOK s w = true → ingOK s = true →
      ((match s.net.canaryIng with
        | some wt => if wt > 0 ∧ ¬ s.ro.disableGen = true then
            (match s.ro.sub, s.net.canarySvc with
             | some s, some r => r = s.podHash || r = s.canaryRev
             | _, _ => false) else true
        | none => true) &&
       (match s.net.stableSel, some (roWl w) with
        | some r, some wl => if r = wl.canaryRev then decide ((wlx w).updated > 0) else decide ((wlx w).updated < wl.replicas)
        | _, _ => true)) = true := by
    intro sub hsub hrev halive hpin hsvc hing
    rw [Bool.and_eq_true]
    constructor
    · cases hci : s.net.canaryIng with
      | none => rfl
      | some wt =>
        dsimp only
        split
        · rename_i hcond
          unfold ingOK at hing
          rw [hci] at hing
          simp only [Bool.and_eq_true, Bool.or_eq_true] at hing
          rcases hing.2 with hdg | hsv
          · exact absurd hdg hcond.2
          · cases hcs : s.net.canarySvc with
            | none => rw [hcs] at hsv; cases hsv
            | some r =>
              rw [hsub]
              dsimp only
              unfold svcOK at hsvc
              rw [hcs] at hsvc
              simp only [Bool.and_eq_true, beq_iff_eq] at hsvc
              rw [hsvc.1.1, hrev]
              simp
        · rfl
    · cases hss : s.net.stableSel with
      | none => rfl
      | some r =>
        dsimp only
        unfold pinOK at hpin
        rw [hss] at hpin
        simp only [Bool.and_eq_true, beq_iff_eq, bne_iff_ne, ne_eq, Bool.not_eq_true'] at hpin
        obtain ⟨⟨⟨⟨hr1, _⟩, _⟩, _⟩, _⟩ := hpin
        rcases halive with hn | ha
        · rw [hss] at hn; cases hn
        · unfold stableAlive at ha
          simp only [Bool.and_eq_true, decide_eq_true_eq, beq_iff_eq, bne_iff_ne, ne_eq] at ha
          obtain ⟨⟨⟨_, hupd⟩, hcur⟩, hne⟩ := ha
          have hcr : (roWl w).canaryRev = w.updateRevision := rfl
          rw [if_neg (by rw [hcr, hr1, ← hcur]; exact hne)]
          exact decide_eq_true hupd
  have hpi' := hpi
  unfold phaseInv at hpi'
  split at hpi'
  · rename_i hph
    rw [trPhase_healthy s w hph] at htp
    simp only [Bool.and_eq_true] at htp
    exact clean htp.1
  · rename_i hph hr
    rw [trPhase_init s w hph hr] at htp
    simp only [Bool.and_eq_true] at htp
    exact clean htp.1
  · rename_i hph hr
    cases hsub : s.ro.sub with
    | none => rw [hsub] at hpi'; cases hpi'
    | some sub =>
      rw [trPhase_rolling s w sub hph hr hsub] at htp
      rw [phaseInv_rolling s w sub hph hr hsub] at hpi
      simp only [Bool.and_eq_true] at htp hpi
      obtain ⟨⟨⟨hcore, _⟩, _⟩, _⟩ := htp
      have sg := (subOK_iff s.ro sub w).1 hpi.1.1
      unfold netCore at hcore
      simp only [Bool.and_eq_true, if_true, Bool.or_eq_true] at hcore
      obtain ⟨⟨⟨⟨⟨h2, hpin⟩, hsvc⟩, hing⟩, _⟩, _⟩ := hcore
      have key := core sub hsub sg.rev ?_ hpin hsvc hing
      · rw [hsub] at key; exact key
      rcases h2 with hfull | ha
      · left
        cases hss : s.net.stableSel with
        | none => rfl
        | some r =>
          exfalso
          unfold pinOK at hpin
          rw [hss] at hpin
          simp only [Bool.and_eq_true, Bool.not_eq_true'] at hpin
          rw [hfull] at hpin
          exact absurd hpin.1.1.2 (by decide)
      · exact Or.inr ha
  · rename_i hph hr
    cases hsub : s.ro.sub with
    | none => rw [hsub] at hpi'; cases hpi'
    | some sub =>
      rw [trPhase_fin s w sub hph hr hsub] at htp
      simp only [Bool.and_eq_true, beq_iff_eq] at htp
      obtain ⟨⟨⟨hcore, _⟩, hrev⟩, _⟩ := htp
      unfold netCore at hcore
      simp only [Bool.and_eq_true, Bool.false_eq_true, if_false, Bool.or_eq_true] at hcore
      obtain ⟨⟨⟨⟨⟨h2, hpin⟩, hsvc⟩, hing⟩, _⟩, _⟩ := hcore
      have key := core sub hsub hrev h2 hpin hsvc hing
      rw [hsub] at key; exact key
  · rename_i hph hr
    rw [trPhase_completed s w hph hr] at htp
    simp only [Bool.and_eq_true] at htp
    exact clean htp.1
  · cases hpi'

/-- **C04 (closed loop, every history)** — `RV.Oracle.Cluster.noVoid` holds in every reachable state, crash points included
    (`crash` is a label): a canary route that carries weight implies the canary Service exists and selects the revision being
    released (unless the Services are not generated); a pinned stable Service names a revision — the workload's current, not its
    update revision — of which pods exist and cannot all be replaced under the partition in force (`stableAlive`).  The environment
    fact "old pods disappear only as far as the partition allows" is the model's `envWl`; it is used through `env_tr`.
    (partial: label set, see the header) -/
theorem loop_no_void_partial (s0 s : CS) (ls : List Label) (h0 : InitT s0) (hr : Reach s0 ls s) : noVoidOK s = true :=
  noVoid_of_tr s (loop_tr_inv_partial s0 s ls h0 hr)

/-! ### 5. `loop_terminal_clean` (C05) -/

/-- the traffic invariant implies `terminalClean` on the joint state -/
theorem terminalClean_of_tr (s : CS) (h : trInv s = true) : terminalCleanOK s = true := by
  obtain ⟨hf, hgone, hg, w, hw, hwok, hm, hbr, hpi, hR, htp⟩ := tr_parts s h
  unfold terminalCleanOK
  rw [hgone, hw]
  simp only [Bool.false_eq_true, if_false, Bool.not_false, Option.map_some]
  unfold RV.Oracle.Cluster.terminalClean
  have hnet : (roWorld s).net = s.net := rfl
  have hro : (roWorld s).ro = s.ro := rfl
  have hwl : (roWorld s).wl = some (roWl w) := by simp only [roWorld, hw, Option.map_some]
  have hbrw : (roWorld s).br = s.br.map roBr := rfl
  rw [hnet, hro, hwl, hbrw]
  dsimp only
  split
  · rename_i hterm
    simp only [Bool.not_true, Bool.false_or, Bool.and_eq_true, Bool.or_eq_true, decide_eq_true_eq, Bool.not_eq_true'] at hterm
    obtain ⟨hph, hanno⟩ := hterm
    have hanno' : w.inProgressAnno = false := hanno
    rcases hph with hph | hph
    · rw [trPhase_healthy s w hph, hanno'] at htp
      rw [phaseInv_healthy s w hph] at hpi
      simp only [Bool.and_eq_true, Bool.false_eq_true, if_false] at htp hpi
      obtain ⟨hclean, hrel⟩ := htp
      obtain ⟨h1, h2, h3⟩ := (netClean_iff s.net).1 hclean
      obtain ⟨r1, r2, r3⟩ := (released_iff w).1 hrel
      have hbn : s.br = none := by simpa using hpi.1
      simp [hbn, h1, h2, h3, wlx, r1, r2, r3]
    · exfalso
      unfold phaseInv at hpi
      rw [hph] at hpi
      cases hpi
  · rfl

/-- **C05 (closed loop, every history)** — every reachable terminal state — the rollout Healthy with nothing in progress, in
    particular the state in which a release ends (Progressing/Completed → Healthy, `succeeded = some true`) — satisfies
    `RV.Oracle.Cluster.terminalClean`: no BatchRelease, no canary Service, no canary Ingress, the stable Service not pinned, the
    CloneSet without partition, pause and control annotation.  The whole closed loop — both reconcilers, the workload controller,
    crashes at any point — returns network and workload to the user's configuration, not only the clean-up cursor.
    (partial: label set — no release / rollback / deletion during a rollout: those regions contain the open findings
    `releaseWhileFinalising`, `exitBeforeBatchRelease`, `noRevKey` and the new `abandonedCleanup`, see
    `loop_terminal_clean_full_FALSE`) -/
theorem loop_terminal_clean_partial (s0 s : CS) (ls : List Label) (h0 : InitT s0) (hr : Reach s0 ls s) :
    terminalCleanOK s = true :=
  terminalClean_of_tr s (loop_tr_inv_partial s0 s ls h0 hr)

/-- the same, spelled out: Healthy with nothing in progress means clean -/
theorem loop_healthy_means_clean_partial (s0 s : CS) (ls : List Label) (h0 : InitT s0) (hr : Reach s0 ls s) (w : CWl)
    (hw : s.wl = some w) (hph : s.ro.phase = .healthy) (ha : w.inProgressAnno = false) :
    s.br = none ∧ s.net.canaryIng = none ∧ s.net.canarySvc = none ∧ s.net.stableSel = none ∧
    w.partition = none ∧ w.paused = false ∧ w.owner = .none := by
  have h := loop_tr_inv_partial s0 s ls h0 hr
  obtain ⟨hf, hgone, hg, w', hw', hwok, hm, hbr, hpi, hR, htp⟩ := tr_parts s h
  rw [hw] at hw'; cases hw'
  rw [trPhase_healthy s w hph, ha] at htp
  rw [phaseInv_healthy s w hph] at hpi
  simp only [Bool.and_eq_true, Bool.false_eq_true, if_false] at htp hpi
  obtain ⟨h1, h2, h3⟩ := (netClean_iff s.net).1 htp.1
  obtain ⟨r1, r2, r3⟩ := (released_iff w).1 htp.2
  exact ⟨by simpa using hpi.1, h1, h2, h3, r1, r2, r3⟩

/-! ### 2. `loop_first_step_pins` (C03, last sentence) -/

theorem expoOf_stepBr_none (s s' : CS) (hb : s.br = none) (hs : step s .br = some s') : s' = s := by
  simp only [step, stepBr, hb, Option.some.injEq] at hs
  exact hs.symm

/-- **C03 (last sentence; closed loop, every history)** — when the first step configures traffic (a weight on step 1, traffic
    routing configured, canary Service generated, the step does not replace every pod), then in every reachable state in which the
    rollout is on step 1 and a BatchRelease exists — the only states from which a BatchRelease reconcile can expose new pods —
    the stable Service is pinned to the stable revision; in particular no `br` step that raises the CloneSet's exposure starts
    from a state with an un-pinned stable Service.  (partial: label set) -/
theorem loop_first_step_pins_partial (s0 s : CS) (ls : List Label) (h0 : InitT s0) (hr : Reach s0 ls s) (w : CWl) (sub : Sub)
    (hw : s.wl = some w) (hph : s.ro.phase = .progressing) (hre : s.ro.reason = .inRolling) (hsub : s.ro.sub = some sub)
    (hfirst : firstStepPins s.ro w.replicas = true) (h1 : sub.curIdx = 1) (hrev : sub.stableRev ≠ "") :
    ((s.br.isSome = true ∨ sub.state ≠ .init) → s.net.stableSel = some sub.stableRev) ∧
    (∀ s', step s .br = some s' → expoOf s < expoOf s' → s.net.stableSel = some sub.stableRev) := by
  have h := loop_tr_inv_partial s0 s ls h0 hr
  obtain ⟨hf, hgone, hg, w', hw', hwok, hm, hbr, hpi, hR, htp⟩ := tr_parts s h
  rw [hw] at hw'; cases hw'
  rw [trPhase_rolling s w sub hph hre hsub] at htp
  simp only [Bool.and_eq_true] at htp
  obtain ⟨⟨⟨_, _⟩, hfp⟩, _⟩ := htp
  have key : (s.br.isSome = true ∨ sub.state ≠ .init) → s.net.stableSel = some sub.stableRev := by
    intro hc
    unfold firstPin at hfp
    rw [hfirst] at hfp
    simp only [Bool.true_and, Bool.or_eq_true, Bool.not_eq_true', Bool.and_eq_false_iff, decide_eq_false_iff_not,
      Bool.or_eq_false_iff, bne_eq_false_iff_eq, beq_iff_eq] at hfp
    rcases hfp with (hne | ⟨hst, hbn⟩) | hpin
    · exact absurd h1 hne
    · rcases hc with hc | hc
      · rw [hbn] at hc; cases hc
      · exact absurd hst hc
    · cases hss : s.net.stableSel with
      | none => rw [hss] at hpin; exact absurd hpin.symm hrev
      | some r => rw [hss] at hpin; simp only [Option.getD_some] at hpin; rw [hpin]
  refine ⟨key, fun s' hs hlt => ?_⟩
  cases hb : s.br with
  | none =>
    have := expoOf_stepBr_none s s' hb hs
    rw [this] at hlt
    exact absurd hlt (Int.lt_irrefl _)
  | some b => exact key (Or.inl (by rw [hb]; rfl))

/-! ### 1. `loop_route_after_ready` (C03): the weight on the gateway follows the pods

The ghost `TGhost` = the gate ghost of `RV.Props.ClosedLoop.loop_gate_partial` (`upgraded`: a Rollout reconcile in `BeforeStepUpgrade` /
`StepUpgrade` of the step the rollout is on found the BatchRelease reporting that step's pods ready) plus `seen`, the step indices
of the current release for which that observation was made.  `tstep` updates it from what a transition *read*; no transition
reads the ghost. -/

/-- histories with the traffic ghost carried along (the history grows at its end) -/
inductive TReach (s0 : CS) : List Label → TGhost → CS → Prop
  | nil : TReach s0 [] TGhost.fresh s0
  | snoc (ls : List Label) (t : TGhost) (s s' : CS) (l : Label) :
      TReach s0 ls t s → legal s l = true → step s l = some s' → TReach s0 (ls ++ [l]) (tstep t s l s') s'

theorem run_snoc (s0 : CS) (ls : List Label) (l : Label) (s s' : CS) (h : run s0 ls = some s) (hs : step s l = some s') :
    run s0 (ls ++ [l]) = some s' := by
  induction ls generalizing s0 with
  | nil => simp only [run, Option.some.injEq] at h; subst h; simp only [List.nil_append, run, hs]
  | cons a as ih =>
    simp only [run] at h
    split at h
    · cases h
    · rename_i t ht
      simp only [List.cons_append, run, ht]
      exact ih t h

theorem TReach.run {s0 s : CS} {ls : List Label} {t : TGhost} (h : TReach s0 ls t s) : run s0 ls = some s := by
  induction h with
  | nil => rfl
  | snoc ls t s s' l _ _ hs ih => exact run_snoc s0 ls l s s' ih hs

/-- **the traffic invariant and the route ghost invariant hold along every history** -/
theorem loop_route_inv_partial (s0 s : CS) (ls : List Label) (t : TGhost) (h0 : InitT s0) (hr : TReach s0 ls t s) :
    trInv s = true ∧ routeInv t s = true := by
  induction hr with
  | nil =>
    refine ⟨initT_inv s0 h0, ?_⟩
    obtain ⟨⟨_, hph, _⟩, hn, _⟩ := h0
    have hrs : rollingSub s0 = none := by
      unfold rollingSub; simp [hph]
    obtain ⟨h1, _, _⟩ := (netClean_iff s0.net).1 hn
    unfold routeInv gateInv seenOK routeOK
    rw [hrs, h1]
    simp
  | snoc ls t s s' l _ hl hs ih =>
    obtain ⟨hinv, hroute⟩ := ih
    obtain ⟨u, hu, hinv'⟩ := tr_step s l hinv hl
    rw [hs] at hu; cases hu
    exact ⟨hinv', route_step t s s' l hinv hroute hl hs⟩

/-- step `j` of the current release was *observed* ready along the history: some Rollout reconcile of the history started
    from a state in which the rollout was on step `j`, in `BeforeStepUpgrade` / `StepUpgrade`, and the BatchRelease reported
    that step's pods ready (`doCanaryUpgrade` on the world that reconcile read returns done) -/
def ObservedReady (s0 : CS) (ls : List Label) (j : Int) : Prop :=
  ∃ pre post si sub, ls = pre ++ Label.ro :: post ∧ run s0 pre = some si ∧ rollingSub si = some sub ∧ sub.curIdx = j ∧
    preUpgrade sub.state = true ∧ obsUpgraded si sub = true

theorem ObservedReady.snoc {s0 : CS} {ls : List Label} {j : Int} (h : ObservedReady s0 ls j) (l : Label) :
    ObservedReady s0 (ls ++ [l]) j := by
  obtain ⟨pre, post, si, sub, e, h1, h2, h3, h4, h5⟩ := h
  exact ⟨pre, post ++ [l], si, sub, by rw [e]; simp, h1, h2, h3, h4, h5⟩

/-- the record of the ghost is sound: every recorded step was observed ready along the history -/
theorem seen_observed_partial (s0 s : CS) (ls : List Label) (t : TGhost) (h0 : InitT s0) (hr : TReach s0 ls t s) (j : Int)
    (hj : j ∈ t.seen) : ObservedReady s0 ls j := by
  induction hr generalizing j with
  | nil => cases hj
  | snoc ls t s s' l hprev hl hs ih =>
    obtain ⟨_, hroute⟩ := loop_route_inv_partial s0 s ls t h0 hprev
    unfold tstep at hj
    dsimp only at hj
    cases hrs' : rollingSub s' with
    | none => rw [hrs'] at hj; exact (ih j hj).snoc l
    | some sub' =>
      rw [hrs'] at hj
      dsimp only at hj
      cases hrs : rollingSub s with
      | none =>
        -- a new rolling phase: the ghost is fresh, nothing is recorded
        rw [hrs] at hj
        have hg : gstep t.g s l s' = Ghost.fresh sub'.curIdx := by
          unfold gstep; rw [hrs', hrs]
        rw [hg] at hj
        simp [Ghost.fresh] at hj
      | some sub =>
        rw [hrs] at hj
        simp only [Option.isNone_some, Bool.false_eq_true, if_false] at hj
        by_cases hold : j ∈ t.seen
        · exact (ih j hold).snoc l
        · -- newly recorded: the observation was made by this very transition
          split at hj
          · rename_i hnew
            simp only [List.mem_cons] at hj
            rcases hj with hj | hj
            · simp only [Bool.and_eq_true, Bool.not_eq_true'] at hnew
              obtain ⟨hup, hnc⟩ := hnew
              -- the gate ghost of the pre-state speaks about `sub.curIdx`, and a set flag is recorded
              unfold routeInv at hroute
              simp only [Bool.and_eq_true] at hroute
              obtain ⟨⟨hgate, hseen⟩, _⟩ := hroute
              have hgi : t.g.idx = sub.curIdx := by
                unfold gateInv at hgate
                rw [hrs] at hgate
                simp only [Bool.and_eq_true, beq_iff_eq] at hgate
                exact hgate.1.1.1.1.1
              unfold seenOK at hseen
              rw [hrs] at hseen
              simp only [Bool.and_eq_true, Bool.or_eq_true, Bool.not_eq_true'] at hseen
              obtain ⟨⟨_, hrec⟩, _⟩ := hseen
              unfold gstep at hup hnc hj
              rw [hrs', hrs] at hup hnc hj
              dsimp only at hup hnc hj
              by_cases hidx : sub'.curIdx = sub.curIdx
              · rw [if_neg (by simpa using hidx)] at hup hnc hj
                have notold : t.g.upgraded = false := by
                  rcases hrec with hrec | hrec
                  · exact hrec
                  · exfalso
                    cases l <;> simp only at hnc <;> rw [hgi] at hnc <;> rw [hrec] at hnc <;> cases hnc
                cases l with
                | ro =>
                  simp only [notold, Bool.false_or] at hup
                  simp only [Bool.and_eq_true] at hup
                  refine ⟨ls, [], s, sub, rfl, hprev.run, hrs, ?_, hup.1, hup.2⟩
                  rw [hj]; exact hgi.symm
                | approve => simp only [notold] at hup; cases hup
                | br => simp only [notold] at hup; cases hup
                | env => simp only [notold] at hup; cases hup
                | release rev => simp only [notold] at hup; cases hup
                | tick => simp only [notold] at hup; cases hup
                | crash => simp only [notold] at hup; cases hup
                | delete => simp only [notold] at hup; cases hup
              · rw [if_pos (by simpa using hidx)] at hup
                simp [Ghost.fresh] at hup
            · exact absurd hj hold
          · exact absurd hj hold

/-- **C03 (closed loop, every history)** — in every reachable state: a canary route that carries weight `wt > 0` carries the
    weight of a step `j` of the current release — at most the step the rollout is on — whose pods had been reported ready by the
    BatchRelease at an earlier point of the history (`ObservedReady`: a Rollout reconcile in `BeforeStepUpgrade` / `StepUpgrade` of
    step `j` read a BatchRelease with the current plan, observed generation, batch state Ready and `currentBatch + 1 ≥ j`).
    The weight of step `k` is never on the gateway before step `k`'s pods were reported ready.  (partial: label set) -/
theorem loop_route_after_ready_partial (s0 s : CS) (ls : List Label) (t : TGhost) (h0 : InitT s0) (hr : TReach s0 ls t s)
    (wt : Nat) (hing : s.net.canaryIng = some wt) (hpos : 0 < wt) :
    ∃ j, weightOf s.ro j = some wt ∧ ObservedReady s0 ls j ∧
      (∀ sub, rollingSub s = some sub → 1 ≤ j ∧ j ≤ sub.curIdx) := by
  obtain ⟨hinv, hroute⟩ := loop_route_inv_partial s0 s ls t h0 hr
  obtain ⟨_, hgone, _⟩ := tr_parts s hinv
  unfold routeInv at hroute
  simp only [Bool.and_eq_true] at hroute
  obtain ⟨⟨_, hseen⟩, hrok⟩ := hroute
  unfold routeOK at hrok
  rw [hgone, hing] at hrok
  simp only [Bool.false_or, Bool.or_eq_true, beq_iff_eq, List.any_eq_true] at hrok
  rcases hrok with h0' | ⟨j, hj, hw⟩
  · omega
  · refine ⟨j, hw, seen_observed_partial s0 s ls t h0 hr j hj, fun sub hsub => ?_⟩
    unfold seenOK at hseen
    rw [hsub] at hseen
    simp only [Bool.and_eq_true, List.all_eq_true, decide_eq_true_eq] at hseen
    exact hseen.1.1 j hj

/-- **C03 (second sentence; closed loop, every history)** — whenever a Rollout reconcile reports a step that configures a
    weight as routed (`StepTrafficRouting` → a later sub-state of the same step), the canary Ingress carries exactly that
    step's weight (no Ingress at all only for weight 0 when there was none), the canary Service selects the released pod-template
    hash and the stable Service is pinned to the stable revision (`routedExact`; `RV.Props.Traffic.done_means_routed` lifted to the
    histories of the closed loop: the `routed` flag of the ghost is only ever set in such a state).  (partial: label set) -/
theorem loop_routed_exact_partial (s0 s s' : CS) (ls : List Label) (h0 : InitT s0) (hr : Reach s0 ls s)
    (hs : step s .ro = some s') : routedExact s s' = true :=
  routed_exact_step s s' (loop_tr_inv_partial s0 s ls h0 hr) hs

/-! ### 4. `loop_rollback_routes_first` (C10): supersession and rollback put traffic back on stable first

**Supersession** is proved over histories: any forward history, then a superseding release (`supersedeOK`: the regions of the
open findings `supersedeBeforeInit` and `releaseWhileFinalising` excluded), then any interleaving of `ro / br / env / approve /
tick / crash` while the Rollout controller resets the superseded release (`resetInv`).  **Rollback** is proved for the reconcile
that notices it, from EVERY joint state (`loop_rollback_noticed_frame`); the order of the cancellation clean-up is the cursor
theorem `RV.Props.Cluster.reach_inv_partial` (reason rollback) and the regenerated task table (`RV.Props.Tables.rollback_routes_first`);
the closed-loop composition for rollback is judged by the oracle `C10.loop_rollback_routes_first` on the walks (user event `rollback`
of the extended loop `RV.ClosedLoop.stepX`). -/

/-- histories of the reset region: a forward history, one superseding release, then reconciles / workload progress / approvals /
    clock / crashes while the reset is running -/
inductive ReachR (s0 : CS) : List Label → CS → Prop
  | start (ls : List Label) (rev : String) (s1 : CS) : Reach s0 ls s1 → supersedeOK s1 rev = true →
      ReachR s0 (ls ++ [.release rev]) { s1 with wl := s1.wl.map (releaseWl rev) }
  | step (ls : List Label) (s s' : CS) (l : Label) : ReachR s0 ls s → resetInv s = true → resetLabel l = true →
      step s l = some s' → ReachR s0 (ls ++ [l]) s'

/-- every state of the reset region satisfies the reset invariants with the network part `resetNet` — or the reset has finished
    and the forward invariant holds again -/
theorem loop_reset_inv_partial (s0 s : CS) (ls : List Label) (h0 : InitT s0) (hr : ReachR s0 ls s) :
    fwdInv s = true ∨ (resetInv s = true ∧ resetCursor s = true ∧ resetNet s = true) := by
  induction hr with
  | start ls rev s1 hreach hsup =>
    exact Or.inr (reset_start s1 rev (loop_tr_inv_partial s0 s1 ls h0 hreach) hsup)
  | step ls s s' l _ hreset hl hs ih =>
    rcases ih with hf | ⟨_, hc, hn⟩
    · -- `fwdInv` and `resetInv` exclude each other only through the sub-status; the step lemma needs the reset facts
      exfalso
      obtain ⟨_, _, w, hw, _, _, _, hpi⟩ := fwd_parts s hf
      obtain ⟨_, w', hw', _, _, _, hph, hre, ⟨sub, hsub, _, hne⟩, _⟩ := (resetro_iff s).1 hreset
      rw [hw] at hw'; cases hw'
      rw [phaseInv_rolling s w sub hph hre hsub] at hpi
      simp only [Bool.and_eq_true] at hpi
      exact hne ((subOK_iff s.ro sub w).1 hpi.1.1).rev
    · exact (reset_step s s' l hreset hc hn hl hs).2

/-- **C10 (supersession; closed loop, every history of the reset region)** — while the Rollout controller resets a superseded
    release: (i) a BatchRelease that is being deleted, and a reset cursor past the gateway stage, imply that the canary route is gone
    — traffic is back on the stable Service before the BatchRelease (and with it the new-revision pods' claim) is removed;
    (ii) no transition hands the workload back — deletes or resumes the BatchRelease, lowers the partition — while the canary route
    carries weight, unless that very reconcile has withdrawn the route (`rollbackRoutesFirst`); (iii) the workload stays held at
    partition 100 % with no pod on the superseding revision (`resetInv`, from `RV.Props.ClosedLoop`).
    (partial: one superseding release per history, legal in the sense of `supersedeOK`; rollback and deletion are not labels here) -/
theorem loop_rollback_routes_first_partial (s0 s : CS) (ls : List Label) (h0 : InitT s0) (hr : ReachR s0 ls s)
    (hreset : resetInv s = true) :
    (∀ b, s.br = some b → b.deleting = true → s.net.canaryIng = none) ∧
    (∀ sub, s.ro.sub = some sub → (sub.finStep = .releaseWorkloadControl ∨ sub.finStep = .removeCanaryService) → s.net.canaryIng = none) ∧
    (∀ l s', resetLabel l = true → step s l = some s' → rollbackRoutesFirst s s' = true) ∧
    (∃ w, s.wl = some w ∧ w.updated = 0 ∧ w.partition = some (.pct 100)) := by
  have hinv := loop_reset_inv_partial s0 s ls h0 hr
  have hrn : resetCursor s = true ∧ resetNet s = true := by
    rcases hinv with hf | ⟨_, hc, hn⟩
    · exfalso
      obtain ⟨_, _, w, hw, _, _, _, hpi⟩ := fwd_parts s hf
      obtain ⟨_, w', hw', _, _, _, hph, hre, ⟨sub, hsub, _, hne⟩, _⟩ := (resetro_iff s).1 hreset
      rw [hw] at hw'; cases hw'
      rw [phaseInv_rolling s w sub hph hre hsub] at hpi
      simp only [Bool.and_eq_true] at hpi
      exact hne ((subOK_iff s.ro sub w).1 hpi.1.1).rev
    · exact ⟨hc, hn⟩
  obtain ⟨r1, r2⟩ := resetNet_route s hrn.2
  obtain ⟨_, w, hw, _, _, _, _, _, _, _, _, hupd, hheld, _⟩ := (resetro_iff s).1 hreset
  exact ⟨r1, r2, fun l s' hl hs => (reset_step s s' l hreset hrn.1 hrn.2 hl hs).1, w, hw, hupd, (held_iff w).1 hheld⟩

/-- **C10 (rollback is dispatched first; joint state, EVERY state)** — the Rollout reconcile that notices a rollback of the
    workload (status readable, `IsInRollback`, another revision than the one being released, not the rollback-in-batches policy)
    writes nothing but its own status — reason Cancelling: the BatchRelease, the network and the workload's partition are exactly
    as before, whatever sub-state, plan change, pause or jump request is pending (`RV.Props.Reconcile.rollback_first` on the joint state) -/
theorem loop_rollback_noticed_frame (s s' : CS) (w : CWl) (sub : Sub) (hgone : s.gone = false) (hw : s.wl = some w)
    (hsub : s.ro.sub = some sub) (hroll : RV.Oracle.RolloutSM.inRollingNow s.ro = true) (hc : (roWl w).consistent = true)
    (hrb : (roWl w).inRollback = true) (hrev : w.updateRevision ≠ sub.canaryRev)
    (hnb : ¬ (s.ro.hasTraffic = false ∧ s.ro.realPartition = true ∧ s.ro.rollbackInBatch = true)) (hs : step s .ro = some s') :
    s'.ro.reason = .cancelling ∧ s'.br = s.br ∧ s'.net = s.net ∧
    s'.wl.map (fun w => (w.partition, w.replicas)) = s.wl.map (fun w => (w.partition, w.replicas)) := by
  have hpart := stepRo_partition s s' hs
  simp only [step, stepRo, hgone, Bool.false_eq_true, if_false] at hs
  split at hs
  · cases hs
  · rename_i r hr
    simp only [Option.some.injEq] at hs
    have hrf := RV.Props.Reconcile.rollback_first (roWorld s) r hr
    unfold RV.Oracle.RolloutSM.rollbackFirst at hrf
    have hwl : (roWorld s).wl = some (roWl w) := by simp only [roWorld, hw, Option.map_some]
    have hro : (roWorld s).ro = s.ro := rfl
    rw [hro, hsub, hwl] at hrf
    dsimp only at hrf
    have hcr : (roWl w).canaryRev = w.updateRevision := rfl
    rw [if_pos ⟨hroll, hc, hrb, by rw [hcr]; exact hrev, by
      intro hh
      apply hnb
      simp only [Bool.not_eq_true] at hh
      exact hh⟩] at hrf
    simp only [Bool.and_eq_true, beq_iff_eq, decide_eq_true_eq] at hrf
    obtain ⟨⟨hreason, hbr⟩, hnet⟩ := hrf
    subst hs
    refine ⟨hreason, ?_, hnet, hpart⟩
    show (landBR s.br r.w.br (annoLand s.wl r.w.wl)).1 = s.br
    have hbr' : r.w.br = s.br.map roBr := hbr
    rw [hbr', landBR_id]

/-- 10 replicas, plan 20 % (traffic 20 %, manual pause) / 50 % (traffic 50 %) -/
def exT0 : CS := { exS0 with ro := { exRo with steps := [⟨.pct 20, some 20, .manual⟩, ⟨.pct 50, some 50, .short⟩] } }

/-! ### 6. progress with traffic routing (C07)

Full statement (NOT proved; kept as the target): *`loop_terminates_traffic` — from a settled idle state with traffic routing
configured (`hasTraffic = true`, any mix of weighted and un-weighted steps) and one release, the fair schedule
`[ro, br, env, approve, tick]` reaches the clean terminal state (`RV.Oracle.ClosedLoop.terminalOK`) within `c·(#steps + 1)` rounds
and stays there.*  `RV.Props.ClosedLoop.loop_terminates_partial` proves it for `hasTraffic = false` with the measure `mu` over 27
round-boundary classes.  What is proved here is the step that is new with traffic routing, from EVERY state of the invariant
(not only round boundaries, any grace memory, any interleaving before): `StepTrafficRouting` — rank 8 of `mu`, above
`StepMetricsAnalysis` — is left within 7 fair rounds, for weighted steps (`doTrafficRouting`: Services, Ingress at 0, weight,
verification) and un-weighted ones (`finalisingTrafficRouting`: un-pin, withdraw, remove) alike.  Missing for the full statement:
the round-boundary classes of `BeforeStepUpgrade` with its Manager calls (`restoreStableService` / `patchStableService` under a
grace period: up to 2 extra rounds), the pre-step clean-up of un-weighted steps in the other sub-states, and the three network
tasks of the final clean-up under a grace period (`finalising_converges`); on the real controllers these are judged by the
oracles `C07.loop_terminates` (≤ 20·(#steps + 4) rounds) and `C07.loop_measure_decreases` (K = 5) on every fair healthy walk,
which now include the traffic scenarios. -/

/-- **C07 (closed loop, every history, then the fair schedule)** — from every reachable state in which the rollout is in
    `StepTrafficRouting` of step `k` (stable revision and update revision known), at most 7 fair rounds
    `[ro, br, env, approve, tick]` later — every round is defined: no reconciler panics — the rollout is still on step `k`, past
    `StepTrafficRouting`, and the traffic invariant holds: traffic routing never stalls and never oscillates inside the loop.
    (partial: this is one of the progress classes; see the section header for what the full termination statement still needs) -/
theorem loop_routing_converges_partial (s0 s : CS) (ls : List Label) (h0 : InitT s0) (hr : Reach s0 ls s) (w : CWl) (sub : Sub)
    (hw : s.wl = some w) (hph : s.ro.phase = .progressing) (hre : s.ro.reason = .inRolling) (hsub : s.ro.sub = some sub)
    (hst : sub.state = .trafficRouting) (hsr : sub.stableRev ≠ "") (hur : w.updateRevision ≠ "") :
    ∃ k s', k ≤ 7 ∧ rounds k s = some s' ∧ trInv s' = true ∧ s'.ro.phase = .progressing ∧ s'.ro.reason = .inRolling ∧
      ∃ sub', s'.ro.sub = some sub' ∧ sub'.curIdx = sub.curIdx ∧ routedState sub'.state = true :=
  routing_converges s w sub (loop_tr_inv_partial s0 s ls h0 hr) hw hph hre hsub hst hsr hur

/-- test: `exT0`, 10 rounds after the release the rollout is in `StepTrafficRouting` of step 1 with no route written yet; 4 fair rounds
    later the step is routed -/
example : (legalRun exT0 (.release "v2" :: (List.replicate 10 exRound).flatten)).map (fun s =>
      (s.ro.sub.map (·.state), s.net.canaryIng, (rounds 4 s).map (fun t => (t.ro.sub.map (·.state), t.net.canaryIng)))) =
    some (some .trafficRouting, none, some (some .metricsAnalysis, some 20)) := by decide +kernel

/-! ### known finding `abandonedCleanup` (C05 / C04 / C10) — why `loop_terminal_clean` is `_partial`

The clean-up cursor `status.canaryStatus.finalisingStep` is shared by four task lists: the reset of a superseded release
(`doProgressingReset`: gateway → BatchRelease → canary Service) and the clean-ups for success / rollback / the other exit reasons
(`doCanaryFinalising`).  When one of these activities is abandoned or overtaken before it finished — the user pushes `v3` during
the release of `v2` and then returns to `v2`, or rolls back — the next activity resumes from the cursor
the previous one left and skips every task before it.  Of the deletion / disabling variants (the reconcile that notices a deletion still
runs the `Progressing` branch once more; the exit clean-up then resumed from the cursor that branch left) the cursor-carrying half is
REPAIRED by the cursor reset in `Reconcile` (fix "cursor reset", `RV.RolloutSM.resetOnExit`; regression example
`loop_overtaken_cleanup_cursor_reset`); that the Progressing branch still runs in that reconcile — a reset may delete the BatchRelease
the exit clean-up would have resumed — is not.
What also stays open is the variant in which the rollout never leaves Progressing (`abandonedHist`); both histories are replayed on the
real controllers on every run (corpus `closedloop/finding-abandonedCleanup.jsonl`, `closedloop/fixed-abandonedCleanup-delete.jsonl`);
candidate repair of the remainder: `fixes/cltraffic-stale-cursor.patch`. -/

/-- `v2` is released up to step 1 (20 % routed); the user pushes `v3`, the Rollout controller starts the reset (route withdrawn,
    BatchRelease deleted, cursor `ReleaseWorkloadControl`); the user returns to `v2`; fair rounds to the end -/
def abandonedHist : List Label :=
  .release "v2" :: (List.replicate 14 exRound).flatten ++ [.release "v3", .env, .ro, .tick, .ro, .release "v2", .env] ++
    (List.replicate 40 exRound).flatten

/-- `v2` is released up to step 1; the user pushes `v3` and deletes the Rollout before the Rollout controller reconciles -/
def overtakenHist : List Label :=
  .release "v2" :: (List.replicate 14 exRound).flatten ++ [.release "v3", .env, .delete] ++ (List.replicate 20 exRound).flatten

/-- **known finding `abandonedCleanup` — witness** (the full-strength statement "every terminal state of every history — a
    release, rollback or deletion at any time — satisfies `terminalClean`" is FALSE):
    after `abandonedHist` the rollout reports Healthy / Completed while the clean-up ran only `ReleaseWorkloadControl`: the
    canary Ingress still routes 50 %, the canary Service exists, the stable Service is pinned to `v1`, and the CloneSet is left at
    partition 50 % with 5 of 10 pods updated.  (This variant — a reset abandoned by going back to the revision being released,
    the rollout never leaves Progressing — is NOT repaired by the cursor reset in `Reconcile`; it stays open.) -/
theorem loop_terminal_clean_full_FALSE :
    (run exT0 abandonedHist).map (fun s =>
        s.ro.phase == .healthy && s.ro.reason == .completed && !terminalCleanOK s &&
        s.net.canaryIng == some 50 && s.net.canarySvc == some "v2" && s.net.stableSel == some "v1" &&
        (match s.wl with | some w => w.partition == some (.pct 50) && w.updated == 5 && !w.inProgressAnno | none => false)) = some true := by
  decide +kernel

/-- **fixed variant of `abandonedCleanup` (deletion / disabling) — regression example**: before the cursor reset in `Reconcile`
    (`RV.RolloutSM.resetOnExit`), after `overtakenHist` — `v3` pushed during the release of `v2`, the Rollout deleted before the
    Rollout controller reconciles — the Rollout was gone with the stable Service still pinned to `v1`: the reconcile that notices the
    deletion still runs the reset of the Progressing branch, and the deletion sequence resumed from the cursor the reset left.  Now
    that reconcile clears the cursor, the deletion sequence runs from its first task, and the Rollout is gone with a clean terminal
    state: nothing pinned, no canary Service / Ingress, no BatchRelease, the CloneSet released. -/
theorem loop_overtaken_cleanup_cursor_reset :
    (run exT0 overtakenHist).map (fun s =>
      s.gone && terminalCleanOK s && s.net.stableSel.isNone && s.net.canaryIng.isNone && s.net.canarySvc.isNone && s.br.isNone &&
      (match s.wl with | some w => w.partition.isNone && !w.paused && !w.inProgressAnno | none => false)) = some true := by
  decide +kernel

/-! ### non-vacuity: concrete initial states and histories (kernel evaluation of the model — tests, not the ∀ claims) -/

/-- the hypotheses are satisfiable: `exS0` (plan 20 % with traffic 20 % / 100 % without weight) and `exT0` (two weighted steps) -/
example : InitT exS0 :=
  ⟨⟨by decide, rfl, rfl, exWl, rfl, by decide, by decide, rfl⟩, by decide, exWl, rfl, by decide, by decide⟩
example : InitT exT0 :=
  ⟨⟨by decide, rfl, rfl, exWl, rfl, by decide, by decide, rfl⟩, by decide, exWl, rfl, by decide, by decide⟩

/-- `disableGenerateCanaryService`, and a first step that replaces every pod -/
def exD0 : CS := { exS0 with ro := { exRo with disableGen := true, steps := [⟨.pct 30, some 30, .short⟩, ⟨.pct 100, some 100, .short⟩] } }
def exF0 : CS := { exS0 with ro := { exRo with steps := [⟨.pct 100, some 10, .manual⟩] } }
example : InitT exD0 :=
  ⟨⟨by decide, rfl, rfl, exWl, rfl, by decide, by decide, rfl⟩, by decide, exWl, rfl, by decide, by decide⟩
example : InitT exF0 :=
  ⟨⟨by decide, rfl, rfl, exWl, rfl, by decide, by decide, rfl⟩, by decide, exWl, rfl, by decide, by decide⟩

/-- test: after the release of `v2` and 14 fair rounds step 1 is routed: 20 % on the canary Ingress, canary Service on `v2`, stable
    Service pinned to `v1`, and the invariant, `noVoid` and the first-step clause hold -/
example : (legalRun exT0 (.release "v2" :: (List.replicate 14 exRound).flatten)).map (fun s =>
      trInv s && noVoidOK s && firstPinOK s && s.net.canaryIng == some 20 && s.net.canarySvc == some "v2" &&
      s.net.stableSel == some "v1") = some true := by decide +kernel

/-- test: the invariant holds after every number of fair rounds of complete releases (with and without canary Service, with a
    full first step, with an un-weighted last step), and each ends clean -/
example : (List.range 40).all (fun k => ((legalRun exT0 (.release "v2" :: (List.replicate k exRound).flatten)).map trInv).getD false) = true := by
  decide +kernel
example : (List.range 40).all (fun k => ((legalRun exS0 (.release "v2" :: (List.replicate k exRound).flatten)).map trInv).getD false) = true := by
  decide +kernel
example : (List.range 40).all (fun k => ((legalRun exD0 (.release "v2" :: (List.replicate k exRound).flatten)).map trInv).getD false) = true := by
  decide +kernel
example : (List.range 30).all (fun k => ((legalRun exF0 (.release "v2" :: (List.replicate k exRound).flatten)).map trInv).getD false) = true := by
  decide +kernel
example : (legalRun exT0 (.release "v2" :: (List.replicate 40 exRound).flatten)).map (fun s => isTerminal s && terminalCleanOK s &&
      s.ro.succeeded == some true) = some true := by decide +kernel

/-- test (C10, supersession): with 20 % routed on step 1 a superseding `v3` is legal (`supersedeOK`); after the workload controller
    and one Rollout reconcile the reset invariants hold, the route is withdrawn and only then is the BatchRelease being deleted -/
example : (legalRun exT0 (.release "v2" :: (List.replicate 14 exRound).flatten)).map (fun s => supersedeOK s "v3" && routeLive s.net) =
    some true := by decide +kernel
example : (run exT0 (.release "v2" :: (List.replicate 14 exRound).flatten ++ [.release "v3", .env, .ro])).map (fun s =>
      resetInv s && resetCursor s && resetNet s && s.net.canaryIng == none &&
      (match s.br with | some b => !b.deleting | none => false)) = some true := by decide +kernel
example : (run exT0 (.release "v2" :: (List.replicate 14 exRound).flatten ++ [.release "v3", .env, .ro, .tick, .ro])).map (fun s =>
      resetInv s && resetCursor s && resetNet s && s.net.canaryIng == none &&
      (match s.br with | some b => b.deleting | none => false)) = some true := by decide +kernel

/-- test (C10, rollback): the user event `rollback` of the extended loop (`RV.ClosedLoop.stepX`) with 20 % routed: the next Rollout
    reconcile sees `IsInRollback` and only sets reason Cancelling (hypotheses of `loop_rollback_noticed_frame`); the following
    reconciles withdraw the route before the BatchRelease is resumed -/
example : ((run exT0 (.release "v2" :: (List.replicate 14 exRound).flatten)).bind (fun s => stepX s .rollback)).map (fun s =>
      (match s.wl with | some w => (roWl w).inRollback && (roWl w).consistent | none => false) && routeLive s.net &&
      ((step s .ro).map (fun t => t.ro.reason == .cancelling && t.net == s.net && t.br == s.br)).getD false) = some true := by
  decide +kernel
def rbState : Option CS := (run exT0 (.release "v2" :: (List.replicate 14 exRound).flatten)).bind (fun s => stepX s .rollback)
example : (rbState.bind (fun s => run s [.ro, .ro, .br, .tick, .ro])).map
      (fun t => (t.ro.reason, t.net.canaryIng, t.br.map (fun b => b.partition.isSome))) =
    some (.cancelling, none, some true) := by decide +kernel

/-- test: the ghost along the release of `exT0`: when 50 % is on the gateway, steps 1 and 2 have been recorded as observed ready -/
def ghostRun (s0 : CS) (ls : List Label) : Option (TGhost × CS) :=
  ls.foldl (fun acc l => match acc with
    | some (t, s) => (match step s l with | some s' => some (tstep t s l s', s') | none => none)
    | none => none) (some (TGhost.fresh, s0))
example : (ghostRun exT0 (.release "v2" :: (List.replicate 26 exRound).flatten)).map (fun (t, s) =>
      (s.net.canaryIng, t.seen, routeInv t s)) = some (some 50, [2, 1], true) := by decide +kernel

end RV.Props.ClosedLoopTraffic
