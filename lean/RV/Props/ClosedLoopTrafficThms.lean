/-
  # Traffic clauses of C03 / C04 / C05 over EVERY history of the closed loop

  `RV.ClosedLoop.step` (RV/Model/ClosedLoop.lean) runs the Rollout reconciler — and with it the traffic Manager model
  (`RV/Model/Traffic.lean`) — the BatchRelease executor, the simulated CloneSet controller, the user and crashes on ONE joint
  state; suite `closedloop` compares it with the real controllers on every transition of every walk.  The theorems below
  quantify over every plan (steps with a weight, steps without, 100 %-replica steps anywhere, any replicas entries the
  validating webhook admits), `disableGenerateCanaryService` both ways, `hasTraffic` both ways, every workload size ≥ 1,
  every grace period, every content of the grace memory, and every history (`List Label`) — by induction over the label list.

  **Label set (`legal`, as in `RV.Props.ClosedLoop`)**: `ro`, `br`, `env`, `approve`, `tick`, `crash` at any time, in any order,
  any number of times; `release rev` whenever the rollout is idle — histories contain any number of successive rollouts.
  Not covered (hence `_partial`): a release / rollback *during* a rollout, deletion, disabling, pausing, step jumps, plan
  edits, scaling, API faults inside a reconcile.  Those histories are compared step by step on the walks and judged by the
  same oracles on the implementation (`C04.loop_no_void`, `C05.loop_terminal_clean`, `C03.loop_first_step_pins`,
  `C03.loop_route_after_ready`, `C10.loop_rollback_routes_first`); for supersession see section 5.
-/
import RV.Props.ClosedLoopThms
import RV.Lemmas.ClosedLoopTrafficLabels
import RV.Lemmas.ClosedLoopTrafficBr
import RV.Lemmas.ClosedLoopTrafficRoll
import RV.Lemmas.ClosedLoopTrafficFin
import RV.Lemmas.ClosedLoopTrafficRoute
namespace RV.Props.ClosedLoopTraffic
open RV.Arith RV.Traffic RV.RolloutSM RV.ClosedLoop RV.Oracle.ClosedLoop RV.Oracle.ClosedLoopTraffic RV.Lemmas.ClosedLoop
  RV.Lemmas.ClosedLoopTraffic RV.Props.ClosedLoop

/-- the initial states: `RV.Props.ClosedLoop.Init` (a Healthy, live canary rollout in partition style, its CloneSet running one
    revision, no BatchRelease), and the cluster as the user configured it: no canary Ingress / canary Service, the stable Service
    not pinned, the CloneSet (at least one replica) without partition, pause or control annotation -/
def InitT (s : CS) : Prop :=
  Init s ∧ netClean s.net = true ∧ ∃ w, s.wl = some w ∧ 0 < w.replicas ∧ released w = true

theorem initT_inv (s : CS) (h : InitT s) : trInv s = true := by
  obtain ⟨hi, hn, w, hw, hR, hrel⟩ := h
  have hf := init_inv s hi
  obtain ⟨_, hph, _, w', hw', _, _, ha⟩ := hi
  rw [hw] at hw'; cases hw'
  refine (trInv_iff s).2 ⟨hf, (trRest_some s w hw).2 ⟨hR, ?_⟩⟩
  rw [trPhase_healthy s w hph, hn, ha]
  simpa using hrel

/-- one Rollout reconcile preserves the traffic part of the invariant -/
theorem stepRo_tr (s s' : CS) (h : trInv s = true) (hs : stepRo s = some s') : trRest s' = true := by
  obtain ⟨_, _, _, w, hw, _, _, _, hpi, _, _⟩ := tr_parts s h
  cases hc : (roWl w).consistent with
  | false => exact ro_easy_tr s s' h (Or.inl ⟨w, hw, hc⟩) hs
  | true =>
    have hpi' := hpi
    unfold phaseInv at hpi'
    split at hpi'
    · rename_i hph
      exact ro_easy_tr s s' h (Or.inr (Or.inl hph)) hs
    · rename_i hph hr
      exact ro_easy_tr s s' h (Or.inr (Or.inr ⟨hph, Or.inl hr⟩)) hs
    · rename_i hph hr
      exact ro_rolling_tr s s' w h hw hc hph hr hs
    · rename_i hph hr
      exact ro_finalising_tr s s' w h hw hc hph hr hs
    · rename_i hph hr
      exact ro_easy_tr s s' h (Or.inr (Or.inr ⟨hph, Or.inr hr⟩)) hs
    · cases hpi'

/-- **the traffic invariant is inductive** — from any state satisfying it, every legal label can be taken (no reconciler
    panics) and leads to a state satisfying it -/
theorem tr_step (s : CS) (l : Label) (h : trInv s = true) (hl : legal s l = true) :
    ∃ s', step s l = some s' ∧ trInv s' = true := by
  obtain ⟨hf, _⟩ := (trInv_iff s).1 h
  obtain ⟨s', hs, hf'⟩ := fwd_step s l hf hl
  refine ⟨s', hs, (trInv_iff s').2 ⟨hf', ?_⟩⟩
  cases l with
  | ro => exact stepRo_tr s s' h hs
  | br => exact stepBr_tr s s' h hs
  | env => cases hs; exact env_tr s h
  | release rev => cases hs; exact release_tr s rev h hl
  | approve => cases hs; exact approve_tr s h
  | tick => cases hs; exact tick_tr s h
  | crash => cases hs; exact crash_tr s h
  | delete => cases hl

/-- **every reachable state satisfies the traffic invariant** (induction over the history) -/
theorem loop_tr_inv_partial (s0 s : CS) (ls : List Label) (h0 : InitT s0) (hr : Reach s0 ls s) : trInv s = true := by
  have h := initT_inv s0 h0
  clear h0
  induction hr with
  | nil => exact h
  | cons s s' s'' l ls hl hs _ ih =>
    obtain ⟨t, ht, hinv⟩ := tr_step s l h hl
    rw [hs] at ht; cases ht
    exact ih hinv

end RV.Props.ClosedLoopTraffic
