import RV.Model.Gateway
import RV.Oracle.C13
import RV.Lemmas.Gateway
/-!
# C13 — Gateway API routes: exact split, narrow matches, clean restore

Model: `RV/Model/Gateway.lean` (literal transcription of
`pkg/trafficrouting/network/gateway/gateway.go` *with the four fixes of `fixes/C13-*.patch`*).
Oracles: `RV/Oracle/C13.lean`.  All quantifiers are unbounded: every route (any number
of rules, matches, filters, backend-less rules, foreign backends, any weights), every
weight in `Int`, every list of user matches, every list of steps.

Hypotheses used, all decidable and evaluated by the driver on every run-time case:
* `confOk c`       — the stable and the canary Service have different names;
* `canaryFree c o` — the route the user wrote does not reference the canary Service;
* `inv c r`        — shape of every route reachable from a canary-free one (theorem
                     `reachable`), needed where a clause talks about mid-sequence states.
-/
namespace RV.Props.C13
open RV.Gateway RV.Oracle.C13

theorem ne_of_confOk {c : Conf} (h : confOk c = true) : c.stable ≠ c.canary := by
  simpa [confOk] using h

/-! ## (i) weight step: exact split and frame -/

/-- **C13.i** A weight step of `w` never panics and its output satisfies `weightOk`:
    same number of rules; a rule without stable ref is returned unchanged; in a rule with
    a stable ref the matches and filters are unchanged, the stable ref differs only by its
    weight `100 - w`, the canary ref is the previous canary ref (or a copy of the stable
    ref under the canary name) with weight `w`, and every other ref is untouched. -/
theorem weight_step (c : Conf) (hc : confOk c = true) (rules : List Rule) (w : Int)
    (hw : w ≠ -1) :
    ∃ out, buildDesired c rules (some w) [] = .ok out ∧ weightOk c w rules out = true := by
  refine ⟨rules.map (weightRule c w), ?_, ?_⟩
  · have : (some w == some (-1 : Int)) = false := by simpa using hw
    simp [buildDesired, this, buildWeight]
  · exact all2_map _ _ _ (fun r _ => ruleWeightOk_weightRule (ne_of_confOk hc) w r)

/-- **C13.i, frame, spelled out**: position by position, a rule that does not reference
    the stable Service is not altered (whatever else it contains). -/
theorem weight_step_frame (c : Conf) (rules out : List Rule) (w : Int)
    (h : buildDesired c rules (some w) [] = .ok out) (hw : w ≠ -1) :
    out.length = rules.length ∧
    ∀ (i : Nat) (r : Rule), rules[i]? = some r → hasSvc r.refs c.stable = false →
      out[i]? = some r := by
  have hw' : (some w == some (-1 : Int)) = false := by simpa using hw
  simp only [buildDesired, hw', Bool.false_eq_true, if_false, List.isEmpty_nil, Bool.not_true,
    buildWeight, Out.ok.injEq] at h
  subst h
  refine ⟨List.length_map _, ?_⟩
  intro i r hr hs
  rw [List.getElem?_map, hr]
  simp [weightRule_noStable (findSvc_eq_none.2 hs)]

/-- **C13.i, split, spelled out**: in every rule that targets the stable Service the
    stable ref ends up with weight `100 - w` and the canary ref with weight `w`. -/
theorem weight_step_split (c : Conf) (hc : confOk c = true) (rules out : List Rule) (w : Int)
    (h : buildDesired c rules (some w) [] = .ok out) (hw : w ≠ -1) :
    ∀ (i : Nat) (r : Rule), rules[i]? = some r → hasSvc r.refs c.stable = true →
      ∃ r' : Rule, out[i]? = some r' ∧
        (findSvc r'.refs c.stable).map (·.weight) = some (some (100 - w)) ∧
        (findSvc r'.refs c.canary).map (·.weight) = some (some w) := by
  have hw' : (some w == some (-1 : Int)) = false := by simpa using hw
  simp only [buildDesired, hw', Bool.false_eq_true, if_false, List.isEmpty_nil, Bool.not_true,
    buildWeight, Out.ok.injEq] at h
  subst h
  intro i r hr hs
  refine ⟨weightRule c w r, by rw [List.getElem?_map, hr]; rfl, ?_⟩
  have hok := ruleWeightOk_weightRule (ne_of_confOk hc) w r
  unfold ruleWeightOk at hok
  cases hf : findSvc r.refs c.stable with
  | none => rw [findSvc_eq_none.1 hf] at hs; cases hs
  | some s =>
    simp only [hf, Bool.and_eq_true, beq_iff_eq] at hok
    obtain ⟨⟨⟨_, hst⟩, hca⟩, _⟩ := hok
    rw [hst, hca]; exact ⟨rfl, rfl⟩

/-! ## (ii) match step: originals kept, generated rules narrow -/

/-- **C13.ii** A match step never panics and its output satisfies `matchOk`: it starts
    with the user's rules (generated rules of an earlier match step dropped, rules still
    carrying the canary ref of a weight step restored), in order, and everything after
    them is a generated rule that (a) has at least one match, (b) copies the filters of
    one user rule targeting the stable Service and has that rule's stable ref, renamed to
    the canary Service, as its only backend, (c) has only narrow matches. -/
theorem match_step (c : Conf) (hc : confOk c = true) (rules : List Rule) (w : Option Int)
    (hw : w ≠ some (-1)) (ms : List UMatch) (hms : ms ≠ []) :
    ∃ out, buildDesired c rules w ms = .ok out ∧ matchOk c ms rules out = true := by
  have hc' := ne_of_confOk hc
  refine ⟨buildHeader c rules ms, ?_, ?_⟩
  · have h1 : (w == some (-1 : Int)) = false := by simpa using hw
    have h2 : ms.isEmpty = false := by simpa using hms
    simp [buildDesired, h1, h2]
  · rw [buildHeader_eq hc']
    unfold matchOk
    simp only [List.take_left', List.drop_left', beq_self_eq_true, Bool.true_and,
      List.all_eq_true]
    intro k hk
    obtain ⟨orig, ho, hg⟩ := genRules_spec hc' rules ms k hk
    exact canaryRuleOk_of_genFrom ho hg

/-- **C13.ii, originals kept, spelled out**: on a route the user wrote (no canary ref)
    the output is exactly the user's rules followed by generated rules. -/
theorem match_step_keeps_originals (c : Conf) (hc : confOk c = true) (rules out : List Rule)
    (hfree : canaryFree c rules = true) (w : Option Int) (hw : w ≠ some (-1))
    (ms : List UMatch) (hms : ms ≠ []) (h : buildDesired c rules w ms = .ok out) :
    ∃ gen, out = rules ++ gen ∧ gen.all (canaryRuleOk c ms rules) = true := by
  obtain ⟨out', h', hok⟩ := match_step c hc rules w hw ms hms
  rw [h] at h'; cases h'
  unfold matchOk at hok
  rw [userRules_of_canaryFree hfree] at hok
  simp only [Bool.and_eq_true, beq_iff_eq] at hok
  refine ⟨out.drop rules.length, ?_, hok.2⟩
  conv => lhs; rw [← List.take_append_drop rules.length out, hok.1]

section semantics
variable {Req : Type} (sem : Sem Req)

theorem all_of_subAtoms {f : Atom → Bool} {a b : List Atom} (h : subAtoms a b = true)
    (hb : b.all f = true) : a.all f = true := by
  simp only [subAtoms, List.all_eq_true, List.contains_iff_mem] at *
  exact fun x hx => hb x (h x hx)

theorem acceptsU_of_refinesU {m' : Match} {u : UMatch} {q : Req}
    (h : refinesU m' u = true) (ha : sem.acceptsM m' q = true) : sem.acceptsU u q = true := by
  simp only [refinesU, Bool.and_eq_true, Bool.or_eq_true, beq_iff_eq] at h
  simp only [Sem.acceptsM, Bool.and_eq_true] at ha
  obtain ⟨⟨hp, hh⟩, hq⟩ := h
  obtain ⟨⟨⟨ap, ah⟩, aq⟩, _⟩ := ha
  simp only [Sem.acceptsU, Bool.and_eq_true]
  refine ⟨⟨?_, all_of_subAtoms hh ah⟩, all_of_subAtoms hq aq⟩
  rcases hp with hp | hp
  · rw [Option.isNone_iff_eq_none.1 hp]
  · rw [← hp]; exact ap

theorem acceptsM_of_refinesM {m' m0 : Match} {q : Req}
    (h : refinesM m' m0 = true) (ha : sem.acceptsM m' q = true) : sem.acceptsM m0 q = true := by
  simp only [refinesM, Bool.and_eq_true, Bool.or_eq_true, beq_iff_eq] at h
  simp only [Sem.acceptsM, Bool.and_eq_true] at ha ⊢
  obtain ⟨⟨⟨hp, hh⟩, hq⟩, hm⟩ := h
  obtain ⟨⟨⟨ap, ah⟩, aq⟩, am⟩ := ha
  refine ⟨⟨⟨?_, all_of_subAtoms hh ah⟩, all_of_subAtoms hq aq⟩, ?_⟩
  · rcases hp with hp | hp
    · rw [Option.isNone_iff_eq_none.1 hp]
    · rw [← hp]; exact ap
  · rcases hm with hm | hm
    · rw [Option.isNone_iff_eq_none.1 hm]
    · rw [← hm]; exact am

theorem acceptsM_ofU (u : UMatch) (q : Req) : sem.acceptsM (ofU u) q = sem.acceptsU u q := by
  simp [Sem.acceptsM, Sem.acceptsU, ofU]

/-- **C13.ii, meaning of "narrow"**: under *every* interpretation of the individual
    path / header / query / method conditions, a request accepted by a generated rule
    satisfies one of the user's matches; if that match has no path (header / query match)
    the request also satisfies the conditions of the user rule the generated rule was
    derived from (same filters, targets the stable Service). -/
theorem generated_rule_narrow (c : Conf) (ms : List UMatch) (users : List Rule) (k : Rule)
    (hk : canaryRuleOk c ms users k = true) (q : Req) (hq : sem.acceptsRule k q = true) :
    ∃ u ∈ ms, sem.acceptsU u q = true ∧
      (u.path = none → ∃ orig ∈ users, hasSvc orig.refs c.stable = true ∧
        k.filters = orig.filters ∧ sem.acceptsRule orig q = true) := by
  unfold canaryRuleOk at hk
  simp only [Bool.and_eq_true, Bool.not_eq_eq_eq_not, Bool.not_true, List.any_eq_true] at hk
  obtain ⟨hne, orig, ho, hk⟩ := hk
  cases hs : findSvc orig.refs c.stable with
  | none => simp [hs] at hk
  | some s =>
    simp only [hs, Bool.and_eq_true, beq_iff_eq, List.all_eq_true] at hk
    obtain ⟨⟨hf, _⟩, hn⟩ := hk
    -- the accepting match
    simp only [Sem.acceptsRule, hne, Bool.false_or, List.any_eq_true] at hq
    obtain ⟨m', hm', hacc⟩ := hq
    have hnm := hn m' hm'
    simp only [narrowMatch, Bool.or_eq_true, List.any_eq_true, Bool.and_eq_true, beq_iff_eq] at hnm
    rcases hnm with ⟨u, hu, hp, rfl⟩ | ⟨u, hu, ⟨_, hr⟩, horig⟩
    · refine ⟨u, hu, by rw [← acceptsM_ofU]; exact hacc, ?_⟩
      intro hnone; rw [hnone] at hp; cases hp
    · refine ⟨u, hu, acceptsU_of_refinesU sem hr hacc, fun _ =>
        ⟨orig, ho, hasSvc_of_findSvc hs, hf, ?_⟩⟩
      simp only [Sem.acceptsRule, Bool.or_eq_true, List.any_eq_true]
      rcases horig with he | ⟨m0, hm0, hr0⟩
      · exact Or.inl he
      · exact Or.inr ⟨m0, hm0, acceptsM_of_refinesM sem hr0 hacc⟩

end semantics

/-! ## (iii) finalise -/

/-- **C13.iii** Finalise (weight −1) on any route of reachable shape: no canary ref is
    left, every generated rule is gone, every other rule is kept, in order, unchanged
    except that its canary ref is removed and its stable weight is normalised to 1. -/
theorem finalise_step (c : Conf) (hc : confOk c = true) (rules : List Rule)
    (hi : inv c rules = true) (ms : List UMatch) :
    ∃ out, buildDesired c rules (some (-1)) ms = .ok out ∧ finaliseOk c rules out = true := by
  have hc' := ne_of_confOk hc
  refine ⟨finaliseRules c rules, by simp [buildDesired], ?_⟩
  unfold finaliseOk
  rw [canaryFree_finaliseRules hc' hi, finaliseRules_eq hc' hi]
  simp

/-- **C13.iii, kept rules, spelled out**: a rule without canary ref (in particular a
    backend-less rule such as a redirect) is never dropped by Finalise — no hypothesis. -/
theorem finalise_keeps_user_rule (c : Conf) (r : Rule) (h : hasSvc r.refs c.canary = false) :
    finaliseRule c r = some (normaliseRule c r) := by
  rw [finaliseRule_eq, h, dropCanary_of_canaryFree h]; rfl

/-! ## (iv) every sequence of steps, then finalise -/

/-- Invariant of the provider: after any list of `EnsureRoutes` calls on a route the user
    wrote, the stored route has reachable shape and Finalise would restore the original. -/
theorem reachable (c : Conf) (hc : confOk c = true) (o : List Rule)
    (hfree : canaryFree c o = true) (steps : List Step) :
    ∃ r, runSteps c (some o) steps = some r ∧ inv c r = true ∧
      finaliseRules c r = o.map (normaliseRule c) := by
  have hc' := ne_of_confOk hc
  suffices H : ∀ (steps : List Step) (r : List Rule), inv c r = true →
      ∃ r', runSteps c (some r) steps = some r' ∧ inv c r' = true ∧
        finaliseRules c r' = finaliseRules c r by
    obtain ⟨r', h1, h2, h3⟩ := H steps o (inv_of_canaryFree hfree)
    exact ⟨r', h1, h2, by rw [h3, finaliseRules_of_canaryFree hc' hfree]⟩
  intro steps
  induction steps with
  | nil => intro r hi; exact ⟨r, rfl, hi, rfl⟩
  | cons s ss ih =>
    intro r hi
    -- one EnsureRoutes call stores either the same rules or the builder's output
    have hstep : ∃ r1, (ensureRoutes c (some r) s).store = some r1 ∧ inv c r1 = true ∧
        finaliseRules c r1 = finaliseRules c r := by
      cases hb : buildDesired c r s.weight s.ms with
      | panic => exact ⟨r, by rw [ensureRoutes_panic hb], hi, rfl⟩
      | ok d =>
        have hp := step_preserves hc' hi hb
        exact ⟨d, ensureRoutes_store hb, hp.1, hp.2⟩
    obtain ⟨r1, h1, h2, h3⟩ := hstep
    obtain ⟨r', h4, h5, h6⟩ := ih r1 h2
    refine ⟨r', ?_, h5, by rw [h6, h3]⟩
    simp only [runSteps, List.foldl_cons] at h4 ⊢
    rw [h1]; exact h4

/-- **C13.iv** For every route the user wrote and **every list of steps** (weight steps,
    match steps, steps with both, malformed traffic strings, even steps whose call panics),
    `Finalise` after the steps stores the original route up to the stated normalisation
    (stable weight 1): every user rule is back, in order, nothing else is left. -/
theorem sequence_restores (c : Conf) (hc : confOk c = true) (o : List Rule)
    (hfree : canaryFree c o = true) (steps : List Step) :
    ∃ final, (finalise c (runSteps c (some o) steps)).store = some final ∧
      restoredOk c o final = true := by
  obtain ⟨r, hr, _, hfin⟩ := reachable c hc o hfree steps
  refine ⟨o.map (normaliseRule c), ?_, by simp [restoredOk]⟩
  rw [hr, finalise_store, hfin]

/-! ## (v) idempotence -/

/-- **C13.v** Applying the same step to its own output changes nothing (weight step,
    match step, finalise, nil weight), on every route of reachable shape. -/
theorem step_idempotent (c : Conf) (hc : confOk c = true) (r r' : List Rule)
    (hi : inv c r = true) (w : Option Int) (ms : List UMatch)
    (h : buildDesired c r w ms = .ok r') : buildDesired c r' w ms = .ok r' :=
  step_idem (ne_of_confOk hc) hi h

/-- **C13.v at the provider**: the second `EnsureRoutes` call for the same step reports
    *verified* and leaves the stored route alone. -/
theorem ensureRoutes_second_call (c : Conf) (hc : confOk c = true) (r : List Rule)
    (hi : inv c r = true) (s : Step) (hok : (ensureRoutes c (some r) s).err = "ok") :
    ensureRoutes c (ensureRoutes c (some r) s).store s =
      { ret := true, err := "ok", store := (ensureRoutes c (some r) s).store } := by
  cases hb : buildDesired c r s.weight s.ms with
  | panic => rw [ensureRoutes_panic hb] at hok; exact absurd (show ("panic" : String) = "ok" from hok) (by decide)
  | ok d =>
    have hid := step_idem (ne_of_confOk hc) hi hb
    rw [ensureRoutes_store hb, ensureRoutes_ok hid]
    simp

/-- the second `Finalise` call reports "nothing to do" and leaves the route alone. -/
theorem finalise_second_call (c : Conf) (hc : confOk c = true) (r : List Rule)
    (hi : inv c r = true) :
    finalise c (finalise c (some r)).store =
      { ret := false, err := "ok", store := (finalise c (some r)).store } := by
  have hid := step_idem (ne_of_confOk hc) hi (buildDesired_finalise c r [])
  rw [buildDesired_finalise, Out.ok.injEq] at hid
  rw [finalise_store, finalise_some, hid]
  simp


/-! ## C03 — "reported as routed" means the exact share is on the route -/

/-- **C03 (Gateway provider)** `EnsureRoutes` reports *verified* for a weight step only when the
    stored HTTPRoute already carries exactly that step's split: in every rule that targets the stable
    Service the stable ref has weight `100 - w` and the canary ref weight `w`.  Every route, every
    weight. -/
theorem verified_means_share_exact (c : Conf) (hc : confOk c = true) (rules : List Rule) (s : Step)
    (w : Int) (hw : s.weight = some w) (hms : s.ms = []) (hw1 : w ≠ -1)
    (h : (ensureRoutes c (some rules) s).ret = true) :
    (ensureRoutes c (some rules) s).store = some rules ∧ shareExact c w rules = true := by
  obtain ⟨out, hb, _⟩ := weight_step c hc rules w hw1
  have hcall : ensureRoutes c (some rules) s =
      if rules == out then { ret := true, err := "ok", store := some rules }
      else { ret := false, err := "ok", store := some out } := by
    simp only [ensureRoutes, hw, hms, hb]
  rw [hcall] at h ⊢
  by_cases he : (rules == out) = true
  · have heq : rules = out := by simpa using he
    simp only [he, if_true, true_and]
    subst heq
    unfold shareExact
    rw [List.all_eq_true]
    intro r hr
    cases hs : hasSvc r.refs c.stable with
    | false => simp
    | true =>
      obtain ⟨i, hi⟩ := List.getElem?_of_mem hr
      obtain ⟨r', hr', h1, h2⟩ := weight_step_split c hc rules rules w hb hw1 i r hi hs
      rw [hi] at hr'
      cases hr'
      simp [h1, h2]
  · simp [he] at h

/-- the oracle evaluated by the driver holds of the model's own `EnsureRoutes` -/
theorem model_verifiedMeansExact (c : Conf) (hc : confOk c = true) (rules : List Rule) (s : Step) :
    verifiedMeansExact c s.weight s.ms (ensureRoutes c (some rules) s).ret (ensureRoutes c (some rules) s).err
      (((ensureRoutes c (some rules) s).store).getD []) = true := by
  unfold verifiedMeansExact
  cases hw : s.weight with
  | none => rfl
  | some w =>
    simp only
    cases hr : (ensureRoutes c (some rules) s).ret with
    | false => simp
    | true =>
      by_cases hms : s.ms = []
      · by_cases hw1 : w = -1
        · simp [hw1]
        · obtain ⟨hst, hex⟩ := verified_means_share_exact c hc rules s w hw hms hw1 hr
          simp [hst, hex]
      · have : s.ms.isEmpty = false := by
          cases hm : s.ms with
          | nil => exact absurd hm hms
          | cons _ _ => rfl
        simp [this]

example : shareExact ⟨"web", "web-canary"⟩ 20
    [{ mts := [], filters := "", refs := [⟨some "Service", "web", some 80, ""⟩, ⟨some "Service", "web-canary", some 20, ""⟩] }] = true := by decide

/-! ## no panic -/

/-- the builder panics only for a step that has neither a weight nor matches
    (`*weight` on a nil pointer) -/
theorem build_no_panic (c : Conf) (rules : List Rule) (w : Option Int) (ms : List UMatch)
    (h : w ≠ none ∨ ms ≠ []) : buildDesired c rules w ms ≠ .panic := by
  unfold buildDesired
  split
  · simp
  · split
    · simp
    · rename_i hm
      have hms : ms = [] := by simpa using hm
      cases w with
      | none => rcases h with h | h <;> contradiction
      | some v => simp [buildWeight]

/-! ## non-vacuity and tests (concrete inputs; `decide` here is a *test*, not the ∀ claim) -/

section examples

def c0 : Conf := { stable := "web", canary := "web-canary" }

def svc (n : String) (w : Option Int := none) : Ref :=
  { kind := some "Service", name := n, weight := w, rest := "{\"port\":8080}" }

def pm (p : String) (hs : List Atom := []) : Match :=
  { path := some ⟨some "PathPrefix", some p⟩, headers := hs, queryParams := [], method := none }

def hdr (n v : String) : Atom := { ty := none, name := n, value := v }

/-- a user route: a redirect rule without backends, a rule to a foreign Service, two rules
    to the stable Service (one with a foreign second backend, one without matches) -/
def o0 : List Rule :=
  [ { mts := [pm "/old"], filters := "redirect", refs := [] },
    { mts := [pm "/api"], filters := "", refs := [svc "api" (some 3)] },
    { mts := [pm "/web" [hdr "x-env" "prod"], pm "/v2"], filters := "f",
      refs := [svc "web" (some 7), { svc "mirror" with kind := some "ServiceImport" }] },
    { mts := [], filters := "", refs := [svc "web"] } ]

def ms0 : List UMatch :=
  [ { path := some ⟨none, some "/beta"⟩, headers := [], queryParams := [] },
    { path := none, headers := [hdr "user" "tester"], queryParams := [hdr "v" "2"] } ]

/-- the hypotheses of the theorems are satisfiable by a non-trivial route -/
example : confOk c0 = true ∧ canaryFree c0 o0 = true ∧ inv c0 o0 = true := by decide

/-- test of (i): the split on `o0`; the foreign backend and the other rules untouched -/
example : buildDesired c0 o0 (some 30) [] = .ok
  [ { mts := [pm "/old"], filters := "redirect", refs := [] },
    { mts := [pm "/api"], filters := "", refs := [svc "api" (some 3)] },
    { mts := [pm "/web" [hdr "x-env" "prod"], pm "/v2"], filters := "f",
      refs := [svc "web" (some 70), { svc "mirror" with kind := some "ServiceImport" },
               svc "web-canary" (some 30)] },
    { mts := [], filters := "", refs := [svc "web" (some 70), svc "web-canary" (some 30)] } ] := by
  decide

/-- test of (ii) with mixed path / non-path matches (defect #4 input), a match-less stable
    rule (defect #16 input): originals kept, two generated rules with narrow matches -/
example : buildDesired c0 o0 none ms0 = .ok (o0 ++
  [ { mts := [ { path := some ⟨none, some "/beta"⟩, headers := [], queryParams := [], method := none },
               { (pm "/web" [hdr "x-env" "prod", hdr "user" "tester"]) with queryParams := [hdr "v" "2"] },
               { (pm "/v2" [hdr "user" "tester"]) with queryParams := [hdr "v" "2"] } ],
      filters := "f", refs := [svc "web-canary" (some 7)] },
    { mts := [ { path := none, headers := [hdr "user" "tester"], queryParams := [hdr "v" "2"],
                 method := none } ],
      filters := "", refs := [svc "web-canary"] } ]) := by
  decide

/-- test of (iv)/(iii) on the inputs of defects #5 and #6: weight step, then match step,
    then weight step, then Finalise — the redirect rule and both stable rules are back -/
example :
    (finalise c0 (runSteps c0 (some o0)
      [ { traffic := some (.pct 20), ms := [] }, { traffic := none, ms := ms0 },
        { traffic := some (.pct 60), ms := [] } ])).store
      = some (o0.map (normaliseRule c0)) := by
  decide

/-- the intermediate state after weight → match is not the original (the steps do something) -/
example : runSteps c0 (some o0) [ { traffic := some (.pct 20), ms := [] }, { traffic := none, ms := ms0 } ]
    ≠ some o0 := by decide

/-- `generated_rule_narrow` is not vacuous: with exact-match semantics on a toy request type
    the first generated rule above accepts a request, and rejects one without the header -/
def exactSem : Sem (String × List (String × String) × List (String × String)) :=
  { path := fun p q => p.value == some q.1,
    header := fun a q => q.2.1.contains (a.name, a.value),
    query := fun a q => q.2.2.contains (a.name, a.value),
    method := fun _ _ => true }

example :
    let k : Rule := { mts := [ { (pm "/v2" [hdr "user" "tester"]) with queryParams := [hdr "v" "2"] } ],
                      filters := "f", refs := [svc "web-canary" (some 7)] }
    canaryRuleOk c0 ms0 o0 k = true ∧
    exactSem.acceptsRule k ("/v2", [("user", "tester")], [("v", "2")]) = true ∧
    exactSem.acceptsRule k ("/v2", [], [("v", "2")]) = false := by decide

end examples

end RV.Props.C13
