import RV.Model.Gateway
import RV.Oracle.C13
namespace RV.Props.C13
end RV.Props.C13
