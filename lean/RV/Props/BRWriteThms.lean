import RV.Props.RolloutThms
import RV.Oracle.RolloutSM
/-!
# A write to the BatchRelease changes it (C07 "nothing oscillates" / C02)

`runBatchRelease` waits for the fixed point "the stored spec equals the desired one"; a controller that rewrites an identical
BatchRelease never reaches it (and on a real API server the no-op update produces no event: the Rollout waits for a wake-up
that will not come).  Component-level theorems, for every rollout, BatchRelease and cursor: each of the four places that write
the BatchRelease (`runBatchRelease`: create / update; `removeBatchRelease`; `finalizingBatchRelease`; `syncStep`: rollout-id
patch) writes only when what it writes differs from what is stored.  The whole-reconcile form is the clause
`C07.br_write_changes_it` (`RV/Drv/RolloutSM.lean`), evaluated on every real reconcile of suite `rolloutsm`.
-/
namespace RV.Props.BRWrite
open RV.Arith RV.Traffic RV.RolloutSM RV.Props.Rollout

theorem brSpecEq_refl (b : BR) : brSpecEq b b = true := by simp [brSpecEq]

/-- `runBatchRelease`: a write (create / update) leaves a BatchRelease different from the stored one; no write ⇒ `done`. -/
theorem runBatchRelease_write_changes (ro : Rollout) (br : Option BR) (id : String) (idx : Int) (rb : Bool) :
    ((runBatchRelease ro br id idx rb).2.2 ≠ [] → (runBatchRelease ro br id idx rb).2.1 ≠ br) ∧
    ((runBatchRelease ro br id idx rb).2.2 = [] → (runBatchRelease ro br id idx rb).1 = true ∧ (runBatchRelease ro br id idx rb).2.1 = br) := by
  unfold runBatchRelease
  cases br with
  | none => simp
  | some b =>
    dsimp only
    by_cases h : brSpecEq b (desiredBR ro id (idx - 1) rb) = true
    · simp [h]
    · simp only [h, Bool.false_eq_true, if_false]
      refine ⟨fun _ hEq => ?_, fun hw => by simp at hw⟩
      apply h
      have hb := Option.some.inj hEq
      -- the updated object carries the desired spec; if it equals `b`, `b` already had it
      have : brSpecEq b (desiredBR ro id (idx - 1) rb) = true := by
        rw [← hb]
        simp [brSpecEq, desiredBR]
      exact this

/-- `removeBatchRelease`: the Delete is issued only for a BatchRelease that is not in deletion yet. -/
theorem removeBatchRelease_write_changes (br : Option BR) :
    (removeBatchRelease br).2.2 ≠ [] → (removeBatchRelease br).2.1 ≠ br := by
  unfold removeBatchRelease
  cases br with
  | none => simp
  | some b =>
    dsimp only
    by_cases h : b.deleting = true
    · simp [h]
    · simp only [h, Bool.false_eq_true, if_false]
      intro _ hEq
      have := congrArg BR.deleting (Option.some.inj hEq)
      simp at this
      exact h this

/-- `finalizingBatchRelease`: the patch (partition removed, finalizing policy set) is issued only when it changes the spec. -/
theorem finalizingBatchRelease_write_changes (br : Option BR) (waitReady : Bool) :
    (finalizingBatchRelease br waitReady).2.2 ≠ [] → (finalizingBatchRelease br waitReady).2.1 ≠ br := by
  unfold finalizingBatchRelease
  cases br with
  | none => simp
  | some b =>
    dsimp only
    by_cases h1 : b.partition.isNone = true ∧ b.phaseCompleted = true
    · simp [h1]
    · by_cases h2 : b.partition.isNone = true ∧ ((b.policy == "WaitResume") == waitReady) = true
      · simp only [h2, and_self, if_true]
        split <;> simp
      · simp only [h1, h2, if_false]
        intro _ hEq
        have hb := Option.some.inj hEq
        have hp := congrArg BR.partition hb
        have hq := congrArg BR.policy hb
        simp at hp hq
        apply h2
        refine ⟨by simp [← hp], ?_⟩
        cases waitReady <;> simp_all

/-- `syncStep`: the rollout-id patch is issued only when the id differs. -/
theorem syncStep_write_changes (c : Ctx) : (syncStep c).writes ≠ c.writes → (syncStep c).br ≠ c.br := by
  unfold syncStep
  cases hbr : c.br with
  | none => simp
  | some b =>
    dsimp only
    by_cases h : c.sub.observedRolloutID = b.rolloutID
    · simp [h]
    · simp only [ne_eq, h, not_false_eq_true, if_true]
      intro _ hEq
      have := congrArg BR.rolloutID (Option.some.inj hEq)
      simp at this
      exact h this

/-! non-vacuity: each write really occurs -/
example : (runBatchRelease { (default : Rollout) with steps := [{ replicas := .pct 20, weight := none, pause := .manual }] } none "v2" 1 false).2.2 = ["createBR"] := by decide
example : (removeBatchRelease (some { (default : BR) with deleting := false })).2.2 = ["deleteBR"] := by decide
example : (finalizingBatchRelease (some { (default : BR) with partition := some 0 }) true).2.2 = ["patchBR"] := by decide

end RV.Props.BRWrite
