import RV.Props.RolloutThms
import RV.Oracle.RolloutSM
import RV.Lemmas.ResetOnExit
/-!
# "Release the workload" is done only when the BatchRelease is gone (C03 / C05 / C10)

Component-level theorems (every context): the clean-up task `ReleaseWorkloadControl` of `doFinalising` and stage 2 of
`doProgressingReset` leave their cursor position only in a state without BatchRelease.  The whole-reconcile form is the
oracle `releaseWaitsGone`, evaluated on every real reconcile.  Since the fix "cursor reset" a whole reconcile can also leave the
position *backwards*: a Progressing rollout that is deleted / disabled restarts its clean-up from an empty cursor
(`release_waits_gone_restart`); the sequence that follows releases the workload again, as its last task
(`restart_releases_again`).
-/
namespace RV.Props.Release
open RV.Arith RV.Traffic RV.RolloutSM RV.Oracle.RolloutSM RV.Props.Rollout

theorem removeBatchRelease_done_gone (br : Option BR) (h : (removeBatchRelease br).1 = false) :
    (removeBatchRelease br).2.1 = none := by
  unfold removeBatchRelease at h ⊢
  cases br with
  | none => rfl
  | some b => dsimp only at h; split at h <;> cases h

theorem stripAnno_fin (c : Ctx) : (stripAnno c).sub = c.sub ∧ (stripAnno c).br = c.br ∧ (stripAnno c).ro = c.ro := by
  unfold stripAnno; split <;> exact ⟨rfl, rfl, rfl⟩

/-- **`doFinalising`**: from the cursor `ReleaseWorkloadControl`, any round that ends with another cursor ends without
    BatchRelease — for every exit reason, both styles, every context. -/
theorem doFinalising_release_gone (c c' : Ctx) (reason : Reason) (wr d e : Bool)
    (h : doFinalising c reason wr = some (c', d, e)) (hcur : c.sub.finStep = .releaseWorkloadControl)
    (hne : c'.sub.finStep ≠ .releaseWorkloadControl) : c'.br = none := by
  obtain ⟨hs, hb, hr⟩ := stripAnno_fin c
  unfold doFinalising at h
  dsimp only at h
  rw [hr] at h
  split at h
  · cases h
  · rw [hs, hcur] at h
    simp only [reduceCtorEq, if_false] at h
    have hsc : ∀ nx, startCursor (stripAnno c) nx = stripAnno c := by
      intro nx; unfold startCursor; rw [hs, hcur]; simp
    rw [hsc] at h
    rw [hr, hs, hcur] at h
    simp only [finKnown, Bool.not_true, Bool.false_eq_true, if_false, not_true_eq_false] at h
    unfold finTask at h
    rw [hs, hcur] at h
    dsimp only at h
    split at h
    · -- err ∨ retry: cursor unchanged
      simp only [Option.some.injEq, Prod.mk.injEq] at h
      obtain ⟨hc, _, _⟩ := h
      subst hc
      exact absurd hcur hne
    · rename_i hdone
      simp only [Bool.false_eq_true, false_or, Bool.not_eq_true] at hdone
      simp only [Option.some.injEq, Prod.mk.injEq] at h
      obtain ⟨hc, _, _⟩ := h
      subst hc
      dsimp only
      rw [hb] at hdone ⊢
      exact removeBatchRelease_done_gone c.br hdone

/-- **`doProgressingReset`, stage 2** (`ReleaseWorkloadControl`): the reset goes on to the canary Service only without
    BatchRelease -/
theorem prStage2_release_gone (c c' : Ctx) (d e : Bool) (h : prStage2 c = some (c', d, e))
    (hcur : c.sub.finStep = .releaseWorkloadControl) (hne : c'.sub.finStep ≠ .releaseWorkloadControl) : c'.br = none := by
  unfold prStage2 at h
  dsimp only at h
  split at h
  · simp only [Option.some.injEq, Prod.mk.injEq] at h
    obtain ⟨hc, _, _⟩ := h; subst hc
    exact absurd hcur hne
  · rename_i hdone
    have hgone := removeBatchRelease_done_gone c.br (by simpa using hdone)
    unfold prStage3 at h
    split at h
    · cases h
    · rename_i c2 x err hcall
      obtain ⟨_, _, _, _, _, hbr, _⟩ := callTM_sub _ _ _ _ _ _ hcall
      dsimp only at hbr
      split at h <;> (simp only [Option.some.injEq, Prod.mk.injEq] at h; obtain ⟨hc, _, _⟩ := h; subst hc; rw [hbr]; exact hgone)

/-- **restart on deletion / disabling** — for every world and every result of the body of a reconcile in which a Progressing
    rollout turns Terminating / Disabling: after the cursor reset the oracle `releaseWaitsGone` holds — the cursor is empty, it has
    not moved past `ReleaseWorkloadControl` -/
theorem release_waits_gone_restart (w : World) (r0 : StepResult) (hx : exitsProgressing w r0 = true) :
    releaseWaitsGone w (resetOnExit w r0) = true := by
  have hx' : exitsProgressing w (resetOnExit w r0) = true := by
    unfold exitsProgressing at hx ⊢; rw [resetOnExit_phase]; exact hx
  unfold releaseWaitsGone
  rw [resetOnExit_sub, hx']
  cases w.ro.sub with
  | none => rfl
  | some s =>
    cases r0.w.ro.sub with
    | none => rfl
    | some s' => simp [hx]

/-- … and the clean-up that starts over (exit reason "other": deletion, disabling) contains `ReleaseWorkloadControl`, as its last
    task, in both styles: the workload is released again, and that task waits for the BatchRelease to be gone
    (`doFinalising_release_gone`) -/
theorem restart_releases_again (style : Style) : (taskList style .other).getLast? = some .releaseWorkloadControl := by
  cases style <;> rfl

/-- **the exit clean-up starts from an empty cursor** — for every world: when one reconcile turns a Progressing rollout into a
    Terminating / Disabling one, the status it writes carries an empty clean-up cursor.  This is the hypothesis `h0` of the cursor
    invariant `RV.Props.Cluster.reach_inv_partial` for the deletion / disabling sequence (exit reason "other"): before the fix
    "cursor reset" that sequence could start from a cursor the success / rollback clean-up or a reset had left. -/
theorem exit_starts_from_empty_cursor (w : World) (r : StepResult) (h : reconcile w = .val r) (hph : w.ro.phase = .progressing)
    (hx : r.w.ro.phase = .terminating ∨ r.w.ro.phase = .disabling) (s' : Sub) (hs : r.w.ro.sub = some s') :
    s'.finStep = .empty := by
  obtain ⟨r0, _, rfl⟩ := reconcile_val h
  rw [resetOnExit_phase] at hx
  have hfire : exitsProgressing w r0 = true := by
    unfold exitsProgressing; rcases hx with hx | hx <;> simp [hph, hx]
  rw [resetOnExit_sub, hfire] at hs
  cases h0 : r0.w.ro.sub with
  | none => rw [h0] at hs; cases hs
  | some s0 => rw [h0] at hs; simp only [Option.map_some, Option.some.injEq] at hs; rw [← hs]; rfl

end RV.Props.Release
