/-
  C05 / C06 — the clean-up sequence as an inductive invariant over reconciles.

  `finInv reason ro cursor br net` says: every task of the exit reason's task list that lies before the
  persisted cursor still has its effect in the cluster.  It holds trivially when the cursor is
  empty, is preserved by every round of `doFinalising` (whatever the grace memory holds — in
  particular after a crash has emptied it) and by every step of the environment that does not
  re-create what the rollout removed, and at END it gives the clean cluster of C05.
-/
import RV.Oracle.Cluster
import RV.Props.TrafficThms
import RV.Props.RolloutThms
namespace RV.Props.Cluster
open RV.Arith RV.Traffic RV.RolloutSM RV.Oracle.Cluster RV.Props.Traffic RV.Props.Rollout

/-! ### what one task does -/

/-- a task that reports completion (no retry, no error) has established its post-condition
    (partial: `wlSeen`, i.e. outside known finding noRevKey) -/
theorem finTask_done_post (c c' : Ctx) (wr : Bool) (hk : c.wlSeen = true)
    (h : finTask c wr = some (c', false, false)) :
    post c.sub.finStep c'.ro c'.br c'.net = true := by
  unfold finTask at h
  split at h
  · -- resumeWorkload
    rename_i hf
    simp only [Option.some.injEq, Prod.mk.injEq] at h
    obtain ⟨hc, hr, _⟩ := h
    subst hc
    rw [hf]; unfold post; dsimp only
    unfold finalizingBatchRelease at hr ⊢
    cases hb : c.br with
    | none => rfl
    | some b =>
      rw [hb] at hr; dsimp only at hr ⊢
      split at hr
      · rename_i hh; rw [if_pos hh]; simp [hh.1, hh.2]
      · split at hr <;> simp at hr
  · -- releaseWorkloadControl
    rename_i hf
    simp only [Option.some.injEq, Prod.mk.injEq] at h
    obtain ⟨hc, hr, _⟩ := h
    subst hc
    rw [hf]; unfold post; dsimp only
    unfold removeBatchRelease at hr ⊢
    cases hb : c.br with
    | none => rfl
    | some b => rw [hb] at hr; dsimp only at hr; split at hr <;> simp at hr
  · -- routeTrafficToStable
    rename_i hf
    rw [hf]; unfold post
    unfold callTM at h
    split at h
    · cases h
    · rename_i t ht
      simp only [Option.some.injEq, Prod.mk.injEq] at h
      obtain ⟨hc, _, _⟩ := h
      subst hc
      dsimp only
      obtain ⟨_, _, _, _, _, hs, _⟩ := rg_spec { t with hasRevKey := c.wlSeen } c.net c.mem
      have href : t.hasRef = c.ro.hasTraffic := by
        unfold trCtx at ht; split at ht <;> simp at ht <;> (try rw [← ht])
      cases htr : c.ro.hasTraffic with
      | false => rfl
      | true => simp [hs (by simpa [href] using htr)]
  · -- restoreStableService
    rename_i hf
    rw [hf]; unfold post
    unfold callTM at h
    split at h
    · cases h
    · rename_i t ht
      simp only [Option.some.injEq, Prod.mk.injEq] at h
      obtain ⟨hc, _, _⟩ := h
      subst hc
      dsimp only
      obtain ⟨_, _, _, hex, _, hs⟩ := rs_spec { t with hasRevKey := c.wlSeen } c.net c.mem
      have href : t.hasRef = c.ro.hasTraffic := by
        unfold trCtx at ht; split at ht <;> simp at ht <;> (try rw [← ht])
      cases htr : c.ro.hasTraffic with
      | false => rfl
      | true =>
        cases hse : c.net.stableExists with
        | false => simp [hex, hse]
        | true => simp [hs (by simpa [href] using htr) hse hk]
  · -- removeCanaryService
    rename_i hf
    rw [hf]; unfold post
    unfold callTM at h
    split at h
    · cases h
    · rename_i t ht
      simp only [Option.some.injEq, Prod.mk.injEq] at h
      obtain ⟨hc, _, _⟩ := h
      subst hc
      dsimp only
      obtain ⟨_, _, _, _, _, hs⟩ := rc_spec { t with hasRevKey := c.wlSeen } c.net c.mem
      have href : t.hasRef = c.ro.hasTraffic ∧ t.disableGen = c.ro.disableGen := by
        unfold trCtx at ht; split at ht <;> simp at ht <;> (try rw [← ht]) <;> exact ⟨rfl, rfl⟩
      cases htr : c.ro.hasTraffic with
      | false => rfl
      | true =>
        cases hdg : c.ro.disableGen with
        | true => rfl
        | false => simp [hs (by simpa [href.1] using htr) (by simpa [href.2] using hdg)]
  · rename_i hf; rw [hf]; rfl
  · simp at h

/-! ### C04 (stable half): a step that replaces every stable pod -/

/-- **C04 (stable half)** — for every partition-style rollout, step and context: when a canary step with traffic whose
    replicas cover the whole workload leaves `StepInit` (the batch is handed to the BatchRelease), the
    stable Service exists un-pinned — for the first step as well.  (Outside known finding noRevKey.) -/
theorem initStep_full_unpins (ro : Rollout) (step : Step) (c c' : Ctx) (err : Bool)
    (hstyle : ro.style = .canary) (hreal : ro.realPartition = true) (htr : stepHasTraffic step = true) (hro : c.ro = ro)
    (hhas : ro.hasTraffic = true) (hseen : c.wlSeen = true) (hinit : c.sub.state = .init)
    (hfull : scaledV step.replicas c.wl.replicas true ≥ c.wl.replicas)
    (h : initStep ro step c = .ok c' err) (hleft : c'.sub.state ≠ .init) :
    c'.net.stableExists = true → c'.net.stableSel.getD "" = "" := by
  unfold initStep at h
  simp only [hstyle, if_true, htr, not_true_eq_false, if_false, hfull, hreal, and_self] at h
  obtain ⟨c1, rt, e, hcall, hcase⟩ := afterRetryCall_spec _ _ _ _ h
  have hsub := callTM_sub _ _ _ _ _ _ hcall
  rcases hcase with ⟨hc, _⟩ | ⟨hc, _⟩ | ⟨he, hrt, hk⟩
  · subst hc; exact absurd (hsub.2.1.trans hinit) hleft
  · subst hc; exact absurd (hsub.2.1.trans hinit) hleft
  · -- the Service was restored in this reconcile (or already was): what the call leaves behind
    have hnet : c1.net.stableExists = true → c1.net.stableSel.getD "" = "" := by
      unfold callTM at hcall
      split at hcall
      · cases hcall
      · rename_i t ht
        simp only [Option.some.injEq, Prod.mk.injEq] at hcall
        obtain ⟨hc, _, _⟩ := hcall
        subst hc
        dsimp only
        obtain ⟨_, _, _, hex, _, hs⟩ := rs_spec { t with hasRevKey := c.wlSeen } c.net c.mem
        have href : t.hasRef = true := by
          unfold trCtx at ht; split at ht <;> simp at ht <;> (try rw [← ht]) <;> (try simp [hro, hhas])
        intro hse
        exact hs href (by rw [← hex]; exact hse) hseen
    -- no second call: the first-step re-pin is skipped for a full step
    have hw : c1.wl = c.wl := hsub.2.2.2.2.1
    obtain ⟨c2, rt2, e2, hcall2, hcase2⟩ := afterRetryCall_spec _ _ _ _ hk
    simp only [false_and, and_false, if_false] at hcall2
    simp only [Option.some.injEq, Prod.mk.injEq] at hcall2
    obtain ⟨hc2, hrt2, he2⟩ := hcall2
    subst hc2
    rcases hcase2 with ⟨_, hx⟩ | ⟨_, hx⟩ | ⟨_, _, hup⟩
    · rcases hx with hx | hx
      · rw [← he2] at hx; cases hx
      · rw [← hrt2] at hx; cases hx
    · rw [← hrt2] at hx; cases hx
    · obtain ⟨_, _, hn, _⟩ := upgradeStep_spec _ _ _ _ _ hup
      rw [hn]; exact hnet

/-! ### what a task leaves alone -/

/-- nothing the rollout removed has come back (network part) -/
def NetLE (n n' : Net) : Prop :=
  n'.stableExists = n.stableExists ∧ (n.stableSel.getD "" = "" → n'.stableSel.getD "" = "") ∧
  (n.canaryIng = none → n'.canaryIng = none) ∧ (n.canarySvc = none → n'.canarySvc = none)

/-- nothing the rollout removed has come back (BatchRelease part): a deleted BatchRelease stays deleted,
    a resumed and completed one stays so -/
def BrLE (br br' : Option BR) : Prop :=
  (br = none → br' = none) ∧
  (∀ b, br = some b → b.partition.isNone = true → b.phaseCompleted = true →
     br' = none ∨ ∃ b', br' = some b' ∧ b'.partition.isNone = true ∧ b'.phaseCompleted = true)

theorem NetLE.refl (n : Net) : NetLE n n := ⟨rfl, id, id, id⟩
theorem BrLE.refl (b : Option BR) : BrLE b b := ⟨id, fun b h hp hc => Or.inr ⟨b, h, hp, hc⟩⟩

/-- post-conditions survive every step that re-creates nothing -/
theorem post_mono (t : FinStep) (ro : Rollout) (br br' : Option BR) (n n' : Net)
    (hn : NetLE n n') (hb : BrLE br br') (h : post t ro br n = true) : post t ro br' n' = true := by
  obtain ⟨h1, h2, h3, h4⟩ := hn
  obtain ⟨b1, b2⟩ := hb
  unfold post at h ⊢
  cases t <;> dsimp only at h ⊢
  · -- resumeWorkload
    cases hbr : br with
    | none => rw [b1 hbr]
    | some b =>
      rw [hbr] at h; dsimp only at h
      simp only [Bool.and_eq_true] at h
      rcases b2 b hbr h.1 h.2 with h' | ⟨b', h', hp, hc⟩
      · rw [h']
      · rw [h']; simp [hp, hc]
  · -- releaseWorkloadControl
    cases hbr : br with
    | none => rw [b1 hbr]; rfl
    | some b => rw [hbr] at h; simp at h
  · -- routeTrafficToStable
    cases htr : ro.hasTraffic with
    | false => rfl
    | true =>
      rw [htr] at h; simp only [Bool.not_true, Bool.false_or, Option.isNone_iff_eq_none] at h
      simp [h3 h]
  · -- restoreStableService
    cases htr : ro.hasTraffic with
    | false => rfl
    | true =>
      rw [htr] at h; rw [h1]
      cases hse : n.stableExists with
      | false => rfl
      | true =>
        rw [hse] at h; simp only [Bool.not_true, Bool.false_or, beq_iff_eq] at h
        simp [h2 h]
  · -- removeCanaryService
    cases htr : ro.hasTraffic with
    | false => rfl
    | true =>
      cases hdg : ro.disableGen with
      | true => simp
      | false =>
        rw [htr, hdg] at h; simp only [Bool.not_true, Bool.false_or, Option.isNone_iff_eq_none] at h
        simp [h4 h]

theorem callTM_le (f : TCtx → Net → Mem → TOut) (c c' : Ctx) (rt e : Bool)
    (hf : ∀ t n m, NetLE n (f t n m).net) (h : callTM f c = some (c', rt, e)) :
    NetLE c.net c'.net ∧ c'.br = c.br ∧ c'.ro = c.ro := by
  unfold callTM at h
  split at h
  · cases h
  · simp only [Option.some.injEq, Prod.mk.injEq] at h
    obtain ⟨hc, _, _⟩ := h
    subst hc
    exact ⟨hf _ _ _, rfl, rfl⟩

theorem rs_le (t : TCtx) (n : Net) (m : Mem) : NetLE n (restoreStableService t n m).net := by
  unfold restoreStableService
  split
  · exact NetLE.refl n
  · split
    · exact NetLE.refl n
    · dsimp only
      split
      · exact ⟨rfl, fun _ => rfl, id, id⟩
      · exact NetLE.refl n

theorem rg_le (t : TCtx) (n : Net) (m : Mem) : NetLE n (restoreGateway t n m).net := by
  unfold restoreGateway finaliseGw
  split
  · exact NetLE.refl n
  · cases h : n.canaryIng <;> exact ⟨rfl, id, fun _ => rfl, id⟩

theorem rc_le (t : TCtx) (n : Net) (m : Mem) : NetLE n (removeCanaryService t n m).net := by
  unfold removeCanaryService
  split
  · exact NetLE.refl n
  · split
    · exact NetLE.refl n
    · exact ⟨rfl, id, id, fun _ => rfl⟩

/-- **frame** — whatever a clean-up task does (complete, retry or fail), it re-creates nothing;
    `routeTrafficToNew` (first task of the blue-green success list only) is the one exception -/
theorem finTask_le (c c' : Ctx) (wr rt e : Bool) (hne : c.sub.finStep ≠ .routeTrafficToNew)
    (h : finTask c wr = some (c', rt, e)) :
    NetLE c.net c'.net ∧ BrLE c.br c'.br ∧ c'.ro = c.ro := by
  unfold finTask at h
  split at h
  · simp only [Option.some.injEq, Prod.mk.injEq] at h
    obtain ⟨hc, _, _⟩ := h
    subst hc
    refine ⟨NetLE.refl _, ?_, rfl⟩
    dsimp only
    unfold finalizingBatchRelease
    cases hb : c.br with
    | none => exact BrLE.refl _
    | some b =>
      dsimp only
      split
      · exact BrLE.refl _
      · split
        · exact BrLE.refl _
        · rename_i h1 h2
          refine ⟨fun h => (by cases h), fun b0 hb0 hp hc => ?_⟩
          cases hb0
          exact absurd ⟨hp, hc⟩ h1
  · simp only [Option.some.injEq, Prod.mk.injEq] at h
    obtain ⟨hc, _, _⟩ := h
    subst hc
    refine ⟨NetLE.refl _, ?_, rfl⟩
    dsimp only
    unfold removeBatchRelease
    cases hb : c.br with
    | none => exact BrLE.refl _
    | some b =>
      dsimp only
      split
      · exact BrLE.refl _
      · refine ⟨fun h => (by cases h), fun b0 hb0 hp hc => Or.inr ⟨_, rfl, ?_, ?_⟩⟩ <;> cases hb0 <;> assumption
  · obtain ⟨a, b, d⟩ := callTM_le _ _ _ _ _ rg_le h; exact ⟨a, b ▸ BrLE.refl _, d⟩
  · obtain ⟨a, b, d⟩ := callTM_le _ _ _ _ _ rs_le h; exact ⟨a, b ▸ BrLE.refl _, d⟩
  · obtain ⟨a, b, d⟩ := callTM_le _ _ _ _ _ rc_le h; exact ⟨a, b ▸ BrLE.refl _, d⟩
  · rename_i hf; exact absurd hf hne
  · simp only [Option.some.injEq, Prod.mk.injEq] at h
    obtain ⟨hc, _, _⟩ := h
    subst hc
    exact ⟨NetLE.refl _, BrLE.refl _, rfl⟩

/-! ### facts about the (finite) task tables -/

theorem tbl_next_done (style : Style) (reason : Reason) (cur : FinStep)
    (hin : cur ∈ taskList style reason) :
    doneTasks (taskList style reason) (nextTask (taskList style reason) cur) =
      doneTasks (taskList style reason) cur ++ [cur] := by
  cases style <;> cases reason <;> cases cur <;> revert hin <;> decide

theorem tbl_next_ok (style : Style) (reason : Reason) (cur : FinStep)
    (hin : cur ∈ taskList style reason ∨ cur = .empty) :
    cursorOk (taskList style reason) (nextTask (taskList style reason) cur) = true := by
  cases style <;> cases reason <;> cases cur <;> revert hin <;> decide

theorem tbl_first_done (style : Style) (reason : Reason) :
    doneTasks (taskList style reason) (nextTask (taskList style reason) .empty) = [] := by
  cases style <;> cases reason <;> decide

theorem tbl_known_in (style : Style) (reason : Reason) (cur : FinStep)
    (hok : cursorOk (taskList style reason) cur = true) (hk : finKnown style cur = true) :
    cur ∈ taskList style reason := by
  cases style <;> cases reason <;> cases cur <;> revert hok hk <;> decide

theorem tbl_empty_done (style : Style) (reason : Reason) :
    doneTasks (taskList style reason) .empty = [] := by
  cases style <;> cases reason <;> decide

theorem tbl_toNew_first (style : Style) (reason : Reason) :
    doneTasks (taskList style reason) .routeTrafficToNew = [] := by
  cases style <;> cases reason <;> decide

theorem stripAnno_frame' (c : Ctx) :
    (stripAnno c).br = c.br ∧ (stripAnno c).net = c.net ∧ (stripAnno c).wlSeen = c.wlSeen ∧ (stripAnno c).mem = c.mem := by
  unfold stripAnno; split <;> exact ⟨rfl, rfl, rfl, rfl⟩

theorem startCursor_frame (c : Ctx) (nx : FinStep) :
    (startCursor c nx).br = c.br ∧ (startCursor c nx).net = c.net ∧ (startCursor c nx).wlSeen = c.wlSeen ∧
    (startCursor c nx).ro = c.ro := by
  unfold startCursor; split <;> exact ⟨rfl, rfl, rfl, rfl⟩

theorem finInv_mono (reason : Reason) (ro : Rollout) (cur : FinStep) (br br' : Option BR) (n n' : Net)
    (hn : NetLE n n') (hb : BrLE br br') (h : finInv reason ro cur br n = true) :
    finInv reason ro cur br' n' = true := by
  unfold finInv at h ⊢
  rw [List.all_eq_true] at h ⊢
  exact fun t ht => post_mono t ro br br' n n' hn hb (h t ht)

/-- **C05 / C06 — the clean-up invariant is inductive.**  For every rollout, exit reason, network and
    BatchRelease state and every content of the grace memory (in particular the empty memory a crashed
    controller restarts with): if every task before the persisted cursor still has its effect, one more
    round of `doFinalising` — whether its task completes, retries or fails — leaves a cursor the
    reason's list can interpret and every task before *that* cursor has its effect.
    (partial: `wlSeen`, i.e. outside known finding noRevKey, where `RestoreStableService` reports
    completion without touching the Service.) -/
theorem doFinalising_inv_partial (c c' : Ctx) (reason : Reason) (wr d e : Bool) (hk : c.wlSeen = true)
    (hok : cursorOk (taskList c.ro.style reason) c.sub.finStep = true)
    (hinv : finInv reason c.ro c.sub.finStep c.br c.net = true)
    (h : doFinalising c reason wr = some (c', d, e)) :
    c'.ro = c.ro ∧ cursorOk (taskList c.ro.style reason) c'.sub.finStep = true ∧
    finInv reason c'.ro c'.sub.finStep c'.br c'.net = true := by
  obtain ⟨hs, hr⟩ := stripAnno_frame c
  obtain ⟨hb0, hn0, hw0, _⟩ := stripAnno_frame' c
  unfold doFinalising at h
  dsimp only at h
  rw [hs, hr] at h
  split at h
  · cases h
  · split at h
    · -- cursor at END: nothing runs
      simp only [Option.some.injEq, Prod.mk.injEq] at h
      obtain ⟨hc, _, _⟩ := h
      subst hc
      rw [hs, hr, hb0, hn0]
      exact ⟨rfl, hok, hinv⟩
    · rename_i hnend
      generalize hnx : nextTask (taskList c.ro.style reason) c.sub.finStep = nx at h
      obtain ⟨sb, sn, sw, sr⟩ := startCursor_frame (stripAnno c) nx
      have hsc : (startCursor (stripAnno c) nx).sub.finStep = (if c.sub.finStep = .empty then nx else c.sub.finStep) := by
        unfold startCursor; rw [hs]; split
        · rfl
        · rw [hs]
      split at h
      · -- unknown cursor: restart from the first task
        simp only [Option.some.injEq, Prod.mk.injEq] at h
        obtain ⟨hc, _, _⟩ := h
        subst hc
        dsimp only
        rw [sr, hr]
        refine ⟨rfl, tbl_next_ok _ _ _ (Or.inr rfl), ?_⟩
        unfold finInv; rw [tbl_first_done]; rfl
      · rename_i hknown
        rw [sr, hr, hsc] at hknown
        simp only [Bool.not_eq_true, Bool.not_eq_false] at hknown
        split at h
        · cases h
        · rename_i cr retry er hrun
          have hcur := finTask_cursor _ _ _ _ _ hrun
          rw [hsc] at hcur
          -- the cursor the task ran at
          by_cases hemp : c.sub.finStep = .empty
          · -- first round: cursor := first task; nothing is claimed yet, and after it only the first task
            rw [if_pos hemp] at hcur hknown
            rw [hemp] at hnx
            have hin : nx ∈ taskList c.ro.style reason :=
              tbl_known_in _ _ _ (by rw [← hnx]; exact tbl_next_ok _ _ _ (Or.inr rfl)) hknown
            have hd0 : doneTasks (taskList c.ro.style reason) nx = [] := by rw [← hnx]; exact tbl_first_done _ _
            have hok' : cursorOk (taskList c.ro.style reason) nx = true := by
              rw [← hnx]; exact tbl_next_ok _ _ _ (Or.inr rfl)
            have hro : cr.ro = c.ro := by
              by_cases hnew : (startCursor (stripAnno c) nx).sub.finStep = .routeTrafficToNew
              · unfold finTask at hrun; rw [hnew] at hrun; dsimp only at hrun
                obtain ⟨_, _, _, h4, _⟩ := callTM_sub _ _ _ _ _ _ hrun
                rw [h4, sr, hr]
              · obtain ⟨_, _, h3⟩ := finTask_le _ _ _ _ _ hnew hrun; rw [h3, sr, hr]
            split at h
            · simp only [Option.some.injEq, Prod.mk.injEq] at h
              obtain ⟨hc, _, _⟩ := h
              subst hc
              rw [hcur, hro]
              refine ⟨rfl, hok', ?_⟩
              unfold finInv; rw [hd0]; rfl
            · simp only [Option.some.injEq, Prod.mk.injEq] at h
              obtain ⟨hc, _, _⟩ := h
              subst hc
              dsimp only
              rw [hro]
              refine ⟨rfl, hok', ?_⟩
              unfold finInv; rw [hd0]; rfl
          · rw [if_neg hemp] at hcur hknown
            have hin : c.sub.finStep ∈ taskList c.ro.style reason := tbl_known_in _ _ _ hok hknown
            have hsc' : (startCursor (stripAnno c) nx).sub.finStep = c.sub.finStep := by rw [hsc, if_neg hemp]
            -- earlier tasks keep their effect through this round
            have hkeep : cr.ro = c.ro ∧ finInv reason c.ro c.sub.finStep cr.br cr.net = true := by
              by_cases hnew : c.sub.finStep = .routeTrafficToNew
              · constructor
                · unfold finTask at hrun; rw [hsc', hnew] at hrun; dsimp only at hrun
                  obtain ⟨_, _, _, h4, _⟩ := callTM_sub _ _ _ _ _ _ hrun
                  rw [h4, sr, hr]
                · unfold finInv; rw [hnew, tbl_toNew_first]; rfl
              · obtain ⟨h1, h2, h3⟩ := finTask_le _ _ _ _ _ (by rw [hsc']; exact hnew) hrun
                rw [sn, hn0] at h1
                rw [sb, hb0] at h2
                exact ⟨by rw [h3, sr, hr], finInv_mono _ _ _ _ _ _ _ h1 h2 hinv⟩
            obtain ⟨hro, hkeep⟩ := hkeep
            split at h
            · simp only [Option.some.injEq, Prod.mk.injEq] at h
              obtain ⟨hc, _, _⟩ := h
              subst hc
              rw [hcur, hro]
              exact ⟨rfl, hok, hkeep⟩
            · rename_i hdone
              simp only [Option.some.injEq, Prod.mk.injEq] at h
              obtain ⟨hc, _, _⟩ := h
              subst hc
              dsimp only
              rw [hro]
              refine ⟨rfl, (by rw [← hnx]; exact tbl_next_ok _ _ _ (Or.inl hin)), ?_⟩
              have hne : er = false ∧ retry = false := by
                cases er <;> cases retry <;> simp at hdone ⊢
              obtain ⟨he, hrt⟩ := hne
              subst he; subst hrt
              have hpost := finTask_done_post _ _ _ (by rw [sw, hw0]; exact hk) hrun
              rw [hsc', hro] at hpost
              unfold finInv at hkeep ⊢
              rw [← hnx, tbl_next_done _ _ _ hin, List.all_append, hkeep]
              simp [hpost]

/-- at END the invariant is the clean cluster of C05: no BatchRelease, no canary route, no canary
    Service (unless the user supplied it), stable Service un-pinned -/
theorem end_means_clean (reason : Reason) (ro : Rollout) (br : Option BR) (n : Net)
    (h : finInv reason ro .end_ br n = true) :
    br = none ∧ (ro.hasTraffic = true → n.canaryIng = none ∧ (ro.disableGen = false → n.canarySvc = none) ∧
      (n.stableExists = true → n.stableSel.getD "" = "")) := by
  unfold finInv doneTasks at h
  rw [if_pos rfl, List.all_eq_true] at h
  have h1 := h .releaseWorkloadControl (by cases hs : ro.style <;> cases reason <;> decide)
  have h2 := h .routeTrafficToStable (by cases hs : ro.style <;> cases reason <;> decide)
  have h3 := h .removeCanaryService (by cases hs : ro.style <;> cases reason <;> decide)
  have h4 := h .restoreStableService (by cases hs : ro.style <;> cases reason <;> decide)
  unfold post at h1 h2 h3 h4
  dsimp only at h1 h2 h3 h4
  refine ⟨by simpa using h1, fun htr => ?_⟩
  rw [htr] at h2 h3 h4
  refine ⟨by simpa using h2, fun hdg => (by rw [hdg] at h3; simpa using h3), fun hse => (by rw [hse] at h4; simpa using h4)⟩

/-- one event of the closed loop while a rollout is being finalised for `reason`:
    a reconcile round of the rollout controller (any grace memory, any `waitReady`), or a step of
    anything else in the cluster — the BatchRelease controller, the workload controller, the API
    server's garbage collection, a **crash** of the rollout controller (the in-memory `mem` is replaced
    by anything) — that re-creates nothing the rollout removed and leaves the rollout object alone. -/
inductive Event (reason : Reason) : Ctx → Ctx → Prop
  | round (c c' : Ctx) (wr d e : Bool) : c.wlSeen = true → doFinalising c reason wr = some (c', d, e) → Event reason c c'
  | env (c c' : Ctx) : c'.ro = c.ro → c'.sub.finStep = c.sub.finStep → NetLE c.net c'.net → BrLE c.br c'.br → Event reason c c'

inductive Reach (reason : Reason) : Ctx → Ctx → Prop
  | refl (c : Ctx) : Reach reason c c
  | step (c c' c'' : Ctx) : Reach reason c c' → Event reason c' c'' → Reach reason c c''

/-- **C05 / C06 (every history, every crash point)** — start the clean-up with an empty cursor; after
    any finite sequence of reconcile rounds, crashes and foreign steps, every task before the persisted
    cursor has its effect — so whenever the cursor reads END (the only situation in which
    `doFinalising` reports *done*, `doFinalising_cursor`) the cluster is clean. -/
theorem reach_inv_partial (reason : Reason) (c0 c : Ctx) (h0 : c0.sub.finStep = .empty) (hr : Reach reason c0 c) :
    c.ro = c0.ro ∧ cursorOk (taskList c0.ro.style reason) c.sub.finStep = true ∧
    finInv reason c0.ro c.sub.finStep c.br c.net = true := by
  induction hr with
  | refl => rw [h0]; exact ⟨rfl, rfl, (by unfold finInv; rw [tbl_empty_done]; rfl)⟩
  | step c' c'' _ hev ih =>
    obtain ⟨i1, i2, i3⟩ := ih
    cases hev with
    | round wr d e hk hd =>
      obtain ⟨r1, r2, r3⟩ := doFinalising_inv_partial c' c'' reason wr d e hk (by rw [i1]; exact i2) (by rw [i1]; exact i3) hd
      rw [i1] at r1 r2
      rw [r1] at r3
      exact ⟨r1, r2, r3⟩
    | env e1 e2 e3 e4 =>
      rw [e2]
      exact ⟨e1.trans i1, i2, finInv_mono _ _ _ _ _ _ _ e3 e4 i3⟩

theorem reach_end_clean_partial (reason : Reason) (c0 c : Ctx) (h0 : c0.sub.finStep = .empty) (hr : Reach reason c0 c)
    (hend : c.sub.finStep = .end_) :
    c.br = none ∧ (c0.ro.hasTraffic = true → c.net.canaryIng = none ∧ (c0.ro.disableGen = false → c.net.canarySvc = none) ∧
      (c.net.stableExists = true → c.net.stableSel.getD "" = "")) := by
  obtain ⟨_, _, h⟩ := reach_inv_partial reason c0 c h0 hr
  rw [hend] at h
  exact end_means_clean _ _ _ _ h

/-- non-vacuity: a concrete mid-rollout state whose first clean-up round runs and changes the cluster -/
example :
    let n : Net := { stableExists := true, stableSel := some "v1", canarySvc := some "v2", stableIngress := true, canaryIng := some 20 }
    let ro : Rollout := { (default : Rollout) with style := .canary, steps := [⟨.pct 20, some 20, .manual⟩], hasTraffic := true, grace := 3 }
    let sub : Sub := { (default : Sub) with curIdx := 1, finStep := .empty, stableRev := "v1", canaryRev := "v2", podHash := "v2" }
    let c : Ctx := { ro := ro, sub := sub, wl := default, br := some default, net := n, mem := Mem.empty }
    (doFinalising c .success false).map (fun r => (r.1.sub.finStep, r.1.net.stableSel, r.2.1)) =
      some (.restoreStableService, none, false) := by decide

/-! ### C01.5 — the exposure chain across the two controllers

The three links are proved about three different pieces of code; this section states how they compose.
1. (Rollout controller) whatever `doCanaryUpgrade` leaves behind, the BatchRelease's batch partition is
   the current step index − 1 (`upgrade_partition_tracks_step`);
2. (BatchRelease executor) the executor's current batch never passes the partition
   (`RV.Props.Executor.within_partition`) and advances only from a batch that passed its readiness check
   (`batch_advance_guarded`);
3. (control plane) the knob written for batch `cb` exposes at most what plan entry `cb` allows, up to the
   < 1 % percent slack (`RV.Props.C01.write_exposure_bound`).
For a plan whose entries are non-decreasing in the pods they ask for, (1)–(3) give: the workload's exposure
is within what the rollout's *current* step allows (`exposure_within_current_step`). -/

open RV.BatchCtx RV.Oracle.Batch in
/-- plan entries never ask for fewer pods than an earlier entry -/
def PlanMonotone (R : Int) (plan : List IntOrPct) : Prop :=
  ∀ (i j : Nat) (a b : IntOrPct), i ≤ j → plan[i]? = some a → plan[j]? = some b → calcBatchReplicas R a ≤ calcBatchReplicas R b

/-- link 1: after `doCanaryUpgrade` (create, update or accept), the BatchRelease asks for exactly the
    batch of the current step -/
theorem upgrade_partition_tracks_step (ro : Rollout) (s : Sub) (wl : WL) (br : Option BR) (b : BR)
    (h : (doCanaryUpgrade ro s wl br).2.1 = some b) : b.partition = some (s.curIdx - 1) := by
  have hrun : ∀ b', (runBatchRelease ro br (getRolloutID wl) s.curIdx wl.inRollback).2.1 = some b' →
      b'.partition = some (s.curIdx - 1) := by
    intro b' hb'
    unfold runBatchRelease at hb'
    dsimp only at hb'
    split at hb'
    · cases hb'; rfl
    · rename_i b0
      split at hb'
      · rename_i heq
        cases hb'
        unfold brSpecEq desiredBR at heq
        simp only [Bool.and_eq_true, beq_iff_eq] at heq
        exact heq.1.1.1.1.2
      · cases hb'; rfl
  unfold doCanaryUpgrade at h
  dsimp only at h
  split at h
  · exact hrun b h
  · split at h
    · exact hrun b h
    · split at h
      · exact hrun b h
      · split at h <;> exact hrun b h

open RV.BatchCtx RV.Oracle.Batch in
/-- **C01.5 (composition)** — for every workload kind, size and monotone plan: if the BatchRelease's
    partition is the rollout's current step − 1, the executor's current batch has not passed the partition,
    and the knob in force was written for that batch within its allowance, then the workload's exposure is
    within what the rollout's current step allows (for a CloneSet percent entry: within < 1 % of the size). -/
theorem exposure_within_current_step (kind : Kind) (R : Int) (plan : List IntOrPct) (cur cb : Nat) (p : Int)
    (ecb ecur : IntOrPct) (w : IntOrPct)
    (hmono : PlanMonotone R plan) (hpart : p = (cur : Int) - 1) (hcb : (cb : Int) ≤ p)
    (h1 : plan[cb]? = some ecb) (h2 : plan[cur - 1]? = some ecur)
    (hw : exposureBound kind R ecb none w = true) :
    exposureOf kind w R ≤ calcBatchReplicas R ecur ∨ 100 * (exposureOf kind w R - calcBatchReplicas R ecur) < max R 1 := by
  have hle : calcBatchReplicas R ecb ≤ calcBatchReplicas R ecur := hmono cb (cur - 1) ecb ecur (by omega) h1 h2
  unfold exposureBound allowed at hw
  dsimp only at hw
  split at hw
  · right
    have := of_decide_eq_true hw
    omega
  · left
    have := of_decide_eq_true hw
    omega

open RV.BatchCtx RV.Oracle.Batch in
/-- non-vacuity: 10 replicas, plan 20 % / 50 %, executor at batch 1 -/
example : PlanMonotone 10 [IntOrPct.pct 20, IntOrPct.pct 50] ∧
    exposureBound .cloneSet 10 (IntOrPct.pct 50) none (desKnob .cloneSet 10 (IntOrPct.pct 50) none) = true := by
  refine ⟨?_, by decide⟩
  intro i j a b hij ha hb
  rcases i with _ | _ | i <;> rcases j with _ | _ | j <;> simp at ha hb <;> (try omega) <;> (subst ha; subst hb; decide)
