import RV.Lemmas.Custom
/-!
# C15 — custom (Lua) network resources: stateless apply, exact restore

Model: `RV/Model/Custom.lean` (literal transcription of `custom_network_provider.go`; the script is
a parameter `f : Data → Strategy → Option Data`, `none` = any error between `ToUnstructured` and
`json.Unmarshal(Encode(ret))`).  A script being a *function* is the determinism assumption.
`Codec.Lawful` is the assumption on `encoding/json` (a dumped `Data` parses back to itself, the dump
is never `""`).  Integers only (|n| < 2^53): `J` has no floats.

A list `refs : List (Option Script × Obj)` is a configuration in which every referenced object
exists (`present refs`); `noOrig` says the user's object does not carry the provider's annotation.
-/
namespace RV.Props.C15
open RV.Custom RV.Oracle.C15

/-- the provider's view of references that all exist. -/
abbrev present (refs : List (Option Script × Obj)) : List Ref := refs.map mkRef

/-! ## (i) statelessness -/

private theorem stateless_aux {c : Codec} (s : Strategy) {l0 l : List PRef}
    (h : All2 (Rel0 c) l0 l) (hok : ∀ p, p ∈ l → (planOf c s p).isSome = true) :
    ∃ ds, freshAll s l0 = some ds ∧
      statelessOK c (l0.map (·.2)) ds (l.map fun p => (mkRef (stepOne c s true p).1).obj) = true := by
  unfold statelessOK
  induction h with
  | nil => exact ⟨[], rfl, rfl⟩
  | @cons p0 p r0 r hab _ ih =>
    obtain ⟨ds, hds, hall⟩ := ih fun q hq => hok q (by simp [hq])
    obtain ⟨f0, o0⟩ := p0
    obtain ⟨f, x⟩ := p
    have ht : Tracked c o0 (storeIfAbsent c x) := store_tracked_of_rel0 hab
    have hc : c.LawfulOn (dataOf o0) := hab.1.2
    have hf : f = f0 := hab.2.1
    subst hf
    have hp := hok (f, x) (by simp)
    simp only [planOf] at hp
    rw [plan_of_tracked hc s f ht] at hp
    cases f with
    | none => simp at hp
    | some g =>
      cases hg : g (dataOf o0) s with
      | none => simp [hg] at hp
      | some d =>
        refine ⟨d :: ds, by simp [freshAll, hg, hds], ?_⟩
        have hplan : plan c s (some g) (storeIfAbsent c x) = some d := by
          rw [plan_of_tracked hc s (some g) ht]; exact hg
        have heqv := compareAndUpdate_eqv d (storeIfAbsent c x)
        rw [origOf_of_tracked ht] at heqv
        simp only [List.map_cons, all3, stepOne, if_true, hplan, mkRef, heqv, Bool.true_and]
        exact hall

/-- **C15 (i) — statelessness.**  Take any references that exist, any sequence `pre` of earlier
    steps (successful or failing), and a step `s` whose EnsureRoutes call does not fail.  Then every
    script succeeds on the *original* object alone (`freshAll`), and every object after the call
    carries exactly that result (`statelessOK`: spec, labels, annotations of `f original s`, plus the
    provider's annotation holding the original) — whatever `pre` was. -/
theorem stateless (c : Codec) (refs : List (Option Script × Obj))
    (hc : ∀ p, p ∈ refs → c.LawfulOn (dataOf p.2))
    (hno : ∀ p, p ∈ refs → noOrig p.2 = true) (pre : List Strategy) (s : Strategy)
    (hok : (ensureRoutes c s (ensureSeq c pre (present refs))).2 ≠ .err) :
    ∃ ds, freshAll s refs = some ds ∧
      statelessOK c (refs.map (·.2)) ds
        ((ensureRoutes c s (ensureSeq c pre (present refs))).1.map (·.obj)) = true := by
  have hrel := (ensureSeqP_rel pre (rel0_init c refs hno hc)).1
  simp only [present, ensureSeq_present, ensureRoutes_present] at hok ⊢
  cases hflag : allPlanOK c s (ensureSeqP c pre refs) with
  | false => simp [hflag] at hok
  | true =>
    have hall : ∀ p, p ∈ ensureSeqP c pre refs → (planOf c s p).isSome = true := by
      simpa [allPlanOK, List.all_eq_true] using hflag
    obtain ⟨ds, hds, h3⟩ := stateless_aux s hrel hall
    exact ⟨ds, hds, by simpa [List.map_map, Function.comp_def] using h3⟩

/-- non-vacuity of `stateless` and a *test* of the oracle: a concrete codec-free instance cannot be
    given (the codec is abstract), so the example instantiates the script and checks `freshAll`. -/
example : freshAll ⟨.pct 20, [], none⟩
    [(some (vsScript "svc" "svc-canary"),
      { spec := some (.obj [("http", .arr [.obj [("route", .arr [.obj [("destination", .obj [("host", .str "svc")])]])]])]),
        labels := none, annotations := some [] })]
  = some [{ spec := .obj [("http", .arr [.obj [("route", .arr [
              .obj [("destination", .obj [("host", .str "svc")]), ("weight", .int 80)],
              .obj [("destination", .obj [("host", .str "svc-canary")]), ("weight", .int 20)]])]])],
            labels := [], annotations := [] }] := by decide

/-- **C15 (i), corollary — steps never accumulate.**  Two different histories followed by the same
    successful step leave pointwise equivalent objects. -/
theorem history_independent (c : Codec) (refs : List (Option Script × Obj))
    (hc : ∀ p, p ∈ refs → c.LawfulOn (dataOf p.2))
    (hno : ∀ p, p ∈ refs → noOrig p.2 = true) (pre₁ pre₂ : List Strategy) (s : Strategy)
    (h₁ : (ensureRoutes c s (ensureSeq c pre₁ (present refs))).2 ≠ .err)
    (h₂ : (ensureRoutes c s (ensureSeq c pre₂ (present refs))).2 ≠ .err) :
    ∃ ds, statelessOK c (refs.map (·.2)) ds
            ((ensureRoutes c s (ensureSeq c pre₁ (present refs))).1.map (·.obj)) = true
        ∧ statelessOK c (refs.map (·.2)) ds
            ((ensureRoutes c s (ensureSeq c pre₂ (present refs))).1.map (·.obj)) = true := by
  obtain ⟨ds₁, hf₁, hs₁⟩ := stateless c refs hc hno pre₁ s h₁
  obtain ⟨ds₂, hf₂, hs₂⟩ := stateless c refs hc hno pre₂ s h₂
  have : ds₁ = ds₂ := by rw [hf₁] at hf₂; exact Option.some.inj hf₂
  subst this
  exact ⟨ds₁, hs₁, hs₂⟩

/-- a step in which some script fails writes nothing but the annotation: the failing call after
    any history still leaves every object `Tracked`, hence restorable (used by (ii)); and a call in
    which a referenced object is missing writes nothing at all. -/
theorem missing_object_no_write (c : Codec) (s : Strategy) (st : List Ref)
    (h : ∃ r, r ∈ st ∧ r.obj = none) : ensureRoutes c s st = (st, .err) :=
  ensureRoutes_missing c s st h

/-- … and so does any sequence of calls: with a missing object the whole history is a no-op. -/
theorem missing_object_seq_no_write (c : Codec) (steps : List Strategy) (st : List Ref)
    (h : ∃ r, r ∈ st ∧ r.obj = none) : ensureSeq c steps st = st := by
  induction steps with
  | nil => rfl
  | cons s ss ih => simp only [ensureSeq, ensureRoutes_missing c s st h, ih]

/-! ## (ii) Finalise restores the user's configuration -/

/-- `normalise` changes representation only: the spec value, the label map and the annotation map
    are the user's (absent `spec` ≡ `null`, absent map ≡ `{}`). -/
theorem normalise_same_values (o : Obj) :
    (normalise o).spec.getD .null = o.spec.getD .null
    ∧ (normalise o).labels.getD [] = o.labels.getD []
    ∧ (normalise o).annotations.getD [] = o.annotations.getD [] := by
  refine ⟨by cases h : o.spec <;> simp [normalise, h], ?_, ?_⟩
  · cases h : o.labels with
    | none => simp [normalise, h]
    | some l => cases l <;> simp [normalise, h, optOfList]
  · cases h : o.annotations with
    | none => simp [normalise, h]
    | some l => cases l <;> simp [normalise, h, optOfList]

/-- `normalise` is the identity on objects with a `spec` and without empty maps. -/
theorem normalise_id (o : Obj) (hs : o.spec.isSome = true) (hl : o.labels ≠ some [])
    (ha : o.annotations ≠ some []) : normalise o = o := by
  obtain ⟨spec, labels, anns⟩ := o
  cases spec with
  | none => simp at hs
  | some v =>
    have h1 : labels.bind optOfList = labels := by
      cases labels with
      | none => rfl
      | some l => cases l with
        | nil => exact absurd rfl hl
        | cons _ _ => rfl
    have h2 : anns.bind optOfList = anns := by
      cases anns with
      | none => rfl
      | some l => cases l with
        | nil => exact absurd rfl ha
        | cons _ _ => rfl
    simp [normalise, h1, h2]

private theorem restore_all {c : Codec} {l0 l : List PRef} (h : All2 (RelT c) l0 l) :
    All2 (fun (o : Obj) (x : Option Obj) => decide (x = some (normalise o)) = true)
      (l0.map (·.2)) (l.map fun p => (mkRef (p.1, (restoreObject c p.2).1)).obj) := by
  induction h with
  | nil => exact .nil
  | cons hab _ ih =>
    refine .cons ?_ ih
    simp [mkRef, restore_of_tracked hab.1.2 hab.1.1 hab.2.2]

/-- **C15 (ii) — exact restore.**  For any number of references (all existing, none carrying the
    provider's annotation) and any non-empty sequence of steps — succeeding, failing or repeated —
    Finalise reports a modification and leaves every object at `normalise` of what the user had:
    same spec, same labels, same annotations, the provider's annotation gone. -/
theorem finalise_restores (c : Codec) (refs : List (Option Script × Obj))
    (hc : ∀ p, p ∈ refs → c.LawfulOn (dataOf p.2))
    (hno : ∀ p, p ∈ refs → noOrig p.2 = true) (steps : List Strategy) (hne : steps ≠ []) :
    restoreOK (refs.map (·.2)) ((finalise c (ensureSeq c steps (present refs))).1.map (·.obj)) = true
    ∧ (refs ≠ [] → (finalise c (ensureSeq c steps (present refs))).2 = .ok true) := by
  have hrel := (ensureSeqP_rel steps (rel0_init c refs hno hc)).2 hne
  simp only [present, ensureSeq_present, finalise_present]
  constructor
  · simp only [restoreOK, List.map_map, Function.comp_def]
    apply all2_of_All2
    exact restore_all hrel
  · intro hrefs
    clear hno hc
    generalize ensureSeqP c steps refs = l at hrel
    cases hrel with
    | nil => exact absurd rfl hrefs
    | cons hab _ => simp [restore_of_tracked hab.1.2 hab.1.1 hab.2.2]

/-- **C15 (ii), untouched case.**  Without any EnsureRoutes (or when a referenced object is missing,
    so that EnsureRoutes never wrote, see `missing_object_no_write`) Finalise changes nothing. -/
theorem finalise_untouched (c : Codec) (refs : List (Option Script × Obj))
    (hno : ∀ p, p ∈ refs → noOrig p.2 = true) :
    finalise c (present refs) = (present refs, .ok false) := by
  simp only [present, finalise_present]
  have h1 : (refs.map fun p => mkRef (p.1, (restoreObject c p.2).1)) = refs.map mkRef := by
    apply List.map_congr_left
    intro p hp
    simp [restore_of_noOrig c (hno p hp)]
  have h2 : (refs.any fun p => (restoreObject c p.2).2) = false := by
    rw [List.any_eq_false]
    intro p hp
    simp [restore_of_noOrig c (hno p hp)]
  rw [h1, h2]

/-! ## (iv) idempotence -/

private theorem stepOne_fixed (c : Codec) (s : Strategy) (p : PRef) (hp : (planOf c s p).isSome = true) :
    (planOf c s (stepOne c s true p).1).isSome = true
    ∧ stepOne c s true (stepOne c s true p).1 = ((stepOne c s true p).1, false) := by
  obtain ⟨f, x⟩ := p
  simp only [planOf] at hp
  cases hd : plan c s f (storeIfAbsent c x) with
  | none => simp [hd] at hp
  | some d =>
    have hne : origOf (storeIfAbsent c x) ≠ "" := by
      intro h; simp [plan, h] at hd
    have hb : ∃ v, lookup origKey ((storeIfAbsent c x).annotations.getD []) = some v := by
      cases hl : lookup origKey ((storeIfAbsent c x).annotations.getD []) with
      | none => simp [origOf, hl] at hne
      | some v => exact ⟨v, rfl⟩
    obtain ⟨v, hv⟩ := hb
    have hst : storeIfAbsent c (compareAndUpdate d (storeIfAbsent c x)).1 = (compareAndUpdate d (storeIfAbsent c x)).1 :=
      storeIfAbsent_of_bound (compareAndUpdate_bound d _ hv)
    have hplan : plan c s f (compareAndUpdate d (storeIfAbsent c x)).1 = some d := by
      have := origOf_compareAndUpdate d (storeIfAbsent c x)
      simp only [plan, this] at hd ⊢
      exact hd
    simp only [stepOne, if_true, hd, planOf, hst, hplan, compareAndUpdate_idem]
    simp

/-- **C15 (iv) — idempotence.**  From *any* state: if EnsureRoutes succeeds, the same call made
    again writes nothing and reports `done = true` (deterministic script = `f` is a function). -/
theorem ensure_idempotent (c : Codec) (s : Strategy) (st st' : List Ref) (b : Bool)
    (h : ensureRoutes c s st = (st', .ok b)) :
    ensureRoutes c s st' = (st', .ok true) := by
  cases hg : getAll st with
  | none => simp [ensureRoutes, hg] at h
  | some l =>
    have hst := getAll_some hg
    subst hst
    rw [ensureRoutes_present] at h
    cases hflag : allPlanOK c s l with
    | false => simp [hflag] at h
    | true =>
      simp only [hflag, if_true, Prod.mk.injEq] at h
      obtain ⟨h1, _⟩ := h
      have hall : ∀ p, p ∈ l → (planOf c s p).isSome = true := by
        simpa [allPlanOK, List.all_eq_true] using hflag
      have hst' : st' = (l.map fun p => (stepOne c s true p).1).map mkRef := by
        rw [← h1]; simp [List.map_map, Function.comp_def]
      rw [hst', ensureRoutes_present]
      have hflag' : allPlanOK c s (l.map fun p => (stepOne c s true p).1) = true := by
        simp only [allPlanOK, List.all_map, List.all_eq_true, Function.comp_def]
        intro p hp
        exact (stepOne_fixed c s p (hall p hp)).1
      simp only [hflag', if_true, List.map_map, Function.comp_def, Prod.mk.injEq]
      constructor
      · apply List.map_congr_left
        intro p hp
        rw [(stepOne_fixed c s p (hall p hp)).2]
      · congr 1
        simp only [List.all_map, List.all_eq_true, Function.comp_def]
        intro p hp
        rw [(stepOne_fixed c s p (hall p hp)).2]
        rfl

/-- the oracle form of (iv), as evaluated on the implementation. -/
theorem ensure_idempotent_oracle (c : Codec) (s : Strategy) (st : List Ref) :
    idemOK (ensureRoutes c s st).2 (ensureRoutes c s (ensureRoutes c s st).1).2
      (decide ((ensureRoutes c s (ensureRoutes c s st).1).1.map (·.obj) = (ensureRoutes c s st).1.map (·.obj))) = true := by
  cases h : (ensureRoutes c s st).2 with
  | err => simp [idemOK]
  | ok b =>
    have := ensure_idempotent c s st (ensureRoutes c s st).1 b (by rw [← h])
    simp [idemOK, this]

/-! ## non-vacuity of (i), (ii), (iv): a concrete codec, object and script satisfying every hypothesis
    (these `decide`s are *tests* on literals, not the ∀ claims) -/

/-- a VirtualService with one rule / one stable destination, `labels: {}`, no annotations. -/
def exObj : Obj :=
  { spec := some (.obj [("http", .arr [.obj [("route", .arr [.obj [("destination", .obj [("host", .str "svc")])]])]])])
    labels := some [], annotations := none }

/-- a codec that satisfies the round-trip assumption at `dataOf exObj` (and nowhere else). -/
def exCodec : Codec where
  enc d := if d = dataOf exObj then "orig" else "other"
  dec s := if s = "orig" then dataOf exObj else ⟨.null, [], []⟩

def exRefs : List (Option Script × Obj) := [(some (vsScript "svc" "svc-canary"), exObj)]

def exSplit (stableW canaryW : Int) : J :=
  .obj [("http", .arr [.obj [("route", .arr [
    .obj [("destination", .obj [("host", .str "svc")]), ("weight", .int stableW)],
    .obj [("destination", .obj [("host", .str "svc-canary")]), ("weight", .int canaryW)]])]])]

example : ∀ p, p ∈ exRefs → exCodec.LawfulOn (dataOf p.2) := by
  intro p hp
  simp only [exRefs, List.mem_singleton] at hp
  subst hp
  exact ⟨by simp [exCodec], by simp [exCodec]⟩

example : ∀ p, p ∈ exRefs → noOrig p.2 = true := by
  intro p hp
  simp only [exRefs, List.mem_singleton] at hp
  subst hp
  decide

/-- after the steps 20 % and 50 %, the step 30 % succeeds and writes 70 / 30 — not an accumulation. -/
example :
    ensureRoutes exCodec ⟨.pct 30, [], none⟩
      (ensureSeq exCodec [⟨.pct 20, [], none⟩, ⟨.pct 50, [], none⟩] (present exRefs))
    |>.1.map (·.obj)
    = [some { spec := some (exSplit 70 30), labels := none, annotations := some [(origKey, "orig")] }] := by decide

example :
    (ensureRoutes exCodec ⟨.pct 30, [], none⟩
      (ensureSeq exCodec [⟨.pct 20, [], none⟩, ⟨.pct 50, [], none⟩] (present exRefs))).2 = .ok false := by decide

/-- Finalise after three steps: the user's object up to `normalise` (here `labels: {}` became absent,
    so the normalisation is not the identity). -/
example :
    (finalise exCodec (ensureSeq exCodec [⟨.pct 20, [], none⟩, ⟨.pct 50, [], none⟩, ⟨.pct 30, [], none⟩] (present exRefs)))
    |>.1.map (·.obj) = [some (normalise exObj)] := by decide

example : normalise exObj ≠ exObj := by decide
example : normalise exObj = { exObj with labels := none } := by decide

/-- the same step again: done, nothing written. -/
example :
    let st := (ensureRoutes exCodec ⟨.pct 30, [], none⟩ (present exRefs)).1
    (ensureRoutes exCodec ⟨.pct 30, [], none⟩ (present exRefs)).2 = .ok false
    ∧ (ensureRoutes exCodec ⟨.pct 30, [], none⟩ st).2 = .ok true
    ∧ (ensureRoutes exCodec ⟨.pct 30, [], none⟩ st).1.map (·.obj) = st.map (·.obj) := by decide

/-! ## (iii) the built-in Istio scripts -/

/-- **C15 (iii) — VirtualService, weight step.**  Whenever the script succeeds on a weight step
    (`mts = []`), `vsWeightOK` holds between the spec the script sees and the spec it returns:
    per protocol (`http`, `tcp`, `tls`) the rule list keeps its length and order; a rule carrying
    `match`, and a rule all of whose destinations are other hosts, is untouched; a rule with a single
    destination that is the stable service (weight absent or 100) becomes stable `100-w` / canary `w`
    with all its other fields kept; every other field of the spec is untouched.  Labels and
    annotations are returned unchanged. -/
theorem vs_weight_step (stable canary : String) (d d' : Data) (s : Strategy) (hm : s.mts = [])
    (h : vsScript stable canary d s = some d') :
    vsWeightOK stable canary (canaryWeight s) (decJ d.spec) d'.spec = true
    ∧ d'.labels = d.labels ∧ d'.annotations = d.annotations :=
  vsScript_weight_ok stable canary d d' s hm h

/-- the split itself, in plain terms: one rule, one destination, host = stable service. -/
theorem vs_single_stable_split (stable canary : String) (w : Int) (hw : w ≠ -1)
    (kvs r : List (String × J)) (h : singleStable stable (.obj kvs) = some (kvs, r)) :
    patchRule stable canary (100 - w) w (.obj kvs)
      = some (.obj (setKey "route" (.arr [.obj (setKey "weight" (.int (100 - w)) r),
                                           canaryDest stable canary w]) kvs)) := by
  have := patchRule_single stable canary w kvs r h
  simpa [vsStableW, vsCanaryW, hw, splitRule] using this

/-- non-vacuity / test: the repository's own fixture shape, weight 5. -/
example : vsScript "echoserver" "echoserver-canary"
    { spec := .obj [("hosts", .arr [.str "echoserver.example.com"]),
                    ("http", .arr [.obj [("route", .arr [.obj [("destination", .obj [("host", .str "echoserver")])]])]])],
      labels := [], annotations := [("virtual", "test")] } ⟨.pct 5, [], none⟩
  = some { spec := .obj [("hosts", .arr [.str "echoserver.example.com"]),
                    ("http", .arr [.obj [("route", .arr [
                      .obj [("destination", .obj [("host", .str "echoserver")]), ("weight", .int 95)],
                      .obj [("destination", .obj [("host", .str "echoserver-canary")]), ("weight", .int 5)]])]])],
           labels := [], annotations := [("virtual", "test")] } := by decide

/-- **C15 (iii) — VirtualService, match step.**  Whenever `GenerateRoutesWithMatches` succeeds on a
    spec object, the new `http` list is one generated rule per match followed by *all* the user's
    rules, unchanged and in order; no other field of the spec is touched (`tcp` / `tls` included). -/
theorem vs_match_step_keeps_rules (stable canary : String) (hm : Option HeaderMod) (mts : List HttpMatch)
    (kvs : List (String × J)) (S' : J) (h : genMatches stable canary hm mts (.obj kvs) = some S') :
    ∃ routes rules, routes.length = mts.length
      ∧ (lookup "http" kvs = some (.arr rules) ∨ (lookup "http" kvs = some (.obj []) ∧ rules = []))
      ∧ S' = .obj (setKey "http" (.arr (routes ++ rules)) kvs) := by
  simp only [genMatches, fields?] at h
  cases hv : mts.mapM vsMatchOf with
  | none => simp [hv] at h
  | some vms =>
    have hlen : vms.length = mts.length := mapM_option_length _ _ _ hv
    cases hl : lookup "http" kvs with
    | none => simp [hl] at h
    | some v =>
      cases v with
      | arr rules =>
        simp [hl, hv] at h
        exact ⟨(vms.map (matchRoute stable canary hm)).reverse, rules, by simp [hlen], .inl rfl, h.symm⟩
      | obj o =>
        cases o with
        | nil =>
          simp [hl, hv] at h
          exact ⟨(vms.map (matchRoute stable canary hm)).reverse, [], by simp [hlen], .inr ⟨rfl, rfl⟩,
            by simpa using h.symm⟩
        | cons _ _ => simp [hl, hv] at h
      | null => simp [hl] at h
      | bool _ => simp [hl] at h
      | int _ => simp [hl] at h
      | str _ => simp [hl] at h

/-- non-vacuity / test of the match step: header match + DestinationRule mode (canary = stable). -/
example : genMatches "svc" "svc" none [⟨none, [⟨some "Exact", "user", "x"⟩], []⟩]
    (.obj [("http", .arr [.obj [("route", .arr [.obj [("destination", .obj [("host", .str "svc")])]])]])])
  = some (.obj [("http", .arr [
      .obj [("match", .arr [.obj [("headers", .obj [("user", .obj [("exact", .str "x")])])]]),
            ("route", .arr [.obj [("destination", .obj [("host", .str "svc"), ("subset", .str "canary")])]])],
      .obj [("route", .arr [.obj [("destination", .obj [("host", .str "svc")])]])]])]) := by decide

/-- **C15 (iii) — DestinationRule.**  Whenever the script succeeds, exactly the canary subset is
    appended to `subsets` and every other field of the spec is kept (`drOK`); labels and annotations
    are returned unchanged. -/
theorem dr_adds_canary_subset (d d' : Data) (s : Strategy) (h : drScript d s = some d') :
    drOK (decJ d.spec) d'.spec = true ∧ d'.labels = d.labels ∧ d'.annotations = d.annotations :=
  drScript_ok d d' s h

example : drScript
    { spec := .obj [("host", .str "mockb"), ("subsets", .arr [.obj [("name", .str "version-base")]])],
      labels := [], annotations := [] } ⟨.pct 5, [], none⟩
  = some { spec := .obj [("host", .str "mockb"),
                         ("subsets", .arr [.obj [("name", .str "version-base")], canarySubset])],
           labels := [], annotations := [] } := by decide

end RV.Props.C15
