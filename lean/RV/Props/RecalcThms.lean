import RV.Props.ReconcileThms
import RV.Oracle.RolloutSM
/-!
# C01 across edits of the plan — `recalculateCanaryStep` covers what was already released

`recalc_covers`: the index `recalculateCanaryStep` returns is a step of the new plan whose replicas are at least what
the BatchRelease's `batchPartition` had authorised under the old plan, whenever the new plan has such a step.
`inRolling_recalc_covers`: the plan-changed branch of `doProgressingInRolling` leaves the rollout on that step or about
to move to it.  Every plan, every replica count, every BatchRelease.
-/
namespace RV.Props.Recalc
open RV.Arith RV.Traffic RV.RolloutSM RV.Oracle.RolloutSM RV.Props.Rollout RV.Props.Reconcile

/-- the loop of `recalculateCanaryStep`: if some visited step suffices, the returned (1-based) index is such a step -/
theorem go_covers (ro : Rollout) (wl : WL) (cr : Int) (order : List Nat) (acc : Int)
    (hex : ∃ i ∈ order, ∃ st, ro.steps[i]? = some st ∧ cr ≤ scaledV st.replicas wl.replicas true)
    (hord : ∀ i ∈ order, i < ro.steps.length) :
    ∃ st, ro.steps[(recalculateCanaryStep.go ro wl cr order acc - 1).toNat]? = some st ∧
      cr ≤ scaledV st.replicas wl.replicas true ∧ 1 ≤ recalculateCanaryStep.go ro wl cr order acc := by
  induction order generalizing acc with
  | nil => obtain ⟨i, hi, _⟩ := hex; cases hi
  | cons i is ih =>
    have hi := hord i (by simp)
    unfold recalculateCanaryStep.go
    have hget : ro.steps[i]? = some ro.steps[i] := by simp [hi]
    rw [hget]
    dsimp only
    split
    · rename_i hc
      refine ⟨ro.steps[i], ?_, hc, by omega⟩
      have : ((i : Int) + 1 - 1).toNat = i := by omega
      rw [this]; exact hget
    · rename_i hc
      apply ih
      · obtain ⟨j, hj, st, hst, hcov⟩ := hex
        rcases List.mem_cons.mp hj with h | h
        · subst h; rw [hget] at hst; cases hst; exact absurd hcov hc
        · exact ⟨j, h, st, hst, hcov⟩
      · intro j hj; exact hord j (by simp [hj])

/-- every step index of the plan is visited by `recalculateCanaryStep` -/
theorem order_complete (n : Nat) (c : Int) (i : Nat) (hi : i < n) :
    i ∈ ((if c ≥ 0 ∧ c < n then [c.toNat] else []) ++ (List.range n).filter (fun (j : Nat) => decide ((j : Int) ≠ c))) := by
  by_cases h : (i : Int) = c
  · apply List.mem_append_left
    have hc : c ≥ 0 ∧ c < (n : Int) := by omega
    rw [if_pos hc]
    simp; omega
  · apply List.mem_append_right
    simp [List.mem_filter, hi, h]

theorem order_bound (n : Nat) (c : Int) :
    ∀ i ∈ ((if c ≥ 0 ∧ c < n then [c.toNat] else []) ++ (List.range n).filter (fun (j : Nat) => decide ((j : Int) ≠ c))), i < n := by
  intro i hi
  rcases List.mem_append.mp hi with h | h
  · split at h
    · rename_i hc; simp at h; omega
    · cases h
  · simp [List.mem_filter] at h; exact h.1

/-- **`recalculateCanaryStep` covers what was released**: for every plan, status, workload and BatchRelease whose
    partition points into its own plan — if some step of the (new) plan allows at least the replicas the BatchRelease's
    partition entry stands for, the recalculated index is such a step. -/
theorem recalc_covers (ro : Rollout) (s : Sub) (wl : WL) (b : BR) (rel k : Int)
    (hk : recalculateCanaryStep ro s wl (some b) = some k) (hrel : releasedByBR b wl = some rel)
    (hex : (List.range ro.steps.length).any (fun i => coversIdx ro wl rel ((i : Int) + 1)) = true) :
    coversIdx ro wl rel k = true := by
  unfold releasedByBR at hrel
  unfold recalculateCanaryStep at hk
  dsimp only at hk
  cases hp : b.partition with
  | none => rw [hp] at hrel; cases hrel
  | some p =>
    rw [hp] at hrel hk
    dsimp only at hrel hk
    by_cases hneg : p < 0
    · rw [if_pos hneg] at hrel; cases hrel
    · rw [if_neg hneg] at hrel hk
      cases he : b.batches[p.toNat]? with
      | none => rw [he] at hrel; cases hrel
      | some e =>
        rw [he] at hrel hk
        simp only [Option.map_some, Option.some.injEq] at hrel hk
        subst hrel
        -- a covering step exists in the visiting order
        rw [List.any_eq_true] at hex
        obtain ⟨i, hi, hcov⟩ := hex
        have hin : i < ro.steps.length := by simpa using hi
        unfold coversIdx stepReplicas at hcov
        rw [if_neg (by omega)] at hcov
        have hidx : ((i : Int) + 1 - 1).toNat = i := by omega
        rw [hidx] at hcov
        have hget : ro.steps[i]? = some ro.steps[i] := by simp [hin]
        rw [hget] at hcov
        simp only [Option.map_some, decide_eq_true_eq] at hcov
        obtain ⟨st, hst, hc, h1⟩ := go_covers ro wl (scaledV e wl.replicas true)
          ((if s.curIdx - 1 ≥ 0 ∧ s.curIdx - 1 < ro.steps.length then [(s.curIdx - 1).toNat] else []) ++
            (List.range ro.steps.length).filter (fun (j : Nat) => decide ((j : Int) ≠ s.curIdx - 1))) 0
          ⟨i, order_complete _ _ i hin, ro.steps[i], hget, hcov⟩ (order_bound _ _)
        subst hk
        unfold coversIdx stepReplicas
        rw [if_neg (by omega), hst]
        simp [hc]

/-- what one round of `doProgressingInRolling` does on the plan-changed branch -/
theorem inRolling_recalc_covers (w : World) (old ns : Rollout) (s os : Sub) (wl : WL) (b : BR) (r : StepResult) (s' : Sub) (rel : Int)
    (hold : old.sub = some os) (hbr : w.br = some b)
    (h : inRolling w old ns s wl = .val r) (hs' : r.w.ro.sub = some s')
    (hnp : ns.paused = false) (hnr : wl.inRollback = false) (hrev : wl.canaryRev = os.canaryRev) (hhash : os.hash = .differs)
    (hrel : releasedByBR b wl = some rel)
    (hex : (List.range ns.steps.length).any (fun i => coversIdx ns wl rel ((i : Int) + 1)) = true) :
    coversIdx ns wl rel s'.curIdx = true ∨ coversIdx ns wl rel s'.nextIdx = true := by
  unfold inRolling at h
  dsimp only at h
  rw [hold] at h
  dsimp only at h
  rw [if_neg (by simp [hnr]), if_neg (by simp [hnp]), if_neg (by simp [hnr]), if_neg (by simp [hrev]),
    if_pos (by simp [hhash])] at h
  rw [hbr] at h
  split at h
  · cases h
  · rename_i newIdx hk
    have hcov := recalc_covers ns s wl b rel newIdx hk hrel hex
    split at h
    · rename_i heq
      cases h; dsimp only at hs'; cases hs'
      right; dsimp only; rw [heq]; exact hcov
    · split at h
      · cases h
      · rename_i s2 j hj
        cases h; dsimp only at hs'; cases hs'
        obtain ⟨j1, j2⟩ := jump_spec _ _ _ _ hj
        cases j with
        | false => have := j1 rfl; subst this; right; exact hcov
        | true =>
          obtain ⟨_, _, _, j4, _, _, _⟩ := j2 rfl
          left; rw [j4]; exact hcov


theorem coversIdx_congr (ro ro' : Rollout) (wl : WL) (rel i : Int) (h : ro'.steps = ro.steps) :
    coversIdx ro' wl rel i = coversIdx ro wl rel i := by
  unfold coversIdx stepReplicas; rw [h]

/-- **C01, across edits of the plan (whole reconcile)** — for every world: when the plan was edited while a step is in
    progress, the reconcile that takes the new plan up leaves the rollout on, or about to move to, a step of the new plan
    that allows at least what the BatchRelease's partition had already authorised under the old plan (if the new plan has
    such a step).  What counts is the *partition* the Rollout wrote, not the batch the BatchRelease happens to have reached. -/
theorem recalc_covers_released_core (w : World) (r : StepResult) (h : reconcileCore w = .val r) : recalcCovers w r = true := by
  unfold recalcCovers
  cases hw : w.wl with
  | none => rfl
  | some wl =>
  cases hos : w.ro.sub with
  | none => rfl
  | some os =>
  cases hs' : r.w.ro.sub with
  | none => rfl
  | some s' =>
  cases hb : w.br with
  | none => rfl
  | some b =>
  dsimp only
  split
  · rename_i hc
    obtain ⟨hnow, hnp, hcons, hnr, hrev, hhash, hrr, hne⟩ := hc
    unfold inRollingNow at hnow
    simp only [Bool.and_eq_true, decide_eq_true_eq, Bool.not_eq_true'] at hnow
    obtain ⟨⟨hph, hr⟩, hndel⟩ := hnow
    cases hrel : releasedByBR b wl with
    | none => rfl
    | some rel =>
      dsimp only
      split
      · rename_i hex
        obtain ⟨ns, s, hsame, hs, hcore, hreason, hrec⟩ := reconcile_inRolling_core w wl os hph hr hw hcons hos
        rw [hrec] at h
        split at h
        · cases h
        · rename_i r0 hir
          split at h
          · cases h; simp at hne
          · cases h
            have hsteps : ns.steps = w.ro.steps := hsame.1
            have hex' : (List.range ns.steps.length).any (fun i => coversIdx ns wl rel ((i : Int) + 1)) = true := by
              rw [hsteps]
              rw [List.any_eq_true] at hex ⊢
              obtain ⟨i, hi, hcv⟩ := hex
              exact ⟨i, hi, by rw [coversIdx_congr w.ro ns wl rel _ hsteps]; exact hcv⟩
            have := inRolling_recalc_covers w w.ro ns s os wl b r0 s' rel hos hb hir hs'
              (by rw [hsame.2.2.2.1]; simpa using hnp) (by simpa using hnr) hrev hhash hrel hex'
            rw [coversIdx_congr w.ro ns wl rel _ hsteps, coversIdx_congr w.ro ns wl rel _ hsteps] at this
            rcases this with h1 | h1 <;> simp [h1]
      · rfl
  · rfl

/-! ### the whole reconcile (body + cursor reset, see `RV.Props.Reconcile`, section Transfer) -/

theorem recalcCovers_reset (w : World) (r : StepResult) : recalcCovers w (resetOnExit w r) = recalcCovers w r := by
  unfold recalcCovers; reset_frame
  cases w.wl <;> cases w.ro.sub <;> cases r.w.ro.sub <;> cases w.br <;> rfl

/-- **C01, across edits of the plan (whole reconcile)** — for every world: when the plan was edited while a step is in
    progress, the reconcile that takes the new plan up leaves the rollout on, or about to move to, a step of the new plan
    that covers what the BatchRelease was authorised to release under the old one (see `recalc_covers_released_core`). -/
theorem recalc_covers_released (w : World) (r : StepResult) (h : reconcile w = .val r) : recalcCovers w r = true :=
  transfer recalcCovers recalcCovers_reset recalc_covers_released_core w r h

end RV.Props.Recalc
