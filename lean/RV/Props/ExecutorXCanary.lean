import RV.Props.ExecutorXThms
import RV.Props.CtlCanaryThms
/-!
# The canary-style Deployment plane is a lawful plane (`Laws`, `ExposureLaws`)

`RV.ExecutorX.canaryPlane` is a thin adapter over the plane model `RV.CtlCanary` (no fault, this BatchRelease's workload
has name 0, a fresh plane object per call).  The laws are derived from that model's own theorems
(`RV.Props.CtlCanary.finalize_ok_means_gone`, `finalize_releases_stable`) and specifications
(`RV.CtlCanary.planeInitialize` / `planeUpgradeBatch_spec` / `buildCanary_spec` …); the only hypothesis on worlds is the
API-server fact that object names are unique (`canaryPreds.wf = namesNodup`).
-/
namespace RV.Props.ExecutorX
open RV.Arith RV.BatchCtx RV.Executor RV.ExecutorX RV.Oracle.ExecutorX

/-! ## the adapter, unfolded -/

/-- the plane object the adapter starts every call from is the model's fresh plane object -/
theorem canaryS_eq (w : CanaryW) : canaryS w = CtlCanary.S0 w.w w.exp := rfl

theorem canaryRes_ok (r : CtlCanary.Res) : canaryRes r = .val .ok ↔ r = .ok := by
  cases r <;> simp [canaryRes]

theorem canaryRes_err (r : CtlCanary.Res) : canaryRes r = .val .err → r ≠ .ok := by
  cases r <;> simp [canaryRes]

/-- a `Finalize` of the adapter that returns nil is a `Finalize` of the model that returns nil, on the same world -/
theorem canary_fin_ok {br : BR} {w w' : CanaryW} (h : canaryPlane.fin br w = .val (w', .ok)) :
    (CtlCanary.call (canaryBR br w) .fin (canaryCfg w) w.w w.exp).res = .ok ∧
    w'.w = (CtlCanary.call (canaryBR br w) .fin (canaryCfg w) w.w w.exp).w := by
  have h' : (match canaryRes (CtlCanary.planeFinalize (canaryCfg w) (canaryBR br w) (canaryS w)).2 with
      | .panic => Out.panic
      | .val c => .val (canaryAfter w (CtlCanary.planeFinalize (canaryCfg w) (canaryBR br w) (canaryS w)).1, c)) =
      .val (w', .ok) := h
  cases hr : (CtlCanary.planeFinalize (canaryCfg w) (canaryBR br w) (canaryS w)).2 <;>
    rw [hr] at h' <;> simp only [canaryRes] at h' <;> try (cases h'; done)
  · simp only [Out.val.injEq, Prod.mk.injEq] at h'
    exact ⟨hr, by rw [← h'.1]; rfl⟩
  all_goals (simp only [Out.val.injEq, Prod.mk.injEq] at h'; exact absurd h'.2 (by decide))

/-! ## `Laws`: the three direct fields -/

/-- `EnsureBatchPodsReadyAndLabeled` returns nil exactly when the model's `planeEnsureReady` says ok -/
theorem canary_ensure_ok_iff (br : BR) (ns : Status) (w : CanaryW) :
    canaryPlane.ensure br ns w = .val .ok ↔ canaryPreds.ready br w = true := by
  show canaryRes (CtlCanary.planeEnsureReady (canaryCfg w) (canaryBR br w) (canaryS w)).2 = .val .ok ↔
    decide ((CtlCanary.planeEnsureReady (canaryCfg w) (canaryBR br w) (canaryS w)).2 = .ok) = true
  rw [canaryRes_ok]; simp

/-- `Finalize` returning nil: the stable Deployment carries no control-info (or is gone) and no owned Deployment carries
    the batch-release finalizer -/
theorem canary_fin_ok_released (br : BR) (w w' : CanaryW) (hwf : canaryPreds.wf w = true)
    (h : canaryPlane.fin br w = .val (w', .ok)) : canaryPreds.released br w' = true := by
  have hnd : RV.Oracle.CtlCanary.namesNodup w.w = true := hwf
  obtain ⟨hres, hw'⟩ := canary_fin_ok h
  have hgone := CtlCanary.finalize_ok_means_gone (canaryBR br w) .fin (canaryCfg w) w.w w.exp hnd
  have hrel := CtlCanary.finalize_releases_stable (canaryBR br w) .fin (canaryCfg w) w.w w.exp hnd
  unfold RV.Oracle.CtlCanary.finalizeOkMeansGone at hgone
  unfold RV.Oracle.CtlCanary.finalizeReleasesStable at hrel
  rw [if_pos ⟨rfl, hres⟩] at hgone hrel
  rw [← hw'] at hgone hrel
  show ((match w'.w.find 0 with
     | none => true
     | some st => decide (st.ctrl = .none)) &&
    w'.w.deps.all (fun d => !(RV.Oracle.CtlCanary.owned d && d.finalizer))) = true
  rw [hgone, Bool.and_true]
  have hk : (canaryBR br w).key = 0 := rfl
  rw [hk] at hrel
  cases hf : w'.w.find 0 with
  | none => rfl
  | some st =>
    rw [hf] at hrel
    simp only [Bool.and_eq_true] at hrel
    exact hrel.1

/-- `Initialize` records observed replicas and the two revisions only -/
theorem canary_init_frame : InitFrame canaryPlane := by
  intro br ns w w' ns' r h
  have h' : (match (CtlCanary.planeInitialize (canaryCfg w) (canaryBR br w) (canaryS w)).2.1,
        (CtlCanary.planeInitialize (canaryCfg w) (canaryBR br w) (canaryS w)).2.2 with
      | .panic, _ => Out.panic
      | .ok, some st =>
        .val (canaryAfter w (CtlCanary.planeInitialize (canaryCfg w) (canaryBR br w) (canaryS w)).1,
              { ns with observedReplicas := st.observedReplicas, stableRevision := "",
                        updateRevision := tplToken st.updateRevision }, CallResult.ok)
      | _, _ => .val (canaryAfter w (CtlCanary.planeInitialize (canaryCfg w) (canaryBR br w) (canaryS w)).1, ns, .err)) =
      .val (w', ns', r) := h
  split at h'
  · cases h'
  · simp only [Out.val.injEq, Prod.mk.injEq] at h'
    obtain ⟨_, rfl, _⟩ := h'
    exact ⟨rfl, rfl, rfl, rfl, rfl⟩
  · simp only [Out.val.injEq, Prod.mk.injEq] at h'
    obtain ⟨_, rfl, _⟩ := h'
    exact ⟨rfl, rfl, rfl, rfl, rfl⟩

/-! ## `Laws.init_ok_claimed`: what a successful `Initialize` of the model leaves behind -/

section model
open RV.CtlCanary RV.Oracle.CtlCanary

/-- `stable.Initialize` returning nil: the object read was under this BatchRelease's control already (nothing written),
    or the control-info was written -/
theorem canary_stableInitialize_ok (c : Cfg) (br : CtlCanary.BR) (s : S) (st : Dep) (h : (stableInitialize c br s st).2 = .ok) :
    (isControlledBy st = true ∧ (stableInitialize c br s st).1.w = s.w) ∨
    (stableInitialize c br s st).1.w = s.w.modify br.key setCtrl := by
  unfold stableInitialize at h ⊢
  by_cases hc : isControlledBy st = true
  · left; rw [if_pos hc]; exact ⟨hc, rfl⟩
  · right
    rw [if_neg hc] at h ⊢
    dsimp only at h ⊢
    by_cases ht : (c.tick true s.n).1 = true
    · rw [if_pos ht] at h; cases h
    · rw [if_neg ht]; rfl

/-- the end of `Initialize` returns nil only when the canary object was already found, and then it writes nothing -/
theorem canary_initTail_ok (c : Cfg) (br : CtlCanary.BR) (s : S) (st : Dep) (h : (initTail c br s st).2.1 = .ok) :
    s.canary ≠ none ∧ (initTail c br s st).1 = s := by
  unfold initTail at h ⊢
  have hcr := (canaryCreate_spec c br s).2.2.2.1
  generalize canaryCreate c br s = r4 at hcr h ⊢
  obtain ⟨s4, o4⟩ := r4
  cases o4 <;> dsimp only at h hcr ⊢
  · obtain ⟨h1, h2⟩ := hcr rfl
    subst h2
    refine ⟨h1, ?_⟩
    split <;> rfl
  all_goals cases h

/-- **a successful `Initialize` of the model**: in the world it leaves, the workload is under this BatchRelease's control
    and an owned Deployment that is not being deleted (the canary `BuildCanaryController` found) exists -/
theorem canary_planeInitialize_ok (c : Cfg) (br : CtlCanary.BR) (w : World) (exp : Exp)
    (h : (planeInitialize c br (S0 w exp)).2.1 = .ok) :
    ∃ st cd, (planeInitialize c br (S0 w exp)).1.w.find br.key = some st ∧ isControlledBy st = true ∧
      cd ∈ (planeInitialize c br (S0 w exp)).1.w.deps ∧ cd.owner = .this ∧ cd.deleting = false := by
  unfold planeInitialize at h ⊢
  have hb := buildStable_spec c br (S0 w exp)
  have hno := buildStable_not_failok c br (S0 w exp)
  generalize buildStable c br (S0 w exp) = r1 at hb hno h ⊢
  obtain ⟨s1, o1⟩ := r1
  simp only [S0] at hb hno
  obtain ⟨hw1, _, hca1, _, hok, _, _⟩ := hb
  cases o1 with
  | fail x => dsimp only at h; subst h; exact absurd rfl hno
  | ok st0 =>
    dsimp only at h ⊢
    obtain ⟨hs1, h2⟩ := hok st0 rfl
    have hfind : w.find br.key = some st0 := by
      rcases h2 with h2 | ⟨_, h2, _⟩
      · cases h2
      · exact h2
    have hi := stableInitialize_spec c br s1 st0
    have hi2 := canary_stableInitialize_ok c br s1 st0
    generalize stableInitialize c br s1 st0 = r2 at hi hi2 h ⊢
    obtain ⟨s2, o2⟩ := r2
    simp only at hi hi2
    obtain ⟨_, _, hst2, hca2, _, _⟩ := hi
    cases o2
    case ok =>
      dsimp only at h ⊢
      -- the stable Deployment in the world after `stable.Initialize`
      have hstable : ∃ st, s2.w.find br.key = some st ∧ isControlledBy st = true := by
        rcases hi2 rfl with ⟨hc, hw2⟩ | hw2
        · exact ⟨st0, by rw [hw2, hw1]; exact hfind, hc⟩
        · refine ⟨setCtrl st0, ?_, by simp [isControlledBy, setCtrl]⟩
          rw [hw2, hw1, find_modify w br.key br.key setCtrl (fun _ => rfl), hfind]
          simp [(find_some hfind).2]
      have hcan2 : s2.canary = none := by rw [hca2, hca1]
      have hc := buildCanary_spec c br s2 hcan2
      generalize buildCanary c br s2 = r3 at hc h ⊢
      obtain ⟨s3, o3⟩ := r3
      simp only at hc
      obtain ⟨hw3, _, _, _, hokc, _, hfailc⟩ := hc
      have key : (initTail c br s3 st0).2.1 = .ok →
          ∃ st cd, (initTail c br s3 st0).1.w.find br.key = some st ∧ isControlledBy st = true ∧
            cd ∈ (initTail c br s3 st0).1.w.deps ∧ cd.owner = .this ∧ cd.deleting = false := by
        intro hok3
        obtain ⟨hsome, heq⟩ := canary_initTail_ok c br s3 st0 hok3
        rw [heq, hw3]
        cases o3 with
        | fail x => exact absurd (hfailc x rfl) hsome
        | ok cd =>
          obtain ⟨_, _, hsel⟩ := hokc cd rfl
          have h1 := filterCanary_mem hsel
          unfold filterActive at h1
          obtain ⟨h2, h3⟩ := List.mem_filter.mp h1
          unfold ownedDeps at h2
          obtain ⟨h4, h5⟩ := List.mem_filter.mp h2
          obtain ⟨st, hst, hctl⟩ := hstable
          exact ⟨st, cd, hst, hctl, h4, by simpa using h5, by simpa using h3⟩
      cases o3 with
      | ok cd => exact key h
      | fail x => cases x <;> first | exact key h | cases h
    all_goals cases h

end model

/-- an `Initialize` of the adapter that returns nil is an `Initialize` of the model that returns nil, on the same world -/
theorem canary_init_ok {br : BR} {ns ns' : Status} {w w' : CanaryW} (h : canaryPlane.init br ns w = .val (w', ns', .ok)) :
    (CtlCanary.planeInitialize (canaryCfg w) (canaryBR br w) (CtlCanary.S0 w.w w.exp)).2.1 = .ok ∧
    w'.w = (CtlCanary.planeInitialize (canaryCfg w) (canaryBR br w) (CtlCanary.S0 w.w w.exp)).1.w := by
  have h' : (match (CtlCanary.planeInitialize (canaryCfg w) (canaryBR br w) (canaryS w)).2.1,
        (CtlCanary.planeInitialize (canaryCfg w) (canaryBR br w) (canaryS w)).2.2 with
      | .panic, _ => Out.panic
      | .ok, some st =>
        .val (canaryAfter w (CtlCanary.planeInitialize (canaryCfg w) (canaryBR br w) (canaryS w)).1,
              { ns with observedReplicas := st.observedReplicas, stableRevision := "",
                        updateRevision := tplToken st.updateRevision }, CallResult.ok)
      | _, _ => .val (canaryAfter w (CtlCanary.planeInitialize (canaryCfg w) (canaryBR br w) (canaryS w)).1, ns, .err)) =
      .val (w', ns', .ok) := h
  rw [← canaryS_eq]
  split at h'
  · cases h'
  · rename_i hres _
    simp only [Out.val.injEq, Prod.mk.injEq] at h'
    exact ⟨hres, by rw [← h'.1]; rfl⟩
  · simp only [Out.val.injEq, Prod.mk.injEq] at h'
    exact absurd h'.2.2 (by decide)

/-- a successful `Initialize` leaves the stable Deployment under this BatchRelease's control, and a canary Deployment of it
    (owned, not being deleted) exists -/
theorem canary_init_ok_claimed (br : BR) (ns : Status) (w w' : CanaryW) (ns' : Status)
    (h : canaryPlane.init br ns w = .val (w', ns', .ok)) : canaryPreds.claimed br w w' = true := by
  obtain ⟨hres, hw'⟩ := canary_init_ok h
  obtain ⟨st, cd, hst, hctl, hcd, hown, hdel⟩ := canary_planeInitialize_ok _ _ _ _ hres
  rw [← hw'] at hst hcd
  have hk : (canaryBR br w).key = 0 := rfl
  rw [hk] at hst
  show ((match w'.w.find 0 with
     | some st => CtlCanary.isControlledBy st
     | none => false) &&
    w'.w.deps.any (fun d => RV.Oracle.CtlCanary.owned d && !d.deleting)) = true
  rw [hst]
  simp only [hctl, Bool.true_and, List.any_eq_true]
  exact ⟨cd, hcd, by simp [RV.Oracle.CtlCanary.owned, hown, hdel]⟩

/-- **The canary-style Deployment plane is a lawful plane.** -/
theorem canaryLaws : Laws canaryPlane canaryPreds where
  ensure_ok_iff := fun br ns w _ => canary_ensure_ok_iff br ns w
  fin_ok_released := canary_fin_ok_released
  init_frame := canary_init_frame
  init_ok_claimed := fun br ns w w' ns' _ h => canary_init_ok_claimed br ns w w' ns' h

/-! ## `ExposureLaws`: exposure = the largest `spec.replicas` among the Deployments this BatchRelease owns -/

theorem canary_foldl_max_le (l : List Int) (a b : Int) : l.foldl max a ≤ b ↔ a ≤ b ∧ ∀ x ∈ l, x ≤ b := by
  induction l generalizing a with
  | nil => simp
  | cons y ys ih =>
    simp only [List.foldl_cons, ih, List.mem_cons, forall_eq_or_imp]
    constructor
    · rintro ⟨h1, h2⟩; exact ⟨by omega, by omega, h2⟩
    · rintro ⟨h1, h2, h3⟩; exact ⟨by omega, h3⟩

/-- the exposure of a world of Deployments (`canaryPreds.exposure w = canaryExpo w.w`, by `rfl`) -/
def canaryExpo (w : CtlCanary.World) : Int := (canaryOwnedReplicas w).foldl max 0

section model
open RV.CtlCanary RV.Oracle.CtlCanary

/-- the exposure is the least bound `≥ 0` of the replicas of the owned Deployments -/
theorem canaryExpo_le (w : World) (b : Int) :
    canaryExpo w ≤ b ↔ 0 ≤ b ∧ ∀ d ∈ w.deps, d.owner = .this → d.replicas.getD 0 ≤ b := by
  unfold canaryExpo canaryOwnedReplicas
  rw [canary_foldl_max_le]
  simp only [List.mem_map, List.mem_filter, owned, decide_eq_true_eq]
  constructor
  · rintro ⟨h0, h⟩
    exact ⟨h0, fun d hd ho => h _ ⟨d, ⟨hd, ho⟩, rfl⟩⟩
  · rintro ⟨h0, h⟩
    refine ⟨h0, ?_⟩
    rintro x ⟨d, ⟨hd, ho⟩, rfl⟩
    exact h d hd ho

theorem canaryExpo_nonneg (w : World) : 0 ≤ canaryExpo w := ((canaryExpo_le w _).mp (Int.le_refl _)).1

theorem le_canaryExpo {w : World} {d : Dep} (hd : d ∈ w.deps) (ho : d.owner = .this) : d.replicas.getD 0 ≤ canaryExpo w :=
  ((canaryExpo_le w _).mp (Int.le_refl _)).2 d hd ho

theorem canary_mem_modify {w : World} {id : Nat} {f : Dep → Dep} {d' : Dep} :
    d' ∈ (w.modify id f).deps ↔ ∃ d ∈ w.deps, d' = if d.name = id then f d else d := by
  unfold World.modify
  simp only [List.mem_map]
  constructor
  · rintro ⟨d, hd, rfl⟩; exact ⟨d, hd, rfl⟩
  · rintro ⟨d, hd, rfl⟩; exact ⟨d, hd, rfl⟩

/-- a write that touches neither owner nor `spec.replicas` does not raise the exposure -/
theorem canaryExpo_modify_le (w : World) (id : Nat) (f : Dep → Dep)
    (hf : ∀ d, (f d).owner = d.owner ∧ (f d).replicas = d.replicas) : canaryExpo (w.modify id f) ≤ canaryExpo w := by
  rw [canaryExpo_le]
  refine ⟨canaryExpo_nonneg w, ?_⟩
  intro d' hd' ho'
  obtain ⟨d, hd, rfl⟩ := canary_mem_modify.mp hd'
  by_cases hn : d.name = id
  · rw [if_pos hn] at ho' ⊢
    rw [(hf d).1] at ho'; rw [(hf d).2]; exact le_canaryExpo hd ho'
  · rw [if_neg hn] at ho' ⊢
    exact le_canaryExpo hd ho'

/-- a new Deployment with `spec.replicas = 0` does not raise the exposure -/
theorem canaryExpo_add_le (w : World) (cd : Dep) (h0 : cd.replicas = some 0) : canaryExpo (w.add cd) ≤ canaryExpo w := by
  rw [canaryExpo_le]
  refine ⟨canaryExpo_nonneg w, ?_⟩
  intro d' hd' ho'
  unfold World.add at hd'
  rcases List.mem_append.mp hd' with hd | hd
  · exact le_canaryExpo hd ho'
  · simp only [List.mem_singleton] at hd
    subst hd
    rw [h0]; exact canaryExpo_nonneg w

/-- `Initialize` of the model (whatever it returns) does not raise the exposure -/
theorem canary_planeInitialize_expo (c : Cfg) (br : CtlCanary.BR) (w : World) (exp : Exp) :
    canaryExpo (planeInitialize c br (S0 w exp)).1.w ≤ canaryExpo w := by
  obtain ⟨w1, hw1, hres⟩ := planeInitialize_spec c br w exp
  have h1 : canaryExpo w1 ≤ canaryExpo w := by
    rcases hw1 with rfl | ⟨_, rfl⟩
    · exact Int.le_refl _
    · exact canaryExpo_modify_le w br.key setCtrl (fun _ => ⟨rfl, rfl⟩)
  rcases hres with h | ⟨st, cd, _, hnew, _, h, _⟩
  · rw [h]; exact h1
  · rw [h]
    obtain ⟨tp, _, rfl⟩ := newCanary_some hnew
    exact Int.le_trans (canaryExpo_add_le w1 _ rfl) h1

/-- raising the replicas of one owned Deployment from `cur` to `t > cur`: the exposure does not fall … -/
theorem canaryExpo_setReplicas_ge {w : World} {cd : Dep} {t cur : Int} (hnd : (names w).Nodup) (hcd : cd ∈ w.deps)
    (hcur : cd.replicas = some cur) (hlt : cur < t) :
    canaryExpo w ≤ canaryExpo (w.modify cd.name (setReplicas t)) := by
  rw [canaryExpo_le]
  refine ⟨canaryExpo_nonneg _, ?_⟩
  intro d hd ho
  have hmem : (if d.name = cd.name then setReplicas t d else d) ∈ (w.modify cd.name (setReplicas t)).deps :=
    canary_mem_modify.mpr ⟨d, hd, rfl⟩
  by_cases hn : d.name = cd.name
  · have hdcd : d = cd := by
      have h1 := find_of_mem hnd hd
      have h2 := find_of_mem hnd hcd
      rw [hn, h2] at h1
      cases h1; rfl
    subst hdcd
    rw [if_pos hn] at hmem
    have := le_canaryExpo hmem ho
    simp only [setReplicas, Option.getD_some] at this
    rw [hcur]; simp only [Option.getD_some]; omega
  · rw [if_neg hn] at hmem
    exact le_canaryExpo hmem ho

/-- … and rises at most to `t` -/
theorem canaryExpo_setReplicas_le (w : World) (id : Nat) (t : Int) :
    canaryExpo (w.modify id (setReplicas t)) ≤ max (canaryExpo w) t := by
  rw [canaryExpo_le]
  refine ⟨by have := canaryExpo_nonneg w; omega, ?_⟩
  intro d' hd' ho'
  obtain ⟨d, hd, rfl⟩ := canary_mem_modify.mp hd'
  by_cases hn : d.name = id
  · rw [if_pos hn]
    simp only [setReplicas, Option.getD_some]; omega
  · rw [if_neg hn] at ho' ⊢
    have := le_canaryExpo hd ho'; omega

end model

/-- what `UpgradeBatch` of the adapter returns, in the model's terms -/
theorem canary_upgrade_val {br : BR} {ns : Status} {w w' : CanaryW} {r : CallResult}
    (h : canaryPlane.upgrade br ns w = .val (w', r)) :
    w'.w = (CtlCanary.planeUpgradeBatch (canaryCfg w) (canaryBR br w) (CtlCanary.S0 w.w w.exp)).1.w ∧
    w'.exp = (CtlCanary.planeUpgradeBatch (canaryCfg w) (canaryBR br w) (CtlCanary.S0 w.w w.exp)).1.exp ∧
    w'.timedOut = w.timedOut ∧ w'.waitResume = w.waitResume ∧ w'.patch = w.patch ∧
    (r = .err → (CtlCanary.planeUpgradeBatch (canaryCfg w) (canaryBR br w) (CtlCanary.S0 w.w w.exp)).2 ≠ .ok) := by
  have h' : (match canaryRes (CtlCanary.planeUpgradeBatch (canaryCfg w) (canaryBR br w) (canaryS w)).2 with
      | .panic => Out.panic
      | .val c => .val (canaryAfter w (CtlCanary.planeUpgradeBatch (canaryCfg w) (canaryBR br w) (canaryS w)).1, c)) =
      .val (w', r) := h
  rw [← canaryS_eq]
  split at h'
  · cases h'
  · rename_i c hc
    simp only [Out.val.injEq, Prod.mk.injEq] at h'
    obtain ⟨rfl, rfl⟩ := h'
    exact ⟨rfl, rfl, rfl, rfl, rfl, fun hr => canaryRes_err _ (by rw [hc, hr])⟩

/-- what `Initialize` of the adapter leaves is what `Initialize` of the model leaves -/
theorem canary_init_world {br : BR} {ns ns' : Status} {w w' : CanaryW} {r : CallResult}
    (h : canaryPlane.init br ns w = .val (w', ns', r)) :
    w'.w = (CtlCanary.planeInitialize (canaryCfg w) (canaryBR br w) (CtlCanary.S0 w.w w.exp)).1.w := by
  have h' : (match (CtlCanary.planeInitialize (canaryCfg w) (canaryBR br w) (canaryS w)).2.1,
        (CtlCanary.planeInitialize (canaryCfg w) (canaryBR br w) (canaryS w)).2.2 with
      | .panic, _ => Out.panic
      | .ok, some st =>
        .val (canaryAfter w (CtlCanary.planeInitialize (canaryCfg w) (canaryBR br w) (canaryS w)).1,
              { ns with observedReplicas := st.observedReplicas, stableRevision := "",
                        updateRevision := tplToken st.updateRevision }, CallResult.ok)
      | _, _ => .val (canaryAfter w (CtlCanary.planeInitialize (canaryCfg w) (canaryBR br w) (canaryS w)).1, ns, .err)) =
      .val (w', ns', r) := h
  rw [← canaryS_eq]
  split at h'
  · cases h'
  · simp only [Out.val.injEq, Prod.mk.injEq] at h'
    rw [← h'.1]; rfl
  · simp only [Out.val.injEq, Prod.mk.injEq] at h'
    rw [← h'.1]; rfl

/-- `Initialize` exposes nothing: it writes control-info and creates a canary Deployment with 0 replicas -/
theorem canary_init_exposes_nothing (br : BR) (ns : Status) (w w' : CanaryW) (ns' : Status) (r : CallResult)
    (h : canaryPlane.init br ns w = .val (w', ns', r)) : canaryPreds.exposure w' ≤ canaryPreds.exposure w := by
  show canaryExpo w'.w ≤ canaryExpo w.w
  rw [canary_init_world h]
  exact canary_planeInitialize_expo _ _ _ _

/-- `UpgradeBatch` changes the exposure only upwards and at most to `CalculateBatchReplicas(stable replicas, current batch)` -/
theorem canary_upgrade_exposure (br : BR) (ns : Status) (w w' : CanaryW) (r : CallResult)
    (hwf : canaryPreds.wf w = true) (h : canaryPlane.upgrade br ns w = .val (w', r)) :
    canaryPreds.exposure w ≤ canaryPreds.exposure w' ∧
    canaryPreds.exposure w' ≤ max (canaryPreds.exposure w) (canaryPreds.allowed br w) := by
  show canaryExpo w.w ≤ canaryExpo w'.w ∧
    canaryExpo w'.w ≤ max (canaryExpo w.w) ((RV.Oracle.CtlCanary.target (canaryBR br w) w.w).getD 0)
  have hnd := (CtlCanary.namesNodup_iff w.w).mp hwf
  obtain ⟨hw', _⟩ := canary_upgrade_val h
  rw [hw']
  rcases (CtlCanary.planeUpgradeBatch_spec (canaryCfg w) (canaryBR br w) w.w w.exp).2 with
    ⟨hsame, _⟩ | ⟨cd, t, cur, st, _, _, hsel, htgt, hcur, hlt, _, hmod⟩
  · rw [hsame]; exact ⟨Int.le_refl _, Int.le_max_left _ _⟩
  · rw [hmod, htgt]
    exact ⟨canaryExpo_setReplicas_ge hnd (CtlCanary.selectCanary_mem hsel).1 hcur hlt,
      canaryExpo_setReplicas_le _ _ _⟩

/-- a failed `UpgradeBatch` changed nothing (the only write of the call is its last step) -/
theorem canary_upgrade_err_same (br : BR) (ns : Status) (w w' : CanaryW)
    (h : canaryPlane.upgrade br ns w = .val (w', .err)) : w' = w := by
  obtain ⟨hw', hexp', h1, h2, h3, hne⟩ := canary_upgrade_val h
  obtain ⟨hexp, hworld⟩ := CtlCanary.planeUpgradeBatch_spec (canaryCfg w) (canaryBR br w) w.w w.exp
  have hw : w'.w = w.w := by
    rcases hworld with ⟨hsame, _⟩ | ⟨_, _, _, _, _, _, _, _, _, _, hok, _⟩
    · rw [hw', hsame]
    · exact absurd hok (hne rfl)
  cases w; cases w'
  simp only at hw hexp' hexp h1 h2 h3
  simp only [CanaryW.mk.injEq]
  exact ⟨hw, by rw [hexp', hexp], h1, h2, h3⟩

/-- **The exposure laws of the canary-style Deployment plane.** -/
theorem canaryExposure : ExposureLaws canaryPlane canaryPreds where
  init_exposes_nothing := fun br ns w w' ns' r _ _ h => canary_init_exposes_nothing br ns w w' ns' r h
  upgrade_monotone := fun br ns w w' r hwf _ h => (canary_upgrade_exposure br ns w w' r hwf h).1
  upgrade_within := fun br ns w w' r hwf _ h => (canary_upgrade_exposure br ns w w' r hwf h).2
  upgrade_err_same := canary_upgrade_err_same

/-! ## non-vacuity (tests by kernel evaluation)

  The world of `RV.Props.CtlCanary.Demo`: the stable Deployment (name 0, 10 replicas, control-info of this BatchRelease), its
  canary Deployment (owned, 2 replicas, all observed and available, finalizer), a stale canary in deletion, a foreign one. -/

namespace CanaryDemo

def w : CanaryW :=
  { w := RV.Props.CtlCanary.Demo.w, exp := .none, timedOut := false, waitResume := false,
    patch := some ([("canary", "yes")], []) }

/-- a release in its first batch (20 % of 10 = 2 pods) -/
def br : BR :=
  { batches := [.pct 20, .pct 50, .pct 100], partition := none, failureThreshold := none, deleting := false,
    hasFinalizer := true, rollbackAnno := false,
    status := { phase := .progressing, currentBatch := 0, batchState := .verifying, hasReadyTime := false, hash := .same,
                rolloutIDSame := true, observedReplicas := 10, updateRevision := "", stableRevision := "",
                noNeedUpdate := none, updated := 0, updatedReady := 0 } }

/-- the world is well-formed and the first batch is ready in it: the readiness predicate is satisfiable … -/
example : canaryPreds.wf w = true ∧ canaryPreds.ready br w = true ∧
    (match canaryPlane.ensure br br.status w with
     | .val .ok => true
     | _ => false) = true := by decide

/-- … and not trivially true: the second batch (50 % = 5 pods) is not ready -/
example : canaryPreds.ready { br with status := { br.status with currentBatch := 1 } } w = false := by decide

/-- a successful `Finalize` (control-info removed, both owned Deployments lose the finalizer, the one in deletion
    disappears) whose result is `released`; before it the world was not `released` -/
example : canaryPreds.released br w = false ∧
    (match canaryPlane.fin br w with
     | .val (w', .ok) => canaryPreds.released br w' && decide (w'.w.deps.length = 3)
     | _ => false) = true := by decide

/-- a successful `Initialize` (the canary Deployment exists already) whose result is `claimed` -/
example : (match canaryPlane.init br br.status w with
     | .val (w', _, .ok) => canaryPreds.claimed br w w'
     | _ => false) = true := by decide

/-- `UpgradeBatch` of the second batch raises the exposure from 4 (the stale canary in deletion) to the allowed 5 -/
example : canaryPreds.exposure w = 4 ∧
    (match canaryPlane.upgrade { br with status := { br.status with currentBatch := 1 } } br.status w with
     | .val (w', .ok) => decide (canaryPreds.exposure w' = 5)
     | _ => false) = true ∧
    canaryPreds.allowed { br with status := { br.status with currentBatch := 1 } } w = 5 := by decide

end CanaryDemo

end RV.Props.ExecutorX
