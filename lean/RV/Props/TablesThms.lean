import RV.Gen.TaskTables
import RV.Model.RolloutSM
/-!
# Finalising task tables (used by C04, C05, C10)

`RV/Gen/TaskTables.lean` is regenerated on every run by evaluating the real `nextCanaryTask` /
`nextBlueGreenTask` over their whole finite domain.  `model_matches_table` ties the hand-written
model (`taskList`, `nextTask`) to it; the order theorems are then statements about the model lists.
-/
namespace RV.Props.Tables
open RV.RolloutSM RV.Gen.TaskTables

def finOfStr : String → FinStep
  | "" => .empty | "ResumeWorkload" => .resumeWorkload | "ReleaseWorkloadControl" => .releaseWorkloadControl
  | "FinalisingStepRouteTrafficToStable" => .routeTrafficToStable | "RestoreStableService" => .restoreStableService
  | "RemoveCanaryService" => .removeCanaryService | "FinalisingStepRouteTrafficToNew" => .routeTrafficToNew
  | "END" => .end_ | _ => .other

def finToStr : FinStep → String
  | .empty => "" | .resumeWorkload => "ResumeWorkload" | .releaseWorkloadControl => "ReleaseWorkloadControl"
  | .routeTrafficToStable => "FinalisingStepRouteTrafficToStable" | .restoreStableService => "RestoreStableService"
  | .removeCanaryService => "RemoveCanaryService" | .routeTrafficToNew => "FinalisingStepRouteTrafficToNew"
  | .end_ => "END" | .other => "?other"

def reasonOfStr : String → Reason
  | "Success" => .success | "Rollback" => .rollback | _ => .other

def styleOfBool (bg : Bool) : Style := if bg then .blueGreen else .canary

def rowOk (row : Bool × String × String × String) : Bool :=
  finToStr (nextTask (taskList (styleOfBool row.1) (reasonOfStr row.2.1)) (finOfStr row.2.2.1)) == row.2.2.2

/-- **Tie to the code**: on the whole tabulated domain (both managers × every declared reason +
    an unknown one × every declared step constant + an unknown one) the model computes the task
    the real functions return. -/
theorem model_matches_table : table.all rowOk = true := by decide +kernel

/-- position of a task in a list -/
def pos (l : List FinStep) (a : FinStep) : Nat := l.findIdx (· == a)

def precedes (l : List FinStep) (a b : FinStep) : Bool := pos l a < pos l b && pos l b < l.length

/-- **C10** — for both styles the rollback sequence starts with routing all traffic to the stable
    version, before the workload is resumed and before it is released from control. -/
theorem rollback_routes_first (style : Style) :
    (taskList style .rollback).head? = some .routeTrafficToStable ∧
    precedes (taskList style .rollback) .routeTrafficToStable .resumeWorkload = true ∧
    precedes (taskList style .rollback) .routeTrafficToStable .releaseWorkloadControl = true := by
  cases style <;> decide

/-- **C04** — in every sequence the route to the canary Service is withdrawn before the canary
    Service is removed. -/
theorem route_withdrawn_before_service_removed (style : Style) (r : Reason) :
    precedes (taskList style r) .routeTrafficToStable .removeCanaryService = true := by
  cases style <;> cases r <;> decide

/-- **C04** — outside rollback the stable Service is un-pinned before the workload is resumed
    (before the last stable pod can be replaced). -/
theorem stable_unpinned_before_resume (style : Style) (r : Reason) (h : r ≠ .rollback) :
    precedes (taskList style r) .restoreStableService .resumeWorkload = true := by
  cases style <;> cases r <;> first | decide | exact absurd rfl h

/-- **C05** — every sequence contains every clean-up task (nothing is skipped on any exit path). -/
theorem every_task_present (style : Style) (r : Reason) :
    ([FinStep.restoreStableService, .routeTrafficToStable, .removeCanaryService, .resumeWorkload, .releaseWorkloadControl].all
      fun t => (taskList style r).contains t) = true := by
  cases style <;> cases r <;> decide

/-- the successor function walks the list in order and ends with `end_` -/
theorem nextTask_walks (style : Style) (r : Reason) :
    let l := taskList style r
    nextTask l .empty = l.headD .end_ ∧
    (List.range (l.length - 1)).all (fun i => nextTask l (l.getD i .end_) == l.getD (i + 1) .end_) = true ∧
    nextTask l (l.getD (l.length - 1) .end_) = .end_ := by
  cases style <;> cases r <;> decide

end RV.Props.Tables
