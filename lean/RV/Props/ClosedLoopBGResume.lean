import RV.Props.ClosedLoopBGThms
import RV.Props.RolloutThms
/-!
# The blue-green closed loop, continued: the Rollout controller resumes the workload only in a clean-up phase (C04 / C10)

The Rollout half of `bg_traffic_before_scale_down`, as a localisation for EVERY state: `bg_resume_only_in_cleanup`.
(Own file: it works inside `RV.RolloutSM`, whose names clash with the executor's.)
-/
namespace RV.Props.ClosedLoopBG
open RV.Arith IntOrPct RV.Traffic RV.ClosedLoopBG RV.Oracle.ClosedLoopBG RV.Lemmas.ClosedLoopBG
open RV.ClosedLoop (CBr Label CS)
open RV.RolloutSM

/-- the BatchRelease as a Rollout reconcile may leave it when it neither resumes the workload nor releases it: not removed, not
    marked for deletion, and its batch partition not cleared (kept, or set) -/
def Kept (old new : Option RolloutSM.BR) : Prop :=
  match old, new with
  | none, none => True
  | none, some b' => b'.deleting = false ∧ b'.partition.isSome = true
  | some _, none => False
  | some b, some b' => b'.deleting = b.deleting ∧ (b'.partition = b.partition ∨ b'.partition.isSome = true)

theorem Kept.refl (a : Option RolloutSM.BR) : Kept a a := by
  cases a with
  | none => trivial
  | some b => exact ⟨rfl, Or.inl rfl⟩

theorem Kept.trans {a b c : Option RolloutSM.BR} (h1 : Kept a b) (h2 : Kept b c) : Kept a c := by
  cases a <;> cases b <;> cases c <;> simp only [Kept] at h1 h2 ⊢ <;> try trivial
  · exact ⟨h2.1.trans h1.1, by rcases h2.2 with h | h; rw [h]; exact h1.2; exact h⟩
  · exact ⟨h2.1.trans h1.1, by
      rcases h2.2 with h | h
      · rcases h1.2 with g | g
        · exact Or.inl (h.trans g)
        · exact Or.inr (by rw [h]; exact g)
      · exact Or.inr h⟩

theorem runBatchRelease_kept (ro : Rollout) (br : Option BR) (id : String) (idx : Int) (rb : Bool) :
    Kept br (runBatchRelease ro br id idx rb).2.1 := by
  unfold runBatchRelease
  cases br with
  | none => exact ⟨rfl, rfl⟩
  | some b =>
    dsimp only
    split
    · exact ⟨rfl, Or.inl rfl⟩
    · exact ⟨rfl, Or.inr rfl⟩

theorem syncStep_kept (c : Ctx) : Kept c.br (syncStep c).br := by
  unfold syncStep
  dsimp only
  cases hb : c.br with
  | none => dsimp only; rw [hb]; trivial
  | some b =>
    dsimp only
    split
    · exact ⟨rfl, Or.inl rfl⟩
    · rw [hb]; exact ⟨rfl, Or.inl rfl⟩

theorem upgradeStep_kept (ro : Rollout) (step : Step) (c c' : Ctx) (err : Bool) (h : upgradeStep ro step c = .ok c' err) :
    Kept c.br c'.br := by
  have hk : Kept c.br (doCanaryUpgrade ro c.sub c.wl c.br).2.1 := by
    unfold doCanaryUpgrade
    have := runBatchRelease_kept ro c.br (getRolloutID c.wl) c.sub.curIdx c.wl.inRollback
    generalize runBatchRelease ro c.br (getRolloutID c.wl) c.sub.curIdx c.wl.inRollback = r at this
    obtain ⟨d, b', ws⟩ := r
    dsimp only at this ⊢
    split
    · exact this
    · cases b' with
      | none => exact this
      | some b => dsimp only; split <;> (try split) <;> exact this
  unfold upgradeStep at h
  dsimp only at h
  split at h <;> (cases h; exact hk)

theorem afterRetry_kept (r : Option (Ctx × Bool × Bool)) (k : Ctx → RunOut) (c0 c' : Ctx) (err : Bool)
    (hr : ∀ c1 rt e, r = some (c1, rt, e) → c1.br = c0.br)
    (hk : ∀ c1, c1.br = c0.br → ∀ c2 e2, k c1 = .ok c2 e2 → Kept c1.br c2.br)
    (h : afterRetryCall r k = .ok c' err) : Kept c0.br c'.br := by
  unfold afterRetryCall at h
  split at h
  · cases h
  · rename_i c1 rt e
    have h1 := hr c1 rt e rfl
    split at h
    · cases h; rw [h1]; exact Kept.refl _
    · split at h
      · cases h; show Kept c0.br c1.br; rw [h1]; exact Kept.refl _
      · have := hk c1 h1 c' err h
        rw [h1] at this; exact this

theorem callOpt_br (c c1 : Ctx) (p : Prop) [Decidable p] (f : TCtx → Net → Mem → TOut) (rt e : Bool)
    (h : (if p then callTM f c else some (c, false, false)) = some (c1, rt, e)) : c1.br = c.br := by
  split at h
  · exact (RV.Props.Rollout.callTM_sub _ _ _ _ _ _ h).2.2.2.2.2.1
  · cases h; rfl

theorem initStep_kept (ro : Rollout) (step : Step) (c c' : Ctx) (err : Bool) (h : initStep ro step c = .ok c' err) :
    Kept c.br c'.br := by
  have enter : ∀ c1 : Ctx, c1.br = c.br → ∀ c2 e2,
      upgradeStep ro step { c1 with sub := { c1.sub with state := .upgrade, lastUpdate := .fresh } } = .ok c2 e2 → Kept c1.br c2.br :=
    fun c1 _ c2 e2 hh => upgradeStep_kept ro step { c1 with sub := { c1.sub with state := .upgrade, lastUpdate := .fresh } } c2 e2 hh
  unfold initStep at h
  dsimp only at h
  split at h
  · split at h
    · cases h; exact Kept.refl _
    · refine afterRetry_kept _ _ c c' err (fun c1 rt e hh => callOpt_br c c1 _ _ rt e hh) (fun c1 h1 c2 e2 hk => ?_) h
      refine afterRetry_kept _ _ c1 c2 e2 (fun c3 rt e hh => callOpt_br c1 c3 _ _ rt e hh) (fun c3 h3 c4 e4 hk4 => ?_) hk
      exact enter c3 (h3.trans h1) c4 e4 hk4
  · refine afterRetry_kept _ _ c c' err (fun c1 rt e hh => callOpt_br c c1 _ _ rt e hh) (fun c1 h1 c2 e2 hk => ?_) h
    exact enter c1 h1 c2 e2 hk

theorem stateStep_kept (ro : Rollout) (step : Step) (c c' : Ctx) (err : Bool) (h : stateStep ro step c = .ok c' err) :
    Kept c.br c'.br := by
  unfold stateStep at h
  split at h
  · exact initStep_kept _ _ _ _ _ h
  · exact upgradeStep_kept _ _ _ _ _ h
  · split at h
    · cases h
    · rename_i c4 d e hc
      have hb := (RV.Props.Rollout.callTM_sub _ _ _ _ _ _ hc).2.2.2.2.2.1
      split at h
      · cases h; rw [hb]; exact Kept.refl _
      · split at h <;> (cases h; show Kept c.br c4.br; rw [hb]; exact Kept.refl _)
  · cases h; exact Kept.refl _
  · split at h
    · cases h
    · cases h; exact Kept.refl _
    · cases h; exact Kept.refl _
  · dsimp only at h
    split at h
    · cases h; exact Kept.refl _
    · cases h; exact Kept.refl _
  · cases h; exact Kept.refl _

/-- **one round of the release manager neither resumes nor releases the workload** -/
theorem runCanary_kept (c0 c' : Ctx) (err : Bool) (h : runCanary c0 = .ok c' err) : Kept c0.br c'.br := by
  have h0 := syncStep_kept c0
  unfold runCanary at h
  dsimp only at h
  split at h
  · cases h
  · cases h; exact h0
  · split at h
    · cases h
    · rename_i step _
      split at h
      · cases h
      · rename_i c3 d e hpre
        have hc3 : c3.br = (syncStep c0).br := by
          unfold preStep at hpre
          split at hpre
          · exact (RV.Props.Rollout.callTM_sub _ _ _ _ _ _ hpre).2.2.2.2.2.1
          · cases hpre; rfl
        split at h
        · cases h; rw [hc3]; exact h0
        · split at h
          · cases h; show Kept c0.br c3.br; rw [hc3]; exact h0
          · have := stateStep_kept _ _ _ _ _ h
            rw [hc3] at this
            exact h0.trans this

/-- the dispatch of a rolling blue-green rollout (rollback → Cancelling, paused, a newer revision refused, plan change, the
    release manager) neither resumes nor releases the workload -/
theorem inRolling_kept (w : World) (old ns : Rollout) (s : Sub) (wl : WL) (r : StepResult) (hbg : ns.style = .blueGreen)
    (h : inRolling w old ns s wl = .val r) : Kept w.br r.w.br := by
  unfold inRolling at h
  dsimp only at h
  split at h
  · repeat' split at h
    all_goals first
      | (cases h; done)
      | (cases h; exact Kept.refl _)
  · split at h
    · cases h; exact Kept.refl _
    · split at h
      · cases h; exact Kept.refl _
      · split at h
        · cases h; exact Kept.refl _
        · split at h
          · cases h; exact Kept.refl _
          · split at h
            · split at h
              · cases h
              · split at h
                · cases h; exact Kept.refl _
                · split at h
                  · cases h
                  · cases h; exact Kept.refl _
            · split at h
              · cases h; exact Kept.refl _
              · split at h
                · cases h
                · rename_i c err hrun
                  cases h
                  exact runCanary_kept _ c err hrun

/-- the Rollout is in one of its clean-up phases: finishing a successful release, cancelling after a rollback, terminating, disabling -/
def inCleanup (ro : Rollout) : Prop :=
  (ro.phase = .progressing ∧ (ro.reason = .finalising ∨ ro.reason = .cancelling)) ∨ ro.phase = .terminating ∨ ro.phase = .disabling

/-- **outside the clean-up phases a blue-green Rollout reconcile neither resumes nor releases the workload** — for every world -/
theorem reconcile_kept_core (w : World) (r : StepResult) (h : reconcileCore w = .val r) (hbg : w.ro.style = .blueGreen)
    (hnc : ¬ inCleanup w.ro) : Kept w.br r.w.br := by
  have hfr := RV.Props.Reconcile.hf_frame w.ro
  unfold reconcileCore at h
  dsimp only at h
  split at h
  · cases h; exact Kept.refl _
  · rename_i ns hcs
    have hstyle : ns.style = .blueGreen := by
      have := (RV.Props.Reconcile.cs_frame _ ns _ hcs).1.2.2.1
      rw [this, hfr]; exact hbg
    split at h
    · -- Progressing
      rename_i hph
      split at h
      · cases h; exact Kept.refl _
      · split at h
        · cases h; exact Kept.refl _
        · split at h
          · cases h
          · -- Initializing
            repeat' split at h
            all_goals first
              | (cases h; done)
              | (cases h; exact Kept.refl _)
          · -- InRolling
            split at h
            · repeat' split at h
              all_goals first
                | (cases h; done)
                | (cases h; exact Kept.refl _)
            · rename_i s hs
              split at h
              · cases h
              · rename_i r0 hr0
                have hk := inRolling_kept w w.ro ns s _ r0 hstyle hr0
                split at h <;> (cases h; exact hk)
          · rename_i hre; exact absurd (Or.inl ⟨hph, Or.inl hre⟩) hnc
          · split at h <;> (cases h; exact Kept.refl _)
          · rename_i hre; exact absurd (Or.inl ⟨hph, Or.inr hre⟩) hnc
          · cases h; exact Kept.refl _
          · cases h; exact Kept.refl _
    · rename_i hph; exact absurd (Or.inr (Or.inl hph)) hnc
    · rename_i hph; exact absurd (Or.inr (Or.inr hph)) hnc
    · cases h; exact Kept.refl _

/-- the same of the whole reconcile (body + cursor reset, which does not touch the BatchRelease) -/
theorem reconcile_kept (w : World) (r : StepResult) (h : reconcile w = .val r) (hbg : w.ro.style = .blueGreen)
    (hnc : ¬ inCleanup w.ro) : Kept w.br r.w.br := by
  obtain ⟨r0, h0, rfl⟩ := reconcile_val h
  rw [resetOnExit_br]
  exact reconcile_kept_core w r0 h0 hbg hnc

theorem updatedBr_kept (c : CBr) (b' : RolloutSM.BR) (hd : b'.deleting = c.deleting)
    (hp : b'.partition = c.partition ∨ b'.partition.isSome = true) (hcp : c.partition.isSome = true) :
    ∃ c2, RV.ClosedLoop.updatedBr c b' = some c2 ∧ c2.deleting = c.deleting ∧ c2.partition.isSome = true := by
  unfold RV.ClosedLoop.updatedBr
  dsimp only
  rw [if_neg (by rw [hd]; exact fun h => h.2 h.1)]
  refine ⟨_, rfl, ?_, ?_⟩
  · split <;> rfl
  · split
    · dsimp only
      rcases hp with g | g
      · rw [g]; exact hcp
      · exact g
    · exact hcp

/-- **`bg_resume_only_in_cleanup`** (C04 / C10, the Rollout half of `bg_traffic_before_scale_down`, localisation) — for EVERY
    state of the blue-green loop: a Rollout reconcile clears the BatchRelease's batch partition (= resumes the workload, after which
    `Finalize` may hand the CloneSet back — `bg_finalize_needs_resume`) or marks a still partitioned BatchRelease for deletion only while
    the Rollout is in one of its clean-up phases (Finalising after success, Cancelling after a rollback, Terminating, Disabling).  While
    a release is rolling — whatever the step, sub-state, plan change, pause, superseding revision, jump request — it never does.
    What is NOT proved here: that inside a clean-up phase the resume comes after the traffic tasks of that phase's sequence have
    completed *and their effect persists* (the cursor invariant `RV.Props.Cluster.reach_inv_partial` proves that for a clean-up that keeps
    its reason from an empty cursor; when deletion / disabling changes the reason mid-way the cursor is cleared — fixed finding
    `bgCursorCarried`, `RV.RolloutSM.resetOnExit` — and the new sequence starts from an empty cursor again).  The oracle
    `trafficBeforeScaleDown` judges it on every transition of the walks of the real controllers. -/
theorem bg_resume_only_in_cleanup (s s' : BS) (hbg : s.ro.style = .blueGreen) (hs : bgStep s .ro = some s')
    (hres : resumeIssued s s' = true) : s.gone = false ∧ inCleanup s.ro := by
  unfold bgStep at hs
  simp only [step, stepRo] at hs
  split at hs
  · -- the Rollout is gone: nothing happens
    injection hs with hs; subst hs
    exfalso
    unfold resumeIssued at hres
    cases hb : s.br with
    | none => rw [hb] at hres; cases hres
    | some b =>
      rw [hb] at hres
      simp only [Bool.and_eq_true, Bool.not_eq_true', Bool.or_eq_true, Option.isNone_iff_eq_none] at hres
      obtain ⟨⟨hp, hd⟩, h3⟩ := hres
      rcases h3 with h3 | h3
      · rw [h3] at hp; cases hp
      · rw [hd] at h3; cases h3
  · rename_i hgone
    refine ⟨by simpa using hgone, ?_⟩
    split at hs
    · cases hs
    · rename_i w hw
      split at hs
      · cases hs
      · rename_i r hrec
        injection hs with hs; subst hs
        apply Classical.byContradiction
        intro hnc
        have hwro : w.ro = s.ro ∧ w.br = s.br.map RV.ClosedLoop.roBr := by
          unfold roWorld at hw
          split at hw
          · cases hw
          · injection hw with hw; subst hw; exact ⟨rfl, rfl⟩
        have hk := reconcile_kept w r hrec (by rw [hwro.1]; exact hbg) (by rw [hwro.1]; exact hnc)
        rw [hwro.2] at hk
        unfold resumeIssued at hres
        cases hb : s.br with
        | none => rw [hb] at hres; cases hres
        | some c =>
          rw [hb] at hres hk
          have hbr' : (landRo bgLoop s r).br = (landBR bgLoop (some c) r.w.br (annoLand bgLoop s.world r.w.wl)).1 := by
            unfold landRo; rw [hb]
          rw [hbr'] at hres
          cases hnb : r.w.br with
          | none => rw [hnb] at hk; exact hk
          | some b' =>
            rw [hnb] at hk hres
            simp only [Option.map_some, Kept] at hk
            obtain ⟨hd, hp⟩ := hk
            have hd' : b'.deleting = c.deleting := hd
            have hp' : b'.partition = c.partition ∨ b'.partition.isSome = true := hp
            simp only [Bool.and_eq_true, Bool.not_eq_true', Bool.or_eq_true] at hres
            obtain ⟨⟨hcp, hcd⟩, h3⟩ := hres
            obtain ⟨c2, hc2, hcd2, hcp2⟩ := updatedBr_kept c b' hd' hp' hcp
            have hl : (landBR bgLoop (some c) (some b') (annoLand bgLoop s.world r.w.wl)).1 = some c2 := by
              simp only [landBR]; exact hc2
            rw [hl] at h3
            simp only [Bool.or_eq_true, Option.isNone_iff_eq_none] at h3
            rcases h3 with h3 | h3
            · rw [h3] at hcp2; cases hcp2
            · rw [hcd2, hcd] at h3; cases h3


/-- test (`bg_resume_only_in_cleanup`, `bg_finalize_needs_resume`): the reconcile that resumes the workload in the example run — the
    Rollout is Finalising, the cursor is at ResumeWorkload, all traffic is on the canary Service; the `Finalize` that restores the
    settings comes later, with the batch partition cleared -/
example : (bgRun exS0 (.release "v2" :: rounds 36)).bind (fun s => (bgStep s .ro).map (fun s' =>
      resumeIssued s s' && trafficSettled s && s.ro.reason == .finalising && trafficBeforeScaleDown s .ro s')) = some true ∧
    (bgRun exS0 (.release "v2" :: rounds 37 ++ [.ro])).bind (fun s => (bgStep s .br).map (fun s' =>
      settingsReleased s s' && trafficBeforeScaleDown s .br s' && (match s.br with | some b => b.partition.isNone | none => false))) = some true := by
  decide +kernel

end RV.Props.ClosedLoopBG
