import RV.Oracle.C12
/-!
# C12 — pod batch labels (pre-fix stage: the model follows the unchanged code)
-/
namespace RV.Props.C12
open RV.Arith RV.LabelPatch RV.Oracle.C12

/-- pod of the new revision carrying the current rollout-id and batch-id `bid` -/
def wPod (bid : String) : Pod :=
  { name := "p-1", terminating := false, missing := false, tmplHash := none, ctrlHash := some "rev-new",
    owner := .none, rolloutId := some "r1", batchId := some bid, noNeed := none }

def wCfg : Cfg := { rolloutId := "r1", updateRevision := "rev-new", batches := [.pct 25, .pct 100],
                    replicas := 4, currentBatch := 0 }

/-- witnesses of defect #1 on the fixed code (test on literals, not the ∀ claim) -/
theorem witnesses_fixed :
    curInRange wCfg = true ∧
    noPanic (patchPodBatchLabel ⟨[]⟩ wCfg [wPod "0"]) = true ∧
    noPanic (patchPodBatchLabel ⟨[]⟩ wCfg [wPod "7"]) = true ∧
    noPanic (patchPodBatchLabel ⟨[]⟩ wCfg [wPod "-3"]) = true := by decide

end RV.Props.C12
