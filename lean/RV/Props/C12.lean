import RV.Lemmas.LabelPatch
/-!
# C12 — pod batch labels

Model: `RV/Model/LabelPatch.lean` (literal transcription of
`pkg/controller/batchrelease/labelpatch/{patcher,filter}.go` **with** `fixes/C12-1.patch`,
the bounds check for defect #1).  Oracles: `RV/Oracle/C12.lean`.

Reading guide.  `patchPodBatchLabel env cfg pods` is one labelling pass over the list `pods`
handed to the patcher; its result `.done err ps` lists the `Patch` calls that were issued, in
order (`err = true`: the pass returned an error after them).  `applyPatches id ps pods` are the
pods afterwards.  The patcher judges "pod of the new revision" on the pod's labels *after* it
filled in `controller-revision-hash` from the owning ReplicaSet; `resolvePods env [] pods = some rps`
is that view (`rps[i].eff` = the hash used for pod `i`), `= none` means a ReplicaSet look-up
failed.  `planned` are the per-batch increments of the plan (`plannedIncrements`).

Every theorem is for **arbitrary** pod lists (any length, any label values: foreign,
non-numeric, out-of-range, empty), arbitrary plans, replica counts, current batch, ReplicaSet
tables and update revisions.
-/
namespace RV.Props.C12
open RV.Arith RV.LabelPatch RV.Oracle.C12

/-! ## Setting: what the increments are -/

/-- The plan's increments have one entry per batch. -/
theorem increments_length {batches : List IntOrPct} {R c : Int} {planned : List Int}
    (h : plannedIncrements batches R c = some planned) : planned.length = batches.length :=
  plannedIncrements_length h

/-- Entry `i ≤ currentBatch` of the increments is the cumulative target of batch `i` minus the
    cumulative target of batch `i-1` — "the number of pods batch `i` adds under the plan";
    entries behind the current batch are `0`. -/
theorem increments_meaning {batches : List IntOrPct} {R : Int} {c : Nat} {planned : List Int}
    (hc : c < batches.length) (h : plannedIncrements batches R c = some planned)
    (i : Nat) (hi : i < batches.length) :
    planned[i]? = some (if i = 0 then cumTarget batches R 0
                        else if i ≤ c then cumTarget batches R i - cumTarget batches R (i - 1) else 0) :=
  plannedIncrements_closed hc h i hi

/-! ## (i) only live pods of the new revision are labelled -/

/-- **C12.i**  Every patch that sets rollout-id / batch-id addresses a pod that is not
    terminating and is consistent with the update revision. -/
theorem live_new {env : Env} {cfg : Cfg} {pods : List Pod} {planned : List Int} {rps : List RPod}
    {e : Bool} {ps : List Patch}
    (hp : plannedIncrements cfg.batches cfg.replicas cfg.currentBatch = some planned)
    (hr : resolvePods env [] pods = some rps)
    (h : patchPodBatchLabel env cfg pods = .done e ps) :
    okLive cfg rps ps = true := by
  have f := patch_facts hp hr h
  unfold okLive
  rw [List.all_eq_true]
  intro p hpm
  cases hb : p.batch with
  | none => simp
  | some n =>
    obtain ⟨rp, h1, h2⟩ := f.targets p hpm (by simp [hb])
    simp only [isCand, Bool.and_eq_true] at h2
    simp [h1, h2.1]

/-- A failed ReplicaSet look-up ends the pass with an error before any patch is issued. -/
theorem rs_lookup_error {env : Env} {cfg : Cfg} {pods : List Pod} {planned : List Int}
    (hp : plannedIncrements cfg.batches cfg.replicas cfg.currentBatch = some planned)
    (hr : resolvePods env [] pods = none) :
    patchPodBatchLabel env cfg pods = .done true [] :=
  patch_rsErr hp hr

/-! ## (ii) a batch is never over-labelled -/

/-- **C12.ii**  For every batch number `b` (every natural number, in or out of the plan): the
    number of live new-revision pods carrying `(rollout-id, b)` after the pass is at most the
    maximum of that number before the pass and the increment of batch `b`.  This holds for the
    patches actually issued, also when the pass stops early with an error. -/
theorem budget {env : Env} {cfg : Cfg} {pods : List Pod} {planned : List Int} {rps : List RPod}
    {e : Bool} {ps : List Patch}
    (hp : plannedIncrements cfg.batches cfg.replicas cfg.currentBatch = some planned)
    (hr : resolvePods env [] pods = some rps)
    (h : patchPodBatchLabel env cfg pods = .done e ps)
    (hlen : cfg.batches.length ≤ maxInt64) (b : Nat) :
    (labelled cfg b (withPods rps (applyPatches cfg.rolloutId ps pods)) : Int) ≤
      max (labelled cfg b rps : Int) (increment planned b) := by
  have f := patch_facts hp hr h
  have hl := plannedIncrements_length hp
  have small : SmallBatch ps := fun p hpm n hn => by
    have := (f.range p hpm n hn).2
    omega
  have hpods := resolvePods_pods env pods [] rps hr
  rw [withPods_applyPatches, ← hpods, withPods_self]
  obtain ⟨c1, _⟩ := count_applyAll cfg b ps rps f.distinct f.targets small
  have c2 := f.budget b
  rw [budget_slots] at c2
  rw [c1]
  split at c2
  · omega
  · have : increment planned b = 0 := increment_out (by omega)
    omega

/-- the run-time oracle of (ii) is the same statement -/
theorem budget_oracle {env : Env} {cfg : Cfg} {pods : List Pod} {planned : List Int} {rps : List RPod}
    {e : Bool} {ps : List Patch}
    (hp : plannedIncrements cfg.batches cfg.replicas cfg.currentBatch = some planned)
    (hr : resolvePods env [] pods = some rps)
    (h : patchPodBatchLabel env cfg pods = .done e ps)
    (hlen : cfg.batches.length ≤ maxInt64) :
    okBudget cfg planned rps (withPods rps (applyPatches cfg.rolloutId ps pods)) = true := by
  unfold okBudget
  rw [List.all_eq_true]
  intro b _
  unfold okBudgetAt
  exact decide_eq_true (budget hp hr h hlen b)

/-- Every label patch carries a batch number of the plan (`1 ≤ b ≤ #batches`). -/
theorem batch_in_plan {env : Env} {cfg : Cfg} {pods : List Pod} {planned : List Int} {rps : List RPod}
    {e : Bool} {ps : List Patch}
    (hp : plannedIncrements cfg.batches cfg.replicas cfg.currentBatch = some planned)
    (hr : resolvePods env [] pods = some rps)
    (h : patchPodBatchLabel env cfg pods = .done e ps) :
    ∀ p ∈ ps, ∀ n, p.batch = some n → 1 ≤ n ∧ n ≤ cfg.batches.length := by
  intro p hpm n hn
  have := (patch_facts hp hr h).range p hpm n hn
  rw [plannedIncrements_length hp] at this
  exact this

/-! ## (iii) a pod labelled for this release is never relabelled -/

/-- **C12.iii**  No patch that sets rollout-id / batch-id addresses a pod whose rollout-id label
    already equals `ctx.RolloutID` — whatever its batch-id label says. -/
theorem never_relabelled {env : Env} {cfg : Cfg} {pods : List Pod} {planned : List Int} {rps : List RPod}
    {e : Bool} {ps : List Patch}
    (hp : plannedIncrements cfg.batches cfg.replicas cfg.currentBatch = some planned)
    (hr : resolvePods env [] pods = some rps)
    (h : patchPodBatchLabel env cfg pods = .done e ps) :
    okFresh cfg rps ps = true := by
  have f := patch_facts hp hr h
  unfold okFresh
  rw [List.all_eq_true]
  intro p hpm
  cases hb : p.batch with
  | none => simp
  | some n =>
    obtain ⟨rp, h1, h2⟩ := f.targets p hpm (by simp [hb])
    simp only [isCand, Bool.and_eq_true] at h2
    simp [h1, h2.2]

/-- No pod receives two label patches in one pass. -/
theorem patched_once {env : Env} {cfg : Cfg} {pods : List Pod} {planned : List Int} {rps : List RPod}
    {e : Bool} {ps : List Patch}
    (hp : plannedIncrements cfg.batches cfg.replicas cfg.currentBatch = some planned)
    (hr : resolvePods env [] pods = some rps)
    (h : patchPodBatchLabel env cfg pods = .done e ps) :
    ps.Pairwise fun p q => p.batch.isSome = true → q.batch.isSome = true → p.idx ≠ q.idx :=
  (patch_facts hp hr h).distinct

/-! ## (iv) repeating the pass changes nothing -/

/-- every ReplicaSet hash is a non-empty string (`util.ComputeHash` returns the encoded
    decimal digits of a 32-bit number) -/
def hashesNonEmpty (env : Env) : Bool := env.rsHash.all fun x => x.2 != ""

/-- **C12.iv**  After a pass that returned without error, a second pass over the resulting
    pods issues no patch at all. -/
theorem idempotent {env : Env} {cfg : Cfg} {pods : List Pod} {planned : List Int} {rps : List RPod}
    {ps : List Patch}
    (hp : plannedIncrements cfg.batches cfg.replicas cfg.currentBatch = some planned)
    (hr : resolvePods env [] pods = some rps)
    (h : patchPodBatchLabel env cfg pods = .done false ps)
    (he : hashesNonEmpty env = true) (hlen : cfg.batches.length ≤ maxInt64) :
    okIdem (patchPodBatchLabel env cfg (applyPatches cfg.rolloutId ps pods)) = true := by
  have he' : NonEmptyVals env.rsHash := by
    intro x hx
    have := List.all_eq_true.mp he x hx
    simpa using this
  rw [second_pass_none hp hr h he' hlen]
  rfl

/-! ## (v) foreign and stale labels are not counted -/

instance (cfg : Cfg) (p q : Pod) : Decidable (ForeignEq cfg p q) := by
  unfold ForeignEq; exact inferInstance

/-- **C12.v**  The rollout-id / batch-id label values of pods that do not carry the rollout-id
    of this release have no influence on the pass: two pod lists that differ only in such
    values (the differing pods staying foreign) get exactly the same patches.  In particular a
    foreign pod's batch-id never consumes the budget of a batch. -/
theorem foreign_not_counted (env : Env) (cfg : Cfg) (pods pods' : List Pod)
    (hf : Pointwise (ForeignEq cfg) pods pods') :
    patchPodBatchLabel env cfg pods' = patchPodBatchLabel env cfg pods :=
  patch_foreign env cfg pods pods' hf

/-- the instance of (v) that is replayed on the real code on every run -/
theorem foreign_scramble (env : Env) (cfg : Cfg) (pods : List Pod) (hid : cfg.rolloutId ≠ "") :
    okForeign (patchPodBatchLabel env cfg pods) (patchPodBatchLabel env cfg (pods.map (scramble cfg))) = true := by
  rw [patch_foreign env cfg pods _ (pointwise_map _ _ (foreignEq_scramble cfg hid) pods)]
  simp [okForeign]

/-- **C12.v through the exported entry point**, for each of the three filters: relabelling
    foreign pods (any `f` that keeps every pod `ForeignEq` to itself, e.g. `scramble`) changes
    neither what the filter selects nor the patches. -/
theorem top_foreign_not_counted (env : Env) (k : FilterKind) (cfg : Cfg) (f : Pod → Pod)
    (hf : ∀ p, ForeignEq cfg p (f p)) (pods : List Pod) :
    (patchTop env k cfg (pods.map f)).2 = (patchTop env k cfg pods).2 :=
  patchTop_foreign env k cfg f hf pods

/-- Pods of this release whose batch-id is not a batch of the plan (non-numeric, `0`, negative,
    beyond the last batch) consume no budget either: what is left for batch `b` after the first
    loop is exactly `max 0 (increment b − #labelled(id, b))`. -/
theorem budget_left (cfg : Cfg) (planned : List Int) (rps : List RPod) (b : Nat) :
    (slots (decAll cfg planned rps).reverse).count b =
      if 1 ≤ b ∧ b ≤ planned.length then (increment planned b - (labelled cfg b rps : Int)).toNat else 0 :=
  budget_slots cfg planned rps b

/-! ## (vi) no label value can crash the patcher -/

/-- **C12.vi**  With `ctx.CurrentBatch < len(batches)` the pass never panics — for every pod
    list and every label value. -/
theorem no_panic (env : Env) (cfg : Cfg) (pods : List Pod) (hc : curInRange cfg = true) :
    noPanic (patchPodBatchLabel env cfg pods) = true := by
  obtain ⟨planned, hp⟩ := plannedIncrements_some (R := cfg.replicas) (by simpa [curInRange] using hc)
  cases hr : resolvePods env [] pods with
  | none => rw [patch_rsErr hp hr]; rfl
  | some rps =>
    rw [patch_decompose hp hr]
    split <;> rfl

/-- **C12.vi** for the exported entry point `PatchPodBatchLabel` with any of the three filters
    (`namesOk`: the ordered filter's `sort.Slice` is not asked to compare a pod whose *name*
    has no `-`; names are not labels). -/
theorem top_no_panic (env : Env) (k : FilterKind) (cfg : Cfg) (pods : List Pod)
    (hc : curInRange cfg = true) (hn : namesOk k pods = true) :
    noPanic (patchTop env k cfg pods).2 = true := by
  unfold patchTop
  split
  · rfl
  · obtain ⟨fp, hfp⟩ := applyFilter_some k cfg pods hn
    rw [hfp]
    exact no_panic env cfg fp hc

/-- The filters hand the patcher only pods of `ctx.Pods` (so (i) and (iii) speak about pods of
    the workload), and with no rollout-id or no pods nothing is patched. -/
theorem filters_invent_no_pod (k : FilterKind) (cfg : Cfg) (pods fp : List Pod)
    (h : applyFilter k cfg pods = some fp) : ∀ p ∈ fp, p ∈ pods :=
  applyFilter_subset k cfg pods fp h

theorem top_early (env : Env) (k : FilterKind) (cfg : Cfg) (pods : List Pod)
    (h : cfg.rolloutId = "" ∨ pods = []) : patchTop env k cfg pods = (pods, .done false []) := by
  unfold patchTop
  rcases h with h | h <;> simp [h]

/-! ## Non-vacuity and regression tests (tests on literals, not the ∀ claims) -/

section Examples

def mkPod (name : String) (ctrl : Option String) (rid bid : Option String) (term : Bool := false) : Pod :=
  { name := name, terminating := term, missing := false, tmplHash := none, ctrlHash := ctrl,
    owner := .none, rolloutId := rid, batchId := bid, noNeed := none }

/-- plan 25 % / 100 % of 4 replicas, second batch: increments `[1, 3]` -/
def xCfg : Cfg := { rolloutId := "r1", updateRevision := "rev-new", batches := [.pct 25, .pct 100],
                    replicas := 4, currentBatch := 1 }

/-- one pod already labelled `(r1, 2)`, one stale `(r0, 1)`, one of this release with an
    out-of-range batch-id `"7"`, two fresh new pods, one old-revision pod, one terminating -/
def xPods : List Pod :=
  [ mkPod "p-0" (some "rev-new") (some "r1") (some "2"),
    mkPod "p-1" (some "rev-new") (some "r0") (some "1"),
    mkPod "p-2" (some "rev-new") (some "r1") (some "7"),
    mkPod "p-3" (some "rev-new") none none,
    mkPod "p-4" (some "rev-new") none none,
    mkPod "p-5" (some "rev-old") none none,
    mkPod "p-6" (some "rev-new") none none true ]

def xRps : List RPod := xPods.map fun p => ⟨p, p.ctrlHash, none⟩

/-- the hypotheses of (i)–(iv) hold on a non-trivial input: three label patches
    (batch 2 for `p-4`, `p-3`; batch 1 for the stale `p-1`), none for `p-0`, `p-2`, `p-5`, `p-6` -/
example : plannedIncrements xCfg.batches xCfg.replicas xCfg.currentBatch = some [1, 3] ∧
    resolvePods ⟨[]⟩ [] xPods = some xRps ∧
    patchPodBatchLabel ⟨[]⟩ xCfg xPods = .done false [⟨4, some 2, none⟩, ⟨3, some 2, none⟩, ⟨1, some 1, none⟩] ∧
    hashesNonEmpty ⟨[]⟩ = true ∧ xCfg.batches.length ≤ maxInt64 ∧ curInRange xCfg = true := by decide

/-- … and the conclusions evaluate as stated on it (batch 2: 1 before, 3 after = increment) -/
example : labelled xCfg 2 xRps = 1 ∧
    labelled xCfg 2 (withPods xRps (applyPatches "r1" [⟨4, some 2, none⟩, ⟨3, some 2, none⟩, ⟨1, some 1, none⟩] xPods)) = 3 ∧
    increment [1, 3] 2 = 3 ∧
    patchPodBatchLabel ⟨[]⟩ xCfg (applyPatches "r1" [⟨4, some 2, none⟩, ⟨3, some 2, none⟩, ⟨1, some 1, none⟩] xPods)
      = .done false [] := by decide

/-- a Deployment-style input: the hash comes from the ReplicaSet, both pods get it patched -/
def dPods : List Pod :=
  [ { mkPod "d-0" none none none with tmplHash := some "t", owner := .rs "rs-new" "u1" },
    { mkPod "d-1" none (some "r1") (some "1") with tmplHash := some "t", owner := .rs "rs-new" "u1" } ]

example : resolvePods ⟨[("rs-new", "h9")]⟩ [] dPods = some [⟨dPods[0], some "h9", some "h9"⟩, ⟨dPods[1], some "h9", some "h9"⟩] ∧
    hashesNonEmpty ⟨[("rs-new", "h9")]⟩ = true ∧
    patchPodBatchLabel ⟨[("rs-new", "h9")]⟩ { xCfg with updateRevision := "demo-h9" } dPods
      = .done false [⟨0, some 2, some "h9"⟩, ⟨1, none, some "h9"⟩] := by decide

/-- (v): the scrambled list is `ForeignEq` to the original one and gets the same patches -/
example : Pointwise (ForeignEq xCfg) xPods (xPods.map (scramble xCfg)) ∧
    (xPods.map (scramble xCfg))[1]! ≠ xPods[1]! :=
  ⟨pointwise_map _ _ (foreignEq_scramble xCfg (by decide)) xPods, by decide⟩

/-- Defect #1 witnesses (batch-id "0", "7", "-3" on a pod of the current release; the unchanged
    code indexes `plannedUpdatedReplicasForBatches[podBatchID-1]` out of range): the fixed code
    skips such a pod and labels the fresh one. -/
example : ∀ bid ∈ ["0", "7", "-3", "007", "-9223372036854775808", "99999999999999999999", "abc", ""],
    patchPodBatchLabel ⟨[]⟩ { xCfg with currentBatch := 0 }
      [mkPod "p-0" (some "rev-new") none none, mkPod "p-1" (some "rev-new") (some "r1") (some bid)]
      = .done false [⟨0, some 1, none⟩] := by decide

/-- outside the hypothesis of (vi): `CurrentBatch = len(batches)` indexes the plan out of range -/
example : patchPodBatchLabel ⟨[]⟩ { xCfg with currentBatch := 2 } xPods = .panic := by decide

/-- outside `namesOk`: the ordered filter panics on a pod name without `-` (two pods or more) -/
example : applyFilter .ordered xCfg [mkPod "nodash" none none none, mkPod "sts-1" none none none] = none := by decide

end Examples

end RV.Props.C12
