import RV.Oracle.Traffic
/-!
# Theorems about the traffic-routing Manager (used by C03, C04, C05, C07, C10)

All statements quantify over every network state (any selector values, any canary weight),
every expectation-map state and every context (grace period, step weight, revisions).
-/
namespace RV.Props.Traffic
open RV.Traffic RV.Oracle.Traffic

/-- what the Service step guarantees when it issues no write -/
theorem svcStep_nowrite (c : TCtx) (n n2 : Net) (h : svcStep c n = some (n2, [])) :
    n2 = n ∧ (c.disableGen = false → n.canarySvc = some c.canaryRev ∧ n.stableSel = some c.stableRev) := by
  unfold svcStep at h
  split at h
  · rename_i hd; simp only [Option.some.injEq, Prod.mk.injEq] at h; exact ⟨h.1.symm, by simp [hd]⟩
  · split at h
    · cases h
    · rename_i hd hrev
      dsimp only at h
      simp only [Option.some.injEq, Prod.mk.injEq, List.append_eq_nil_iff] at h
      obtain ⟨hn, hw1, hw2⟩ := h
      cases hcs : n.canarySvc with
      | none => simp [hcs] at hw1
      | some r =>
        simp only [hcs] at hw1 hn hw2
        by_cases hr : r = c.canaryRev
        · simp only [hr, ne_eq, not_true_eq_false, if_false] at hn hw2
          by_cases hs : n.stableSel.getD "" = c.stableRev
          · simp only [hs, ne_eq, not_true_eq_false, if_false] at hn
            refine ⟨hn.symm, fun _ => ⟨by rw [hr], ?_⟩⟩
            cases hss : n.stableSel with
            | none => simp [hss] at hs; exact absurd hs.symm (by intro h; exact hrev (Or.inl h.symm))
            | some v => simp [hss] at hs; rw [hs]
          · simp [hs] at hw2
        · simp [hr] at hw1

/-- a Service step that writes never touches the gateway -/
theorem svcStep_frame (c : TCtx) (n n2 : Net) (ws : List String) (h : svcStep c n = some (n2, ws)) :
    n2.canaryIng = n.canaryIng ∧ n2.stableExists = n.stableExists ∧ n2.stableIngress = n.stableIngress := by
  unfold svcStep at h
  split at h
  · simp only [Option.some.injEq, Prod.mk.injEq] at h; rw [← h.1]; exact ⟨rfl, rfl, rfl⟩
  · split at h
    · cases h
    · dsimp only at h
      simp only [Option.some.injEq, Prod.mk.injEq] at h
      rw [← h.1]
      cases n.canarySvc <;> dsimp only <;> repeat' split
      all_goals exact ⟨rfl, rfl, rfl⟩

/-- characterisation of a *done* verdict of `DoTrafficRouting` for a weight step -/
theorem doTR_done (c : TCtx) (n : Net) (m : Mem) (w : Nat)
    (href : c.hasRef = true) (hw : c.weight = some w) (hdone : (doTrafficRouting c n m).done = true) :
    svcStep c n = some (n, []) ∧ (ensureRoutes n w).2.1 = true ∧ (ensureRoutes n w).2.2 = false ∧
    (doTrafficRouting c n m).net = { n with canaryIng := (ensureRoutes n w).1 } := by
  have hd := hdone
  unfold doTrafficRouting at hd
  simp only [href, not_true_eq_false, if_false, hw] at hd
  by_cases h1 : n.stableExists = true
  · simp only [h1, not_true_eq_false, if_false] at hd
    by_cases h2 : c.lastUpdate = Age.fresh
    · simp [h2] at hd
    · simp only [h2, if_false] at hd
      cases hsvc : svcStep c n with
      | none => simp [hsvc] at hd
      | some p =>
        obtain ⟨n2, ws⟩ := p
        simp only [hsvc] at hd
        by_cases hws : ws = []
        · subst hws
          simp only [ne_eq, not_true_eq_false, if_false] at hd
          obtain ⟨hn2, _⟩ := svcStep_nowrite c n n2 hsvc
          subst hn2
          unfold routeStep at hd
          dsimp only at hd
          by_cases he : (ensureRoutes n2 w).2.2 = true
          · simp [he] at hd
          · simp only [he, Bool.false_eq_true, if_false] at hd
            have he' : (ensureRoutes n2 w).2.2 = false := by simpa using he
            refine ⟨rfl, hd, he', ?_⟩
            unfold doTrafficRouting
            simp only [href, not_true_eq_false, if_false, hw, h1, h2, hsvc, ne_eq, routeStep, he',
              Bool.false_eq_true]
        · simp [hws] at hd
  · simp [h1] at hd

/-- **C03.iii** — `DoTrafficRouting` reports *done* for a weight step only when the canary
    Service exists and selects the canary revision, the stable Service is pinned to the
    stable revision, and the canary share configured on the gateway equals exactly the
    step's weight. -/
theorem done_means_routed (c : TCtx) (n : Net) (m : Mem) :
    doneMeansRouted c (doTrafficRouting c n m).net (doTrafficRouting c n m).done = true := by
  unfold doneMeansRouted
  split
  · rename_i hd
    obtain ⟨hdone, href⟩ := hd
    cases hw : c.weight with
    | none => rfl
    | some w =>
      obtain ⟨hsvc, hver, _, hnet⟩ := doTR_done c n m w href hw hdone
      obtain ⟨_, hsv⟩ := svcStep_nowrite c n n hsvc
      rw [hnet]
      dsimp only
      have hroute : (ensureRoutes n w).1 = some w ∨ (w = 0 ∧ (ensureRoutes n w).1 = none) := by
        unfold ensureRoutes at hver ⊢
        cases hci : n.canaryIng with
        | none =>
          simp only [hci] at hver ⊢
          by_cases hw0 : w = 0
          · right; simp [hw0]
          · simp only [hw0, if_false] at hver; split at hver <;> simp at hver
        | some x =>
          simp only [hci] at hver ⊢
          by_cases hx : x = w
          · left; simp [hx]
          · simp [hx] at hver
      cases hdg : c.disableGen
      · obtain ⟨a, b⟩ := hsv hdg
        rcases hroute with h | ⟨h0, h⟩
        · simp [h, a, b]
        · subst h0; simp [h, a, b]
      · rcases hroute with h | ⟨h0, h⟩
        · simp [h]
        · subst h0; simp [h]
  · rfl

/-- **C04 / C03** — a call of `DoTrafficRouting` that changes the gateway found the canary Service
    already selecting the canary revision and the stable Service already pinned; it does not
    touch the Services in the same call. -/
theorem services_before_routes (c : TCtx) (n : Net) (m : Mem) :
    servicesBeforeRoutes c n (doTrafficRouting c n m).net = true := by
  unfold servicesBeforeRoutes
  split
  · rename_i hc
    obtain ⟨hchg, _, hdg⟩ := hc
    have hdg' : c.disableGen = false := by simpa using hdg
    unfold doTrafficRouting at hchg ⊢
    by_cases href : c.hasRef = true
    · simp only [href, not_true_eq_false, if_false] at hchg ⊢
      cases hw : c.weight with
      | none => simp [hw] at hchg
      | some w =>
        simp only [hw] at hchg ⊢
        by_cases h1 : n.stableExists = true
        · simp only [h1, not_true_eq_false, if_false] at hchg ⊢
          by_cases h2 : c.lastUpdate = Age.fresh
          · simp [h2] at hchg
          · simp only [h2, if_false] at hchg ⊢
            cases hsvc : svcStep c n with
            | none => simp [hsvc] at hchg
            | some p =>
              obtain ⟨n2, ws⟩ := p
              simp only [hsvc] at hchg ⊢
              by_cases hws : ws = []
              · subst hws
                simp only [ne_eq, not_true_eq_false, if_false] at hchg ⊢
                obtain ⟨hn2, hsv⟩ := svcStep_nowrite c n n2 hsvc
                obtain ⟨a, b⟩ := hsv hdg'
                unfold routeStep
                dsimp only
                split <;> simp [a, b]
              · simp only [ne_eq, hws, not_false_eq_true, if_true] at hchg
                exact absurd (svcStep_frame c n n2 ws hsvc).1 hchg
        · simp [h1] at hchg
    · simp [href] at hchg
  · rfl


/-! ### Finalising order -/

/-- an expectation whose period has elapsed behaves exactly like no expectation (so the harness may report
    both alike, and the background cleaner that drops elapsed entries changes nothing observable) -/
theorem runGrace_elapsed_none (g : Nat) (md : Bool) : runGrace g .elapsed md = runGrace g .none md := by
  unfold runGrace; split
  · rfl
  · split <;> rfl

theorem runGrace_cases (g : Nat) (e : Exp) (md : Bool) :
    (runGrace g e md).2 = false ∨ (runGrace g e md).2 = true := by
  cases (runGrace g e md).2 <;> simp

theorem rs_spec (c : TCtx) (n : Net) (m : Mem) :
    let r := restoreStableService c n m
    (r.writes = [] ∨ r.writes = ["unpinStable"]) ∧ r.net.canaryIng = n.canaryIng ∧ r.net.canarySvc = n.canarySvc ∧
    r.net.stableExists = n.stableExists ∧ r.err = false ∧
    (c.hasRef = true → n.stableExists = true → c.hasRevKey = true → r.net.stableSel.getD "" = "") := by
  unfold restoreStableService
  by_cases h1 : c.hasRef = true
  · by_cases h2 : n.stableExists = true
    · by_cases h3 : n.stableSel.getD "" = ""
      · simp [h1, h2, h3]
      · by_cases h4 : c.hasRevKey = true <;> simp [h1, h2, h3, h4]
    · simp [h1, h2]
  · simp [h1]

theorem rg_spec (c : TCtx) (n : Net) (m : Mem) :
    let r := restoreGateway c n m
    (r.writes = [] ∨ r.writes = ["deleteCanaryIngress"]) ∧ r.net.canarySvc = n.canarySvc ∧
    r.net.stableSel = n.stableSel ∧ r.net.stableExists = n.stableExists ∧ r.err = false ∧
    (c.hasRef = true → r.net.canaryIng = none) ∧ (c.hasRef = false → r.net = n) := by
  unfold restoreGateway finaliseGw
  by_cases h1 : c.hasRef = true
  · cases h2 : n.canaryIng <;> simp [h1, h2]
  · simp [h1]

theorem rc_spec (c : TCtx) (n : Net) (m : Mem) :
    let r := removeCanaryService c n m
    (r.writes = [] ∨ r.writes = ["deleteCanarySvc"]) ∧ r.net.canaryIng = n.canaryIng ∧
    r.net.stableSel = n.stableSel ∧ r.net.stableExists = n.stableExists ∧ r.err = false ∧
    (c.hasRef = true → c.disableGen = false → r.net.canarySvc = none) := by
  unfold removeCanaryService
  by_cases h1 : c.hasRef = true
  · by_cases h2 : c.disableGen = true
    · simp [h1, h2]
    · cases h3 : n.canarySvc <;> simp [h1, h2, h3]
  · simp [h1]

/-- ordering facts for lists made of at most one `a`, then at most one `b`, then at most one `c` -/
theorem before_shapes (x y z : List String)
    (hx : x = [] ∨ x = ["unpinStable"]) (hy : y = [] ∨ y = ["deleteCanaryIngress"])
    (hz : z = [] ∨ z = ["deleteCanarySvc"]) :
    before (x ++ y ++ z) "deleteCanaryIngress" "deleteCanarySvc" = true ∧
    before (x ++ y ++ z) "unpinStable" "deleteCanaryIngress" = true := by
  rcases hx with rfl | rfl <;> rcases hy with rfl | rfl <;> rcases hz with rfl | rfl <;> decide

/-- **C04 / C10 (partial: outside known finding F-C05-1)** — `FinalisingTrafficRouting` un-pins the
    stable Service first, withdraws the route to the canary Service next and deletes the canary
    Service last; the canary Service is deleted only in a call that found (or left) no route to it;
    *done* means everything is restored.  Hypothesis: the revision label key is known, i.e. the
    controller could read the workload (see `finalising_order_full_FALSE`). -/
theorem finalising_order_partial (c : TCtx) (n : Net) (m : Mem) (hk : c.hasRevKey = true) :
    finalisingOrder c n (finalisingTrafficRouting c n m) = true := by
  obtain ⟨w1, f1a, f1b, f1c, e1, s1⟩ := rs_spec c n m
  obtain ⟨w2, f2a, f2b, f2c, e2, s2, s2'⟩ := rg_spec c (restoreStableService c n m).net (restoreStableService c n m).mem
  obtain ⟨w3, f3a, f3b, f3c, e3, s3⟩ := rc_spec c (restoreGateway c (restoreStableService c n m).net (restoreStableService c n m).mem).net
    (restoreGateway c (restoreStableService c n m).net (restoreStableService c n m).mem).mem
  generalize hr1 : restoreStableService c n m = r1 at *
  generalize hr2 : restoreGateway c r1.net r1.mem = r2 at *
  generalize hr3 : removeCanaryService c r2.net r2.mem = r3 at *
  have hsh := before_shapes r1.writes r2.writes r3.writes w1 w2 w3
  have hsh2 := before_shapes r1.writes r2.writes [] w1 w2 (Or.inl rfl)
  have hsh1 := before_shapes r1.writes [] [] w1 (Or.inl rfl) (Or.inl rfl)
  simp only [List.append_nil] at hsh2 hsh1
  simp only [List.append_assoc] at hsh
  have nc1 : r1.writes.contains "deleteCanarySvc" = false := by rcases w1 with h | h <;> rw [h] <;> decide
  have nc2 : (r1.writes ++ r2.writes).contains "deleteCanarySvc" = false := by
    rcases w1 with h | h <;> rcases w2 with h' | h' <;> rw [h, h'] <;> decide
  unfold finalisingOrder finalisingTrafficRouting
  by_cases href : c.hasRef = true
  · simp only [href, not_true_eq_false, if_false, hr1, hr2, hr3, e1, e2, e3, Bool.false_eq_true, false_or]
    have c2 := s2 href
    by_cases d1 : r1.done = true
    · simp only [d1, if_true, hsh1, nc1, Bool.true_and, Bool.and_true, Bool.false_eq_true, false_and, if_false]
      simp only [f1a, f1b]
      split <;> simp
    · simp only [d1, Bool.false_eq_true, if_false]
      by_cases d2 : r2.done = true
      · simp only [d2, if_true, hsh2, nc2, Bool.true_and, Bool.false_eq_true, false_and, if_false, c2]
        simp
      · simp only [d2, Bool.false_eq_true, if_false]
        have c3 : r3.net.canaryIng = none := by rw [f3a, c2]
        have hss : (r3.net.stableSel.getD "" == "" || !r3.net.stableExists) = true := by
          rw [f3b, f2b, f3c, f2c, f1c]
          cases hse : n.stableExists
          · simp
          · simp [s1 href hse hk]
        by_cases d3 : r3.done = true
        · simp [d3, hsh, c3]
        · simp only [d3, Bool.false_eq_true, if_false]
          cases hdg : c.disableGen
          · have := s3 href hdg
            simp [hsh, c3, this, hss]
          · simp [hsh, c3, hss]
  · simp [href]
    decide


/-- The full-strength statement is FALSE on the unchanged code: when the controller cannot read the
    workload (it is gone, or its status is not yet consistent) the revision label key is empty,
    `RestoreStableService` finds nothing to remove, and the whole sequence reports *done* while the
    stable Service is still pinned to the old revision. -/
theorem finalising_order_full_FALSE :
    ∃ c n m, c.hasRevKey = false ∧ finalisingOrder c n (finalisingTrafficRouting c n m) = false := by
  refine ⟨{ hasRef := true, grace := 0, weight := none, disableGen := false, stableRev := "v1", canaryRev := "v2",
            lastUpdate := .none, hasRevKey := false },
          { stableExists := true, stableSel := some "v1", canarySvc := some "v2", stableIngress := true, canaryIng := some 20 },
          Mem.empty, rfl, by decide⟩

/-! ### Fixed points (C07.iii) -/

/-- **C07.iii** — when `DoTrafficRouting` reports *done* it has changed nothing: no API write,
    same network state, same expectation map.  Re-applying the same step is therefore a no-op
    that reports *done* again. -/
theorem done_is_fixed_point (c : TCtx) (n : Net) (m : Mem) (hdone : (doTrafficRouting c n m).done = true) :
    (doTrafficRouting c n m).net = n ∧ (doTrafficRouting c n m).mem = m ∧ (doTrafficRouting c n m).writes = [] ∧
    doTrafficRouting c (doTrafficRouting c n m).net (doTrafficRouting c n m).mem = doTrafficRouting c n m := by
  have key : (doTrafficRouting c n m).net = n ∧ (doTrafficRouting c n m).mem = m ∧ (doTrafficRouting c n m).writes = [] := by
    by_cases href : c.hasRef = true
    · cases hw : c.weight with
      | none => simp [doTrafficRouting, href, hw]
      | some w =>
        obtain ⟨hsvc, hver, herr, hnet⟩ := doTR_done c n m w href hw hdone
        have hsame : (ensureRoutes n w).1 = n.canaryIng := by
          unfold ensureRoutes at hver ⊢
          cases hci : n.canaryIng with
          | none =>
            simp only [hci] at hver ⊢
            by_cases hw0 : w = 0
            · simp [hw0]
            · simp only [hw0, if_false] at hver; split at hver <;> simp at hver
          | some x =>
            simp only [hci] at hver ⊢
            by_cases hx : x = w
            · simp [hx]
            · simp [hx] at hver
        have h1 : n.stableExists = true := by
          by_cases h : n.stableExists = true
          · exact h
          · simp [doTrafficRouting, href, hw, h] at hdone
        have h2 : c.lastUpdate ≠ Age.fresh := by
          intro h; simp [doTrafficRouting, href, hw, h1, h] at hdone
        refine ⟨by rw [hnet, hsame], ?_, ?_⟩
        · simp [doTrafficRouting, href, hw, h1, h2, hsvc, routeStep, herr]
        · simp [doTrafficRouting, href, hw, h1, h2, hsvc, routeStep, herr, hsame]
    · simp [doTrafficRouting, href]
  refine ⟨key.1, key.2.1, key.2.2, ?_⟩
  rw [key.1, key.2.1]

/-- a retry-style Manager call that reports completion has issued no write in that call -/
theorem restore_done_nowrite (c : TCtx) (n : Net) (m : Mem) (hg : c.grace ≠ 0) :
    ((restoreStableService c n m).done = false → (restoreStableService c n m).writes = [] ∧ (restoreStableService c n m).net = n) ∧
    ((restoreGateway c n m).done = false → (restoreGateway c n m).writes = [] ∧ (restoreGateway c n m).net = n) ∧
    ((patchStableService c n m).done = false → (patchStableService c n m).writes = [] ∧ (patchStableService c n m).net = n) := by
  refine ⟨?_, ?_, ?_⟩
  · unfold restoreStableService runGrace
    by_cases h1 : c.hasRef = true
    · by_cases h2 : n.stableExists = true
      · by_cases h3 : n.stableSel.getD "" = "" <;> by_cases h4 : c.hasRevKey = true <;> simp [h1, h2, h3, h4, hg]
      · simp [h1, h2]
    · simp [h1]
  · unfold restoreGateway runGrace finaliseGw
    by_cases h1 : c.hasRef = true
    · obtain ⟨a, b, cs, d, e⟩ := n
      cases e <;> simp [h1, hg]
    · simp [h1]
  · unfold patchStableService runGrace
    by_cases h1 : c.hasRef = true
    · by_cases h0 : c.disableGen = true
      · simp [h1, h0]
      · by_cases h2 : n.stableExists = true
        · by_cases h3 : n.stableSel.getD "" = c.stableRev <;> simp [h1, h0, h2, h3, hg]
        · simp [h1, h0, h2]
    · simp [h1]

/-- **C05 (frame)** — each Manager call writes only the objects it is responsible for. -/
theorem call_frame (c : TCtx) (n : Net) (m : Mem) :
    frame "patchStableService" n (patchStableService c n m).net = true ∧
    frame "restoreStableService" n (restoreStableService c n m).net = true ∧
    frame "restoreGateway" n (restoreGateway c n m).net = true ∧
    frame "removeCanaryService" n (removeCanaryService c n m).net = true := by
  obtain ⟨_, a1, a2, a3, _, _⟩ := rs_spec c n m
  obtain ⟨_, b1, b2, b3, _, _, _⟩ := rg_spec c n m
  obtain ⟨_, c1, c2, c3, _, _⟩ := rc_spec c n m
  refine ⟨?_, ?_, ?_, ?_⟩
  · unfold patchStableService frame
    by_cases h1 : c.hasRef = true
    · by_cases h0 : c.disableGen = true
      · simp [h1, h0]
      · by_cases h2 : n.stableExists = true
        · by_cases h3 : n.stableSel.getD "" = c.stableRev <;> simp [h1, h0, h2, h3]
        · simp [h1, h0, h2]
    · simp [h1]
  · simp only [frame, a1, a2, a3, decide_true, Bool.and_true, Bool.true_and]
    unfold restoreStableService
    by_cases h1 : c.hasRef = true
    · by_cases h2 : n.stableExists = true
      · by_cases h3 : n.stableSel.getD "" = "" <;> by_cases h4 : c.hasRevKey = true <;> simp [h1, h2, h3, h4]
      · simp [h1, h2]
    · simp [h1]
  · simp [frame, b1, b2, b3]
  · simp [frame, c1, c2, c3]

/-! ### C07.iii — traffic routing converges (no oscillation, bounded number of rounds) -/

/-- the network after one more `DoTrafficRouting` round (the grace memory plays no part in this call) -/
def stepNet (c : TCtx) (n : Net) : Net := (doTrafficRouting c n Mem.empty).net

/-- `k` further rounds -/
def iterNet (c : TCtx) : Nat → Net → Net
  | 0, n => n
  | k + 1, n => iterNet c k (stepNet c n)

/-- the Services are in place: the Service part of the call finds nothing to do -/
def SvcOk (c : TCtx) (n : Net) : Prop := svcStep c n = some (n, [])

/-- what "Services in place" means -/
theorem svcOk_iff (c : TCtx) (n : Net) :
    SvcOk c n ↔ (c.disableGen = true ∨
      (c.stableRev ≠ "" ∧ c.canaryRev ≠ "" ∧ n.canarySvc = some c.canaryRev ∧ n.stableSel.getD "" = c.stableRev)) := by
  unfold SvcOk svcStep
  by_cases hd : c.disableGen = true
  · simp [hd]
  · by_cases hs : c.stableRev = ""
    · simp [hd, hs]
    · by_cases hc : c.canaryRev = ""
      · simp [hd, hs, hc]
      · simp only [hd, hs, hc, or_self, if_false, Bool.false_eq_true, false_or, ne_eq, not_false_eq_true, true_and]
        cases hcs : n.canarySvc with
        | none =>
          dsimp only
          by_cases hst : n.stableSel.getD "" = c.stableRev <;> simp [hst]
        | some r =>
          dsimp only
          by_cases hr : r = c.canaryRev
          · subst hr
            by_cases hst : n.stableSel.getD "" = c.stableRev
            · simp [hst]
            · simp [hst]
          · by_cases hst : n.stableSel.getD "" = c.stableRev <;> simp [hr, hst]

/-- the Service part always leaves the Services in place -/
theorem svcStep_idem (c : TCtx) (n n2 : Net) (ws : List String) (h : svcStep c n = some (n2, ws)) : SvcOk c n2 := by
  rw [svcOk_iff]
  unfold svcStep at h
  by_cases hd : c.disableGen = true
  · exact Or.inl hd
  · right
    rw [if_neg hd] at h
    by_cases hr : c.stableRev = "" ∨ c.canaryRev = ""
    · rw [if_pos hr] at h; cases h
    · rw [if_neg hr] at h
      have hs : c.stableRev ≠ "" := fun he => hr (Or.inl he)
      have hc : c.canaryRev ≠ "" := fun he => hr (Or.inr he)
      refine ⟨hs, hc, ?_⟩
      dsimp only at h
      simp only [Option.some.injEq, Prod.mk.injEq] at h
      obtain ⟨hn, _⟩ := h
      subst hn
      cases hcs : n.canarySvc with
      | none =>
        dsimp only
        by_cases hst : n.stableSel.getD "" = c.stableRev
        · simp [hst]
        · simp [hst, hs]
      | some r =>
        dsimp only
        by_cases hrr : r = c.canaryRev
        · subst hrr
          by_cases hst : n.stableSel.getD "" = c.stableRev
          · simp [hst, hcs]
          · simp [hst, hcs, hs]
        · by_cases hst : n.stableSel.getD "" = c.stableRev
          · simp [hrr, hst]
          · simp [hrr, hst, hs]

theorem svcOk_frame (c : TCtx) (n : Net) (ci : Option Nat) (h : SvcOk c n) : SvcOk c { n with canaryIng := ci } := by
  rw [svcOk_iff] at h ⊢
  exact h

/-- with the Services in place the call is the provider step alone -/
theorem doTR_of_svcOk (c : TCtx) (n : Net) (m : Mem) (w : Nat) (href : c.hasRef = true) (hw : c.weight = some w)
    (hex : n.stableExists = true) (hl : c.lastUpdate ≠ .fresh) (hok : SvcOk c n) :
    doTrafficRouting c n m = routeStep n m w := by
  unfold doTrafficRouting
  unfold SvcOk at hok
  simp only [href, not_true_eq_false, if_false, hw, hex, hl, hok]
  simp

/-- one round always leaves the Services in place (and the stable Service / Ingress where they were) -/
theorem stepNet_svcOk (c : TCtx) (n : Net) (w : Nat) (href : c.hasRef = true) (hw : c.weight = some w)
    (hex : n.stableExists = true) (hl : c.lastUpdate ≠ .fresh) (hrev : c.disableGen = true ∨ (c.stableRev ≠ "" ∧ c.canaryRev ≠ "")) :
    SvcOk c (stepNet c n) ∧ (stepNet c n).stableExists = true ∧ (stepNet c n).stableIngress = n.stableIngress := by
  unfold stepNet doTrafficRouting
  simp only [href, not_true_eq_false, if_false, hw, hex, hl]
  cases hs : svcStep c n with
  | none =>
    exfalso
    unfold svcStep at hs
    rcases hrev with hd | ⟨h1, h2⟩
    · simp [hd] at hs
    · by_cases hd : c.disableGen = true
      · simp [hd] at hs
      · simp [hd, h1, h2] at hs
  | some r =>
    obtain ⟨n2, ws⟩ := r
    have hok2 := svcStep_idem c n n2 ws hs
    obtain ⟨f1, f2, f3⟩ := svcStep_frame c n n2 ws hs
    dsimp only
    by_cases hws : ws = []
    · subst hws
      have hn2 : n2 = n := (svcStep_nowrite c n n2 hs).1
      subst hn2
      simp only [ne_eq, not_true_eq_false, if_false]
      unfold routeStep
      dsimp only
      split
      · exact ⟨hok2, hex, rfl⟩
      · exact ⟨svcOk_frame c n2 _ hok2, hex, rfl⟩
    · simp only [ne_eq, hws, not_false_eq_true, if_true]
      exact ⟨hok2, by rw [f2]; exact hex, f3⟩

/-- the provider step converges in at most three rounds: create the canary Ingress, set the weight, verify -/
theorem routeStep_converges (n : Net) (m : Mem) (w : Nat) (hing : n.stableIngress = true) :
    (routeStep n m w).done = true ∨
    (routeStep (routeStep n m w).net m w).done = true ∨
    (routeStep (routeStep (routeStep n m w).net m w).net m w).done = true := by
  unfold routeStep ensureRoutes
  cases hci : n.canaryIng with
  | none =>
    by_cases hw0 : w = 0
    · left; simp [hw0]
    · right
      by_cases h0 : (0 : Nat) = w
      · exact absurd h0.symm hw0
      · right
        simp [hw0, hing, h0]
  | some x =>
    by_cases hx : x = w
    · left; simp [hx]
    · right; left
      simp [hx]

/-- **C07.iii (traffic routing converges)** — for every routing context with a route to manage, every network
    state in which the stable Service and Ingress exist, and every grace memory: if the caller comes back
    whenever its grace period has elapsed, `DoTrafficRouting` reports *done* after at most **four** further
    rounds — there is no state from which it keeps rewriting the network. -/
theorem doTR_converges (c : TCtx) (n : Net) (m : Mem) (w : Nat) (href : c.hasRef = true) (hw : c.weight = some w)
    (hex : n.stableExists = true) (hing : n.stableIngress = true) (hl : c.lastUpdate ≠ .fresh)
    (hrev : c.disableGen = true ∨ (c.stableRev ≠ "" ∧ c.canaryRev ≠ "")) :
    ∃ k, k ≤ 3 ∧ (doTrafficRouting c (iterNet c (k + 1) n) m).done = true := by
  obtain ⟨ok1, ex1, ing1⟩ := stepNet_svcOk c n w href hw hex hl hrev
  rw [hing] at ing1
  -- from the first round on, each round is the provider step
  have hstep : ∀ n' : Net, SvcOk c n' → n'.stableExists = true → stepNet c n' = (routeStep n' Mem.empty w).net := by
    intro n' hk he
    unfold stepNet
    rw [doTR_of_svcOk c n' Mem.empty w href hw he hl hk]
  have hkeep : ∀ n' : Net, SvcOk c n' → n'.stableExists = true →
      SvcOk c (routeStep n' Mem.empty w).net ∧ (routeStep n' Mem.empty w).net.stableExists = true ∧
      (routeStep n' Mem.empty w).net.stableIngress = n'.stableIngress := by
    intro n' hk he
    have := stepNet_svcOk c n' w href hw he hl hrev
    rw [hstep n' hk he] at this
    exact this
  have hnet_m : ∀ (n' : Net) (m1 m2 : Mem), (routeStep n' m1 w).net = (routeStep n' m2 w).net ∧
      (routeStep n' m1 w).done = (routeStep n' m2 w).done := by
    intro n' m1 m2; unfold routeStep; dsimp only; split <;> exact ⟨rfl, rfl⟩
  generalize hn1 : stepNet c n = n1 at ok1 ex1 ing1
  obtain ⟨ok2, ex2, ing2⟩ := hkeep n1 ok1 ex1
  obtain ⟨ok3, ex3, ing3⟩ := hkeep _ ok2 ex2
  rcases routeStep_converges n1 Mem.empty w ing1 with h | h | h
  · refine ⟨0, by omega, ?_⟩
    show (doTrafficRouting c (stepNet c n) m).done = true
    rw [hn1, doTR_of_svcOk c n1 m w href hw ex1 hl ok1, (hnet_m n1 m Mem.empty).2]; exact h
  · refine ⟨1, by omega, ?_⟩
    show (doTrafficRouting c (stepNet c (stepNet c n)) m).done = true
    rw [hn1, hstep n1 ok1 ex1, doTR_of_svcOk c _ m w href hw ex2 hl ok2, (hnet_m _ m Mem.empty).2]; exact h
  · refine ⟨2, by omega, ?_⟩
    show (doTrafficRouting c (stepNet c (stepNet c (stepNet c n))) m).done = true
    rw [hn1, hstep n1 ok1 ex1, hstep _ ok2 ex2, doTR_of_svcOk c _ m w href hw ex3 hl ok3, (hnet_m _ m Mem.empty).2]; exact h

/-! ### C05 / C07 — the clean-up of the traffic routing converges -/

/-- time passes: every grace period that was running has elapsed when the caller comes back -/
def tickE : Exp → Exp
  | .fresh => .elapsed
  | e => e
def tick (m : Mem) : Mem :=
  ⟨tickE m.patchService, tickE m.restoreService, tickE m.restoreGateway, tickE m.removeCanaryService, tickE m.updateRoute⟩

/-- no grace period is still running -/
def NoFresh (m : Mem) : Prop := m.restoreService ≠ .fresh ∧ m.restoreGateway ≠ .fresh ∧ m.removeCanaryService ≠ .fresh

theorem tickE_ne_fresh (e : Exp) : tickE e ≠ .fresh := by cases e <;> simp [tickE]
theorem tick_noFresh (m : Mem) : NoFresh (tick m) := ⟨tickE_ne_fresh _, tickE_ne_fresh _, tickE_ne_fresh _⟩

def expW : Exp → Nat
  | .none => 0
  | _ => 1

/-- what is left to clean up, weighted so that every round that is not done lowers it -/
def leftover (c : TCtx) (n : Net) (m : Mem) : Nat :=
  (if n.stableExists = true ∧ c.hasRevKey = true ∧ n.stableSel.getD "" ≠ "" then 2 else 0) +
  (if n.canaryIng.isSome = true then 2 else 0) +
  (if c.disableGen = false ∧ n.canarySvc.isSome = true then 2 else 0) +
  expW m.restoreService + expW m.restoreGateway + expW m.removeCanaryService

theorem expW_tick_le (e : Exp) : expW (tickE e) ≤ expW e := by cases e <;> simp [expW, tickE]
theorem expW_le_one (e : Exp) : expW e ≤ 1 := by cases e <;> simp [expW]

/-- `runGrace` on a memory without running periods: modified → retry and one unit pending; elapsed → cleared;
    none → nothing -/
theorem runGrace_nofresh (g : Nat) (e : Exp) (md : Bool) (hg : g ≠ 0) (he : e ≠ .fresh) :
    (md = true → runGrace g e md = (.fresh, true)) ∧
    (md = false → (runGrace g e md).2 = false ∧ (runGrace g e md).1 = .none) := by
  unfold runGrace
  simp only [hg, if_false]
  constructor
  · intro h; simp [h]
  · intro h; simp only [h, Bool.false_eq_true, if_false]; cases e <;> simp_all

/-- `RestoreStableService` on a memory without running periods -/
theorem rs_round (c : TCtx) (n : Net) (m : Mem) (href : c.hasRef = true) (hg : c.grace ≠ 0) (hm : m.restoreService ≠ .fresh) :
    let r := restoreStableService c n m
    r.err = false ∧ r.net.canaryIng = n.canaryIng ∧ r.net.canarySvc = n.canarySvc ∧ r.net.stableExists = n.stableExists ∧
    r.mem.restoreGateway = m.restoreGateway ∧ r.mem.removeCanaryService = m.removeCanaryService ∧
    ((n.stableExists = true ∧ c.hasRevKey = true ∧ n.stableSel.getD "" ≠ "") →
      r.done = true ∧ r.net.stableSel = none ∧ r.mem.restoreService = .fresh) ∧
    (¬ (n.stableExists = true ∧ c.hasRevKey = true ∧ n.stableSel.getD "" ≠ "") →
      r.done = false ∧ r.net = n ∧ (n.stableExists = true → r.mem.restoreService = .none) ∧
      (n.stableExists = false → r.mem = m)) := by
  unfold restoreStableService
  simp only [href, not_true_eq_false, if_false]
  by_cases hex : n.stableExists = true
  · simp only [hex, not_true_eq_false, if_false, true_and]
    by_cases hk : c.hasRevKey = true
    · by_cases hs : n.stableSel.getD "" = ""
      · have := (runGrace_nofresh c.grace m.restoreService false hg hm).2 rfl
        simp [hk, hs, this.1, this.2, hex]
      · have := (runGrace_nofresh c.grace m.restoreService true hg hm).1 rfl
        simp [hk, hs, this]
    · have := (runGrace_nofresh c.grace m.restoreService false hg hm).2 rfl
      simp [hk, this.1, this.2, hex]
  · simp [hex]

/-- `RestoreGateway` on a memory without running periods -/
theorem rg_round (c : TCtx) (n : Net) (m : Mem) (href : c.hasRef = true) (hg : c.grace ≠ 0) (hm : m.restoreGateway ≠ .fresh) :
    let r := restoreGateway c n m
    r.err = false ∧ r.net.stableSel = n.stableSel ∧ r.net.canarySvc = n.canarySvc ∧ r.net.stableExists = n.stableExists ∧
    r.net.canaryIng = none ∧
    r.mem.restoreService = m.restoreService ∧ r.mem.removeCanaryService = m.removeCanaryService ∧
    (n.canaryIng.isSome = true → r.done = true ∧ r.mem.restoreGateway = .fresh) ∧
    (n.canaryIng.isSome = false → r.done = false ∧ r.mem.restoreGateway = .none) := by
  unfold restoreGateway finaliseGw
  simp only [href, not_true_eq_false, if_false]
  cases hci : n.canaryIng with
  | none =>
    have := (runGrace_nofresh c.grace m.restoreGateway false hg hm).2 rfl
    simp [this.1, this.2]
  | some x =>
    have := (runGrace_nofresh c.grace m.restoreGateway true hg hm).1 rfl
    simp [this]

/-- `RemoveCanaryService` on a memory without running periods -/
theorem rc_round (c : TCtx) (n : Net) (m : Mem) (href : c.hasRef = true) (hg : c.grace ≠ 0) (hm : m.removeCanaryService ≠ .fresh) :
    let r := removeCanaryService c n m
    r.err = false ∧ r.net.stableSel = n.stableSel ∧ r.net.canaryIng = n.canaryIng ∧ r.net.stableExists = n.stableExists ∧
    r.mem.restoreService = m.restoreService ∧ r.mem.restoreGateway = m.restoreGateway ∧
    (c.disableGen = true → r.done = false ∧ r.net = n ∧ r.mem = m) ∧
    (c.disableGen = false → r.net.canarySvc = none ∧
      (n.canarySvc.isSome = true → r.done = true ∧ r.mem.removeCanaryService = .fresh) ∧
      (n.canarySvc.isSome = false → r.done = false ∧ r.mem.removeCanaryService = .none)) := by
  unfold removeCanaryService
  simp only [href, not_true_eq_false, if_false]
  by_cases hd : c.disableGen = true
  · simp [hd]
  · simp only [hd, if_false]
    cases hcs : n.canarySvc with
    | none =>
      have := (runGrace_nofresh c.grace m.removeCanaryService false hg hm).2 rfl
      simp [this.1, this.2]
    | some x =>
      have := (runGrace_nofresh c.grace m.removeCanaryService true hg hm).1 rfl
      simp [this]

def pinW (c : TCtx) (n : Net) : Nat := if n.stableExists = true ∧ c.hasRevKey = true ∧ n.stableSel.getD "" ≠ "" then 2 else 0
def ingW (n : Net) : Nat := if n.canaryIng.isSome = true then 2 else 0
def svcW (c : TCtx) (n : Net) : Nat := if c.disableGen = false ∧ n.canarySvc.isSome = true then 2 else 0

theorem leftover_eq (c : TCtx) (n : Net) (m : Mem) :
    leftover c n m = pinW c n + ingW n + svcW c n + expW m.restoreService + expW m.restoreGateway + expW m.removeCanaryService := rfl

theorem pinW_congr (c : TCtx) (n n' : Net) (h1 : n'.stableExists = n.stableExists) (h2 : n'.stableSel = n.stableSel) :
    pinW c n' = pinW c n := by unfold pinW; rw [h1, h2]
theorem ingW_congr (n n' : Net) (h : n'.canaryIng = n.canaryIng) : ingW n' = ingW n := by unfold ingW; rw [h]
theorem svcW_congr (c : TCtx) (n n' : Net) (h : n'.canarySvc = n.canarySvc) : svcW c n' = svcW c n := by unfold svcW; rw [h]

/-- **one round of the clean-up makes progress**: it reports done, or strictly less is left afterwards -/
theorem fin_round_progress (c : TCtx) (n : Net) (m : Mem) (href : c.hasRef = true) (hg : c.grace ≠ 0) (hm : NoFresh m) :
    (finalisingTrafficRouting c n m).err = false ∧
    ((finalisingTrafficRouting c n m).done = true ∨
     leftover c (finalisingTrafficRouting c n m).net (tick (finalisingTrafficRouting c n m).mem) < leftover c n m) := by
  obtain ⟨hm1, hm2, hm3⟩ := hm
  obtain ⟨e1, a1, a2, a3, a4, a5, p1, p2⟩ := rs_round c n m href hg hm1
  generalize hr1 : restoreStableService c n m = r1 at *
  unfold finalisingTrafficRouting
  simp only [href, not_true_eq_false, if_false, hr1]
  by_cases hpin : n.stableExists = true ∧ c.hasRevKey = true ∧ n.stableSel.getD "" ≠ ""
  · -- the stable Service is un-pinned in this round
    obtain ⟨d1, s1, x1⟩ := p1 hpin
    simp only [e1, d1, Bool.false_eq_true, false_or, if_true]
    refine ⟨trivial, ?_⟩
    rw [leftover_eq, leftover_eq]
    have hA : pinW c r1.net = 0 := by unfold pinW; rw [s1]; simp
    have hA0 : pinW c n = 2 := by unfold pinW; rw [if_pos hpin]
    have hB := ingW_congr n r1.net a1
    have hC := svcW_congr c n r1.net a2
    have hx : expW (tick r1.mem).restoreService = 1 := by
      show expW (tickE r1.mem.restoreService) = 1; rw [x1]; rfl
    have hy : expW (tick r1.mem).restoreGateway ≤ expW m.restoreGateway := by
      show expW (tickE r1.mem.restoreGateway) ≤ _; rw [a4]; exact expW_tick_le _
    have hz : expW (tick r1.mem).removeCanaryService ≤ expW m.removeCanaryService := by
      show expW (tickE r1.mem.removeCanaryService) ≤ _; rw [a5]; exact expW_tick_le _
    omega
  · obtain ⟨d1, s1, x1, x1'⟩ := p2 hpin
    simp only [e1, d1, Bool.false_eq_true, or_self, if_false]
    have hm2' : r1.mem.restoreGateway ≠ .fresh := by rw [a4]; exact hm2
    have hm3' : r1.mem.removeCanaryService ≠ .fresh := by rw [a5]; exact hm3
    -- what the first call leaves in the memory
    have hrs : expW r1.mem.restoreService ≤ expW m.restoreService := by
      by_cases hex : n.stableExists = true
      · rw [x1 hex]; simp [expW]
      · rw [x1' (by simpa using hex)]; exact Nat.le_refl _
    obtain ⟨e2, b1, b2, b3, b4, b5, b6, q1, q2⟩ := rg_round c r1.net r1.mem href hg hm2'
    generalize hr2 : restoreGateway c r1.net r1.mem = r2 at *
    by_cases hing : r1.net.canaryIng.isSome = true
    · obtain ⟨d2, y2⟩ := q1 hing
      simp only [e2, d2, Bool.false_eq_true, false_or, if_true]
      refine ⟨trivial, ?_⟩
      rw [leftover_eq, leftover_eq]
      have hA : pinW c r2.net = pinW c n := by
        rw [pinW_congr c r1.net r2.net b3 b1, s1]
      have hB : ingW r2.net = 0 := by unfold ingW; rw [b4]; simp
      have hB0 : ingW n = 2 := by unfold ingW; rw [← a1, if_pos hing]
      have hC : svcW c r2.net = svcW c n := by rw [svcW_congr c r1.net r2.net b2, svcW_congr c n r1.net a2]
      have hx : expW (tick r2.mem).restoreService ≤ expW m.restoreService := by
        show expW (tickE r2.mem.restoreService) ≤ _; rw [b5]; exact Nat.le_trans (expW_tick_le _) hrs
      have hy : expW (tick r2.mem).restoreGateway = 1 := by
        show expW (tickE r2.mem.restoreGateway) = 1; rw [y2]; rfl
      have hz : expW (tick r2.mem).removeCanaryService ≤ expW m.removeCanaryService := by
        show expW (tickE r2.mem.removeCanaryService) ≤ _; rw [b6, a5]; exact expW_tick_le _
      omega
    · have hing' : r1.net.canaryIng.isSome = false := by simpa using hing
      obtain ⟨d2, y2⟩ := q2 hing'
      simp only [e2, d2, Bool.false_eq_true, or_self, if_false]
      have hm3'' : r2.mem.removeCanaryService ≠ .fresh := by rw [b6]; exact hm3'
      obtain ⟨e3, c1, c2, c3, c4, c5, t1, t2⟩ := rc_round c r2.net r2.mem href hg hm3''
      generalize hr3 : removeCanaryService c r2.net r2.mem = r3 at *
      by_cases hd : c.disableGen = true
      · obtain ⟨d3, _, _⟩ := t1 hd
        simp only [e3, d3, Bool.false_eq_true, or_self, if_false]
        exact ⟨trivial, Or.inl trivial⟩
      · have hd' : c.disableGen = false := by simpa using hd
        obtain ⟨u1, u2, u3⟩ := t2 hd'
        by_cases hsvc : r2.net.canarySvc.isSome = true
        · obtain ⟨d3, z3⟩ := u2 hsvc
          simp only [e3, d3, Bool.false_eq_true, false_or, if_true]
          refine ⟨trivial, ?_⟩
          rw [leftover_eq, leftover_eq]
          have hA : pinW c r3.net = pinW c n := by
            rw [pinW_congr c r2.net r3.net c3 c1, pinW_congr c r1.net r2.net b3 b1, s1]
          have hB : ingW r3.net ≤ ingW n := by
            rw [ingW_congr r2.net r3.net c2]; unfold ingW; rw [b4]; simp
          have hC : svcW c r3.net = 0 := by unfold svcW; rw [u1]; simp
          have hC0 : svcW c n = 2 := by
            unfold svcW; rw [← a2, ← b2, if_pos ⟨hd', hsvc⟩]
          have hx : expW (tick r3.mem).restoreService ≤ expW m.restoreService := by
            show expW (tickE r3.mem.restoreService) ≤ _; rw [c4, b5]; exact Nat.le_trans (expW_tick_le _) hrs
          have hy : expW (tick r3.mem).restoreGateway ≤ expW m.restoreGateway := by
            show expW (tickE r3.mem.restoreGateway) ≤ _; rw [c5, y2]; simp [tickE, expW]
          have hz : expW (tick r3.mem).removeCanaryService = 1 := by
            show expW (tickE r3.mem.removeCanaryService) = 1; rw [z3]; rfl
          omega
        · have hsvc' : r2.net.canarySvc.isSome = false := by simpa using hsvc
          obtain ⟨d3, _⟩ := u3 hsvc'
          simp only [e3, d3, Bool.false_eq_true, or_self, if_false]
          exact ⟨trivial, Or.inl trivial⟩

/-- `k` rounds of clean-up, time passing after each -/
def finIter (c : TCtx) : Nat → Net × Mem → Net × Mem
  | 0, s => s
  | k + 1, s => finIter c k ((finalisingTrafficRouting c s.1 s.2).net, tick (finalisingTrafficRouting c s.1 s.2).mem)

theorem finalising_converges_aux (c : TCtx) (href : c.hasRef = true) (hg : c.grace ≠ 0) :
    ∀ (b : Nat) (n : Net) (m : Mem), leftover c n m ≤ b → NoFresh m →
      ∃ k, k ≤ b ∧ (finalisingTrafficRouting c (finIter c k (n, m)).1 (finIter c k (n, m)).2).done = true := by
  intro b
  induction b with
  | zero =>
    intro n m hb hm
    obtain ⟨_, hp⟩ := fin_round_progress c n m href hg hm
    rcases hp with hd | hlt
    · exact ⟨0, Nat.le_refl _, hd⟩
    · omega
  | succ b ih =>
    intro n m hb hm
    obtain ⟨_, hp⟩ := fin_round_progress c n m href hg hm
    rcases hp with hd | hlt
    · exact ⟨0, Nat.zero_le _, hd⟩
    · obtain ⟨k, hk, hdone⟩ := ih (finalisingTrafficRouting c n m).net (tick (finalisingTrafficRouting c n m).mem) (by omega) (tick_noFresh _)
      exact ⟨k + 1, by omega, hdone⟩

/-- **C05 / C07 (the traffic clean-up converges)** — for every routing context, every network state and every
    grace memory without a running period (e.g. the empty memory after a restart): if the caller comes back
    whenever its grace period has elapsed, `FinalisingTrafficRouting` reports *done* after at most
    `leftover ≤ 9` rounds, never an error — and by `finalising_order` / `finalising_done_clean` *done* means the
    stable Service is un-pinned, the canary route withdrawn and the canary Service removed, in that order. -/
theorem finalising_converges (c : TCtx) (n : Net) (m : Mem) (href : c.hasRef = true) (hg : c.grace ≠ 0) (hm : NoFresh m) :
    ∃ k, k ≤ 9 ∧ (finalisingTrafficRouting c (finIter c k (n, m)).1 (finIter c k (n, m)).2).done = true := by
  have hle : leftover c n m ≤ 9 := by
    unfold leftover
    have := expW_le_one m.restoreService
    have := expW_le_one m.restoreGateway
    have := expW_le_one m.removeCanaryService
    split <;> split <;> split <;> omega
  obtain ⟨k, hk, hd⟩ := finalising_converges_aux c href hg (leftover c n m) n m (Nat.le_refl _) hm
  exact ⟨k, by omega, hd⟩

/-- without a grace period the whole clean-up happens in the first call -/
theorem finalising_immediate (c : TCtx) (n : Net) (m : Mem) (hg : c.grace = 0) :
    (finalisingTrafficRouting c n m).done = true ∧ (finalisingTrafficRouting c n m).err = false := by
  unfold finalisingTrafficRouting restoreStableService restoreGateway removeCanaryService runGrace finaliseGw
  by_cases href : c.hasRef = true
  · by_cases hex : n.stableExists = true
    · by_cases hd : c.disableGen = true <;> simp [href, hex, hd, hg]
    · by_cases hd : c.disableGen = true <;> simp [href, hex, hd, hg]
  · simp [href]

/-! ### non-vacuity (tests on literals: the hypotheses of the theorems above are met by ordinary states) -/

def exCtx : TCtx :=
  { hasRef := true, grace := 3, weight := some 20, disableGen := false, stableRev := "v1", canaryRev := "v2",
    lastUpdate := .elapsed }
def exRouted : Net :=
  { stableExists := true, stableSel := some "v1", canarySvc := some "v2", stableIngress := true, canaryIng := some 20 }
def exFresh : Net :=
  { stableExists := true, stableSel := none, canarySvc := none, stableIngress := true, canaryIng := none }

/-- a routed step reports done (hypothesis of `doTR_done` / `done_is_fixed_point`) -/
example : (doTrafficRouting exCtx exRouted Mem.empty).done = true := by decide
/-- from a fresh network the first call is not done and creates the canary Service before any route -/
example : (doTrafficRouting exCtx exFresh Mem.empty).done = false ∧
    (doTrafficRouting exCtx exFresh Mem.empty).net.canaryIng = none := by decide
/-- finalising a routed network takes several rounds: the first one only un-pins the stable Service -/
example : (finalisingTrafficRouting exCtx exRouted Mem.empty).done = false ∧
    (finalisingTrafficRouting exCtx exRouted Mem.empty).writes = ["unpinStable"] := by decide
/-- with the grace period off everything is restored in one call, in the proved order -/
example : (finalisingTrafficRouting { exCtx with grace := 0 } exRouted Mem.empty).writes =
    ["unpinStable", "deleteCanaryIngress", "deleteCanarySvc"] := by decide

end RV.Props.Traffic

/-! ## C07 — a retry is a wake-up that comes -/

namespace RV.Props.Traffic
open RV.Traffic RV.Oracle.Traffic

/-- `runWithGraceSeconds` asks for another round only when a grace period is configured -/
theorem runGrace_retry_pos (g : Nat) (e : Exp) (md : Bool) (h : (runGrace g e md).2 = true) : g > 0 := by
  unfold runGrace at h
  split at h
  · cases h
  · omega

/-- **C07** — every retry-style Manager call (`PatchStableService`, `RestoreStableService`, `RestoreGateway`,
    `RemoveCanaryService`, `RouteAllTrafficToNewVersion`) that says "retry" without an error was configured with a
    positive grace period: with `gracePeriodSeconds: 0` ("no need to wait") no call ever asks to be re-run, so the
    reconciler never waits for a recheck whose duration is zero.  Every context, network state and memory. -/
theorem retry_needs_grace (call : String) (f : TCtx → Net → Mem → TOut) (c : TCtx) (n : Net) (m : Mem)
    (hf : (call = "patchStableService" ∧ f = patchStableService) ∨ (call = "restoreStableService" ∧ f = restoreStableService) ∨
          (call = "restoreGateway" ∧ f = restoreGateway) ∨ (call = "removeCanaryService" ∧ f = removeCanaryService) ∨
          (call = "routeAllToNew" ∧ f = routeAllToNew))
    (hd : (f c n m).done = true) (he : (f c n m).err = false) : c.grace > 0 := by
  rcases Nat.eq_zero_or_pos c.grace with hg | hg
  · exfalso
    rcases hf with ⟨_, rfl⟩ | ⟨_, rfl⟩ | ⟨_, rfl⟩ | ⟨_, rfl⟩ | ⟨_, rfl⟩
    · by_cases h1 : c.hasRef = true <;> by_cases h2 : c.disableGen = true <;> by_cases h3 : n.stableExists = true <;>
        simp [patchStableService, runGrace, hg, h1, h2, h3] at hd he
    · by_cases h1 : c.hasRef = true <;> by_cases h3 : n.stableExists = true <;>
        simp [restoreStableService, runGrace, hg, h1, h3] at hd
    · by_cases h1 : c.hasRef = true <;> simp [restoreGateway, runGrace, hg, h1] at hd
    · by_cases h1 : c.hasRef = true <;> by_cases h2 : c.disableGen = true <;>
        simp [removeCanaryService, runGrace, hg, h1, h2] at hd
    · by_cases h1 : c.hasRef = true <;> by_cases h2 : (ensureRoutes n 100).2.2 = true <;>
        simp [routeAllToNew, runGrace, hg, h1, h2] at hd he
  · exact hg

/-- the same for `FinalisingTrafficRouting`: "not done" without an error means one of its three parts asked for
    a retry, which needs a positive grace period -/
theorem finalising_wait_needs_grace (c : TCtx) (n : Net) (m : Mem) (href : c.hasRef = true)
    (hd : (finalisingTrafficRouting c n m).done = false) (he : (finalisingTrafficRouting c n m).err = false) : c.grace > 0 := by
  unfold finalisingTrafficRouting at hd he
  simp only [href, not_true_eq_false, if_false] at hd he
  by_cases h1 : (restoreStableService c n m).err = true ∨ (restoreStableService c n m).done = true
  · simp only [h1, if_true] at he
    rcases h1 with h1 | h1
    · rw [h1] at he; cases he
    · exact retry_needs_grace "restoreStableService" _ c n m (Or.inr (Or.inl ⟨rfl, rfl⟩)) h1 he
  · simp only [h1, if_false] at hd he
    by_cases h2 : (restoreGateway c (restoreStableService c n m).net (restoreStableService c n m).mem).err = true ∨
        (restoreGateway c (restoreStableService c n m).net (restoreStableService c n m).mem).done = true
    · simp only [h2, if_true] at he
      rcases h2 with h2 | h2
      · rw [h2] at he; cases he
      · exact retry_needs_grace "restoreGateway" _ c _ _ (Or.inr (Or.inr (Or.inl ⟨rfl, rfl⟩))) h2 he
    · simp only [h2, if_false] at hd he
      by_cases h3 : (removeCanaryService c (restoreGateway c (restoreStableService c n m).net (restoreStableService c n m).mem).net
          (restoreGateway c (restoreStableService c n m).net (restoreStableService c n m).mem).mem).err = true ∨
          (removeCanaryService c (restoreGateway c (restoreStableService c n m).net (restoreStableService c n m).mem).net
          (restoreGateway c (restoreStableService c n m).net (restoreStableService c n m).mem).mem).done = true
      · simp only [h3, if_true] at he
        rcases h3 with h3 | h3
        · rw [h3] at he; cases he
        · exact retry_needs_grace "removeCanaryService" _ c _ _ (Or.inr (Or.inr (Or.inr (Or.inl ⟨rfl, rfl⟩)))) h3 he
      · simp only [h3, if_false] at hd
        cases hd

/-- non-vacuity: a configured grace period and a Service that has to be re-selected do give a retry -/
example : (patchStableService ⟨true, 3, some 20, false, "v1", "v2", Age.none, true⟩ ⟨true, none, none, true, none⟩ Mem.empty).done = true := by
  decide

end RV.Props.Traffic
