import RV.Props.ExecutorXThms
import RV.Props.CtlStsThms
/-!
# The StatefulSet-like / Advanced-DaemonSet plane is a lawful plane of the executor

`RV.ExecutorX.stsPlane` is a thin adapter over the plane model `RV.CtlSts` (fault `.none`); `RV.Oracle.ExecutorX.stsPreds`
are its own predicates.  The laws the plane-parametric executor theorems (`RV.Props.ExecutorX`) rely on are obtained here
from the theorems already proved about that model (`RV.Props.CtlSts`): `initialize_exposes_nothing`,
`upgradeBatch_within_step`, `upgradeBatch_monotone`, `fault_safe`, `ok_has_effect`, `verdict_ready_means_pods`.
-/
namespace RV.Props.ExecutorX
open RV.Arith RV.BatchCtx RV.Executor RV.ExecutorX RV.Oracle.ExecutorX

/-! ## the adapter's calls are steps of the plane model -/

/-- the configuration of a `RV.CtlSts` walk whose controller calls read `rel` -/
def stsCfg (rel : CtlSts.Rel) : CtlSts.Cfg := { rel := rel, world := { matched := false } }

/-- a controller call of `RV.CtlSts` without an API fault -/
def stsStep (call : CtlSts.Call) (batch : Int := 0) (bpNil : Bool := false) : CtlSts.Step :=
  { call := call, fault := .none, batch := batch, bpNil := bpNil, edit := CtlSts.Edit.none }

theorem stsStep_initialize (rel : CtlSts.Rel) (d : Option CtlSts.Wl) :
    CtlSts.step (stsCfg rel) d (stsStep .initialize) = CtlSts.planeInitialize rel d .none := rfl

theorem stsStep_upgradeBatch (rel : CtlSts.Rel) (batch : Int) (d : Option CtlSts.Wl) :
    CtlSts.step (stsCfg rel) d (stsStep .upgradeBatch batch) = CtlSts.planeUpgradeBatch rel batch d .none := rfl

theorem stsStep_finalize (rel : CtlSts.Rel) (bpNil : Bool) (d : Option CtlSts.Wl) :
    CtlSts.step (stsCfg rel) d (stsStep .finalize 0 bpNil) = CtlSts.planeFinalize bpNil d .none := rfl

/-- the plan entry the plane model works on is the executor's `Batches[CurrentBatch]` -/
theorem sts_entryOf (br : BR) (upd : Int) (nn : Option Int) :
    RV.Oracle.CtlSts.entryOf (stsRel br upd nn) br.status.currentBatch = entryOf br := rfl

/-- what `stsPlane.init` returns, in terms of the model's `Initialize`: the workload of the model's outcome, the new status
    with revisions / replicas / no-need-update recorded only, and `ok` only when the model's call returned ok -/
theorem sts_init_cases (br : BR) (ns : Status) (w w' : StsW) (ns' : Status) (r : CallResult)
    (h : stsPlane.init br ns w = .val (w', ns', r)) :
    ∃ o, CtlSts.planeInitialize (stsRel br ns.updated ns.noNeedUpdate) w.wl .none = .val o ∧
      w' = { w with wl := o.wl } ∧ (r = .ok → o.res = .ok) ∧
      ns'.phase = ns.phase ∧ ns'.currentBatch = ns.currentBatch ∧ ns'.batchState = ns.batchState ∧
      ns'.hasReadyTime = ns.hasReadyTime ∧ ns'.hash = ns.hash := by
  simp only [stsPlane] at h
  split at h
  · cases h
  · cases h
  · rename_i o i ho _
    refine ⟨o, ho, ?_⟩
    split at h
    · rename_i hres _ _
      simp only [Out.val.injEq, Prod.mk.injEq] at h
      obtain ⟨h1, h2, _⟩ := h
      subst h1 h2
      exact ⟨rfl, fun _ => hres, rfl, rfl, rfl, rfl, rfl⟩
    · simp only [Out.val.injEq, Prod.mk.injEq] at h
      obtain ⟨h1, h2, h3⟩ := h
      subst h1 h2 h3
      exact ⟨rfl, (fun hh => nomatch hh), rfl, rfl, rfl, rfl, rfl⟩

/-- what `stsPlane.upgrade` returns, in terms of the model's `UpgradeBatch` -/
theorem sts_upgrade_cases (br : BR) (ns : Status) (w w' : StsW) (r : CallResult)
    (h : stsPlane.upgrade br ns w = .val (w', r)) :
    ∃ o, CtlSts.planeUpgradeBatch (stsRel br br.status.updated br.status.noNeedUpdate) br.status.currentBatch w.wl .none = .val o ∧
      w' = { w with wl := o.wl } ∧ (r = .ok ↔ o.res = .ok) := by
  simp only [stsPlane] at h
  split at h
  · cases h
  · rename_i o ho
    simp only [Out.val.injEq, Prod.mk.injEq] at h
    obtain ⟨h1, h2⟩ := h
    subst h1 h2
    refine ⟨o, ho, rfl, ?_⟩
    unfold resOfBool
    by_cases hr : o.res = .ok <;> simp [hr]

/-- what `stsPlane.fin` returns, in terms of the model's `Finalize` -/
theorem sts_fin_cases (br : BR) (w w' : StsW) (r : CallResult) (h : stsPlane.fin br w = .val (w', r)) :
    ∃ o, CtlSts.planeFinalize br.partition.isNone w.wl .none = .val o ∧
      w' = { w with wl := o.wl } ∧ (r = .ok ↔ o.res = .ok) := by
  simp only [stsPlane] at h
  split at h
  · cases h
  · rename_i o ho
    simp only [Out.val.injEq, Prod.mk.injEq] at h
    obtain ⟨h1, h2⟩ := h
    subst h1 h2
    refine ⟨o, ho, rfl, ?_⟩
    unfold resOfBool
    by_cases hr : o.res = .ok <;> simp [hr]

/-- a controller call of the model that does not return ok left the workload as it was (`fault_safe`) -/
theorem sts_err_same (rel : CtlSts.Rel) (d : Option CtlSts.Wl) (s : CtlSts.Step) (o : CtlSts.StepOut)
    (hs : s.call ≠ .submit) (h : CtlSts.step (stsCfg rel) d s = .val o) (hr : o.res ≠ .ok) : o.wl = d := by
  have hf := RV.Props.CtlSts.fault_safe (stsCfg rel) d s o h
  simp only [RV.Oracle.CtlSts.faultSafe, hs, if_false, Bool.and_eq_true] at hf
  have h1 := hf.1.1.1.1
  rw [if_pos hr] at h1
  simpa using h1

/-- the exposure figure of the plane is never negative inside `expoOK` -/
theorem sts_exposure_nonneg (wl : CtlSts.Wl) (r : Int) (hr : CtlSts.replicasOf wl = some r) (h0 : 0 ≤ r) :
    0 ≤ RV.Oracle.CtlSts.exposureW wl := by
  simp only [RV.Oracle.CtlSts.exposureW, hr]
  exact CtlSts.exposure_nonneg _ r h0

/-! ## the laws -/

/-- **the StatefulSet-like / DaemonSet plane is lawful**: `EnsureBatchPodsReadyAndLabeled` returns nil exactly when the
    plane's readiness verdict is `Ready`; a `Finalize` that returns nil leaves no control-info (or no workload);
    `Initialize` records revisions / replicas / no-need-update only, and when it returns nil the workload carries this
    BatchRelease's control-info. -/
theorem stsLaws : Laws stsPlane stsPreds where
  ensure_ok_iff := by
    intro br ns w _
    simp only [stsPlane, stsPreds]
    cases CtlSts.planeVerdict (stsRel br br.status.updated br.status.noNeedUpdate) br.status.currentBatch w.wl w.cl .none with
    | panic => simp
    | val v =>
      unfold resOfBool
      by_cases hv : v.verdict = .is .ok <;> simp [hv]
  fin_ok_released := by
    intro br w w' _ h
    obtain ⟨o, ho, hw, hr⟩ := sts_fin_cases br w w' .ok h
    have hok : o.res = .ok := hr.mp rfl
    have he := RV.Props.CtlSts.ok_has_effect (stsCfg (stsRel br 0 none)) w.wl (stsStep .finalize 0 br.partition.isNone) o
      ((stsStep_finalize _ _ _).trans ho)
    subst hw
    simp only [RV.Oracle.CtlSts.okHasEffect, hok, if_true, stsStep] at he
    simp only [stsPreds]
    cases hd : w.wl <;> cases hwl : o.wl <;> simp only [hd, hwl] at he ⊢
    all_goals first
      | rfl
      | cases he
      | (simp only [Bool.and_eq_true, beq_iff_eq] at he; simp [he.1])
  init_frame := by
    intro br ns w w' ns' r h
    obtain ⟨_, _, _, _, f⟩ := sts_init_cases br ns w w' ns' r h
    exact f
  init_ok_claimed := by
    intro br ns w w' ns' _ h
    obtain ⟨o, ho, hw, hr, _⟩ := sts_init_cases br ns w w' ns' .ok h
    have hok : o.res = .ok := hr rfl
    have he := RV.Props.CtlSts.ok_has_effect (stsCfg (stsRel br ns.updated ns.noNeedUpdate)) w.wl (stsStep .initialize) o
      ((stsStep_initialize _ _).trans ho)
    subst hw
    simp only [RV.Oracle.CtlSts.okHasEffect, hok, if_true, stsStep] at he
    simp only [stsPreds]
    cases hd : w.wl <;> cases hwl : o.wl <;> simp only [hd, hwl] at he ⊢
    · cases he
    · cases he
    · cases he
    · simpa using he

/-- **exposure laws of the StatefulSet-like / DaemonSet plane** (inside `expoOK`: size between 0 and `MaxInt16`, the
    recorded no-need-update count between 0 and the size): `Initialize` — whether it fails, finds the workload claimed or
    claims it with the hold partition — never raises the number of pods that may move; `UpgradeBatch` never lowers it and
    raises it at most to what the current batch allows (`RV.Oracle.Batch.allowed`); a failed `UpgradeBatch` wrote nothing. -/
theorem stsExposure : ExposureLaws stsPlane stsPreds where
  init_exposes_nothing := by
    intro br ns w w' ns' r _ hexp h
    obtain ⟨o, ho, hw, _⟩ := sts_init_cases br ns w w' ns' r h
    have hstep := (stsStep_initialize (stsRel br ns.updated ns.noNeedUpdate) w.wl).trans ho
    subst hw
    by_cases hok : o.res = .ok
    · have hi := RV.Props.CtlSts.initialize_exposes_nothing _ _ _ o rfl hstep
      simp only [RV.Oracle.CtlSts.initExposesNothing, hok, if_true] at hi
      simp only [stsPreds] at hexp ⊢
      cases hd : w.wl with
      | none => simp [hd] at hi
      | some d =>
        cases hwl : o.wl with
        | none => simp [hd, hwl] at hi
        | some d' =>
          simp only [hd, hwl] at hi hexp ⊢
          cases hrep : CtlSts.replicasOf d with
          | none => simp [hrep] at hexp
          | some R =>
            simp only [hrep, Bool.and_eq_true] at hexp
            have hs := hexp.1
            have h0 : 0 ≤ R := ((CtlSts.sizeOK_iff R).mp hs).1
            by_cases hc : d.control = .this
            · simp only [hc, if_true, beq_iff_eq] at hi
              rw [hi]; exact Int.le_refl _
            · simp only [hc, if_false, hrep, hs, if_true, Bool.and_eq_true, decide_eq_true_eq] at hi
              have := sts_exposure_nonneg d R hrep h0
              have := hi.1.1.2.2
              omega
    · have := sts_err_same _ _ _ o (by simp [stsStep]) hstep hok
      rw [this]; exact Int.le_refl _
  upgrade_monotone := by
    intro br ns w w' r _ _ h
    obtain ⟨o, ho, hw, _⟩ := sts_upgrade_cases br ns w w' r h
    have hm := RV.Props.CtlSts.upgradeBatch_monotone _ _ _ o rfl ((stsStep_upgradeBatch _ _ _).trans ho)
    subst hw
    simp only [RV.Oracle.CtlSts.upgradeMonotone] at hm
    simp only [stsPreds]
    cases hd : w.wl <;> cases hwl : o.wl <;> simp only [hd, hwl] at hm ⊢
    · exact Int.le_refl _
    · cases hm
    · cases hm
    · simpa using hm
  upgrade_within := by
    intro br ns w w' r _ hexp h
    obtain ⟨o, ho, hw, _⟩ := sts_upgrade_cases br ns w w' r h
    have hm := RV.Props.CtlSts.upgradeBatch_within_step _ _ _ o rfl ((stsStep_upgradeBatch _ _ _).trans ho)
    subst hw
    simp only [RV.Oracle.CtlSts.upgradeWithinStep, stsCfg, stsStep, sts_entryOf] at hm
    simp only [stsPreds] at hexp ⊢
    cases hd : w.wl with
    | none =>
      cases hwl : o.wl with
      | none => simp
      | some d' => simp [hd, hwl] at hm
    | some d =>
      cases hwl : o.wl with
      | none => simp [hd, hwl] at hm
      | some d' =>
        simp only [hd, hwl, Bool.or_eq_true, beq_iff_eq] at hm hexp ⊢
        rcases hm with hm | hm
        · rw [hm]; exact Int.le_max_left _ _
        · cases hrep : CtlSts.replicasOf d with
          | none => simp [hrep] at hm
          | some R =>
            cases he : entryOf br with
            | none => simp [hrep, he] at hm
            | some e =>
              simp only [hrep, Bool.and_eq_true] at hexp
              have h0 : 0 ≤ R := ((CtlSts.sizeOK_iff R).mp hexp.1).1
              simp only [hrep, he, stsRel, decide_eq_true h0, hexp.2, Bool.and_self, if_true, Bool.and_eq_true] at hm
              simp only [hrep]
              exact of_decide_eq_true hm.2
  upgrade_err_same := by
    intro br ns w w' h
    obtain ⟨o, ho, hw, hr⟩ := sts_upgrade_cases br ns w w' .err h
    have hne : o.res ≠ .ok := fun hok => by have := hr.mpr hok; cases this
    have := sts_err_same _ _ _ o (by simp [stsStep]) ((stsStep_upgradeBatch _ _ _).trans ho) hne
    rw [hw, this]

/-! ## what readiness means for this plane -/

/-- **what `stsPreds.ready` means, on the pods** (from `RV.Props.CtlSts.verdict_ready_means_pods`): when the plane reports
    the batch the persisted status points at **Ready**, the workload exists and either is empty (size 0: the batch calls
    for nothing) or, for the plan entry `e = Batches[CurrentBatch]` and `desired := DesiredUpdatedReplicas` of that entry
    (with the no-need-update count of the persisted status),
    * the workload's own controller reports at least `desired` updated pods,
    * the **live ready pods of the update revision** (`readyPods`: counted on the pods of the cluster wherever the code lists
      them, `sts_readyPods_typed`) plus the failure threshold reach `desired`, and
    * at least one such pod exists when any is called for. -/
theorem sts_ready_means (br : BR) (w : StsW) (h : stsPreds.ready br w = true) :
    ∃ wl r, w.wl = some wl ∧ CtlSts.replicasOf wl = some r ∧
      (r = 0 ∨ ∃ e, entryOf br = some e ∧
        w.cl.status.updated ≥ desiredOf (CtlSts.bkind wl) r e br.status.noNeedUpdate ∧
        allowedUnavailable br.failureThreshold w.cl.status.updated + RV.Oracle.CtlSts.readyPods wl w.cl
          ≥ desiredOf (CtlSts.bkind wl) r e br.status.noNeedUpdate ∧
        (desiredOf (CtlSts.bkind wl) r e br.status.noNeedUpdate > 0 → RV.Oracle.CtlSts.readyPods wl w.cl ≥ 1)) := by
  simp only [stsPreds] at h
  split at h
  · rename_i v hv
    exact RV.Props.CtlSts.verdict_ready_means_pods _ _ _ _ _ v hv (of_decide_eq_true h)
  · cases h

/-- for every typed kind (native / Advanced StatefulSet, Advanced DaemonSet) the number `sts_ready_means` speaks of is the
    number of pods of the cluster that are the workload's own, not on their way out, of the update revision and `Ready` -/
theorem sts_readyPods_typed (wl : CtlSts.Wl) (cl : CtlSts.Cluster) (h : wl.kind ≠ .unstructured) :
    RV.Oracle.CtlSts.readyPods wl cl =
      ((cl.pods.filter (RV.Oracle.CtlSts.liveReadyUpdated cl.status.updateRevision)).length : Nat) :=
  RV.Props.CtlSts.readyPods_listed wl cl (RV.Props.CtlSts.needsList_typed wl h)

/-- … and that is also exactly when `EnsureBatchPodsReadyAndLabeled` returns nil (`stsLaws.ensure_ok_iff`) -/
theorem sts_ensure_ok_means (br : BR) (ns : Status) (w : StsW) (h : stsPlane.ensure br ns w = .val .ok) :
    stsPreds.ready br w = true := (stsLaws.ensure_ok_iff br ns w rfl).mp h

/-! ## non-vacuity (tests on literals) -/

/-- a ready pod of the update revision `web-7c9d5`, owned by the workload -/
def exStsPod : CtlSts.Pod :=
  { inNamespace := true, selMatch := true, phase := "Running", owner := .this, terminating := false,
    hashLabel := "", revLabel := "web-7c9d5", conds := [("PodScheduled", "True"), ("Ready", "True")] }

/-- a native StatefulSet of 4 replicas, claimed by this BatchRelease, partition 2, with two ready pods of the update
    revision and one of the old revision -/
def exStsW : StsW :=
  { wl := some { kind := .native, replicas := some 4, us := .present "RollingUpdate" (.present (.int 2) none false),
                 control := .this, inProgress := true, tmpl := 2, tmplPresent := true, updatedReady := 0, rest := 0 },
    cl := { status := { updateRevision := "web-7c9d5", updated := 2, ready := 4 },
            pods := [exStsPod, { exStsPod with revLabel := "web-5b8f6" }, exStsPod] },
    obs := { generation := 3, observedGeneration := 3, statusReplicas := 4, updated := 2, updatedReady := 2,
             updateRevision := "web-7c9d5", stableRevision := "web-5b8f6" } }

/-- a BatchRelease verifying batch 0 (50 % of 4 = 2 pods) of a two-batch plan -/
def exStsBR : BR :=
  { batches := [.pct 50, .pct 100], partition := some 0, failureThreshold := none, deleting := false, hasFinalizer := true,
    rollbackAnno := false,
    status := { phase := .progressing, currentBatch := 0, batchState := .verifying, hasReadyTime := false, hash := .same,
                rolloutIDSame := true, observedReplicas := 4, updateRevision := "web-7c9d5", stableRevision := "web-5b8f6",
                noNeedUpdate := none, updated := 2, updatedReady := 2 } }

/-- `stsPreds.ready` is true of a concrete world (two live ready pods of the update revision for a batch of two) and false
    once one of them is gone; inside `expoOK`, with exposure 2 = what batch 0 allows -/
example :
    stsPreds.ready exStsBR exStsW = true ∧
    stsPreds.ready exStsBR { exStsW with cl := { exStsW.cl with pods := [exStsPod] } } = false ∧
    stsPreds.expoOK exStsBR exStsW = true ∧ stsPreds.exposure exStsW = 2 ∧ stsPreds.allowed exStsBR exStsW = 2 := by
  decide

/-- a concrete successful `stsPlane.fin` (the plan is complete: `batchPartition = nil`): the workload was claimed before
    (`released` false) and is released afterwards, with every pod free to move -/
example :
    stsPreds.released { exStsBR with partition := none } exStsW = false ∧
    (match stsPlane.fin { exStsBR with partition := none } exStsW with
     | .val (w', .ok) => stsPreds.released { exStsBR with partition := none } w' && decide (stsPreds.exposure w' = 4)
     | _ => false) = true := by
  decide

end RV.Props.ExecutorX
