import RV.Lemmas.LuaJson
import RV.Oracle.C16
import RV.Gen.LuaGlobals
/-!
# C16 — a Lua plugin cannot hang, crash or escape the controller (**partial**)

What is logic is proved here:

* (a) value conversion — `decodeValue` (lua.go) followed by `Encode` (json.go) on every
  JSON-like value, every nesting depth and width;
* (b) capability table — no name a script can reach in the state built by the real
  `RunLuaScript` is a file / process / environment / code-loading capability.  The
  table `RV.Gen.luaGlobals` is regenerated from the code on every run.

What is **not** provable in Lean and is only observed by the correspondence harness
(suite `luajson`, ops `run` / `probe`): that a call returns within a bounded wall time,
that gopher-lua's VM never lets a Go panic out, and that no file is actually touched.
Oracles `C16.returns_in_time`, `C16.no_panic`, `C16.table_or_error`, `C16.no_escape`
are evaluated on the real code's outputs only; there is no theorem behind them.
-/
namespace RV.Props.C16
open RV.LuaJson RV.Oracle.C16

/-! ## (a) values survive the conversion -/

/-- **C16 (a) round trip, every JSON-like value.**  Handing `v` to a script
    (`decodeValue`, with any allocation state `n`) and encoding what comes back
    (`Encode`) never fails and yields `canon v`: `v` without the `null` members of
    arrays/objects, with empty arrays/objects turned into `null`, object members in
    ascending key order — and nothing else changed (see `RV.LuaJson.canon`). -/
theorem roundtrip (v : J) (n : Nat) : encode (decode n v).1 = .ok (canon v) := by
  have hp := encPure_decode v n
  have ha := decode_alloc v n
  have hnd : (ids (norm (decode n v).1)).Nodup := (ids_norm _).nodup_iff.2 ha.2.2
  obtain ⟨vis', he, _⟩ := encVal_of_pure (norm (decode n v).1) [] (canon v) hp hnd (by simp)
  simp only [encode, he]

/-- **C16 (a) identity on clean values.**  A value with no `null` member, no empty
    array/object and object keys in ascending order (the canonical representation of a Go
    map) comes back exactly as it went in. -/
theorem roundtrip_identity (v : J) (n : Nat) (h : clean v = true) : encode (decode n v).1 = .ok v := by
  rw [roundtrip, canon_clean v h]

/-- The run-time oracle `C16.roundtrip_meaning` is the statement of `roundtrip`: it holds
    of the model's own output on every input. -/
theorem roundtrip_oracle (v : J) (n : Nat) :
    roundtripHolds v (ImplOut.ofModel (encode (decode n v).1)) = true := by
  rw [roundtrip]; exact J.beq_refl _

/-- **C16 (a) errors are values.**  The model of `Encode` answers every Lua value —
    sparse arrays, mixed keys, shared or cyclic tables, functions — with JSON or with one of
    its four declared errors; it has no other outcome (json.go indexes no slice and
    dereferences no pointer, so the model has no `panic` outcome to exclude; that the real
    function never panics is what the correspondence check observes). -/
theorem encode_answers (l : LVal) : encodeAnswered (ImplOut.ofModel (encode l)) = true := by
  cases h : encode l <;> rfl

/-- **C16 (a) what the identity (`visited`) check adds: nothing, unless a table is
    reachable twice.**  If all table identities of `l` are distinct, `Encode` answers exactly
    like the encoder that never looks at identities (`encPure`, RV/Model/LuaJson.lean) —
    same JSON, same error. -/
theorem encode_eq_pure_of_distinct (l : LVal) (h : (ids l).Nodup) : encode l = encPure (norm l) := by
  have hnd : (ids (norm l)).Nodup := (ids_norm l).nodup_iff.2 h
  cases hp : encPure (norm l) with
  | ok j =>
    obtain ⟨vis', he, _⟩ := encVal_of_pure (norm l) [] j hp hnd (by simp)
    simp only [encode, he]
  | error e =>
    have he := encVal_err_of_pure (norm l) [] e hp hnd (by simp)
    simp only [encode, he]

/-- **C16 (a) exact characterisation of success.**  `Encode` produces JSON iff no table is
    reachable twice and the shape is encodable; the JSON is then the identity-free one. -/
theorem encode_ok_iff (l : LVal) (j : J) :
    encode l = .ok j ↔ (ids l).Nodup ∧ encPure (norm l) = .ok j := by
  constructor
  · intro h
    simp only [encode] at h
    split at h
    · rename_i j' vis' he
      cases h
      obtain ⟨hp, hv⟩ := pure_of_encVal (norm l) [] _ vis' he
      exact ⟨(ids_norm l).nodup_iff.1 hv.1, hp⟩
    · cases h
  · rintro ⟨hnd, hp⟩
    rw [encode_eq_pure_of_distinct l hnd, hp]

/-- **C16 (a) the cycle check is exact in one direction.**  "cannot encode recursively
    nested tables" is only ever reported for a value in which some table really is reachable
    twice (a cycle, or a table shared by two fields). -/
theorem nested_only_if_shared (l : LVal) (h : encode l = .error .nested) : ¬ (ids l).Nodup := by
  intro hnd
  rw [encode_eq_pure_of_distinct l hnd] at h
  exact encPure_ne_nested _ h

/-- **C16 (a) sparse arrays and mixed keys are errors.**  A table whose first key (in
    `Next` order) is a number but whose keys are not exactly 1, 2, 3 … is rejected with the
    error the key loop finds (`sparse` for a wrong index, `keys` for a non-number), whatever
    its values are. -/
theorem bad_array_keys_rejected (id : Nat) (m : Int) (v : LVal) (r : List (Key × LVal)) (e : EncErr)
    (h : checkArrKeys 1 ((.int m, v) :: r) = some e) : encode (.tbl id ((.int m, v) :: r)) = .error e := by
  have h' : checkArrKeys 1 ((Key.int m, norm v) :: normKvs r) = some e := by
    have := checkArrKeys_normKvs ((.int m, v) :: r) 1
    simp only [normKvs] at this; rw [this]; exact h
  simp only [encode, norm, normKvs, allStrKeys, Key.isStr, Bool.false_and, Bool.false_eq_true, if_false,
    encVal, List.contains_nil, h']

/-- A table whose first key is a string but which also has a non-string key is rejected
    with `keys` ("mixed or invalid key types"). -/
theorem mixed_object_keys_rejected (id : Nat) (s : String) (v : LVal) (r : List (Key × LVal))
    (h : allStrKeys r = false) : encode (.tbl id ((.str s, v) :: r)) = .error .keys := by
  have h' : allStrKeys (normKvs r) = false := by rw [allStrKeys_normKvs]; exact h
  simp only [encode, norm, normKvs, allStrKeys, Key.isStr, Bool.true_and, h', Bool.false_eq_true, if_false,
    encVal, List.contains_nil]

/-- non-vacuity of the two rejection theorems -/
example : checkArrKeys 1 [(.int 1, .num 1), (.int 3, .num 3)] = some .sparse := by decide
example : checkArrKeys 1 [(.int 1, .num 1), (.str "a", .num 3)] = some .keys := by decide
example : allStrKeys [(.int 1, LVal.num 1)] = false := by decide

/-- non-vacuity of `encode_ok_iff` / `encode_eq_pure_of_distinct`: distinct identities, both outcomes. -/
example : (ids (.tbl 0 [(.str "b", .tbl 1 [(.int 1, .num 1)]), (.str "a", .tbl 2 [])])).Nodup := by decide
example : encode (.tbl 0 [(.str "b", .tbl 1 [(.int 1, .num 1)]), (.str "a", .tbl 2 [])])
    = .ok (.obj [("a", .null), ("b", .arr [.num 1])]) := by rfl
example : (ids (.tbl 0 [(.str "b", .tbl 1 [(.int 2, .num 1)])])).Nodup
    ∧ encode (.tbl 0 [(.str "b", .tbl 1 [(.int 2, .num 1)])]) = .error .sparse := ⟨by decide, by rfl⟩

/-- A table that is reachable twice (shared or cyclic) is rejected, never looped on:
    concrete instances (tests by evaluation, not the ∀ claim). -/
example : encode (.tbl 0 [(.str "self", .tbl 0 [])]) = .error .nested := by rfl
example : encode (.tbl 0 [(.str "a", .tbl 1 [(.int 1, .num 1)]), (.str "b", .tbl 1 [(.int 1, .num 1)])])
    = .error .nested := by rfl
example : encode (.tbl 0 [(.int 1, .num 1), (.int 3, .num 3)]) = .error .sparse := by rfl
example : encode (.tbl 0 [(.int 1, .num 1), (.str "a", .num 2)]) = .error .keys := by rfl
example : encode (.tbl 0 [(.str "f", .func)]) = .error .type := by rfl

/-- non-vacuity of `roundtrip`: a nested value on which `canon` does all three things
    (drops a `null`, empties an object to `null`, reorders keys). -/
example :
    encode (decode 0 (.obj [("b", .arr [.num 1, .null, .num 2]), ("a", .obj []), ("c", .null)])).1
      = .ok (.obj [("a", .null), ("b", .arr [.num 1, .num 2])]) := by rfl

/-- non-vacuity of `roundtrip_identity`: a VirtualService-like clean value. -/
example : clean (.obj [("spec", .obj [("http", .arr [.obj [("route", .arr [
    .obj [("destination", .obj [("host", .str "stable")]), ("weight", .num 95)],
    .obj [("destination", .obj [("host", .str "canary")]), ("weight", .num 5)]])]])])]) = true := by decide

/-! ## (b) no reachable global is a capability (table theorem) -/

/-- **C16 (b).**  Over the WHOLE table regenerated from the state the real
    `RunLuaScript` builds: none of the names a script can reach is classified as a
    file / process / environment / code-loading / interpreter-internals capability. -/
theorem sandbox_offers_no_capability : noCapability RV.Gen.luaGlobals = true := by decide

/-- The run-time oracle `C16.no_capability_reachable` holds for every name of the table. -/
theorem reachable_names_allowed (name : String) (h : name ∈ RV.Gen.luaGlobals) :
    nameAllowed name true = true := by
  have := List.all_eq_true.1 sandbox_offers_no_capability name h
  simpa [nameAllowed] using this

/-- non-vacuity: the table is the real thing (it has the base/string/math/table/json
    members), and the classification does reject what it should. -/
example : RV.Gen.luaGlobals.length ≥ 60 := by decide
example : "pcall" ∈ RV.Gen.luaGlobals ∧ "string.rep" ∈ RV.Gen.luaGlobals ∧ "json.encode" ∈ RV.Gen.luaGlobals := by decide
example : isCapability "dofile" = true ∧ isCapability "loadfile" = true ∧ isCapability "require" = true
    ∧ isCapability "io.open" = true ∧ isCapability "os.execute" = true ∧ isCapability "package.loadlib" = true
    ∧ isCapability "debug.getregistry" = true := by decide
example : noCapability ("dofile" :: RV.Gen.luaGlobals) = false := by decide
example : nameAllowed "os.execute" true = false := by decide

end RV.Props.C16
