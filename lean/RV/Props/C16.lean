import RV.Oracle.C16
import RV.Gen.LuaGlobals
namespace RV.Props.C16
open RV.LuaJson RV.Oracle.C16

/-- **C16 (b), table theorem.** -/
theorem sandbox_offers_no_capability : noCapability RV.Gen.luaGlobals = true := by decide

end RV.Props.C16
