import RV.Props.TrafficXConv
import RV.Lemmas.TrafficXIg
import RV.Lemmas.TrafficXCu
/-!
# The three real providers and their composite are lawful; the Manager theorems instantiated

* `gateway_lawful`, `ingress_lawful`, `custom_lawful`: the provider laws (`RV.TrafficX.LawfulProvider`) for the
  Gateway API, canary-Ingress and custom (Lua) provider models — proved from the theorems / lemmas of C13, C14,
  C15 (`RV/Lemmas/TrafficXGw.lean`, `…Ig.lean`, `…Cu.lean`).
* `composite_pair_lawful`, `composite_last_lawful`: the laws are preserved by `CompositeController`.
* `newNetworkProvider_full_lawful`: the provider `newNetworkProvider` builds for a ref with custom refs, an
  Ingress **and** a Gateway (`CompositeController` of the three) is lawful.
* the generic Manager theorems instantiated: *done* ⇒ Gateway weights `100−w` / `w`, canary annotations =
  `script(stable, step)`, custom object = `f(original, step)`.
* `traffic_is_instance`: the old model `RV.Traffic` is the instance `nginxW`.
-/
namespace RV.Props.TrafficX
open RV.TrafficX RV.Traffic RV.Oracle.TrafficX

/-! ## the three providers -/

/-- **Gateway API provider** — lawful on routes of reachable shape with two different Service names; `spec` =
    the stored route is a fixed point of the builder for the step and satisfies the step's clause of C13
    (weight step: every rule with a stable ref has stable `100−w` / canary `w`); `clean` = no canary ref and
    Finalise has nothing to do; at most 1 round of rewriting. -/
theorem gateway_lawful (c : RV.Gateway.Conf) :
    LawfulProvider (gwProvider c) (gwInv c) (fun st s => gwSpecB c s st = true) (fun st => gwCleanB c st = true)
      (gwMu c) 1 := gw_lawful c

/-- **canary-Ingress provider** — lawful on every state reachable from "stable Ingress `st`, no canary Ingress";
    `spec` = the canary annotations are a fixed point of the class's script for the step **and** equal
    `script(stable annotations, step)` (history independence), with exactly the re-targeted stable paths;
    `clean` = the canary Ingress is gone (or marked for deletion); at most 2 rounds of rewriting. -/
theorem ingress_lawful (cfg : RV.Ingress.Cfg) (st : RV.Ingress.Ingress) :
    LawfulProvider (igProvider cfg) (RV.Ingress.Inv cfg st)
      (fun w s => igSpecB cfg s w = true ∧ igFreshB cfg s w = true) (fun w => igCleanB w = true) (igMu cfg) 2 :=
  ig_lawful cfg st

/-- **custom (Lua) provider** — lawful on every state in which each referenced object is the user's manifest
    `us[i]` or carries it as its stored original; `spec` = `EnsureRoutes` for the step has nothing to do **and**
    every object is `f(original, step)`; `clean` = no object carries the original-configuration annotation;
    at most 1 round of rewriting. -/
theorem custom_lawful (c : RV.Custom.Codec) (us : List (Option RV.Custom.Script × RV.Custom.Obj)) :
    LawfulProvider (cuProvider c) (cuInv c us)
      (fun st s => cuSpecB c s st = true ∧ cuStatelessB c s us st = true) (fun st => cuCleanB st = true)
      (cuMu c) 1 := cu_lawful c us

/-! ## composite -/

variable {S G G₁ G₂ : Type}

/-- **composite of lawful providers is lawful**: two members over disjoint objects — invariant, spec and `clean`
    are the conjunctions, the variants add up -/
theorem composite_pair_lawful {P : Provider S G₁} {Q : Provider S G₂}
    {I₁ : G₁ → Prop} {sp₁ : G₁ → S → Prop} {cl₁ : G₁ → Prop} {μ₁ : G₁ → S → Nat} {b₁ : Nat}
    {I₂ : G₂ → Prop} {sp₂ : G₂ → S → Prop} {cl₂ : G₂ → Prop} {μ₂ : G₂ → S → Nat} {b₂ : Nat}
    (hP : LawfulProvider P I₁ sp₁ cl₁ μ₁ b₁) (hQ : LawfulProvider Q I₂ sp₂ cl₂ μ₂ b₂) :
    LawfulProvider (composite [onFst P, onSnd Q]) (fun g => I₁ g.1 ∧ I₂ g.2) (fun g s => sp₁ g.1 s ∧ sp₂ g.2 s)
      (fun g => cl₁ g.1 ∧ cl₂ g.2) (fun g s => μ₁ g.1 s + μ₂ g.2 s) (b₁ + b₂) := by
  have h : composite [onFst P, onSnd Q] = pairP P (seq Q idle) := by
    show seq (onFst P) (seq (onSnd Q) idle) = seq (onFst P) (onSnd (seq Q idle))
    rw [onSnd_idle, onSnd_seq]
  rw [h]
  exact pairP_lawful hP (seq_idle_lawful hQ)

/-- the last member of the loop keeps its laws -/
theorem composite_last_lawful {P : Provider S G} {Inv : G → Prop} {spec : G → S → Prop} {clean : G → Prop}
    {μ : G → S → Nat} {bound : Nat} (h : LawfulProvider P Inv spec clean μ bound) :
    LawfulProvider (composite [P]) Inv spec clean μ bound := seq_idle_lawful h

/-- the three-member composite, re-associated into nested pairs -/
theorem composite3_eq (C : Provider S G) (I : Provider S G₁) (R : Provider S G₂) :
    composite [onFst C, onSnd (onFst I), onSnd (onSnd R)] = pairP C (pairP I (seq R idle)) := by
  show seq (onFst C) (seq (onSnd (onFst I)) (seq (onSnd (onSnd R)) idle)) =
    seq (onFst C) (onSnd (seq (onFst I) (onSnd (seq R idle))))
  have h1 : (idle : Provider S (G × (G₁ × G₂))) = onSnd (onSnd idle) := by rw [← onSnd_idle, ← onSnd_idle]
  rw [h1, onSnd_seq, onSnd_seq, onSnd_seq]

/-- the objects of the three providers, with their invariants -/
def CInv (p : PCfg) (cls : RV.Ingress.Class) (us : List (Option RV.Custom.Script × RV.Custom.Obj))
    (st : RV.Ingress.Ingress) (g : CNet) : Prop :=
  cuInv p.codec us g.1 ∧ RV.Ingress.Inv ⟨cls, p.ingName, p.stable, p.canary⟩ st g.2.1 ∧ gwInv ⟨p.stable, p.canary⟩ g.2.2

/-- **the provider `newNetworkProvider` builds for custom refs + Ingress + Gateway is lawful**: *verified* means
    that every member's objects carry the step, `clean` that every member's objects are clean; it needs at most
    1 + 2 + 1 rounds of rewriting.  (`hne`: with equal Service names no provider is built at all —
    `newNetworkProvider_sameService_refused`.) -/
theorem newNetworkProvider_full_lawful (p : PCfg) (cls : RV.Ingress.Class)
    (us : List (Option RV.Custom.Script × RV.Custom.Obj)) (st : RV.Ingress.Ingress)
    (hc : p.custom = true) (hi : p.ingress = some (some cls)) (hg : p.gateway = true) (hne : p.canary ≠ p.stable) :
    ∃ P μ, mkProvider p = some P ∧
      LawfulProvider P (CInv p cls us st)
        (fun g s => (cuSpecB p.codec s g.1 = true ∧ cuStatelessB p.codec s us g.1 = true) ∧
          (igSpecB ⟨cls, p.ingName, p.stable, p.canary⟩ s g.2.1 = true ∧
            igFreshB ⟨cls, p.ingName, p.stable, p.canary⟩ s g.2.1 = true) ∧
          gwSpecB ⟨p.stable, p.canary⟩ s g.2.2 = true)
        (fun g => cuCleanB g.1 = true ∧ igCleanB g.2.1 = true ∧ gwCleanB ⟨p.stable, p.canary⟩ g.2.2 = true)
        μ 4 := by
  have hl : providerList p = [onFst (cuProvider p.codec), onSnd (onFst (igProvider ⟨cls, p.ingName, p.stable, p.canary⟩)),
      onSnd (onSnd (gwProvider ⟨p.stable, p.canary⟩))] := by
    simp [providerList, hc, hi, hg]
  refine ⟨composite (providerList p),
    fun g s => cuMu p.codec g.1 s + (igMu ⟨cls, p.ingName, p.stable, p.canary⟩ g.2.1 s + gwMu ⟨p.stable, p.canary⟩ g.2.2 s),
    ?_, ?_⟩
  · simp [mkProvider, gatewayRefused, RV.Gateway.Conf.refused, hi, hl, hne]
  · rw [hl, composite3_eq]
    exact pairP_lawful (cu_lawful p.codec us)
      (pairP_lawful (ig_lawful ⟨cls, p.ingName, p.stable, p.canary⟩ st) (seq_idle_lawful (gw_lawful ⟨p.stable, p.canary⟩)))

/-- a ref with a Gateway only: `newNetworkProvider` returns the Gateway provider itself -/
theorem newNetworkProvider_gateway_lawful (p : PCfg) (hc : p.custom = false) (hi : p.ingress = none) (hg : p.gateway = true)
    (hne : p.canary ≠ p.stable) :
    mkProvider p = some (onSnd (onSnd (gwProvider ⟨p.stable, p.canary⟩))) ∧
    LawfulProvider (onSnd (onSnd (gwProvider ⟨p.stable, p.canary⟩)) : Provider Strat CNet)
      (fun g => gwInv ⟨p.stable, p.canary⟩ g.2.2) (fun g s => gwSpecB ⟨p.stable, p.canary⟩ s g.2.2 = true)
      (fun g => gwCleanB ⟨p.stable, p.canary⟩ g.2.2 = true) (fun g s => gwMu ⟨p.stable, p.canary⟩ g.2.2 s) 1 :=
  ⟨by simp [mkProvider, gatewayRefused, RV.Gateway.Conf.refused, providerList, hc, hi, hg, hne], onSnd_lawful (onSnd_lawful (gw_lawful _))⟩

/-- a ref with custom refs only -/
theorem newNetworkProvider_custom_lawful (p : PCfg) (us : List (Option RV.Custom.Script × RV.Custom.Obj))
    (hc : p.custom = true) (hi : p.ingress = none) (hg : p.gateway = false) :
    mkProvider p = some (onFst (cuProvider p.codec)) ∧
    LawfulProvider (onFst (cuProvider p.codec) : Provider Strat CNet)
      (fun g => cuInv p.codec us g.1) (fun g s => cuSpecB p.codec s g.1 = true ∧ cuStatelessB p.codec s us g.1 = true)
      (fun g => cuCleanB g.1 = true) (fun g s => cuMu p.codec g.1 s) 1 :=
  ⟨by simp [mkProvider, gatewayRefused, providerList, hc, hi, hg], onFst_lawful (cu_lawful _ _)⟩

/-- a ref with an Ingress only -/
theorem newNetworkProvider_ingress_lawful (p : PCfg) (cls : RV.Ingress.Class) (st : RV.Ingress.Ingress)
    (hc : p.custom = false) (hi : p.ingress = some (some cls)) (hg : p.gateway = false) :
    mkProvider p = some (onSnd (onFst (igProvider ⟨cls, p.ingName, p.stable, p.canary⟩))) ∧
    LawfulProvider (onSnd (onFst (igProvider ⟨cls, p.ingName, p.stable, p.canary⟩)) : Provider Strat CNet)
      (fun g => RV.Ingress.Inv ⟨cls, p.ingName, p.stable, p.canary⟩ st g.2.1)
      (fun g s => igSpecB ⟨cls, p.ingName, p.stable, p.canary⟩ s g.2.1 = true ∧
        igFreshB ⟨cls, p.ingName, p.stable, p.canary⟩ s g.2.1 = true)
      (fun g => igCleanB g.2.1 = true) (fun g s => igMu ⟨cls, p.ingName, p.stable, p.canary⟩ g.2.1 s) 2 :=
  ⟨by simp [mkProvider, gatewayRefused, providerList, hc, hi, hg], onSnd_lawful (onFst_lawful (ig_lawful _ _))⟩

/-! ## `newNetworkProvider` refuses a Gateway API ref without a canary Service of its own -/

/-- the invariant of the Gateway provider speaks about two different Service names -/
theorem ne_of_gwInv {c : RV.Gateway.Conf} {st : Option (List RV.Gateway.Rule)} (h : gwInv c st) : c.canary ≠ c.stable :=
  fun e => ne_of_confOk' h.1 e.symm

/-- the constructor refuses exactly the configurations outside the hypothesis `confOk` of the C13 theorems: every
    Gateway provider that exists satisfies it -/
theorem refused_iff_not_confOk (c : RV.Gateway.Conf) : c.refused = !RV.Oracle.C13.confOk c := by
  unfold RV.Gateway.Conf.refused RV.Oracle.C13.confOk
  by_cases h : c.canary = c.stable
  · rw [h]; simp
  · have h' : ¬ c.stable = c.canary := fun e => h e.symm
    have e1 : (c.canary == c.stable) = false := by simpa using h
    have e2 : (c.stable != c.canary) = true := by simpa using h'
    rw [e1, e2]; rfl

/-- **`newNetworkProvider_sameService_refused`** — a ref with a Gateway and a canary Service name equal to the
    stable one: `NewGatewayTrafficRouting` returns an error, whatever else the ref names -/
theorem newNetworkProvider_sameService_refused (p : PCfg) (hg : p.gateway = true) (he : p.canary = p.stable) :
    mkProvider p = none := by
  unfold mkProvider
  split
  · rfl
  · simp [gatewayRefused, RV.Gateway.Conf.refused, hg, he]

/-- … so a Gateway provider that exists has two different Service names (`confOk`): the first half of its
    invariant `gwInv` is established by the constructor, it is not an assumption about the user's input -/
theorem newNetworkProvider_some_distinct (p : PCfg) (P : Provider Strat CNet) (h : mkProvider p = some P)
    (hg : p.gateway = true) : RV.Oracle.C13.confOk ⟨p.stable, p.canary⟩ = true := by
  by_cases he : p.canary = p.stable
  · rw [newNetworkProvider_sameService_refused p hg he] at h; cases h
  · simp only [RV.Oracle.C13.confOk, bne_iff_ne, ne_eq]
    exact fun e => he e.symm

/-- `getCanaryServiceName` returns the stable name exactly when no canary Service is generated
    (`OnlyTrafficRouting` or `DisableGenerateCanaryService`) -/
theorem canaryServiceName_eq_stable_iff (stable : String) (onlyTR disableGen : Bool) :
    canaryServiceName stable onlyTR disableGen = stable ↔ (onlyTR || disableGen) = true := by
  unfold canaryServiceName
  cases h : (onlyTR || disableGen)
  · simp only [Bool.false_eq_true, if_false, iff_false]
    intro e
    have := congrArg String.length e
    simp only [String.length_append] at this
    have h7 : "-canary".length = 7 := by decide
    omega
  · simp

/-- **C05 / C07 (`sameService_refused`)** — `DisableGenerateCanaryService` / `OnlyTrafficRouting` together with a
    Gateway API ref (the region of the fixed finding `sameServiceGateway`): every Manager call returns the error
    of `newNetworkProvider` instead of completion and **touches no provider object** — the user's HTTPRoute (and
    every object of the other members of the ref) stays exactly as it is; `DoTrafficRouting` reports *done* only
    when there is nothing to route, `FinalisingTrafficRouting` never.  Stated with the decidable oracle the driver
    evaluates on the implementation's output (`sameG = true`: the objects are literally unchanged). -/
theorem sameService_refused (p : PCfg) (hg : p.gateway = true) (he : p.canary = p.stable)
    (c : XCtx Strat) (a : Api) (n : XNet CNet) (m : Mem) (bare : Bool) :
    ((doTrafficRoutingB stratOps (mkProvider p) c a n m bare).net.g = n.g ∧
      refusedX "doTrafficRouting" c (isStep stratOps c.strategy) true (doTrafficRoutingB stratOps (mkProvider p) c a n m bare) = true) ∧
    ((finalisingTrafficRoutingX (mkProvider p) c a n m).net.g = n.g ∧
      refusedX "finalisingTrafficRouting" c (isStep stratOps c.strategy) true (finalisingTrafficRoutingX (mkProvider p) c a n m) = true) ∧
    (restoreGatewayX (mkProvider p) c a n m = .same false c.hasRef n m a ∧
      refusedX "restoreGateway" c (isStep stratOps c.strategy) true (restoreGatewayX (mkProvider p) c a n m) = true) ∧
    (routeAllToNewX stratOps (mkProvider p) c a n m = .same false c.hasRef n m a ∧
      refusedX "routeAllToNew" c (isStep stratOps c.strategy) true (routeAllToNewX stratOps (mkProvider p) c a n m) = true) ∧
    (c.hasRef = true → initializeX (mkProvider p) c n = true) := by
  rw [newNetworkProvider_sameService_refused p hg he]
  obtain ⟨h1, h2, h3, h4⟩ := refused_untouched (G := CNet) stratOps c a n m bare
  refine ⟨⟨(refused_doTR stratOps c a n m bare).1, h1⟩, ⟨(refused_finalising c a n m).1, h2⟩,
    ⟨refused_restoreGateway c a n m, h3⟩, ⟨refused_routeAll stratOps c a n m, h4⟩, ?_⟩
  intro href
  unfold initializeX
  simp only [href, not_true_eq_false, if_false]
  split <;> rfl

/-- **C07 (`gateway_ref_converges`, full strength: no assumption on the Service names)** — a ref with a Gateway,
    **whatever** canary Service name the Manager hands to the provider: on a healthy API server, with the stable
    Service present and the stored route of reachable shape, `DoTrafficRouting` for a step that has something to
    route reports *done* — or an error the caller sees — after at most 2 further rounds.  With two different
    names this is `doTRX_converges` for the lawful Gateway provider; with equal names (no canary Service of its
    own) the provider is refused and the error is returned at once, the route untouched.
    (Before rollouts commit 978d35f a match step doubled the generated rules on every round there
    and never settled: `sameConf_match_step_grows`.) -/
theorem gateway_ref_converges (p : PCfg) (hc : p.custom = false) (hi : p.ingress = none) (hg : p.gateway = true)
    (c : XCtx Strat) (n : XNet CNet) (m : Mem) (href : c.hasRef = true)
    (hstep : isStep stratOps c.strategy = true) (hex : n.stableExists = true)
    (hinv : ∀ r, n.g.2.2 = some r → RV.Oracle.C13.inv ⟨p.stable, p.canary⟩ r = true)
    (hw : ¬ (c.lastUpdate = .fresh ∧ c.doGrace > 0))
    (hrev : c.noGen = true ∨ (c.stableRev ≠ "" ∧ c.canaryRev ≠ "")) :
    ∃ k, k ≤ 2 ∧ settled (doTrafficRoutingX stratOps (mkProvider p) c Api.ok
      (iterNetO stratOps (mkProvider p) c m k n) m) := by
  by_cases he : p.canary = p.stable
  · rw [newNetworkProvider_sameService_refused p hg he]
    obtain ⟨k, hk, hs⟩ := refused_converges (G := CNet) stratOps c n m href hstep hex hw hrev
    exact ⟨k, by omega, hs⟩
  · obtain ⟨hmk, hL⟩ := newNetworkProvider_gateway_lawful p hc hi hg he
    rw [hmk]
    have hco : RV.Oracle.C13.confOk ⟨p.stable, p.canary⟩ = true := by
      simp only [RV.Oracle.C13.confOk, bne_iff_ne, ne_eq]
      exact fun e => he e.symm
    obtain ⟨k, hk, hs⟩ := doTRX_converges stratOps hL c n m href hstep hex ⟨hco, hinv⟩ hw hrev
    exact ⟨k, hk, by rw [iterNetO_some]; exact hs⟩

/-- **C05 (`gateway_ref_finalise_total`, full strength: no assumption on the Service names)** — a ref with a
    Gateway, whatever canary Service name the Manager hands to the provider: when `FinalisingTrafficRouting`
    reports *done* the two names differ and the route is clean (no canary ref, `Finalise` has nothing to do); with
    equal names the call is never *done* and the route is **untouched** — the user's own rule for the Service is
    not taken for the canary rule and dropped (which is what the code did before rollouts commit
    978d35f: `sameConf_finalise_deletes_user_rule`). -/
theorem gateway_ref_finalise_total (p : PCfg) (hc : p.custom = false) (hi : p.ingress = none) (hg : p.gateway = true)
    (c : XCtx Strat) (a : Api) (n : XNet CNet) (m : Mem) (href : c.hasRef = true)
    (hinv : ∀ r, n.g.2.2 = some r → RV.Oracle.C13.inv ⟨p.stable, p.canary⟩ r = true) :
    ((finalisingTrafficRoutingX (mkProvider p) c a n m).done = true →
      p.canary ≠ p.stable ∧ gwCleanB ⟨p.stable, p.canary⟩ (finalisingTrafficRoutingX (mkProvider p) c a n m).net.g.2.2 = true) ∧
    (p.canary = p.stable → (finalisingTrafficRoutingX (mkProvider p) c a n m).net.g = n.g ∧
      (finalisingTrafficRoutingX (mkProvider p) c a n m).done = false) := by
  constructor
  · intro hd
    by_cases he : p.canary = p.stable
    · rw [newNetworkProvider_sameService_refused p hg he] at hd
      rw [(refused_finalising c a n m).2.2.2.2 href] at hd
      cases hd
    · obtain ⟨hmk, hL⟩ := newNetworkProvider_gateway_lawful p hc hi hg he
      rw [hmk] at hd ⊢
      have hco : RV.Oracle.C13.confOk ⟨p.stable, p.canary⟩ = true := by
        simp only [RV.Oracle.C13.confOk, bne_iff_ne, ne_eq]
        exact fun e => he e.symm
      obtain ⟨_, _, _, _, _, _, _, _, _, hdone, _⟩ := finalisingX_shape hL c a n m ⟨hco, hinv⟩ href
      exact ⟨he, (hdone hd).1⟩
  · intro he
    rw [newNetworkProvider_sameService_refused p hg he]
    exact ⟨(refused_finalising c a n m).1, (refused_finalising c a n m).2.2.2.2 href⟩


/-! ## the old model `RV.Traffic` is the instance `nginxW` -/

/-- the context of the old model as a context of the new one (one ref, `OnlyTrafficRouting = false`, weight-only
    steps, default grace period 3 s) -/
def ctxX (c : TCtx) : XCtx (Option Nat) :=
  { hasRef := c.hasRef, grace := (c.grace : Int), extraGrace := [], defGrace := 3, strategy := c.weight,
    disableGen := c.disableGen, onlyTR := false, stableRev := c.stableRev, canaryRev := c.canaryRev,
    lastUpdate := c.lastUpdate, hasRevKey := c.hasRevKey }

/-- the network state of the old model: the provider's objects are (stable Ingress exists, canary weight) -/
def netX (n : Net) : XNet (Bool × Option Nat) :=
  ⟨n.stableExists, n.stableSel, n.canarySvc, (n.stableIngress, n.canaryIng)⟩

def netOld (n : XNet (Bool × Option Nat)) : Net := ⟨n.stableExists, n.stableSel, n.canarySvc, n.g.1, n.g.2⟩

/-- an outcome of the new model seen as an outcome of the old one -/
def outOld (o : XOut (Bool × Option Nat)) : TOut := ⟨o.done, o.err, netOld o.net, o.mem, o.touched, o.writes⟩

theorem netOld_netX (n : Net) : netOld (netX n) = n := rfl
theorem netX_netOld (n : XNet (Bool × Option Nat)) : netX (netOld n) = n := rfl

theorem graceSec_ctxX (c : TCtx) : (ctxX c).graceSec = c.grace := by
  simp only [XCtx.graceSec, getGraceSeconds, ctxX, List.isEmpty_cons, Bool.false_eq_true, if_false, List.foldl_cons,
    List.foldl_nil]
  by_cases h : (0 : Int) < (c.grace : Int)
  · simp only [h, if_true]
    have : ¬ ((c.grace : Int) < 0) := by omega
    simp [this]
  · simp only [h, if_false]
    have : c.grace = 0 := by omega
    simp [this]

theorem doGrace_ctxX (c : TCtx) : (ctxX c).doGrace > 0 := by
  unfold XCtx.doGrace
  split
  · show (3 : Int) > 0; omega
  · rename_i h
    show ((c.grace : Nat) : Int) > 0
    have : ¬ (((c.grace : Nat) : Int) ≤ 0) := h
    omega

theorem noGen_ctxX (c : TCtx) : (ctxX c).noGen = c.disableGen := by simp [XCtx.noGen, ctxX]

/-- the Ingress `EnsureRoutes` of the old model reads only the two Ingress fields -/
theorem ensureRoutes_fields (n : Net) (w : Nat) :
    RV.Traffic.ensureRoutes ⟨true, none, none, n.stableIngress, n.canaryIng⟩ w = RV.Traffic.ensureRoutes n w := by
  unfold RV.Traffic.ensureRoutes; rfl

theorem patchStable_is_instance (c : TCtx) (n : Net) (m : Mem) :
    outOld (patchStableServiceX (ctxX c) Api.ok (netX n) m) = patchStableService c n m := by
  obtain ⟨se, ss, cs, si, ci⟩ := n
  unfold patchStableServiceX patchStableService
  simp only [noGen_ctxX, graceSec_ctxX, Api.read_ok, Api.spend_ok]
  by_cases h1 : c.hasRef = true
  · by_cases h2 : c.disableGen = true
    · simp [ctxX, h1, h2, outOld, XOut.same, netOld_netX]
    · by_cases h3 : se = true
      · by_cases h4 : ss.getD "" = c.stableRev
        · simp [ctxX, h1, h2, h3, h4, outOld, netOld, netX]
        · simp [ctxX, h1, h2, h3, h4, outOld, netOld, netX]
      · simp [ctxX, h1, h2, h3, outOld, XOut.same, netOld, netX]
  · simp [ctxX, h1, outOld, XOut.same, netOld_netX]

theorem restoreStable_is_instance (c : TCtx) (n : Net) (m : Mem) :
    outOld (restoreStableServiceX (ctxX c) Api.ok (netX n) m) = restoreStableService c n m := by
  obtain ⟨se, ss, cs, si, ci⟩ := n
  unfold restoreStableServiceX restoreStableService
  simp only [graceSec_ctxX, Api.read_ok, Api.spend_ok]
  by_cases h1 : c.hasRef = true
  · by_cases h3 : se = true
    · by_cases hk : c.hasRevKey = true
      · by_cases h4 : ss.getD "" = ""
        · simp [ctxX, h1, h3, hk, h4, outOld, netOld, netX]
        · simp [ctxX, h1, h3, hk, h4, outOld, netOld, netX]
      · simp [ctxX, h1, h3, hk, outOld, netOld, netX]
    · simp [ctxX, h1, h3, outOld, XOut.same, netOld, netX]
  · simp [ctxX, h1, outOld, XOut.same, netOld_netX]

theorem restoreGateway_is_instance (c : TCtx) (n : Net) (m : Mem) :
    outOld (restoreGatewayX (some nginxW) (ctxX c) Api.ok (netX n) m) = restoreGateway c n m := by
  obtain ⟨se, ss, cs, si, ci⟩ := n
  unfold restoreGatewayX restoreGateway finaliseGw
  simp only [graceSec_ctxX]
  by_cases h1 : c.hasRef = true
  · cases h2 : ci <;> simp [ctxX, h1, h2, outOld, netOld, netX, nginxW, XOut.panicked]
  · simp [ctxX, h1, outOld, XOut.same, netOld_netX]

theorem removeCanary_is_instance (c : TCtx) (n : Net) (m : Mem) :
    outOld (removeCanaryServiceX (ctxX c) Api.ok (netX n) m) = removeCanaryService c n m := by
  obtain ⟨se, ss, cs, si, ci⟩ := n
  unfold removeCanaryServiceX removeCanaryService
  simp only [noGen_ctxX, graceSec_ctxX, Api.spend_ok]
  by_cases h1 : c.hasRef = true
  · by_cases h2 : c.disableGen = true
    · simp [ctxX, h1, h2, outOld, XOut.same, netOld_netX]
    · cases h3 : cs <;> simp [ctxX, h1, h2, h3, outOld, netOld, netX]
  · simp [ctxX, h1, outOld, XOut.same, netOld_netX]


theorem routeAll_is_instance (c : TCtx) (n : Net) (m : Mem) :
    outOld (routeAllToNewX nginxOps (some nginxW) (ctxX c) Api.ok (netX n) m) = routeAllToNew c n m := by
  obtain ⟨se, ss, cs, si, ci⟩ := n
  unfold routeAllToNewX routeAllToNew
  simp only [graceSec_ctxX]
  by_cases h1 : c.hasRef = true
  · cases ci with
    | none =>
      cases si <;> simp [ctxX, h1, outOld, netOld, netX, nginxW, nginxOps, RV.Traffic.ensureRoutes, XOut.panicked]
    | some x =>
      by_cases hx : x = 100
      · simp [ctxX, h1, hx, outOld, netOld, netX, nginxW, nginxOps, RV.Traffic.ensureRoutes, XOut.panicked]
      · have hx' : ¬ (some 100 = some x) := by intro h; injection h with h; exact hx h.symm
        simp [ctxX, h1, hx, hx', outOld, netOld, netX, nginxW, nginxOps, RV.Traffic.ensureRoutes, XOut.panicked]
  · simp [ctxX, h1, outOld, XOut.same, netOld_netX]

/-- the provider part of `DoTrafficRouting` -/
theorem routeStep_is_instance (n : Net) (m : Mem) (w : Nat) :
    outOld (routeStepX (some nginxW) (some w) Api.ok (netX n) m) = routeStep n m w := by
  obtain ⟨se, ss, cs, si, ci⟩ := n
  unfold routeStepX routeStep
  cases ci with
  | none =>
    by_cases hw : w = 0
    · simp [hw, outOld, netOld, netX, nginxW, RV.Traffic.ensureRoutes, XOut.panicked]
    · cases si <;> simp [hw, outOld, netOld, netX, nginxW, RV.Traffic.ensureRoutes, XOut.panicked]
  | some x =>
    by_cases hx : x = w
    · simp [hx, outOld, netOld, netX, nginxW, RV.Traffic.ensureRoutes, XOut.panicked]
    · have hx' : ¬ (some w = some x) := by intro h; injection h with h; exact hx h.symm
      simp [hx, hx', outOld, netOld, netX, nginxW, RV.Traffic.ensureRoutes, XOut.panicked]



/-- on a healthy API server `RestoreStableService` leaves it healthy -/
theorem rs_roundX_a {S G : Type} (c : XCtx S) (n : XNet G) (m : Mem) : (restoreStableServiceX c Api.ok n m).a = Api.ok := by
  unfold restoreStableServiceX
  simp only [Api.read_ok, Api.spend_ok, Bool.false_eq_true, if_false]
  split
  · rfl
  · split
    · rfl
    · split <;> rfl

theorem rg_nginx_a (c : TCtx) (n : Net) (m : Mem) :
    (restoreGatewayX (some nginxW) (ctxX c) Api.ok (netX n) m).panic = false ∧
    (restoreGatewayX (some nginxW) (ctxX c) Api.ok (netX n) m).a = Api.ok := by
  obtain ⟨se, ss, cs, si, ci⟩ := n
  unfold restoreGatewayX
  by_cases h1 : (ctxX c).hasRef = true
  · cases ci <;> simp [h1, netX, nginxW]
  · simp [h1, XOut.same]

/-- the Service part of `DoTrafficRouting` -/
theorem svcStep_is_instance (c : TCtx) (n : Net) :
    (match svcStep c n with
     | none => svcStepX (ctxX c) Api.ok (netX n) = .wait
     | some (n2, ws) => svcStepX (ctxX c) Api.ok (netX n) = .ok (netX n2) ws Api.ok) := by
  obtain ⟨se, ss, cs, si, ci⟩ := n
  unfold svcStepX svcStep
  simp only [noGen_ctxX, Api.read_ok, Api.spend_ok]
  by_cases hd : c.disableGen = true
  · simp [hd]
  · by_cases hr : c.stableRev = "" ∨ c.canaryRev = ""
    · simp [hd, hr, ctxX]
    · cases cs with
      | none =>
        by_cases hs : ss.getD "" = c.stableRev <;> simp [hd, hr, hs, ctxX, netX]
      | some r =>
        by_cases hrr : r = c.canaryRev <;> by_cases hs : ss.getD "" = c.stableRev <;>
          simp [hd, hr, hrr, hs, ctxX, netX]

theorem doTR_is_instance (c : TCtx) (n : Net) (m : Mem) :
    outOld (doTrafficRoutingX nginxOps (some nginxW) (ctxX c) Api.ok (netX n) m) = doTrafficRouting c n m := by
  unfold doTrafficRoutingX doTrafficRouting
  by_cases h1 : c.hasRef = true
  · cases hw : c.weight with
    | none => simp [ctxX, h1, hw, nginxOps, outOld, XOut.same, netOld_netX]
    | some w =>
      have hstrat : (ctxX c).strategy = some w := hw
      have hops : (nginxOps.noTraffic (ctxX c).strategy && nginxOps.noMatches (ctxX c).strategy) = false := by
        simp [nginxOps, hstrat]
      have hhr : (ctxX c).hasRef = true := h1
      simp only [hhr, not_true_eq_false, if_false, hops, Bool.false_eq_true, Api.read_ok, h1]
      by_cases h2 : n.stableExists = true
      · have h2' : (netX n).stableExists = true := h2
        simp only [h2', h2, not_true_eq_false, if_false]
        by_cases h3 : c.lastUpdate = Age.fresh
        · have : (ctxX c).lastUpdate = Age.fresh ∧ (ctxX c).doGrace > 0 := ⟨h3, doGrace_ctxX c⟩
          simp [this, h3, outOld, XOut.same, netOld_netX]
        · have : ¬ ((ctxX c).lastUpdate = Age.fresh ∧ (ctxX c).doGrace > 0) := fun h => h3 h.1
          simp only [this, if_false, h3]
          have hsvc := svcStep_is_instance c n
          cases hs : svcStep c n with
          | none =>
            rw [hs] at hsvc
            simp [hsvc, outOld, XOut.same, netOld_netX]
          | some pr =>
            obtain ⟨n2, ws⟩ := pr
            rw [hs] at hsvc
            simp only [hsvc]
            by_cases hws : ws = []
            · subst hws
              have hn2 := (RV.Props.Traffic.svcStep_nowrite c n n2 hs).1
              subst hn2
              simp only [ne_eq, not_true_eq_false, if_false, hstrat]
              exact routeStep_is_instance n2 m w
            · simp [hws, outOld, netOld_netX]
      · have h2' : ¬ (netX n).stableExists = true := h2
        simp [h2', h2, outOld, XOut.same, netOld_netX]
  · have hhr : (ctxX c).hasRef = false := by
      have : c.hasRef = false := by simpa using h1
      exact this
    simp [hhr, h1, outOld, XOut.same, netOld_netX]

theorem finalising_is_instance (c : TCtx) (n : Net) (m : Mem) :
    outOld (finalisingTrafficRoutingX (some nginxW) (ctxX c) Api.ok (netX n) m) = finalisingTrafficRouting c n m := by
  have e1 := restoreStable_is_instance c n m
  unfold finalisingTrafficRoutingX finalisingTrafficRouting
  by_cases h1 : c.hasRef = true
  · have hhr : (ctxX c).hasRef = true := h1
    simp only [hhr, h1, not_true_eq_false, if_false]
    -- first call
    have a1 : (restoreStableServiceX (ctxX c) Api.ok (netX n) m).a = Api.ok :=
      (rs_roundX_a (ctxX c) (netX n) m)
    generalize hr1 : restoreStableServiceX (ctxX c) Api.ok (netX n) m = r1 at e1 a1
    generalize ho1 : restoreStableService c n m = o1 at e1
    have f1 : r1.done = o1.done ∧ r1.err = o1.err ∧ netOld r1.net = o1.net ∧ r1.mem = o1.mem ∧ r1.touched = o1.touched ∧
        r1.writes = o1.writes := by
      rw [← e1]; exact ⟨rfl, rfl, rfl, rfl, rfl, rfl⟩
    obtain ⟨fd, fe, fn, fm, ft, fw⟩ := f1
    by_cases hc1 : o1.err = true ∨ o1.done = true
    · have : r1.err = true ∨ r1.done = true := by rw [fd, fe]; exact hc1
      simp only [this, hc1, if_true, outOld]
      rw [fe, fn, fm, ft, fw]
    · have : ¬ (r1.err = true ∨ r1.done = true) := by rw [fd, fe]; exact hc1
      simp only [this, hc1, if_false, a1]
      -- second call: on the same state
      have hnet : r1.net = netX o1.net := by rw [← fn, netX_netOld]
      have e2 := restoreGateway_is_instance c o1.net o1.mem
      rw [hnet, fm]
      have p2 : (restoreGatewayX (some nginxW) (ctxX c) Api.ok (netX o1.net) o1.mem).panic = false ∧
          (restoreGatewayX (some nginxW) (ctxX c) Api.ok (netX o1.net) o1.mem).a = Api.ok := rg_nginx_a c o1.net o1.mem
      generalize hr2 : restoreGatewayX (some nginxW) (ctxX c) Api.ok (netX o1.net) o1.mem = r2 at e2 p2
      generalize ho2 : restoreGateway c o1.net o1.mem = o2 at e2
      have f2 : r2.done = o2.done ∧ r2.err = o2.err ∧ netOld r2.net = o2.net ∧ r2.mem = o2.mem ∧ r2.touched = o2.touched ∧
          r2.writes = o2.writes := by
        rw [← e2]; exact ⟨rfl, rfl, rfl, rfl, rfl, rfl⟩
      obtain ⟨gd, ge, gn, gm, gt, gw⟩ := f2
      simp only [p2.1, Bool.false_eq_true, if_false]
      by_cases hc2 : o2.err = true ∨ o2.done = true
      · have : r2.err = true ∨ r2.done = true := by rw [gd, ge]; exact hc2
        simp only [this, hc2, if_true, outOld]
        rw [ge, gn, gm, gt, gw, ft, fw]
      · have : ¬ (r2.err = true ∨ r2.done = true) := by rw [gd, ge]; exact hc2
        simp only [this, hc2, if_false, p2.2]
        have hnet2 : r2.net = netX o2.net := by rw [← gn, netX_netOld]
        have e3 := removeCanary_is_instance c o2.net o2.mem
        rw [hnet2, gm]
        generalize hr3 : removeCanaryServiceX (ctxX c) Api.ok (netX o2.net) o2.mem = r3 at e3
        generalize ho3 : removeCanaryService c o2.net o2.mem = o3 at e3
        have f3 : r3.done = o3.done ∧ r3.err = o3.err ∧ netOld r3.net = o3.net ∧ r3.mem = o3.mem ∧ r3.touched = o3.touched ∧
            r3.writes = o3.writes := by
          rw [← e3]; exact ⟨rfl, rfl, rfl, rfl, rfl, rfl⟩
        obtain ⟨kd, ke, kn, km, kt, kw⟩ := f3
        by_cases hc3 : o3.err = true ∨ o3.done = true
        · have : r3.err = true ∨ r3.done = true := by rw [kd, ke]; exact hc3
          simp only [this, hc3, if_true, outOld]
          rw [ke, kn, km, ft, gt, fw, gw, kw]
        · have : ¬ (r3.err = true ∨ r3.done = true) := by rw [kd, ke]; exact hc3
          simp only [this, hc3, if_false, outOld]
          rw [kn, km, ft, gt, fw, gw, kw]
  · have hhr : (ctxX c).hasRef = false := by
      have : c.hasRef = false := by simpa using h1
      exact this
    simp [hhr, h1, outOld, netOld_netX]

/-- **`traffic_is_instance`** — the old model `RV.Traffic` (Manager over "nginx canary Ingress with a weight") is
    the instance of the generic Manager at the provider `nginxW`, on a healthy API server: all seven Manager
    functions agree.  The theorems of `RV/Props/TrafficThms.lean` are therefore statements about this instance. -/
theorem traffic_is_instance (c : TCtx) (n : Net) (m : Mem) :
    outOld (patchStableServiceX (ctxX c) Api.ok (netX n) m) = patchStableService c n m ∧
    outOld (restoreStableServiceX (ctxX c) Api.ok (netX n) m) = restoreStableService c n m ∧
    outOld (restoreGatewayX (some nginxW) (ctxX c) Api.ok (netX n) m) = restoreGateway c n m ∧
    outOld (removeCanaryServiceX (ctxX c) Api.ok (netX n) m) = removeCanaryService c n m ∧
    outOld (routeAllToNewX nginxOps (some nginxW) (ctxX c) Api.ok (netX n) m) = routeAllToNew c n m ∧
    outOld (finalisingTrafficRoutingX (some nginxW) (ctxX c) Api.ok (netX n) m) = finalisingTrafficRouting c n m ∧
    outOld (doTrafficRoutingX nginxOps (some nginxW) (ctxX c) Api.ok (netX n) m) = doTrafficRouting c n m :=
  ⟨patchStable_is_instance c n m, restoreStable_is_instance c n m, restoreGateway_is_instance c n m,
   removeCanary_is_instance c n m, routeAll_is_instance c n m, finalising_is_instance c n m, doTR_is_instance c n m⟩


/-! ## the Manager theorems instantiated -/

/-- a weight step of the real strategy type has something to route -/
theorem weight_step_is_a_step (s : Strat) (w : Int) (hw : s.weight = some w) : isStep stratOps s = true := by
  unfold Strat.weight at hw
  cases ht : s.traffic with
  | none => rw [ht] at hw; cases hw
  | some t => simp [isStep, stratOps, ht]

/-- **C03 for the Gateway API (`doneX_means_routed` instantiated)** — a ref with a Gateway: when `DoTrafficRouting`
    reports *done* for a weight step `w`, both Services are in place and in the stored HTTPRoute **every rule with
    a stable ref has stable weight `100 − w` and canary weight `w`** — exactly the step's value. -/
theorem done_gateway_weights (p : PCfg) (hc : p.custom = false) (hi : p.ingress = none) (hg : p.gateway = true)
    (c : XCtx Strat) (a : Api) (n : XNet CNet) (m : Mem) (hinv : gwInv ⟨p.stable, p.canary⟩ n.g.2.2)
    (href : c.hasRef = true) (w : Int) (hw : c.strategy.weight = some w) (hne : w ≠ -1) (hm : c.strategy.mts = [])
    (hd : (doTrafficRoutingX stratOps (mkProvider p) c a n m).done = true) :
    servicesInPlace c (doTrafficRoutingX stratOps (mkProvider p) c a n m).net = true ∧
    ∃ rules, (doTrafficRoutingX stratOps (mkProvider p) c a n m).net.g.2.2 = some rules ∧
      ∀ (i : Nat) (r : RV.Gateway.Rule), rules[i]? = some r → RV.Oracle.C13.hasSvc r.refs p.stable = true →
        (RV.Oracle.C13.findSvc r.refs p.stable).map (·.weight) = some (some (100 - w)) ∧
        (RV.Oracle.C13.findSvc r.refs p.canary).map (·.weight) = some (some w) := by
  obtain ⟨hmk, hL⟩ := newNetworkProvider_gateway_lawful p hc hi hg (ne_of_gwInv hinv)
  rw [hmk] at hd ⊢
  obtain ⟨_, hin, hspec, _, _⟩ := doneX_means_routed stratOps hL c a n m hinv href
    (weight_step_is_a_step c.strategy w hw) hd
  refine ⟨hin, ?_⟩
  simp only [gwSpecB] at hspec
  cases hst : (doTrafficRoutingX stratOps (some (onSnd (onSnd (gwProvider ⟨p.stable, p.canary⟩)))) c a n m).net.g.2.2 with
  | none => rw [hst] at hspec; cases hspec
  | some rules =>
    rw [hst] at hspec
    simp only [Bool.and_eq_true, beq_iff_eq] at hspec
    refine ⟨rules, rfl, ?_⟩
    intro i r hr hs
    have hb : RV.Gateway.buildDesired ⟨p.stable, p.canary⟩ rules (some w) [] = .ok rules := by
      rw [← hw, ← hm]; exact hspec.1
    obtain ⟨r', hr', h1, h2⟩ := RV.Props.C13.weight_step_split ⟨p.stable, p.canary⟩ hinv.1 rules rules w hb hne i r hr hs
    rw [hr] at hr'
    cases hr'
    exact ⟨h1, h2⟩

/-- **C03 for the composite (`doneX_means_routed` instantiated)** — a ref with custom refs, an Ingress **and** a
    Gateway: when `DoTrafficRouting` reports *done*, the Services are in place and **every** member carries the
    step: each custom object is `f(original, step)`, the canary annotations are `script(stable, step)` on exactly
    the re-targeted stable paths, the HTTPRoute satisfies the step's clause. -/
theorem done_full_all_members (p : PCfg) (cls : RV.Ingress.Class)
    (us : List (Option RV.Custom.Script × RV.Custom.Obj)) (st : RV.Ingress.Ingress)
    (hc : p.custom = true) (hi : p.ingress = some (some cls)) (hg : p.gateway = true)
    (c : XCtx Strat) (a : Api) (n : XNet CNet) (m : Mem) (hinv : CInv p cls us st n.g)
    (href : c.hasRef = true) (hs : isStep stratOps c.strategy = true)
    (hd : (doTrafficRoutingX stratOps (mkProvider p) c a n m).done = true) :
    servicesInPlace c (doTrafficRoutingX stratOps (mkProvider p) c a n m).net = true ∧
    cuStatelessB p.codec c.strategy us (doTrafficRoutingX stratOps (mkProvider p) c a n m).net.g.1 = true ∧
    igFreshB ⟨cls, p.ingName, p.stable, p.canary⟩ c.strategy (doTrafficRoutingX stratOps (mkProvider p) c a n m).net.g.2.1 = true ∧
    gwSpecB ⟨p.stable, p.canary⟩ c.strategy (doTrafficRoutingX stratOps (mkProvider p) c a n m).net.g.2.2 = true := by
  obtain ⟨P, μ, hmk, hL⟩ := newNetworkProvider_full_lawful p cls us st hc hi hg (ne_of_gwInv hinv.2.2)
  rw [hmk] at hd ⊢
  obtain ⟨_, hin, hspec, _, _⟩ := doneX_means_routed stratOps hL c a n m hinv href hs hd
  exact ⟨hin, hspec.1.2, hspec.2.1.2, hspec.2.2⟩

/-- **C05 for the composite (`finalisingX_order` instantiated)**: *done* ⇒ every member is clean -/
theorem finalising_done_full_clean (p : PCfg) (cls : RV.Ingress.Class)
    (us : List (Option RV.Custom.Script × RV.Custom.Obj)) (st : RV.Ingress.Ingress)
    (hc : p.custom = true) (hi : p.ingress = some (some cls)) (hg : p.gateway = true)
    (c : XCtx Strat) (a : Api) (n : XNet CNet) (m : Mem) (hinv : CInv p cls us st n.g) (href : c.hasRef = true)
    (hd : (finalisingTrafficRoutingX (mkProvider p) c a n m).done = true) :
    cleanB p (finalisingTrafficRoutingX (mkProvider p) c a n m).net.g = true := by
  obtain ⟨P, μ, hmk, hL⟩ := newNetworkProvider_full_lawful p cls us st hc hi hg (ne_of_gwInv hinv.2.2)
  rw [hmk] at hd ⊢
  obtain ⟨_, _, _, _, _, _, _, _, _, hdone, _⟩ := finalisingX_shape hL c a n m hinv href
  obtain ⟨hcl, _⟩ := hdone hd
  simp [cleanB, hc, hi, hg, hcl.1, hcl.2.1, hcl.2.2]

/-- **C06 (`read_fault_reported` instantiated)** — custom refs + Ingress + Gateway in one ref: whichever `Get`
    fails (the stable Service, the k-th custom ref, the canary or stable Ingress, the HTTPRoute — first or second
    read), `FinalisingTrafficRouting` and `RestoreGateway` return the error and do not report completion. -/
theorem read_fault_reported_full (p : PCfg) (cls : RV.Ingress.Class)
    (us : List (Option RV.Custom.Script × RV.Custom.Obj)) (st : RV.Ingress.Ingress)
    (hc : p.custom = true) (hi : p.ingress = some (some cls)) (hg : p.gateway = true)
    (c : XCtx Strat) (a : Api) (n : XNet CNet) (m : Mem) (hinv : CInv p cls us st n.g) :
    ((finalisingTrafficRoutingX (mkProvider p) c a n m).panic = false →
      readFailed a (finalisingTrafficRoutingX (mkProvider p) c a n m).a = true →
      (finalisingTrafficRoutingX (mkProvider p) c a n m).err = true ∧ (finalisingTrafficRoutingX (mkProvider p) c a n m).done = false) ∧
    ((restoreGatewayX (mkProvider p) c a n m).panic = false → readFailed a (restoreGatewayX (mkProvider p) c a n m).a = true →
      (restoreGatewayX (mkProvider p) c a n m).err = true) ∧
    ((doTrafficRoutingX stratOps (mkProvider p) c a n m).panic = false →
      readFailed a (doTrafficRoutingX stratOps (mkProvider p) c a n m).a = true →
      (doTrafficRoutingX stratOps (mkProvider p) c a n m).err = true) := by
  obtain ⟨P, μ, hmk, hL⟩ := newNetworkProvider_full_lawful p cls us st hc hi hg (ne_of_gwInv hinv.2.2)
  rw [hmk]
  obtain ⟨h1, h2, _, h4, _⟩ := read_fault_reported stratOps hL c a n m hinv
  exact ⟨h2, h4, h1⟩

/-! ## fixed finding `sameServiceGateway`: what the refusal protects from

The two facts below are about the route *builders* (`RV.Gateway.ensureRoutes` / `finalise`) run with a
configuration the repaired constructor no longer accepts (`newNetworkProvider_sameService_refused`): they record
what the code did before rollouts commit 978d35f and why equal names are refused rather than
served.  No Manager call reaches the builders with such a configuration any more (`sameService_refused`). -/

section finding
open RV.Gateway

/-- `DisableGenerateCanaryService` / `OnlyTrafficRouting`: the providers get the stable Service name twice -/
def sameConf : Conf := { stable := "svc", canary := "svc" }

/-- the user's route: one rule to the Service -/
def sameRoute : List Rule :=
  [{ mts := [], filters := "", refs := [{ kind := some "Service", name := "svc", weight := some 1, rest := "{}" }] }]

/-- the configuration is refused by `newNetworkProvider` … -/
theorem sameConf_refused (p : PCfg) (hg : p.gateway = true) (hs : p.stable = sameConf.stable)
    (hc : p.canary = sameConf.canary) : mkProvider p = none :=
  newNetworkProvider_sameService_refused p hg (by rw [hs, hc]; rfl)

/-- … because the builders cannot tell the user's backendRef from the canary ref there: a weight step followed by
    `Finalise` would **delete the user's rule** (test on a literal) -/
theorem sameConf_finalise_deletes_user_rule :
    RV.Oracle.C13.confOk sameConf = false ∧
    (finalise sameConf (ensureRoutes sameConf (some sameRoute) { traffic := some (.pct 20), ms := [] }).store).store
      = some [] := by decide

/-- … and a match step would double the generated rules on every round (test on a literal) -/
theorem sameConf_match_step_grows :
    let s : Step := { traffic := none, ms := [{ path := none, headers := [⟨some "Exact", "user", "a"⟩], queryParams := [] }] }
    let r1 := (ensureRoutes sameConf (some sameRoute) s).store
    let r2 := (ensureRoutes sameConf r1 s).store
    let r3 := (ensureRoutes sameConf r2 s).store
    r1.map List.length = some 2 ∧ r2.map List.length = some 4 ∧ r3.map List.length = some 8 := by decide

end finding

/-! ## non-vacuity (tests on literals: the hypotheses of the theorems are met by ordinary states) -/

section examples
open RV.Props.C13 (c0 o0)

/-- the invariant of the Gateway provider holds of a non-trivial user route -/
example : gwInv c0 (some o0) := ⟨by decide, fun r h => by cases h; decide⟩

/-- a Gateway-only ref: the first round of a 30 % step (Services in place) updates the route and is not done, the
    second round is done and carries the split 70 / 30 -/
def exCtx : XCtx Strat :=
  { hasRef := true, grace := 3, strategy := { traffic := some "30%", mts := [], rhm := none }, disableGen := false,
    stableRev := "v1", canaryRev := "v2", lastUpdate := .elapsed }
def exNet : XNet (Option (List RV.Gateway.Rule)) :=
  { stableExists := true, stableSel := some "v1", canarySvc := some "v2", g := some o0 }

example : (doTrafficRoutingX stratOps (some (gwProvider c0)) exCtx Api.ok exNet Mem.empty).done = false ∧
    (doTrafficRoutingX stratOps (some (gwProvider c0)) exCtx Api.ok exNet Mem.empty).writes = ["updateRoute"] := by
  decide

example :
    let n1 := (doTrafficRoutingX stratOps (some (gwProvider c0)) exCtx Api.ok exNet Mem.empty).net
    (doTrafficRoutingX stratOps (some (gwProvider c0)) exCtx Api.ok n1 Mem.empty).done = true ∧
    gwSpecB c0 exCtx.strategy n1.g = true := by decide

/-- from a fresh network the first round only creates the canary Service and pins the stable one: the provider is
    not touched (hypothesis of `servicesX_before_routes`) -/
example : (doTrafficRoutingX stratOps (some (gwProvider c0)) exCtx Api.ok
      { exNet with stableSel := none, canarySvc := none } Mem.empty).writes = ["createCanarySvc", "patchStable"] := by
  decide

/-- a read fault on the second `Get` (the HTTPRoute) is reported -/
example : (doTrafficRoutingX stratOps (some (gwProvider c0)) exCtx { r := some 3 } exNet Mem.empty).err = true := by
  decide

/-- the clean-up with the grace period off: un-pin, provider, canary Service — in the proved order -/
example : (finalisingTrafficRoutingX (some (gwProvider c0)) { exCtx with grace := 0 } Api.ok
      { exNet with g := (doTrafficRoutingX stratOps (some (gwProvider c0)) exCtx Api.ok exNet Mem.empty).net.g }
      Mem.empty).writes = ["unpinStable", "updateRoute", "deleteCanarySvc"] := by decide

/-- the region of `sameService_refused` is inhabited by an ordinary configuration — `disableGenerateCanaryService`
    with a Gateway ref —, and its conclusion is not vacuous: the weight step returns the error with the user's
    route as it was, and so does the clean-up (tests on literals; before the repair the same walk ended with the
    rule for `svc` deleted: `sameConf_finalise_deletes_user_rule`) -/
def sameP : PCfg :=
  { custom := false, ingress := none, gateway := true, stable := "svc", canary := canaryServiceName "svc" false true,
    ingName := "ing", codec := ⟨fun _ => "{}", fun _ => default⟩ }
def sameCtx : XCtx Strat := { exCtx with disableGen := true, grace := 0, strategy := { traffic := some "20%", mts := [], rhm := none } }
def sameNet : XNet CNet :=
  { stableExists := true, stableSel := none, canarySvc := none, g := ([], (⟨none, none⟩, some sameRoute)) }

example : sameP.gateway = true ∧ sameP.canary = sameP.stable ∧ sameCtx.noGen = true := by decide

example : (mkProvider sameP).isNone = true := by
  rw [newNetworkProvider_sameService_refused sameP rfl (by decide)]; rfl

example :
    (doTrafficRoutingB stratOps (none : Option (Provider Strat CNet)) sameCtx Api.ok sameNet Mem.empty false).err = true ∧
    (doTrafficRoutingB stratOps (none : Option (Provider Strat CNet)) sameCtx Api.ok sameNet Mem.empty false).net.g.2.2 = some sameRoute ∧
    (finalisingTrafficRoutingX (none : Option (Provider Strat CNet)) sameCtx Api.ok sameNet Mem.empty).err = true ∧
    (finalisingTrafficRoutingX (none : Option (Provider Strat CNet)) sameCtx Api.ok sameNet Mem.empty).net.g.2.2 = some sameRoute := by
  decide

/-- the hypotheses of `gateway_ref_converges` / `gateway_ref_finalise_total` are met on both sides of the case
    split: equal names (above) and two different names with a non-trivial user route -/
example : c0.canary ≠ c0.stable ∧ ∀ r, some o0 = some r → RV.Oracle.C13.inv c0 r = true :=
  ⟨by decide, fun r h => by cases h; decide⟩

end examples

end RV.Props.TrafficX
