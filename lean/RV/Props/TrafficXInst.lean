import RV.Props.TrafficXConv
import RV.Lemmas.TrafficXIg
import RV.Lemmas.TrafficXCu
/-!
# The three real providers and their composite are lawful; the Manager theorems instantiated

* `gateway_lawful`, `ingress_lawful`, `custom_lawful`: the provider laws (`RV.TrafficX.LawfulProvider`) for the
  Gateway API, canary-Ingress and custom (Lua) provider models — proved from the theorems / lemmas of C13, C14,
  C15 (`RV/Lemmas/TrafficXGw.lean`, `…Ig.lean`, `…Cu.lean`).
* `composite_pair_lawful`, `composite_last_lawful`: the laws are preserved by `CompositeController`.
* `newNetworkProvider_full_lawful`: the provider `newNetworkProvider` builds for a ref with custom refs, an
  Ingress **and** a Gateway (`CompositeController` of the three) is lawful.
* the generic Manager theorems instantiated: *done* ⇒ Gateway weights `100−w` / `w`, canary annotations =
  `script(stable, step)`, custom object = `f(original, step)`.
* `traffic_is_instance`: the old model `RV.Traffic` is the instance `nginxW`.
-/
namespace RV.Props.TrafficX
open RV.TrafficX RV.Traffic RV.Oracle.TrafficX

/-! ## the three providers -/

/-- **Gateway API provider** — lawful on routes of reachable shape with two different Service names; `spec` =
    the stored route is a fixed point of the builder for the step and satisfies the step's clause of C13
    (weight step: every rule with a stable ref has stable `100−w` / canary `w`); `clean` = no canary ref and
    Finalise has nothing to do; at most 1 round of rewriting. -/
theorem gateway_lawful (c : RV.Gateway.Conf) :
    LawfulProvider (gwProvider c) (gwInv c) (fun st s => gwSpecB c s st = true) (fun st => gwCleanB c st = true)
      (gwMu c) 1 := gw_lawful c

/-- **canary-Ingress provider** — lawful on every state reachable from "stable Ingress `st`, no canary Ingress";
    `spec` = the canary annotations are a fixed point of the class's script for the step **and** equal
    `script(stable annotations, step)` (history independence), with exactly the re-targeted stable paths;
    `clean` = the canary Ingress is gone (or marked for deletion); at most 2 rounds of rewriting. -/
theorem ingress_lawful (cfg : RV.Ingress.Cfg) (st : RV.Ingress.Ingress) :
    LawfulProvider (igProvider cfg) (RV.Ingress.Inv cfg st)
      (fun w s => igSpecB cfg s w = true ∧ igFreshB cfg s w = true) (fun w => igCleanB w = true) (igMu cfg) 2 :=
  ig_lawful cfg st

/-- **custom (Lua) provider** — lawful on every state in which each referenced object is the user's manifest
    `us[i]` or carries it as its stored original; `spec` = `EnsureRoutes` for the step has nothing to do **and**
    every object is `f(original, step)`; `clean` = no object carries the original-configuration annotation;
    at most 1 round of rewriting. -/
theorem custom_lawful (c : RV.Custom.Codec) (us : List (Option RV.Custom.Script × RV.Custom.Obj)) :
    LawfulProvider (cuProvider c) (cuInv c us)
      (fun st s => cuSpecB c s st = true ∧ cuStatelessB c s us st = true) (fun st => cuCleanB st = true)
      (cuMu c) 1 := cu_lawful c us

/-! ## composite -/

variable {S G G₁ G₂ : Type}

/-- **composite of lawful providers is lawful**: two members over disjoint objects — invariant, spec and `clean`
    are the conjunctions, the variants add up -/
theorem composite_pair_lawful {P : Provider S G₁} {Q : Provider S G₂}
    {I₁ : G₁ → Prop} {sp₁ : G₁ → S → Prop} {cl₁ : G₁ → Prop} {μ₁ : G₁ → S → Nat} {b₁ : Nat}
    {I₂ : G₂ → Prop} {sp₂ : G₂ → S → Prop} {cl₂ : G₂ → Prop} {μ₂ : G₂ → S → Nat} {b₂ : Nat}
    (hP : LawfulProvider P I₁ sp₁ cl₁ μ₁ b₁) (hQ : LawfulProvider Q I₂ sp₂ cl₂ μ₂ b₂) :
    LawfulProvider (composite [onFst P, onSnd Q]) (fun g => I₁ g.1 ∧ I₂ g.2) (fun g s => sp₁ g.1 s ∧ sp₂ g.2 s)
      (fun g => cl₁ g.1 ∧ cl₂ g.2) (fun g s => μ₁ g.1 s + μ₂ g.2 s) (b₁ + b₂) := by
  have h : composite [onFst P, onSnd Q] = pairP P (seq Q idle) := by
    show seq (onFst P) (seq (onSnd Q) idle) = seq (onFst P) (onSnd (seq Q idle))
    rw [onSnd_idle, onSnd_seq]
  rw [h]
  exact pairP_lawful hP (seq_idle_lawful hQ)

/-- the last member of the loop keeps its laws -/
theorem composite_last_lawful {P : Provider S G} {Inv : G → Prop} {spec : G → S → Prop} {clean : G → Prop}
    {μ : G → S → Nat} {bound : Nat} (h : LawfulProvider P Inv spec clean μ bound) :
    LawfulProvider (composite [P]) Inv spec clean μ bound := seq_idle_lawful h

/-- the three-member composite, re-associated into nested pairs -/
theorem composite3_eq (C : Provider S G) (I : Provider S G₁) (R : Provider S G₂) :
    composite [onFst C, onSnd (onFst I), onSnd (onSnd R)] = pairP C (pairP I (seq R idle)) := by
  show seq (onFst C) (seq (onSnd (onFst I)) (seq (onSnd (onSnd R)) idle)) =
    seq (onFst C) (onSnd (seq (onFst I) (onSnd (seq R idle))))
  have h1 : (idle : Provider S (G × (G₁ × G₂))) = onSnd (onSnd idle) := by rw [← onSnd_idle, ← onSnd_idle]
  rw [h1, onSnd_seq, onSnd_seq, onSnd_seq]

/-- the objects of the three providers, with their invariants -/
def CInv (p : PCfg) (cls : RV.Ingress.Class) (us : List (Option RV.Custom.Script × RV.Custom.Obj))
    (st : RV.Ingress.Ingress) (g : CNet) : Prop :=
  cuInv p.codec us g.1 ∧ RV.Ingress.Inv ⟨cls, p.ingName, p.stable, p.canary⟩ st g.2.1 ∧ gwInv ⟨p.stable, p.canary⟩ g.2.2

/-- **the provider `newNetworkProvider` builds for custom refs + Ingress + Gateway is lawful**: *verified* means
    that every member's objects carry the step, `clean` that every member's objects are clean; it needs at most
    1 + 2 + 1 rounds of rewriting. -/
theorem newNetworkProvider_full_lawful (p : PCfg) (cls : RV.Ingress.Class)
    (us : List (Option RV.Custom.Script × RV.Custom.Obj)) (st : RV.Ingress.Ingress)
    (hc : p.custom = true) (hi : p.ingress = some (some cls)) (hg : p.gateway = true) :
    ∃ P μ, mkProvider p = some P ∧
      LawfulProvider P (CInv p cls us st)
        (fun g s => (cuSpecB p.codec s g.1 = true ∧ cuStatelessB p.codec s us g.1 = true) ∧
          (igSpecB ⟨cls, p.ingName, p.stable, p.canary⟩ s g.2.1 = true ∧
            igFreshB ⟨cls, p.ingName, p.stable, p.canary⟩ s g.2.1 = true) ∧
          gwSpecB ⟨p.stable, p.canary⟩ s g.2.2 = true)
        (fun g => cuCleanB g.1 = true ∧ igCleanB g.2.1 = true ∧ gwCleanB ⟨p.stable, p.canary⟩ g.2.2 = true)
        μ 4 := by
  have hl : providerList p = [onFst (cuProvider p.codec), onSnd (onFst (igProvider ⟨cls, p.ingName, p.stable, p.canary⟩)),
      onSnd (onSnd (gwProvider ⟨p.stable, p.canary⟩))] := by
    simp [providerList, hc, hi, hg]
  refine ⟨composite (providerList p),
    fun g s => cuMu p.codec g.1 s + (igMu ⟨cls, p.ingName, p.stable, p.canary⟩ g.2.1 s + gwMu ⟨p.stable, p.canary⟩ g.2.2 s),
    ?_, ?_⟩
  · simp [mkProvider, hi, hl]
  · rw [hl, composite3_eq]
    exact pairP_lawful (cu_lawful p.codec us)
      (pairP_lawful (ig_lawful ⟨cls, p.ingName, p.stable, p.canary⟩ st) (seq_idle_lawful (gw_lawful ⟨p.stable, p.canary⟩)))

/-- a ref with a Gateway only: `newNetworkProvider` returns the Gateway provider itself -/
theorem newNetworkProvider_gateway_lawful (p : PCfg) (hc : p.custom = false) (hi : p.ingress = none) (hg : p.gateway = true) :
    mkProvider p = some (onSnd (onSnd (gwProvider ⟨p.stable, p.canary⟩))) ∧
    LawfulProvider (onSnd (onSnd (gwProvider ⟨p.stable, p.canary⟩)) : Provider Strat CNet)
      (fun g => gwInv ⟨p.stable, p.canary⟩ g.2.2) (fun g s => gwSpecB ⟨p.stable, p.canary⟩ s g.2.2 = true)
      (fun g => gwCleanB ⟨p.stable, p.canary⟩ g.2.2 = true) (fun g s => gwMu ⟨p.stable, p.canary⟩ g.2.2 s) 1 :=
  ⟨by simp [mkProvider, providerList, hc, hi, hg], onSnd_lawful (onSnd_lawful (gw_lawful _))⟩

/-- a ref with custom refs only -/
theorem newNetworkProvider_custom_lawful (p : PCfg) (us : List (Option RV.Custom.Script × RV.Custom.Obj))
    (hc : p.custom = true) (hi : p.ingress = none) (hg : p.gateway = false) :
    mkProvider p = some (onFst (cuProvider p.codec)) ∧
    LawfulProvider (onFst (cuProvider p.codec) : Provider Strat CNet)
      (fun g => cuInv p.codec us g.1) (fun g s => cuSpecB p.codec s g.1 = true ∧ cuStatelessB p.codec s us g.1 = true)
      (fun g => cuCleanB g.1 = true) (fun g s => cuMu p.codec g.1 s) 1 :=
  ⟨by simp [mkProvider, providerList, hc, hi, hg], onFst_lawful (cu_lawful _ _)⟩

/-- a ref with an Ingress only -/
theorem newNetworkProvider_ingress_lawful (p : PCfg) (cls : RV.Ingress.Class) (st : RV.Ingress.Ingress)
    (hc : p.custom = false) (hi : p.ingress = some (some cls)) (hg : p.gateway = false) :
    mkProvider p = some (onSnd (onFst (igProvider ⟨cls, p.ingName, p.stable, p.canary⟩))) ∧
    LawfulProvider (onSnd (onFst (igProvider ⟨cls, p.ingName, p.stable, p.canary⟩)) : Provider Strat CNet)
      (fun g => RV.Ingress.Inv ⟨cls, p.ingName, p.stable, p.canary⟩ st g.2.1)
      (fun g s => igSpecB ⟨cls, p.ingName, p.stable, p.canary⟩ s g.2.1 = true ∧
        igFreshB ⟨cls, p.ingName, p.stable, p.canary⟩ s g.2.1 = true)
      (fun g => igCleanB g.2.1 = true) (fun g s => igMu ⟨cls, p.ingName, p.stable, p.canary⟩ g.2.1 s) 2 :=
  ⟨by simp [mkProvider, providerList, hc, hi, hg], onSnd_lawful (onFst_lawful (ig_lawful _ _))⟩

end RV.Props.TrafficX
