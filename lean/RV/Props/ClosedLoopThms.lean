/-
  # The closed loop as one transition system — theorems over EVERY history

  `RV.ClosedLoop.step` composes the existing one-step models of the two reconcilers
  (`RV.RolloutSM.reconcile`, `RV.Executor.reconcile`) with the simulated CloneSet controller, the API
  server's generation bookkeeping, the user (release / approve) and crashes.  Suite `closedloop` compares
  `step` with the real reconcilers on every transition of every closed-loop walk.

  All theorems below quantify over every plan (any non-empty `List Step` whose entries are non-decreasing
  in the pods they ask for, which is what the validating webhook guarantees), every workload size, every
  content of the grace memory, and every history (`List Label`) — by induction over the label list.

  **Label set (`legal`)**: `ro`, `br`, `env`, `approve`, `tick`, `crash` at any time, in any order, any number of
  times; `release rev` whenever the rollout is idle (Healthy, no release in progress) — so histories contain
  any number of successive rollouts.  For "no reconciler panics" (`loop_total_delete_partial`) the label set is
  widened by `delete` at any point (`legalD`).  Not covered (hence `_partial`): a new release or a rollback
  *while* a rollout is in progress (continuous release, rollback — where `loop_supervised_full_FALSE` shows a real
  defect of the unchanged code, the repaired defect `supersedeRace`, see section 3b), disabling / pausing of the Rollout, step jumps, plan
  edits, scaling, API faults inside a reconcile.  The walks of suite `closedloop` exercise release / rollback /
  delete / faults too and compare them with the model step by step; only the invariants are not proved for them.

  Not proved: progress of the composed system (C07 `loop_progress` / `loop_terminates`: "from every reachable
  InRolling state of a healthy run, a bounded number of rounds `[ro, br, env, approve, tick]` strictly decreases an
  explicit measure; the rollout is Healthy after at most c·(#steps + 4) rounds").  It needs a round-level invariant
  (what each sub-state of the executor implies about the workload at round boundaries) and about 25 one-round
  lemmas; the component convergence theorems exist (`RV.Props.Traffic.doTR_converges`, `finalising_converges`,
  `RV.Props.Executor.verifying_becomes_ready`, `RV.Props.C07.desKnob_suffices`).  What is checked instead: every
  healthy fair run of the REAL controllers ends within 20·(#steps + 4) rounds (oracle `C07.loop_terminates`), and
  concrete model histories run to Healthy by kernel evaluation (the tests at the end of this file).
-/
import RV.Lemmas.ClosedLoopStepRo
import RV.Lemmas.ClosedLoopStepBr
import RV.Lemmas.ClosedLoopLabels
import RV.Lemmas.ClosedLoopGate
import RV.Lemmas.ClosedLoopMono
import RV.Lemmas.ClosedLoopDelRo
import RV.Lemmas.ClosedLoopDelRest
import RV.Lemmas.ClosedLoopHolds
import RV.Lemmas.ClosedLoopResetRo
import RV.Lemmas.ClosedLoopResetBr
import RV.Lemmas.ClosedLoopResetLabels
import RV.Props.ExecutorThms
namespace RV.Props.ClosedLoop
open RV.Arith RV.Traffic RV.RolloutSM RV.ClosedLoop RV.Oracle.ClosedLoop RV.Oracle.Batch RV.Lemmas.ClosedLoop

/-- `Reach s ls s'`: the history `ls` leads from `s` to `s'`; every label is legal where it is taken and no
    reconciler panics on the way -/
inductive Reach : CS → List Label → CS → Prop
  | nil (s : CS) : Reach s [] s
  | cons (s s' s'' : CS) (l : Label) (ls : List Label) :
      legal s l = true → step s l = some s' → Reach s' ls s'' → Reach s (l :: ls) s''

/-- the initial states: a Healthy, live, un-paused canary rollout in partition style with the controller's finalizer
    and a non-empty monotone plan; its CloneSet runs one revision with nothing in progress; no BatchRelease -/
def Init (s : CS) : Prop :=
  roOK s = true ∧ s.ro.phase = .healthy ∧ s.br = none ∧
  ∃ w, s.wl = some w ∧ wlOK w = true ∧ planMono w.replicas (planOf s.ro) = true ∧ w.inProgressAnno = false

theorem init_inv (s : CS) (h : Init s) : fwdInv s = true := by
  obtain ⟨hro, hph, hbr, w, hw, hwok, hm, ha⟩ := h
  obtain ⟨hgone, hg⟩ := (roOK_iff s).1 hro
  refine fwdInv_mk s w hgone hg hw hwok hm (by rw [hbr]; rfl) ?_
  rw [phaseInv_healthy s w hph, hbr, ha]; rfl

/-- **the invariant is inductive** — from any state satisfying it, every legal label can be taken (no reconciler
    panics) and leads to a state satisfying it -/
theorem fwd_step (s : CS) (l : Label) (h : fwdInv s = true) (hl : legal s l = true) :
    ∃ s', step s l = some s' ∧ fwdInv s' = true := by
  cases l with
  | ro => exact stepRo_fwd s h
  | br => exact stepBr_fwd s h
  | env => exact ⟨_, rfl, env_fwd s h⟩
  | release rev => exact ⟨_, rfl, release_fwd s rev h hl⟩
  | approve => exact ⟨_, rfl, approve_fwd s h⟩
  | tick => exact ⟨_, rfl, tick_fwd s h⟩
  | crash => exact ⟨_, rfl, crash_fwd s h⟩
  | delete => cases hl

/-- **every reachable state satisfies the invariant** (induction over the history) -/
theorem loop_inv_partial (s0 s : CS) (ls : List Label) (h0 : Init s0) (hr : Reach s0 ls s) : fwdInv s = true := by
  have h := init_inv s0 h0
  clear h0
  induction hr with
  | nil => exact h
  | cons s s' s'' l ls hl hs _ ih =>
    obtain ⟨t, ht, hinv⟩ := fwd_step s l h hl
    rw [hs] at ht; cases ht
    exact ih hinv

/-! ### 1. `loop_total` (C09) -/

/-- **C09 (closed loop)** — from `Init`, no history reaches a state in which a reconciler panics: both reconciles
    (indeed every legal label) can be taken from every reachable state; the executor never indexes outside the plan.
    (partial: label set, see the header) -/
theorem loop_total_partial (s0 s : CS) (ls : List Label) (h0 : Init s0) (hr : Reach s0 ls s) :
    step s .ro ≠ none ∧ step s .br ≠ none ∧ ∀ l, legal s l = true → ∃ s', step s l = some s' := by
  have h := loop_inv_partial s0 s ls h0 hr
  refine ⟨?_, ?_, fun l hl => ?_⟩
  · obtain ⟨t, ht, _⟩ := fwd_step s .ro h rfl; rw [ht]; simp
  · obtain ⟨t, ht, _⟩ := fwd_step s .br h rfl; rw [ht]; simp
  · obtain ⟨t, ht, _⟩ := fwd_step s l h hl; exact ⟨t, ht⟩

/-- every legal history can be run to its end: `run` never returns `none` -/
theorem run_total_partial (s0 : CS) (h0 : fwdInv s0 = true) (ls : List Label)
    (hl : ∀ (pre : List Label) (l : Label) (post : List Label) (s : CS), ls = pre ++ l :: post → run s0 pre = some s → legal s l = true) :
    ∃ s, run s0 ls = some s ∧ fwdInv s = true := by
  induction ls generalizing s0 with
  | nil => exact ⟨s0, rfl, h0⟩
  | cons l ls ih =>
    have hl0 : legal s0 l = true := hl [] l ls s0 rfl rfl
    obtain ⟨s1, hs1, hinv1⟩ := fwd_step s0 l h0 hl0
    have := ih s1 hinv1 (fun pre l' post s hsplit hrun => hl (l :: pre) l' post s (by rw [hsplit]; rfl) (by simp only [run, hs1]; exact hrun))
    obtain ⟨s2, hs2, hinv2⟩ := this
    exact ⟨s2, by simp only [run, hs1]; exact hs2, hinv2⟩

/-- **C09** — the worlds the Rollout reconciler sees along every history are never `corrupted` in the sense of
    `RV.Props.Reconcile.reconcile_total` -/
theorem loop_not_corrupted_partial (s0 s : CS) (ls : List Label) (h0 : Init s0) (hr : Reach s0 ls s) :
    RV.Oracle.RolloutSM.corrupted (roWorld s) = false := by
  have h := loop_inv_partial s0 s ls h0 hr
  obtain ⟨hgone, hg, w, hw, hwok, hm, hbrok, hpi⟩ := fwd_parts s h
  have hne : s.ro.steps.isEmpty = false := by simpa using hg.steps
  unfold RV.Oracle.RolloutSM.corrupted
  have hro : (roWorld s).ro = s.ro := rfl
  have hbr : (roWorld s).br = s.br.map roBr := rfl
  simp only [hro, hbr, hne, Bool.false_or]
  cases hph : s.ro.phase <;> simp only [hph, reduceCtorEq, decide_false, decide_true, Bool.false_and, Bool.true_and, Bool.or_false, Bool.false_or]
  case progressing =>
    cases hr' : s.ro.reason <;> simp only [hr', reduceCtorEq, decide_false, decide_true, Bool.false_and, Bool.true_and, Bool.or_false, Bool.false_or]
    case none => rw [phaseInv, hph, hr'] at hpi; cases hpi
    case inRolling =>
      cases hsub : s.ro.sub with
      | none => rw [phaseInv, hph, hr'] at hpi; simp only [hsub] at hpi; cases hpi
      | some sub =>
        rw [phaseInv_rolling s w sub hph hr' hsub] at hpi
        simp only [Bool.and_eq_true] at hpi
        obtain ⟨⟨hsubok, hlink⟩, _⟩ := hpi
        have sg := (subOK_iff s.ro sub w).1 hsubok
        have h1 : decide (sub.curIdx < 1 ∨ sub.curIdx > (s.ro.steps.length : Int)) = false := by
          have := sg.lo; have := sg.hi; simp only [decide_eq_false_iff_not]; omega
        have h2 : (decide (sub.lastUpdate = Age.none)) = false := by simpa using sg.lu
        simp only [Option.isNone_some, h1, h2, Bool.or_false, Bool.false_or]
        cases hb : s.br with
        | none => rfl
        | some b =>
          rw [hb] at hlink
          have hl := (linkOK_iff s.ro sub b).1 hlink
          obtain ⟨hbat, ⟨p, hp, hp0, hple, _⟩, _, _⟩ := hl
          have hlen : b.batches.length = s.ro.steps.length := by rw [hbat]; exact planOf_length s.ro
          simp only [Option.map_some, roBr, hp]
          have := sg.hi
          simp only [decide_eq_false_iff_not]
          omega
  case terminating => rw [phaseInv, hph] at hpi; cases hpi

/-! ### 2. `loop_link` (C01 / C11): the three cursors -/

/-- **C01.3–4 / C11 (closed loop)** — in every reachable state in which the rollout is rolling: the step index is
    inside the plan, and a BatchRelease, if there is one, carries the rollout's plan, a batch partition between 0 and
    the rollout's step (`curIdx − 1`), and an executor batch index between 0 and that partition; it is neither
    deleted nor being finalised.  (partial: label set) -/
theorem loop_link_partial (s0 s : CS) (ls : List Label) (h0 : Init s0) (hr : Reach s0 ls s)
    (hph : s.ro.phase = .progressing) (hre : s.ro.reason = .inRolling) :
    ∃ sub, s.ro.sub = some sub ∧ 1 ≤ sub.curIdx ∧ sub.curIdx ≤ s.ro.steps.length ∧
      ∀ b, s.br = some b →
        b.batches = s.ro.steps.map (·.replicas) ∧
        (∃ p, b.partition = some p ∧ 0 ≤ b.st.currentBatch ∧ b.st.currentBatch ≤ p ∧ p ≤ sub.curIdx - 1) ∧
        b.deleting = false := by
  have h := loop_inv_partial s0 s ls h0 hr
  obtain ⟨_, _, w, _, _, _, hbrok, hpi⟩ := fwd_parts s h
  cases hsub : s.ro.sub with
  | none => rw [phaseInv, hph, hre] at hpi; simp only [hsub] at hpi; cases hpi
  | some sub =>
    rw [phaseInv_rolling s w sub hph hre hsub] at hpi
    simp only [Bool.and_eq_true] at hpi
    obtain ⟨⟨hsubok, hlink⟩, _⟩ := hpi
    have sg := (subOK_iff s.ro sub w).1 hsubok
    refine ⟨sub, rfl, sg.lo, sg.hi, fun b hb => ?_⟩
    rw [hb] at hlink hbrok
    obtain ⟨hbat, ⟨p, hp, _, hple, hcb⟩, hdel, _⟩ := (linkOK_iff s.ro sub b).1 hlink
    obtain ⟨_, hcb0, _, _, _⟩ := (brOK_iff b).1 hbrok
    exact ⟨hbat, ⟨p, hp, hcb0, hcb, hple⟩, hdel⟩

/-- **C01.4** — a BatchRelease whose spec is current for the rollout (`runBatchRelease` reports done) asks for exactly
    the batch of the current step -/
theorem spec_current_means (ro : Rollout) (br : Option BR) (id : String) (cur : Int) (rb : Bool) (b : BR)
    (hdone : (runBatchRelease ro br id cur rb).1 = true) (hb : (runBatchRelease ro br id cur rb).2.1 = some b) :
    b.batches = ro.steps.map (·.replicas) ∧ b.partition = some (cur - 1) := by
  cases br with
  | none => simp [runBatchRelease] at hdone
  | some b0 =>
    simp only [runBatchRelease] at hdone hb
    by_cases heq : brSpecEq b0 (desiredBR ro id (cur - 1) rb) = true
    · rw [if_pos heq] at hb
      simp only [Option.some.injEq] at hb
      subst hb
      unfold brSpecEq desiredBR at heq
      simp only [Bool.and_eq_true, beq_iff_eq] at heq
      exact ⟨heq.1.1.1.1.1, heq.1.1.1.1.2⟩
    · rw [if_neg heq] at hdone
      cases hdone

/-- **C01.3 / C11.ii (closed loop)** — along every history, a BatchRelease reconcile raises the executor's batch index
    only by one, only from batch state Ready with the readiness check passing on the workload it reads, and only
    below the batch partition (the one-step theorem `batch_advance_guarded`, which holds for every state, read on
    the joint state) -/
theorem loop_batch_rises_only_from_ready (s s' : CS) (b b' : CBr) (hb : s.br = some b) (hs : step s .br = some s')
    (hb' : s'.br = some b') :
    RV.Oracle.Executor.batchAdvanceGuarded (exBr b) (s.wl.map exWl) (exBr b') = true := by
  simp only [step, stepBr, hb] at hs
  split at hs
  · cases hs
  · rename_i o ho
    simp only [Option.some.injEq] at hs
    subst hs
    simp only [landBr] at hb'
    cases hob : o.br with
    | none => rw [hob] at hb'; cases hb'
    | some eb =>
      rw [hob] at hb'
      simp only [Option.map_some, Option.some.injEq] at hb'
      have hg := RV.Props.Executor.batch_advance_guarded (exBr b) (s.wl.map exWl) o eb ho hob
      subst hb'
      unfold RV.Oracle.Executor.batchAdvanceGuarded at hg ⊢
      exact hg

/-! ### 3. `loop_exposure` (C01.5) -/

/-- **C01.5 (closed loop, every history)** — in every reachable state in which the rollout is rolling, the CloneSet
    carries a partition and the partition exposes at most what the step the rollout is on allows
    (`within`: exactly, or — when the plan has percent entries — with the documented slack of < 1 % of the size).
    (partial: label set) -/
theorem loop_exposure_partial (s0 s : CS) (ls : List Label) (h0 : Init s0) (hr : Reach s0 ls s)
    (hph : s.ro.phase = .progressing) (hre : s.ro.reason = .inRolling) :
    ∃ w sub k e, s.wl = some w ∧ s.ro.sub = some sub ∧ w.partition = some k ∧
      (s.ro.steps.map (·.replicas))[(sub.curIdx - 1).toNat]? = some e ∧
      (exposure k w.replicas ≤ calcBatchReplicas w.replicas e ∨
       ((s.ro.steps.map (·.replicas)).any isStr = true ∧
         100 * (exposure k w.replicas - calcBatchReplicas w.replicas e) < max w.replicas 1)) := by
  have h := loop_inv_partial s0 s ls h0 hr
  obtain ⟨_, _, w, hw, _, _, _, hpi⟩ := fwd_parts s h
  cases hsub : s.ro.sub with
  | none => rw [phaseInv, hph, hre] at hpi; simp only [hsub] at hpi; cases hpi
  | some sub =>
    rw [phaseInv_rolling s w sub hph hre hsub] at hpi
    simp only [Bool.and_eq_true] at hpi
    obtain ⟨_, hwc⟩ := hpi
    unfold withinCur at hwc
    split at hwc
    · rename_i k e hk he
      refine ⟨w, sub, k, e, hw, rfl, hk, he, ?_⟩
      unfold within at hwc
      simpa only [Bool.or_eq_true, Bool.and_eq_true, decide_eq_true_eq, planOf] using hwc
    · cases hwc

theorem exposureBound_cloneSet (R : Int) (e k : IntOrPct) :
    exposureBound .cloneSet R e none k =
      if isStr e = true then decide (100 * (exposure k R - calcBatchReplicas R e) < max R 1)
      else decide (exposure k R ≤ calcBatchReplicas R e) := by
  cases h : isStr e <;> simp [exposureBound, h, RV.BatchCtx.exposureOf, allowed] <;> congr

/-- **C01.5, second half (`loop_monotone`)** — along every history, while the rollout is rolling: a Rollout reconcile never
    writes the partition, and a BatchRelease reconcile over a CloneSet that carries the BatchRelease's control annotation
    never lowers the exposure (`expo`: new-revision pods the partition in force allows).  (partial: label set; and a
    BatchRelease reconcile over a CloneSet that does *not* carry the annotation re-claims it at partition 100 % — that
    this is not a decrease, because such a CloneSet is still held at 100 %, is observed on the walks but not proved.) -/
theorem loop_monotone_partial (s0 s s' : CS) (ls : List Label) (w : CWl) (h0 : Init s0) (hr : Reach s0 ls s)
    (hph : s.ro.phase = .progressing) (hre : s.ro.reason = .inRolling) (hw : s.wl = some w) :
    (step s .ro = some s' →
       s'.wl.map (fun w => (w.partition, w.replicas)) = s.wl.map (fun w => (w.partition, w.replicas))) ∧
    (w.owner = .this → step s .br = some s' → ∃ w', s'.wl = some w' ∧ w'.replicas = w.replicas ∧ expo w ≤ expo w') :=
  ⟨fun h => stepRo_partition s s' h,
   fun hown h => stepBr_monotone s s' w (loop_inv_partial s0 s ls h0 hr) hph hre hw hown h⟩

/-- a plan whose entries are all integers or all strings (percents) -/
def homogeneous (plan : List IntOrPct) : Bool := plan.all isStr || plan.all (fun e => !isStr e)

/-- **C01.5 as judged on the walks** — for plans that do not mix integer and percent entries, every reachable state
    satisfies the snapshot oracle `RV.Oracle.Cluster.exposureWithinStep` of suite `cluster` -/
theorem loop_exposure_oracle_partial (s0 s : CS) (ls : List Label) (h0 : Init s0) (hr : Reach s0 ls s)
    (hh : homogeneous (planOf s.ro) = true) (w : CWl) (hw : s.wl = some w) :
    RV.Oracle.Cluster.exposureWithinStep (roWorld s) (wlx w) = true := by
  have h := loop_inv_partial s0 s ls h0 hr
  obtain ⟨_, _, w', hw', _, _, _, hpi⟩ := fwd_parts s h
  rw [hw] at hw'; cases hw'
  unfold RV.Oracle.Cluster.exposureWithinStep
  have hwl : (roWorld s).wl = some (roWl w) := by simp only [roWorld, hw, Option.map_some]
  have hro : (roWorld s).ro = s.ro := rfl
  rw [hwl, hro]
  cases hsub : s.ro.sub with
  | none => rfl
  | some sub =>
    dsimp only
    split
    · rename_i hc
      obtain ⟨hph, hre, _, _, _⟩ := hc
      rw [phaseInv_rolling s w sub hph hre hsub] at hpi
      simp only [Bool.and_eq_true] at hpi
      obtain ⟨⟨hsubok, _⟩, hwc⟩ := hpi
      have sg := (subOK_iff s.ro sub w).1 hsubok
      unfold withinCur at hwc
      split at hwc
      · rename_i k e hk he
        have hce : RV.Oracle.Cluster.currentEntry s.ro = some e := by
          unfold RV.Oracle.Cluster.currentEntry
          rw [hsub]
          dsimp only
          rw [if_neg (by have := sg.lo; omega)]
          simpa only [planOf, List.getElem?_map] using he
        simp only [hce, wlx, hk]
        unfold within at hwc
        simp only [Bool.or_eq_true, Bool.and_eq_true, decide_eq_true_eq] at hwc
        have hmem : e ∈ planOf s.ro := List.mem_of_getElem? he
        unfold homogeneous at hh
        simp only [Bool.or_eq_true, List.all_eq_true] at hh
        rw [exposureBound_cloneSet]
        have hrep : (roWl w).replicas = w.replicas := rfl
        rw [hrep]
        by_cases hs : isStr e = true
        · rw [if_pos hs]
          apply decide_eq_true
          rcases hwc with hwc | ⟨_, hwc⟩
          · omega
          · exact hwc
        · rw [if_neg hs]
          apply decide_eq_true
          rcases hwc with hwc | ⟨hany, _⟩
          · exact hwc
          · exfalso
            rw [List.any_eq_true] at hany
            obtain ⟨x, hx, hxs⟩ := hany
            rcases hh with hall | hall
            · exact hs (hall e hmem)
            · have := hall x hx; simp [hxs] at this
      · cases hwc
    · rfl

/-! ### 4. `loop_gate` (C02.ii): the trace theorem

The ghost `Ghost` (per step index: *upgraded* = a Rollout reconcile in `BeforeStepUpgrade`/`StepUpgrade` found the
BatchRelease reporting the step's pods ready; *routed* = a reconcile in `StepTrafficRouting` found the traffic
routing done, or the step took the documented full-replica bypass; *pauseOK* = in `StepPaused` the pause was found
satisfied or the user approved) is updated by `gstep` from what the transition *read* — observations of the
pre-state, conditioned on the pre sub-state — never from the sub-state it writes.  No transition reads the ghost. -/

/-- histories with the ghost carried along -/
inductive GReach : Ghost → CS → List Label → Ghost → CS → Prop
  | nil (g : Ghost) (s : CS) : GReach g s [] g s
  | cons (g g'' : Ghost) (s s' s'' : CS) (l : Label) (ls : List Label) :
      legal s l = true → step s l = some s' → GReach (gstep g s l s') s' ls g'' s'' → GReach g s (l :: ls) g'' s''

theorem GReach.reach {g g' : Ghost} {s s' : CS} {ls : List Label} (h : GReach g s ls g' s') : Reach s ls s' := by
  induction h with
  | nil g s => exact Reach.nil s
  | cons g g'' s s' s'' l ls hl hs _ ih => exact Reach.cons s s' s'' l ls hl hs ih

/-- **C02.ii (trace theorem, every history)** — in every reachable state in which the rollout is rolling on step `k`
    (`gateInv`): the ghost speaks about step `k`; a sub-state past `StepUpgrade` implies *upgraded*; a sub-state past
    `StepTrafficRouting` implies *routed*; `StepReady`/`Completed` implies *pauseOK*; and the observations were made in
    that order (*routed* ⇒ *upgraded*, *pauseOK* ⇒ *routed*).  (partial: label set) -/
theorem loop_gate_partial (g0 g : Ghost) (s0 s : CS) (ls : List Label) (h0 : Init s0) (hr : GReach g0 s0 ls g s) :
    gateInv g s = true := by
  have hinv := init_inv s0 h0
  have hg0 : gateInv g0 s0 = true := by
    unfold gateInv rollingSub
    obtain ⟨_, hph, _⟩ := h0
    simp [hph]
  clear h0
  induction hr with
  | nil => exact hg0
  | cons g g'' s s' s'' l ls hl hs _ ih =>
    obtain ⟨t, ht, hinv'⟩ := fwd_step s l hinv hl
    rw [hs] at ht; cases ht
    exact ih hinv' (gate_step g s s' l hinv hg0 hl hs).1

/-- **C02.ii (the index moves only through the gates)** — along every history, a reconcile moves the rollout from step
    `k` to another step only to `k + 1` and only when all three observations of step `k` had been made (in the order
    above); no other legal label moves the index of a rolling rollout.  (partial: label set) -/
theorem loop_advance_gated_partial (g0 g : Ghost) (s0 s s' : CS) (ls : List Label) (l : Label) (h0 : Init s0)
    (hr : GReach g0 s0 ls g s) (hl : legal s l = true) (hs : step s l = some s') : advanceOK g s l s' = true := by
  have hinv := loop_inv_partial s0 s ls h0 hr.reach
  exact (gate_step g s s' l hinv (loop_gate_partial g0 g s0 s ls h0 hr) hl hs).2

/-- **C02.iii (closed loop)** — while `spec.strategy.paused` is set, a Rollout reconcile of a rolling rollout (no rollback
    pending) changes nothing in the joint state but the Rollout's own status, and there neither the step index nor the
    sub-state: no BatchRelease, workload or network write.  Holds from EVERY joint state (no reachability needed). -/
theorem loop_paused_frame (s s' : CS) (w : CWl) (hgone : s.gone = false) (hfin : s.ro.hasFinalizer = true) (hw : s.wl = some w)
    (hroll : RV.Oracle.RolloutSM.inRollingNow s.ro = true) (hp : s.ro.paused = true) (hc : (roWl w).consistent = true)
    (hnr : (roWl w).inRollback = false) (hen : s.ro.disabled = false) (hs : step s .ro = some s') :
    s'.wl = s.wl ∧ s'.br = s.br ∧ s'.net = s.net ∧
    (s'.ro.sub.map fun x => (x.curIdx, x.state)) = (s.ro.sub.map fun x => (x.curIdx, x.state)) := by
  simp only [step, stepRo, hgone, Bool.false_eq_true, if_false] at hs
  split at hs
  · cases hs
  · rename_i r hr
    simp only [Option.some.injEq] at hs
    have hpn := RV.Props.Reconcile.paused_no_progress (roWorld s) r hr hfin
    unfold RV.Oracle.RolloutSM.pausedNoProgress at hpn
    have hwl : (roWorld s).wl = some (roWl w) := by simp only [roWorld, hw, Option.map_some]
    rw [hwl] at hpn
    dsimp only at hpn
    have hro : (roWorld s).ro = s.ro := rfl
    rw [hro, if_pos ⟨hroll, hp, hc, by simp [hnr], by simp [hen]⟩] at hpn
    simp only [Bool.and_eq_true, beq_iff_eq] at hpn
    obtain ⟨⟨⟨⟨⟨hbr, hnet⟩, hwl'⟩, _⟩, _⟩, hsub⟩ := hpn
    have hmem : True := trivial
    subst hs
    have hbr' : r.w.br = (roWorld s).br := hbr
    have hwl'' : r.w.wl = (roWorld s).wl := by rw [hwl']; exact hwl.symm ▸ rfl
    unfold landRo
    rw [hbr', hwl'']
    simp only [roWorld, annoLand_id, landBR_id]
    refine ⟨trivial, trivial, hnet, ?_⟩
    cases h1 : s.ro.sub <;> cases h2 : r.w.ro.sub <;> simp only [hro, h1, h2] at hsub <;> simp_all

/-! ### 3b. supervision (C01 / C08 / C10): no pod runs a revision the rollout has not taken up

The label set is widened (`legalS`) by a **superseding release**: a new revision pushed while the rollout is rolling
(`supersedeOK`: at least one replica, a new revision, and the BatchRelease — if one exists — Progressing with the rolled
revision and the workload's size recorded).  The invariant is `supInv = fwdInv ∨ (resetInv ∧ resetCursor)`: while the
Rollout controller resets the superseded release, the workload stays exactly as the admission webhook left it (partition
100 %, no pod on the new revision) and the BatchRelease cannot lower the partition (`brHolds`).

This is the region of the repaired defect `supersedeRace` (the executor used to record the new revision and carry on with
the old plan).  Two regions stay outside (open known findings): a release pushed while the BatchRelease has been created but
not yet initialised (`supersedeBeforeInit`, witness `loop_supervised_full_FALSE` below: `Initialize` adopts whatever revision
the workload has by then), and a release pushed during the clean-up (`releaseWhileFinalising`). -/

/-- histories that may push a superseding release -/
inductive ReachS : CS → List Label → CS → Prop
  | nil (s : CS) : ReachS s [] s
  | cons (s s' s'' : CS) (l : Label) (ls : List Label) :
      legalS s l = true → step s l = some s' → ReachS s' ls s'' → ReachS s (l :: ls) s''

theorem stepBr_cursor (s s' : CS) (h : resetCursor s = true) (hs : stepBr s = some s') : resetCursor s' = true := by
  unfold stepBr at hs
  cases hb : s.br with
  | none => rw [hb] at hs; cases hs; exact h
  | some b =>
    rw [hb] at hs
    dsimp only at hs
    split at hs
    · cases hs
    · cases hs
      unfold resetCursor at h ⊢
      simp only [landBr]
      cases hsub : s.ro.sub with
      | none => rfl
      | some sub =>
        rw [hsub] at h
        simp only [hb, Option.isNone_some, Bool.or_false] at h
        simp only [h, Bool.true_or]

/-- **the supersession invariant is inductive** -/
theorem sup_step (s : CS) (l : Label) (h : supInv s = true) (hl : legalS s l = true) :
    ∃ s', step s l = some s' ∧ supInv s' = true := by
  by_cases hf : fwdInv s = true
  · -- forward invariant
    cases l with
    | release rev =>
      simp only [legalS, Bool.and_eq_true, Bool.or_eq_true] at hl
      rcases hl.2 with hi | hsup
      · exact ⟨_, rfl, by unfold supInv; rw [release_fwd s rev hf hi]; rfl⟩
      · refine ⟨_, rfl, ?_⟩
        have hr := supersede_release s rev hf hsup
        unfold supInv
        rw [hr]
        -- the clean-up cursor of a rolling rollout is unset
        obtain ⟨_, _, w, hw, _, _, _, hpi⟩ := fwd_parts s hf
        simp only [supersedeOK, Bool.and_eq_true, beq_iff_eq, Bool.not_eq_true'] at hsup
        obtain ⟨⟨⟨_, hph⟩, hre⟩, _⟩ := hsup
        cases hsub : s.ro.sub with
        | none => rw [phaseInv, hph, hre] at hpi; simp only [hsub] at hpi; cases hpi
        | some sub =>
          rw [phaseInv_rolling s w sub hph hre hsub] at hpi
          simp only [Bool.and_eq_true] at hpi
          have sg := (subOK_iff s.ro sub w).1 hpi.1.1
          simp only [resetCursor, hsub, sg.fin]
          simp
    | delete => cases hl
    | ro => obtain ⟨t, ht, hi⟩ := fwd_step s .ro hf rfl; exact ⟨t, ht, by unfold supInv; rw [hi]; rfl⟩
    | br => obtain ⟨t, ht, hi⟩ := fwd_step s .br hf rfl; exact ⟨t, ht, by unfold supInv; rw [hi]; rfl⟩
    | env => obtain ⟨t, ht, hi⟩ := fwd_step s .env hf rfl; exact ⟨t, ht, by unfold supInv; rw [hi]; rfl⟩
    | approve => obtain ⟨t, ht, hi⟩ := fwd_step s .approve hf rfl; exact ⟨t, ht, by unfold supInv; rw [hi]; rfl⟩
    | tick => obtain ⟨t, ht, hi⟩ := fwd_step s .tick hf rfl; exact ⟨t, ht, by unfold supInv; rw [hi]; rfl⟩
    | crash => obtain ⟨t, ht, hi⟩ := fwd_step s .crash hf rfl; exact ⟨t, ht, by unfold supInv; rw [hi]; rfl⟩
  · -- reset invariant
    have hff : fwdInv s = false := by simpa using hf
    unfold supInv at h
    rw [hff] at h
    simp only [Bool.false_or, Bool.and_eq_true] at h
    obtain ⟨hr, hc⟩ := h
    have mk : ∀ t, resetInv t = true → resetCursor t = true → supInv t = true := by
      intro t a b; unfold supInv; rw [a, b]; simp
    cases l with
    | release rev => simp only [legalS, hff, Bool.false_and] at hl; cases hl
    | delete => cases hl
    | ro =>
      obtain ⟨t, ht, hi⟩ := stepRo_reset s hr hc
      refine ⟨t, ht, ?_⟩
      rcases hi with hi | ⟨a, b⟩
      · unfold supInv; rw [hi]; rfl
      · exact mk t a b
    | br =>
      obtain ⟨t, ht, hi⟩ := stepBr_reset s hr
      exact ⟨t, ht, mk t hi (stepBr_cursor s t hc ht)⟩
    | env => exact ⟨_, rfl, mk _ (env_reset s hr) hc⟩
    | approve =>
      refine ⟨_, rfl, mk _ (approve_reset s hr) ?_⟩
      have e : resetCursor (approve s) = resetCursor s := by
        unfold approve
        split
        · rfl
        · cases hsub : s.ro.sub with
          | none => rfl
          | some sub =>
            dsimp only
            split
            · simp only [resetCursor, hsub]
            · rfl
      rw [e]; exact hc
    | tick =>
      refine ⟨_, rfl, mk _ (tick_reset s hr) ?_⟩
      have e : resetCursor (tick s) = resetCursor s := by
        unfold tick resetCursor
        cases hg : s.gone <;> cases hsub : s.ro.sub <;> simp [hsub]
      rw [e]; exact hc
    | crash => exact ⟨_, rfl, mk _ (crash_reset s hr) hc⟩

/-- **every state reachable with superseding releases satisfies the supersession invariant** (induction over the history) -/
theorem loop_sup_inv_partial (s0 s : CS) (ls : List Label) (h0 : Init s0) (hr : ReachS s0 ls s) : supInv s = true := by
  have h : supInv s0 = true := by unfold supInv; rw [init_inv s0 h0]; rfl
  clear h0
  induction hr with
  | nil => exact h
  | cons s s' s'' l ls hl hs _ ih =>
    obtain ⟨t, ht, hinv⟩ := sup_step s l h hl
    rw [hs] at ht; cases ht
    exact ih hinv

/-- **C09 (closed loop, with supersession)** — no reconciler panics along histories with superseding releases -/
theorem loop_total_supersede_partial (s0 s : CS) (ls : List Label) (h0 : Init s0) (hr : ReachS s0 ls s) :
    step s .ro ≠ none ∧ step s .br ≠ none ∧ ∀ l, legalS s l = true → ∃ s', step s l = some s' := by
  have h := loop_sup_inv_partial s0 s ls h0 hr
  refine ⟨?_, ?_, fun l hl => ?_⟩
  · obtain ⟨t, ht, _⟩ := sup_step s .ro h rfl; rw [ht]; simp
  · obtain ⟨t, ht, _⟩ := sup_step s .br h rfl; rw [ht]; simp
  · obtain ⟨t, ht, _⟩ := sup_step s l h hl; exact ⟨t, ht⟩

/-- **C01 / C08 / C10 (closed loop, every history with superseding releases)** — while the rollout says InRolling, no pod
    runs a revision the rollout has not taken up (`RV.Oracle.Cluster.supervised`): either the workload's update revision is the
    one being released, or — a newer revision has been pushed and the Rollout controller has not reset the release yet — no
    pod has been updated to it, the partition is still the 100 % of the admission webhook and the BatchRelease cannot lower it.
    (partial: label set — `supersedeOK` excludes the two open findings named above; rolling states only) -/
theorem loop_supervised_partial (s0 s : CS) (ls : List Label) (h0 : Init s0) (hr : ReachS s0 ls s)
    (hph : s.ro.phase = .progressing) (hre : s.ro.reason = .inRolling) :
    supervisedOK s = true ∧
    (superseding s = true → ∃ w, s.wl = some w ∧ w.updated = 0 ∧ w.partition = some (.pct 100) ∧ brHoldsO s.br w = true) := by
  have h := loop_sup_inv_partial s0 s ls h0 hr
  by_cases hf : fwdInv s = true
  · obtain ⟨hgone, _, w, hw, _, _, _, hpi⟩ := fwd_parts s hf
    cases hsub : s.ro.sub with
    | none => rw [phaseInv, hph, hre] at hpi; simp only [hsub] at hpi; cases hpi
    | some sub =>
      rw [phaseInv_rolling s w sub hph hre hsub] at hpi
      simp only [Bool.and_eq_true] at hpi
      have sg := (subOK_iff s.ro sub w).1 hpi.1.1
      constructor
      · unfold supervisedOK
        rw [hgone, hw]
        simp only [Bool.false_or]
        unfold RV.Oracle.Cluster.supervised
        have hwl : (roWorld s).wl = some (roWl w) := by simp only [roWorld, hw, Option.map_some]
        have hro : (roWorld s).ro = s.ro := rfl
        rw [hwl, hro, hsub]
        dsimp only
        rw [if_neg]
        intro hc
        exact hc.1 (by simp only [roWl]; exact sg.rev.symm)
      · intro hs
        exfalso
        unfold superseding at hs
        rw [hsub, hw] at hs
        simp [sg.rev] at hs
  · have hff : fwdInv s = false := by simpa using hf
    unfold supInv at h
    rw [hff] at h
    simp only [Bool.false_or, Bool.and_eq_true] at h
    obtain ⟨hro, w, hw, _, _, _, _, _, _, _, _, hupd, hheld, hholds⟩ := (resetro_iff s).1 h.1
    obtain ⟨hgone, _⟩ := (roOK_iff s).1 hro
    constructor
    · unfold supervisedOK
      rw [hgone, hw]
      simp only [Bool.false_or]
      unfold RV.Oracle.Cluster.supervised
      have hwl : (roWorld s).wl = some (roWl w) := by simp only [roWorld, hw, Option.map_some]
      rw [hwl]
      cases (roWorld s).ro.sub with
      | none => rfl
      | some sub =>
        dsimp only
        split
        · simp only [wlx]; exact decide_eq_true hupd
        · rfl
    · intro _
      exact ⟨w, hw, hupd, (held_iff w).1 hheld, hholds⟩

/-- **C08 / C10 (executor, every state)** — the repaired behaviour as a one-step theorem over ALL states: a Progressing
    BatchRelease that is not being finalised and sees a pod template other than the revision it recorded never writes the
    workload and keeps the recorded revision (or, for a plan index outside the plan, falls back to Preparing). -/
theorem superseded_never_writes (br : Executor.BR) (wl : Option Executor.Workload) (o : Executor.StepOut)
    (h : Executor.reconcile br wl = .val o)
    (hph : br.status.phase = .progressing) (hnf : Executor.isPlanFinalizing br = false)
    (hev : (Executor.syncInfo (Executor.withFinalizer br) (Executor.initializedStatus br.status) wl).1 = .podTemplateChanged) :
    o.wl = wl ∧ ∀ b', o.br = some b' → (b'.status.updateRevision = br.status.updateRevision ∨ b'.status.phase = .preparing) :=
  RV.Lemmas.ClosedLoop.superseded_never_writes br wl o h hph hnf hev

/-! ### 5. `loop_crash` (C06) -/

/-- **C06** — `crash` (the controller restarts: the in-memory grace expectations are lost) is a label of every history
    above, legal in every state; stated on its own: a crash at any point preserves the invariant, so all of the
    theorems of this file hold at every crash point and after any number of crashes -/
theorem loop_crash_partial (s0 s : CS) (ls : List Label) (h0 : Init s0) (hr : Reach s0 ls s) :
    legal s .crash = true ∧ step s .crash = some (crash s) ∧ fwdInv (crash s) = true :=
  ⟨rfl, rfl, crash_fwd s (loop_inv_partial s0 s ls h0 hr)⟩

theorem Reach.snoc (s0 s s' : CS) (ls : List Label) (l : Label) (hr : Reach s0 ls s) (hl : legal s l = true)
    (hs : step s l = some s') : Reach s0 (ls ++ [l]) s' := by
  induction hr with
  | nil s => exact Reach.cons s s' s' l [] hl hs (Reach.nil s')
  | cons a b c l' ls' hl' hs' _ ih => exact Reach.cons a b s' l' _ hl' hs' (ih hl hs)

/-! ### 1b. `loop_total` with deletion of the Rollout (C09)

The label set is widened by `delete` (the user deletes the Rollout) at any point of a forward history; afterwards every
label but a new release is legal again (`legalD`).  The invariant is `fwdInv ∨ delInv`. -/

/-- histories that may delete the Rollout -/
inductive ReachD : CS → List Label → CS → Prop
  | nil (s : CS) : ReachD s [] s
  | cons (s s' s'' : CS) (l : Label) (ls : List Label) :
      legalD s l = true → step s l = some s' → ReachD s' ls s'' → ReachD s (l :: ls) s''

theorem safe_step (s : CS) (l : Label) (h : fwdInv s = true ∨ delInv s = true) (hl : legalD s l = true) :
    ∃ s', step s l = some s' ∧ (fwdInv s' = true ∨ delInv s' = true) := by
  rcases h with h | h
  · cases l with
    | delete => exact ⟨_, rfl, Or.inr (delete_del s (Or.inl h))⟩
    | release rev =>
      have hl' : legal s (.release rev) = true := by
        simp only [legalD, Bool.and_eq_true] at hl; exact hl.2
      obtain ⟨t, ht, hi⟩ := fwd_step s _ h hl'
      exact ⟨t, ht, Or.inl hi⟩
    | ro => obtain ⟨t, ht, hi⟩ := fwd_step s .ro h rfl; exact ⟨t, ht, Or.inl hi⟩
    | br => obtain ⟨t, ht, hi⟩ := fwd_step s .br h rfl; exact ⟨t, ht, Or.inl hi⟩
    | env => obtain ⟨t, ht, hi⟩ := fwd_step s .env h rfl; exact ⟨t, ht, Or.inl hi⟩
    | approve => obtain ⟨t, ht, hi⟩ := fwd_step s .approve h rfl; exact ⟨t, ht, Or.inl hi⟩
    | tick => obtain ⟨t, ht, hi⟩ := fwd_step s .tick h rfl; exact ⟨t, ht, Or.inl hi⟩
    | crash => obtain ⟨t, ht, hi⟩ := fwd_step s .crash h rfl; exact ⟨t, ht, Or.inl hi⟩
  · cases l with
    | ro => obtain ⟨t, ht, hi⟩ := stepRo_del s h; exact ⟨t, ht, Or.inr hi⟩
    | br => obtain ⟨t, ht, hi⟩ := stepBr_del s h; exact ⟨t, ht, Or.inr hi⟩
    | env => exact ⟨_, rfl, Or.inr (env_del s h)⟩
    | approve => exact ⟨_, rfl, Or.inr (approve_del s h)⟩
    | tick => exact ⟨_, rfl, Or.inr (tick_del s h)⟩
    | crash => exact ⟨_, rfl, Or.inr (crash_del s h)⟩
    | delete => exact ⟨_, rfl, Or.inr (delete_del s (Or.inr h))⟩
    | release rev =>
      exfalso
      simp only [legalD, Bool.and_eq_true, Bool.not_eq_true'] at hl
      obtain ⟨⟨hg, hd⟩, _⟩ := hl
      unfold delInv at h
      split at h
      · cases h
      · simp only [Bool.and_eq_true, Bool.or_eq_true] at h
        rcases h.2 with hgone | hdel
        · rw [hg] at hgone; cases hgone
        · unfold delOK at hdel
          simp only [Bool.and_eq_true] at hdel
          rw [hd] at hdel
          exact absurd hdel.1.1.1.1.1.1.1 (by decide)

/-- **C09 (closed loop, with deletion)** — from `Init`, along every history that may also delete the Rollout at any point
    (and then goes on with reconciles, workload progress, approvals, clock, crashes, further deletes): no reconciler
    panics, every legal label can be taken, and the state satisfies the forward invariant or the deletion invariant —
    in particular the BatchRelease executor's batch index stays inside the plan while the Rollout is torn down and after
    it is gone.  (partial: no release / rollback during a rollout, no disabling, no API faults inside a reconcile) -/
theorem loop_total_delete_partial (s0 s : CS) (ls : List Label) (h0 : Init s0) (hr : ReachD s0 ls s) :
    (fwdInv s = true ∨ delInv s = true) ∧ step s .ro ≠ none ∧ step s .br ≠ none ∧
    ∀ l, legalD s l = true → ∃ s', step s l = some s' := by
  have h : fwdInv s0 = true ∨ delInv s0 = true := Or.inl (init_inv s0 h0)
  clear h0
  induction hr with
  | nil s =>
    refine ⟨h, ?_, ?_, fun l hl => ?_⟩
    · obtain ⟨t, ht, _⟩ := safe_step s .ro h rfl; rw [ht]; simp
    · obtain ⟨t, ht, _⟩ := safe_step s .br h rfl; rw [ht]; simp
    · obtain ⟨t, ht, _⟩ := safe_step s l h hl; exact ⟨t, ht⟩
  | cons s s' s'' l ls hl hs _ ih =>
    obtain ⟨t, ht, hinv⟩ := safe_step s l h hl
    rw [hs] at ht; cases ht
    exact ih hinv

/-! ### non-vacuity: concrete initial state, concrete histories (kernel evaluation of the model — tests, not the ∀ claims) -/

/-- run a history, checking the legality of every label -/
def legalRun (s : CS) : List Label → Option CS
  | [] => some s
  | l :: ls => if legal s l then (match step s l with | some s' => legalRun s' ls | none => none) else none

theorem reach_of_legalRun (s s' : CS) (ls : List Label) (h : legalRun s ls = some s') : Reach s ls s' := by
  induction ls generalizing s with
  | nil => simp only [legalRun, Option.some.injEq] at h; subst h; exact Reach.nil s
  | cons l ls ih =>
    unfold legalRun at h
    split at h
    · rename_i hl
      split at h
      · rename_i t ht; exact Reach.cons s t s' l ls hl ht (ih t h)
      · cases h
    · cases h

def exRo : Rollout :=
  { style := .canary, steps := [⟨.pct 20, some 20, .manual⟩, ⟨.pct 100, none, .short⟩], paused := false, disabled := false,
    deleting := false, hasFinalizer := true, hasTraffic := true, disableGen := false, rollbackInBatch := false, grace := 3,
    phase := .healthy, reason := .none, condAge := .none, succeeded := none, term := .none, sub := none, realPartition := true }
def exWl : CWl :=
  { replicas := 10, generation := 1, observedGeneration := 1, statusReplicas := 10, updated := 10, updatedReady := 10,
    updateRevision := "v1", currentRevision := "v1", partition := none, paused := false, owner := .none, inProgressAnno := false }
def exS0 : CS :=
  { gone := false, ro := exRo, wl := some exWl, br := none,
    net := { stableExists := true, stableSel := none, canarySvc := none, stableIngress := true, canaryIng := none }, mem := Mem.empty }
def exRound : List Label := [.ro, .br, .env, .approve, .tick]

/-- the hypotheses of every theorem above are satisfiable: 10 replicas, plan 20 % (traffic 20 %, manual pause) / 100 % -/
example : Init exS0 := ⟨by decide, rfl, rfl, exWl, rfl, by decide, by decide, rfl⟩

/-- test: after the release of `v2` and 7 fair rounds the rollout is rolling on step 1, the BatchRelease asks for batch 0
    and the CloneSet partition is 80 % (2 of 10 pods) -/
example : (legalRun exS0 (.release "v2" :: (List.replicate 7 exRound).flatten)).map
      (fun s => (s.ro.reason, s.ro.sub.map (·.curIdx), s.wl.bind (·.partition), s.br.map (·.partition))) =
    some (.inRolling, some 1, some (.pct 80), some (some 0)) := by decide +kernel

/-- test: 21 rounds later (with a crash in the middle) the rollout is on step 2 and the partition is 0 % -/
example : (legalRun exS0 (.release "v2" :: (List.replicate 12 exRound).flatten ++ [.crash] ++ (List.replicate 10 exRound).flatten)).map
      (fun s => (s.ro.reason, s.ro.sub.map (·.curIdx), s.wl.bind (·.partition))) =
    some (.inRolling, some 2, some (.pct 0)) := by decide +kernel

/-- test: the whole rollout finishes (Healthy, BatchRelease gone, partition released, all pods updated) within 40 fair rounds,
    and a second release (`v3`) is then legal and is taken up -/
example : (legalRun exS0 (.release "v2" :: (List.replicate 40 exRound).flatten ++ [.release "v3", .env, .ro])).map
      (fun s => (s.ro.phase, s.ro.reason, s.br.isNone, s.wl.map (fun w => (w.updated, w.inProgressAnno)))) =
    some (.progressing, .initializing, true, some (0, true)) := by decide +kernel

/-- run a history that may delete the Rollout, checking `legalD` -/
def legalRunD (s : CS) : List Label → Option CS
  | [] => some s
  | l :: ls => if legalD s l then (match step s l with | some s' => legalRunD s' ls | none => none) else none

theorem reachD_of_legalRunD (s s' : CS) (ls : List Label) (h : legalRunD s ls = some s') : ReachD s ls s' := by
  induction ls generalizing s with
  | nil => simp only [legalRunD, Option.some.injEq] at h; subst h; exact ReachD.nil s
  | cons l ls ih =>
    unfold legalRunD at h
    split at h
    · rename_i hl
      split at h
      · rename_i t ht; exact ReachD.cons s t s' l ls hl ht (ih t h)
      · cases h
    · cases h

/-- test: the Rollout deleted in the middle of step 1 (BatchRelease progressing, 2 of 10 pods updated): 16 rounds later the
    clean-up has run, the Rollout object is gone and no BatchRelease is left -/
example : (legalRunD exS0 (.release "v2" :: (List.replicate 9 exRound).flatten ++ [.delete] ++ (List.replicate 16 exRound).flatten)).map
      (fun s => (s.gone, s.br.isNone, s.wl.map (fun w => (w.partition, w.owner)))) =
    some (true, true, some (none, .none)) := by decide +kernel

/-- the history of the `supersedeRace` witness -/
def supersedeHist : List Label :=
  .release "v2" :: (List.replicate 12 exRound).flatten ++ [.release "v3", .br, .env, .br, .env, .br, .env, .br, .env]

/-- regression test of the repaired defect `supersedeRace` (fix: the executor no longer records a superseding revision and
    keeps stopping): rollout of `v2` on step 1, the user pushes `v3`, the BatchRelease controller reconciles four times and
    the CloneSet controller reacts before the Rollout controller reconciles once — the workload stays held at partition
    100 %, no pod runs `v3`.  (Before the fix: partition 80 %, 2 pods on `v3`.) -/
example :
    (run exS0 supersedeHist).map (fun s =>
        supervisedOK s &&
        (match s.wl with | some w => w.updateRevision == "v3" && w.updated == 0 && w.partition == some (.pct 100) | none => false) &&
        (match s.ro.sub with | some sub => sub.canaryRev == "v2" && sub.curIdx == 1 | none => false)) = some true := by
  decide +kernel

/-- the history of the `supersedeBeforeInit` witness: `v3` is pushed when the BatchRelease for `v2` has just been created -/
def beforeInitHist : List Label :=
  .release "v2" :: (List.replicate 5 exRound).flatten ++ [.release "v3", .br, .env, .br, .env, .br, .env, .br, .env]

/-- **known finding `supersedeBeforeInit` — witness** (the full-strength statement "every state of every history, a release at
    any time, satisfies `supervisedOK`" is still FALSE after the repair of `supersedeRace`): the BatchRelease for `v2` exists but
    has not been initialised (no revision recorded); the user pushes `v3`; `Initialize` records `v3` as the release's update
    revision and the executor rolls batch 0 of `v3` — 2 of 10 pods — while the Rollout still says `v2`, step 1, StepUpgrade.
    Replayed on the real controllers on every run (corpus `closedloop/finding-supersedeBeforeInit`). -/
theorem loop_supervised_full_FALSE :
    (run exS0 beforeInitHist).map (fun s =>
        superseding s && !supervisedOK s &&
        (match s.wl with | some w => w.updateRevision == "v3" && w.updated == 2 && w.partition == some (.pct 80) | none => false) &&
        (match s.ro.sub with | some sub => sub.canaryRev == "v2" && sub.curIdx == 1 | none => false) &&
        (match s.br with | some b => b.st.updateRevision == "wl-v3" | none => false)) = some true := by
  decide +kernel

/-- test: the ghost of the first history: on step 1 in `StepUpgrade`, nothing observed yet -/
example : RV.Oracle.ClosedLoop.traceOK (Ghost.fresh 0) exS0
    ((List.replicate 3 exRound).flatten.foldl (fun (acc : CS × List (Label × CS × Bool)) l =>
        match step acc.1 l with | some s' => (s', acc.2 ++ [(l, s', true)]) | none => acc) (exS0, [])).2 = true := by decide +kernel

end RV.Props.ClosedLoop
