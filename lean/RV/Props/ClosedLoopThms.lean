/-
  # The closed loop as one transition system — theorems over EVERY history

  `RV.ClosedLoop.step` composes the existing one-step models of the two reconcilers
  (`RV.RolloutSM.reconcile`, `RV.Executor.reconcile`) with the simulated CloneSet controller, the API
  server's generation bookkeeping, the user (release / approve) and crashes.  Suite `closedloop` compares
  `step` with the real reconcilers on every transition of every closed-loop walk.

  All theorems below quantify over every plan (any non-empty `List Step` whose entries are non-decreasing
  in the pods they ask for, which is what the validating webhook guarantees), every workload size, every
  content of the grace memory, and every history (`List Label`) — by induction over the label list.

  **Label set (`legal`)**: `ro`, `br`, `env`, `approve`, `tick`, `crash` at any time, in any order, any number of
  times; `release rev` whenever the rollout is idle (Healthy, no release in progress) — so histories contain
  any number of successive rollouts.  Not covered (hence `_partial`): a new release or a rollback *while* a
  rollout is in progress (continuous release, rollback), deletion / disabling / pausing of the Rollout, step
  jumps, plan edits, scaling, API faults inside a reconcile.  The walks of suite `closedloop` exercise those
  too and compare them with the model step by step; only the invariant is not proved for them.
-/
import RV.Lemmas.ClosedLoopStepRo
import RV.Lemmas.ClosedLoopStepBr
import RV.Lemmas.ClosedLoopLabels
import RV.Props.ExecutorThms
namespace RV.Props.ClosedLoop
open RV.Arith RV.Traffic RV.RolloutSM RV.ClosedLoop RV.Oracle.ClosedLoop RV.Oracle.Batch RV.Lemmas.ClosedLoop

/-- `Reach s ls s'`: the history `ls` leads from `s` to `s'`; every label is legal where it is taken and no
    reconciler panics on the way -/
inductive Reach : CS → List Label → CS → Prop
  | nil (s : CS) : Reach s [] s
  | cons (s s' s'' : CS) (l : Label) (ls : List Label) :
      legal s l = true → step s l = some s' → Reach s' ls s'' → Reach s (l :: ls) s''

/-- the initial states: a Healthy, live, un-paused canary rollout in partition style with the controller's finalizer
    and a non-empty monotone plan; its CloneSet runs one revision with nothing in progress; no BatchRelease -/
def Init (s : CS) : Prop :=
  roOK s = true ∧ s.ro.phase = .healthy ∧ s.br = none ∧
  ∃ w, s.wl = some w ∧ wlOK w = true ∧ planMono w.replicas (planOf s.ro) = true ∧ w.inProgressAnno = false

theorem init_inv (s : CS) (h : Init s) : fwdInv s = true := by
  obtain ⟨hro, hph, hbr, w, hw, hwok, hm, ha⟩ := h
  obtain ⟨hgone, hg⟩ := (roOK_iff s).1 hro
  refine fwdInv_mk s w hgone hg hw hwok hm (by rw [hbr]; rfl) ?_
  rw [phaseInv_healthy s w hph, hbr, ha]; rfl

/-- **the invariant is inductive** — from any state satisfying it, every legal label can be taken (no reconciler
    panics) and leads to a state satisfying it -/
theorem fwd_step (s : CS) (l : Label) (h : fwdInv s = true) (hl : legal s l = true) :
    ∃ s', step s l = some s' ∧ fwdInv s' = true := by
  cases l with
  | ro => exact stepRo_fwd s h
  | br => exact stepBr_fwd s h
  | env => exact ⟨_, rfl, env_fwd s h⟩
  | release rev => exact ⟨_, rfl, release_fwd s rev h hl⟩
  | approve => exact ⟨_, rfl, approve_fwd s h⟩
  | tick => exact ⟨_, rfl, tick_fwd s h⟩
  | crash => exact ⟨_, rfl, crash_fwd s h⟩
  | delete => cases hl

/-- **every reachable state satisfies the invariant** (induction over the history) -/
theorem loop_inv_partial (s0 s : CS) (ls : List Label) (h0 : Init s0) (hr : Reach s0 ls s) : fwdInv s = true := by
  have h := init_inv s0 h0
  clear h0
  induction hr with
  | nil => exact h
  | cons s s' s'' l ls hl hs _ ih =>
    obtain ⟨t, ht, hinv⟩ := fwd_step s l h hl
    rw [hs] at ht; cases ht
    exact ih hinv

/-! ### 1. `loop_total` (C09) -/

/-- **C09 (closed loop)** — from `Init`, no history reaches a state in which a reconciler panics: both reconciles
    (indeed every legal label) can be taken from every reachable state; the executor never indexes outside the plan.
    (partial: label set, see the header) -/
theorem loop_total_partial (s0 s : CS) (ls : List Label) (h0 : Init s0) (hr : Reach s0 ls s) :
    step s .ro ≠ none ∧ step s .br ≠ none ∧ ∀ l, legal s l = true → ∃ s', step s l = some s' := by
  have h := loop_inv_partial s0 s ls h0 hr
  refine ⟨?_, ?_, fun l hl => ?_⟩
  · obtain ⟨t, ht, _⟩ := fwd_step s .ro h rfl; rw [ht]; simp
  · obtain ⟨t, ht, _⟩ := fwd_step s .br h rfl; rw [ht]; simp
  · obtain ⟨t, ht, _⟩ := fwd_step s l h hl; exact ⟨t, ht⟩

/-- every legal history can be run to its end: `run` never returns `none` -/
theorem run_total_partial (s0 : CS) (h0 : fwdInv s0 = true) (ls : List Label)
    (hl : ∀ (pre : List Label) (l : Label) (post : List Label) (s : CS), ls = pre ++ l :: post → run s0 pre = some s → legal s l = true) :
    ∃ s, run s0 ls = some s ∧ fwdInv s = true := by
  induction ls generalizing s0 with
  | nil => exact ⟨s0, rfl, h0⟩
  | cons l ls ih =>
    have hl0 : legal s0 l = true := hl [] l ls s0 rfl rfl
    obtain ⟨s1, hs1, hinv1⟩ := fwd_step s0 l h0 hl0
    have := ih s1 hinv1 (fun pre l' post s hsplit hrun => hl (l :: pre) l' post s (by rw [hsplit]; rfl) (by simp only [run, hs1]; exact hrun))
    obtain ⟨s2, hs2, hinv2⟩ := this
    exact ⟨s2, by simp only [run, hs1]; exact hs2, hinv2⟩

/-- **C09** — the worlds the Rollout reconciler sees along every history are never `corrupted` in the sense of
    `RV.Props.Reconcile.reconcile_total` -/
theorem loop_not_corrupted_partial (s0 s : CS) (ls : List Label) (h0 : Init s0) (hr : Reach s0 ls s) :
    RV.Oracle.RolloutSM.corrupted (roWorld s) = false := by
  have h := loop_inv_partial s0 s ls h0 hr
  obtain ⟨hgone, hg, w, hw, hwok, hm, hbrok, hpi⟩ := fwd_parts s h
  have hne : s.ro.steps.isEmpty = false := by simpa using hg.steps
  unfold RV.Oracle.RolloutSM.corrupted
  have hro : (roWorld s).ro = s.ro := rfl
  have hbr : (roWorld s).br = s.br.map roBr := rfl
  simp only [hro, hbr, hne, Bool.false_or]
  cases hph : s.ro.phase <;> simp only [hph, reduceCtorEq, decide_false, decide_true, Bool.false_and, Bool.true_and, Bool.or_false, Bool.false_or]
  case progressing =>
    cases hr' : s.ro.reason <;> simp only [hr', reduceCtorEq, decide_false, decide_true, Bool.false_and, Bool.true_and, Bool.or_false, Bool.false_or]
    case none => rw [phaseInv, hph, hr'] at hpi; cases hpi
    case inRolling =>
      cases hsub : s.ro.sub with
      | none => rw [phaseInv, hph, hr'] at hpi; simp only [hsub] at hpi; cases hpi
      | some sub =>
        rw [phaseInv_rolling s w sub hph hr' hsub] at hpi
        simp only [Bool.and_eq_true] at hpi
        obtain ⟨⟨hsubok, hlink⟩, _⟩ := hpi
        have sg := (subOK_iff s.ro sub w).1 hsubok
        have h1 : decide (sub.curIdx < 1 ∨ sub.curIdx > (s.ro.steps.length : Int)) = false := by
          have := sg.lo; have := sg.hi; simp only [decide_eq_false_iff_not]; omega
        have h2 : (decide (sub.lastUpdate = Age.none)) = false := by simpa using sg.lu
        simp only [Option.isNone_some, h1, h2, Bool.or_false, Bool.false_or]
        cases hb : s.br with
        | none => rfl
        | some b =>
          rw [hb] at hlink
          have hl := (linkOK_iff s.ro sub b).1 hlink
          obtain ⟨hbat, ⟨p, hp, hp0, hple, _⟩, _, _⟩ := hl
          have hlen : b.batches.length = s.ro.steps.length := by rw [hbat]; exact planOf_length s.ro
          simp only [Option.map_some, roBr, hp]
          have := sg.hi
          simp only [decide_eq_false_iff_not]
          omega
  case terminating => rw [phaseInv, hph] at hpi; cases hpi

/-! ### 2. `loop_link` (C01 / C11): the three cursors -/

/-- **C01.3–4 / C11 (closed loop)** — in every reachable state in which the rollout is rolling: the step index is
    inside the plan, and a BatchRelease, if there is one, carries the rollout's plan, a batch partition between 0 and
    the rollout's step (`curIdx − 1`), and an executor batch index between 0 and that partition; it is neither
    deleted nor being finalised.  (partial: label set) -/
theorem loop_link_partial (s0 s : CS) (ls : List Label) (h0 : Init s0) (hr : Reach s0 ls s)
    (hph : s.ro.phase = .progressing) (hre : s.ro.reason = .inRolling) :
    ∃ sub, s.ro.sub = some sub ∧ 1 ≤ sub.curIdx ∧ sub.curIdx ≤ s.ro.steps.length ∧
      ∀ b, s.br = some b →
        b.batches = s.ro.steps.map (·.replicas) ∧
        (∃ p, b.partition = some p ∧ 0 ≤ b.st.currentBatch ∧ b.st.currentBatch ≤ p ∧ p ≤ sub.curIdx - 1) ∧
        b.deleting = false := by
  have h := loop_inv_partial s0 s ls h0 hr
  obtain ⟨_, _, w, _, _, _, hbrok, hpi⟩ := fwd_parts s h
  cases hsub : s.ro.sub with
  | none => rw [phaseInv, hph, hre] at hpi; simp only [hsub] at hpi; cases hpi
  | some sub =>
    rw [phaseInv_rolling s w sub hph hre hsub] at hpi
    simp only [Bool.and_eq_true] at hpi
    obtain ⟨⟨hsubok, hlink⟩, _⟩ := hpi
    have sg := (subOK_iff s.ro sub w).1 hsubok
    refine ⟨sub, rfl, sg.lo, sg.hi, fun b hb => ?_⟩
    rw [hb] at hlink hbrok
    obtain ⟨hbat, ⟨p, hp, _, hple, hcb⟩, hdel, _⟩ := (linkOK_iff s.ro sub b).1 hlink
    obtain ⟨_, hcb0, _, _, _⟩ := (brOK_iff b).1 hbrok
    exact ⟨hbat, ⟨p, hp, hcb0, hcb, hple⟩, hdel⟩

/-- **C01.4** — a BatchRelease whose spec is current for the rollout (`runBatchRelease` reports done) asks for exactly
    the batch of the current step -/
theorem spec_current_means (ro : Rollout) (br : Option BR) (id : String) (cur : Int) (rb : Bool) (b : BR)
    (hdone : (runBatchRelease ro br id cur rb).1 = true) (hb : (runBatchRelease ro br id cur rb).2.1 = some b) :
    b.batches = ro.steps.map (·.replicas) ∧ b.partition = some (cur - 1) := by
  cases br with
  | none => simp [runBatchRelease] at hdone
  | some b0 =>
    simp only [runBatchRelease] at hdone hb
    by_cases heq : brSpecEq b0 (desiredBR ro id (cur - 1) rb) = true
    · rw [if_pos heq] at hb
      simp only [Option.some.injEq] at hb
      subst hb
      unfold brSpecEq desiredBR at heq
      simp only [Bool.and_eq_true, beq_iff_eq] at heq
      exact ⟨heq.1.1.1.1.1, heq.1.1.1.1.2⟩
    · rw [if_neg heq] at hdone
      cases hdone

/-- **C01.3 / C11.ii (closed loop)** — along every history, a BatchRelease reconcile raises the executor's batch index
    only by one, only from batch state Ready with the readiness check passing on the workload it reads, and only
    below the batch partition (the one-step theorem `batch_advance_guarded`, which holds for every state, read on
    the joint state) -/
theorem loop_batch_rises_only_from_ready (s s' : CS) (b b' : CBr) (hb : s.br = some b) (hs : step s .br = some s')
    (hb' : s'.br = some b') :
    RV.Oracle.Executor.batchAdvanceGuarded (exBr b) (s.wl.map exWl) (exBr b') = true := by
  simp only [step, stepBr, hb] at hs
  split at hs
  · cases hs
  · rename_i o ho
    simp only [Option.some.injEq] at hs
    subst hs
    simp only [landBr] at hb'
    cases hob : o.br with
    | none => rw [hob] at hb'; cases hb'
    | some eb =>
      rw [hob] at hb'
      simp only [Option.map_some, Option.some.injEq] at hb'
      have hg := RV.Props.Executor.batch_advance_guarded (exBr b) (s.wl.map exWl) o eb ho hob
      subst hb'
      unfold RV.Oracle.Executor.batchAdvanceGuarded at hg ⊢
      exact hg

/-! ### 3. `loop_exposure` (C01.5) -/

/-- **C01.5 (closed loop, every history)** — in every reachable state in which the rollout is rolling, the CloneSet
    carries a partition and the partition exposes at most what the step the rollout is on allows
    (`within`: exactly, or — when the plan has percent entries — with the documented slack of < 1 % of the size).
    (partial: label set) -/
theorem loop_exposure_partial (s0 s : CS) (ls : List Label) (h0 : Init s0) (hr : Reach s0 ls s)
    (hph : s.ro.phase = .progressing) (hre : s.ro.reason = .inRolling) :
    ∃ w sub k e, s.wl = some w ∧ s.ro.sub = some sub ∧ w.partition = some k ∧
      (s.ro.steps.map (·.replicas))[(sub.curIdx - 1).toNat]? = some e ∧
      (exposure k w.replicas ≤ calcBatchReplicas w.replicas e ∨
       ((s.ro.steps.map (·.replicas)).any isStr = true ∧
         100 * (exposure k w.replicas - calcBatchReplicas w.replicas e) < max w.replicas 1)) := by
  have h := loop_inv_partial s0 s ls h0 hr
  obtain ⟨_, _, w, hw, _, _, _, hpi⟩ := fwd_parts s h
  cases hsub : s.ro.sub with
  | none => rw [phaseInv, hph, hre] at hpi; simp only [hsub] at hpi; cases hpi
  | some sub =>
    rw [phaseInv_rolling s w sub hph hre hsub] at hpi
    simp only [Bool.and_eq_true] at hpi
    obtain ⟨_, hwc⟩ := hpi
    unfold withinCur at hwc
    split at hwc
    · rename_i k e hk he
      refine ⟨w, sub, k, e, hw, rfl, hk, he, ?_⟩
      unfold within at hwc
      simpa only [Bool.or_eq_true, Bool.and_eq_true, decide_eq_true_eq, planOf] using hwc
    · cases hwc

theorem exposureBound_cloneSet (R : Int) (e k : IntOrPct) :
    exposureBound .cloneSet R e none k =
      if isStr e = true then decide (100 * (exposure k R - calcBatchReplicas R e) < max R 1)
      else decide (exposure k R ≤ calcBatchReplicas R e) := by
  cases h : isStr e <;> simp [exposureBound, h, RV.BatchCtx.exposureOf, allowed] <;> congr

/-- a plan whose entries are all integers or all strings (percents) -/
def homogeneous (plan : List IntOrPct) : Bool := plan.all isStr || plan.all (fun e => !isStr e)

/-- **C01.5 as judged on the walks** — for plans that do not mix integer and percent entries, every reachable state
    satisfies the snapshot oracle `RV.Oracle.Cluster.exposureWithinStep` of suite `cluster` -/
theorem loop_exposure_oracle_partial (s0 s : CS) (ls : List Label) (h0 : Init s0) (hr : Reach s0 ls s)
    (hh : homogeneous (planOf s.ro) = true) (w : CWl) (hw : s.wl = some w) :
    RV.Oracle.Cluster.exposureWithinStep (roWorld s) (wlx w) = true := by
  have h := loop_inv_partial s0 s ls h0 hr
  obtain ⟨_, _, w', hw', _, _, _, hpi⟩ := fwd_parts s h
  rw [hw] at hw'; cases hw'
  unfold RV.Oracle.Cluster.exposureWithinStep
  have hwl : (roWorld s).wl = some (roWl w) := by simp only [roWorld, hw, Option.map_some]
  have hro : (roWorld s).ro = s.ro := rfl
  rw [hwl, hro]
  cases hsub : s.ro.sub with
  | none => rfl
  | some sub =>
    dsimp only
    split
    · rename_i hc
      obtain ⟨hph, hre, _, _, _⟩ := hc
      rw [phaseInv_rolling s w sub hph hre hsub] at hpi
      simp only [Bool.and_eq_true] at hpi
      obtain ⟨⟨hsubok, _⟩, hwc⟩ := hpi
      have sg := (subOK_iff s.ro sub w).1 hsubok
      unfold withinCur at hwc
      split at hwc
      · rename_i k e hk he
        have hce : RV.Oracle.Cluster.currentEntry s.ro = some e := by
          unfold RV.Oracle.Cluster.currentEntry
          rw [hsub]
          dsimp only
          rw [if_neg (by have := sg.lo; omega)]
          simpa only [planOf, List.getElem?_map] using he
        simp only [hce, wlx, hk]
        unfold within at hwc
        simp only [Bool.or_eq_true, Bool.and_eq_true, decide_eq_true_eq] at hwc
        have hmem : e ∈ planOf s.ro := List.mem_of_getElem? he
        unfold homogeneous at hh
        simp only [Bool.or_eq_true, List.all_eq_true] at hh
        rw [exposureBound_cloneSet]
        have hrep : (roWl w).replicas = w.replicas := rfl
        rw [hrep]
        by_cases hs : isStr e = true
        · rw [if_pos hs]
          apply decide_eq_true
          rcases hwc with hwc | ⟨_, hwc⟩
          · omega
          · exact hwc
        · rw [if_neg hs]
          apply decide_eq_true
          rcases hwc with hwc | ⟨hany, _⟩
          · exact hwc
          · exfalso
            rw [List.any_eq_true] at hany
            obtain ⟨x, hx, hxs⟩ := hany
            rcases hh with hall | hall
            · exact hs (hall e hmem)
            · have := hall x hx; simp [hxs] at this
      · cases hwc
    · rfl

/-! ### 5. `loop_crash` (C06) -/

/-- **C06** — `crash` (the controller restarts: the in-memory grace expectations are lost) is a label of every history
    above, legal in every state; stated on its own: a crash at any point preserves the invariant, so all of the
    theorems of this file hold at every crash point and after any number of crashes -/
theorem loop_crash_partial (s0 s : CS) (ls : List Label) (h0 : Init s0) (hr : Reach s0 ls s) :
    legal s .crash = true ∧ step s .crash = some (crash s) ∧ fwdInv (crash s) = true :=
  ⟨rfl, rfl, crash_fwd s (loop_inv_partial s0 s ls h0 hr)⟩

theorem Reach.snoc (s0 s s' : CS) (ls : List Label) (l : Label) (hr : Reach s0 ls s) (hl : legal s l = true)
    (hs : step s l = some s') : Reach s0 (ls ++ [l]) s' := by
  induction hr with
  | nil s => exact Reach.cons s s' s' l [] hl hs (Reach.nil s')
  | cons a b c l' ls' hl' hs' _ ih => exact Reach.cons a b s' l' _ hl' hs' (ih hl hs)

end RV.Props.ClosedLoop
