import RV.Lemmas.Webhook
/-!
# C08 — no unsupervised release: admission pauses every relevant change

Model: `RV.Webhook.handle` (`WorkloadHandler.Handle` / `UnifiedWorkloadHandler.Handle` with
`handleDeployment`, `handleCloneSet`, `handleDaemonSet`, `handleStatefulSetLikeWorkload`,
`fetchMatchedRollout`, `isEffectiveDeploymentRevisionChange`, `EqualIgnoreHash`).
Specification: `RV.Oracle.C08` (`mustHoldRollout`, `heldBack`, `holdFrame`, … and the four
oracles `holdOk`, `frameOk`, `repauseOk`, `totalOk`, which the driver also evaluates on the
outcome of the real handlers).

Every theorem quantifies over **all** requests: any old/new object, any list of Rollouts, any
list of ReplicaSets, any webhook configuration.
-/
set_option linter.unusedSimpArgs false
namespace RV.Props.C08
open RV.Webhook RV.Oracle.C08 RV.Arith

/-- The fate of a request under the model: the admitted object, or a rejection
    (`Errored` response, or handler panic under `failurePolicy: Fail`). -/
def run (rq : Req) : Outcome := outcome rq (handle rq)

/-! ## readable forms -/

/-- The hypothesis of C08.i spelled out: `mustHoldRollout rq = some r` says exactly that the request
    is selected by the webhook, concerns an eligible workload (running replicas, see `eligible`),
    is a release change, `r` is the first active Rollout referencing the workload, `r` has a
    strategy, and — with traffic routing — the workload runs a single revision. -/
theorem mustHold_iff (rq : Req) (r : Rollout) :
    mustHoldRollout rq = some r ↔
      (selected rq = true ∧ eligible rq = true ∧ releaseChange rq.old rq.new = true
        ∧ matchedRollout rq.new rq.rollouts = some r ∧ r.emptyRelease = false
        ∧ (r.hasTraffic = true → singleRevision rq = true)) := by
  unfold mustHoldRollout
  cases selected rq <;> cases eligible rq <;> cases releaseChange rq.old rq.new <;>
    cases hm : matchedRollout rq.new rq.rollouts <;> simp
  rename_i r'
  cases he : r'.emptyRelease <;> cases ht : r'.hasTraffic <;> cases hs : singleRevision rq <;> simp
  all_goals (intro h; subst h; simp_all)

/-- **C08.i (hold).** A selected workload with running replicas that receives a release change
    while the first active Rollout referencing it is `r` (non-empty strategy; with traffic routing
    only while a Deployment / CloneSet runs a single revision) is admitted *patched*:
    held back (paused / partition `100%` / partition `32767`), marked in-progress for `r`,
    and otherwise identical to the submitted object (a Deployment may in addition get the
    stable-revision label of one of its running ReplicaSets with a different template) — for every well-formed request except an
    Advanced DaemonSet without `updateStrategy.rollingUpdate` (see `daemonSet_without_rollingUpdate`). -/
theorem held_and_marked (rq : Req) (r : Rollout)
    (hm : mustHoldRollout rq = some r) (hw : wellFormed rq = true) (hds : dsNoRollingUpdate rq = false) :
    ∃ o, handle rq = .patched o ∧ heldBack (wkind rq) o = true ∧ o.inProgress = .rollout r.name
      ∧ holdFrame (wkind rq) rq.new o = true ∧ stableRevOk rq o = true := by
  have hsel : selected rq = true := by
    unfold mustHoldRollout at hm; split at hm <;> simp_all
  have helig : eligible rq = true := by
    unfold mustHoldRollout at hm; split at hm <;> simp_all
  unfold wellFormed at hw
  simp only [Bool.and_eq_true] at hw
  obtain ⟨⟨⟨hdry, hmeta⟩, hrs⟩, hus⟩ := hw
  rw [handle_selected hsel, hdry]
  simp only [if_true]
  cases hk : wkind rq with
  | notHandled => simp [eligible, hk] at helig
  | deployment =>
    have hip : rq.new.inProgress = .absent := by
      simp [eligible, hk] at helig; exact helig.2
    have hu := (wkind_deployment hk).1
    rw [hu]; simp only [Bool.false_eq_true, if_false]
    rw [dispatch_deployment hk, handleDeployment_eq hk hsel hip, hm]
    have hsome := findCanary_isSome rq hrs
    rcases hf : findCanaryAndStableReplicaSet (activeRS rq) rq.new with _ | ⟨a, _ | s⟩
    · simp [hf] at hsome
    · exact ⟨_, rfl, by simp [heldBack], rfl, by simp [holdFrame], by simp [stableRevOk]⟩
    · obtain ⟨hmem, hne⟩ := findCanary_stable rq a s hf
      refine ⟨_, rfl, by simp [heldBack], rfl, by simp [holdFrame], ?_⟩
      simp only [stableRevOk, Bool.or_eq_true, List.any_eq_true, Bool.and_eq_true, beq_iff_eq, bne_iff_ne]
      exact Or.inr ⟨s, hmem, rfl, hne⟩
  | cloneSet =>
    have hu := (wkind_cloneSet hk).1
    rw [hu]; simp only [Bool.false_eq_true, if_false]
    rw [dispatch_cloneSet hk, handleCloneSet_eq hk hsel, hm]
    exact ⟨_, rfl, by simp [heldBack], rfl, by simp [holdFrame], by simp [stableRevOk]⟩
  | daemonSet =>
    have hu := (wkind_daemonSet hk).1
    rw [hu]; simp only [Bool.false_eq_true, if_false]
    rw [dispatch_daemonSet hk, dispatchDaemonSet_eq hk hsel, hm]
    simp only [hk, bne_self_eq_false, Bool.false_or] at hus
    simp only [hus, Bool.not_true, Bool.false_eq_true, if_false]
    unfold dsNoRollingUpdate at hds
    simp only [hk, beq_self_eq_true, Bool.true_and] at hds
    simp only [Bool.and_eq_true] at hus
    rcases hn : rq.new.us with _ | _ | ⟨t, _ | _ | p⟩ <;> simp [hn, typedUSOk] at hds hus
    refine ⟨_, rfl, by simp [heldBack, maxInt16], rfl, ?_, by simp [stableRevOk]⟩
    simp [holdFrame, usTypeKept, hn]
    rw [← hn]
  | stsLike =>
    obtain ⟨hu, hd⟩ := wkind_stsLike hk
    rw [hu]; simp only [if_true]
    rw [hd, handleSts_eq hk hsel, hm, hmeta]
    simp only [Bool.not_true, Bool.and_false, Bool.false_eq_true, if_false]
    refine ⟨_, rfl, ?_, rfl, ?_, by simp [stableRevOk]⟩
    · rcases hn : rq.new.us with _ | _ | ⟨t, ru⟩ <;> simp [heldBack, setStatefulSetPartition, maxInt16]
    · rcases hn : rq.new.us with _ | _ | ⟨t, ru⟩ <;> (simp [holdFrame, setStatefulSetPartition, usTypeKept, hn]; rw [← hn])


/-- **C08.iv (totality).** Whatever the shape of the request — also shapes no API server
    produces — a request that must be held is never admitted without being held back and marked:
    the only other outcomes are rejections (`Errored`, or a panic under `failurePolicy: Fail`). -/
theorem never_admitted_unheld (rq : Req) (r : Rollout) (hm : mustHoldRollout rq = some r) :
    ∀ o, run rq = .admitted o → heldBack (wkind rq) o = true ∧ o.inProgress = .rollout r.name := by
  obtain ⟨hsel, helig⟩ := mustHold_selected hm
  intro o ho
  unfold run at ho
  rw [handle_selected hsel] at ho
  cases hdry : rq.dryRunSet
  · simp [hdry, outcome] at ho
  simp only [hdry, if_true] at ho
  cases hk : wkind rq with
  | notHandled => simp [eligible, hk] at helig
  | deployment =>
    have hip : rq.new.inProgress = .absent := by
      simp [eligible, hk] at helig; exact helig.2
    have hu := (wkind_deployment hk).1
    rw [hu] at ho; simp only [Bool.false_eq_true, if_false] at ho
    rw [dispatch_deployment hk, handleDeployment_eq hk hsel hip, hm] at ho
    rcases hf : findCanaryAndStableReplicaSet (activeRS rq) rq.new with _ | ⟨a, _ | s⟩ <;>
      simp [hf, outcome] at ho <;> subst ho <;> simp [heldBack]
  | cloneSet =>
    have hu := (wkind_cloneSet hk).1
    rw [hu] at ho; simp only [Bool.false_eq_true, if_false] at ho
    rw [dispatch_cloneSet hk, handleCloneSet_eq hk hsel, hm] at ho
    simp [finish, outcome] at ho; subst ho; simp [heldBack]
  | daemonSet =>
    have hu := (wkind_daemonSet hk).1
    rw [hu] at ho; simp only [Bool.false_eq_true, if_false] at ho
    rw [dispatch_daemonSet hk, dispatchDaemonSet_eq hk hsel, hm] at ho
    by_cases hbad : (!(typedUSOk rq.new.us && typedUSOk rq.old.us)) = true
    · simp [hbad, outcome] at ho
    · simp only [hbad, if_false] at ho
      rcases hn : rq.new.us with _ | _ | ⟨t, _ | _ | p⟩ <;> simp [hn, outcome] at ho
      subst ho; simp [heldBack, maxInt16]
  | stsLike =>
    obtain ⟨hu, hd⟩ := wkind_stsLike hk
    rw [hu] at ho; simp only [if_true] at ho
    rw [hd, handleSts_eq hk hsel, hm] at ho
    by_cases hbad : (eligible rq && rq.new.rolloutId != "" && !rq.oldMetaPresent) = true
    · simp [hbad, outcome] at ho
    · simp only [hbad, if_false] at ho
      simp [outcome] at ho; subst ho
      rcases hn : rq.new.us with _ | _ | ⟨t, ru⟩ <;> simp [heldBack, setStatefulSetPartition, maxInt16]

/-- **Observation III.3 #15.** An Advanced DaemonSet without `updateStrategy.rollingUpdate` that
    must be held makes `handleDaemonSet` dereference nil: the handler panics and, the webhooks being
    registered with `failurePolicy: Fail`, the update is rejected — not admitted. -/
theorem daemonSet_without_rollingUpdate (rq : Req) (r : Rollout)
    (hm : mustHoldRollout rq = some r) (hw : wellFormed rq = true) (hds : dsNoRollingUpdate rq = true) :
    handle rq = .panic := by
  obtain ⟨hsel, _⟩ := mustHold_selected hm
  unfold wellFormed at hw
  simp only [Bool.and_eq_true] at hw
  obtain ⟨⟨⟨hdry, _⟩, _⟩, hus⟩ := hw
  unfold dsNoRollingUpdate at hds
  simp only [Bool.and_eq_true, beq_iff_eq] at hds
  obtain ⟨hk, hds⟩ := hds
  have hu := (wkind_daemonSet hk).1
  rw [handle_selected hsel, hdry, hu]
  simp only [if_true, Bool.false_eq_true, if_false]
  rw [dispatch_daemonSet hk, dispatchDaemonSet_eq hk hsel, hm]
  simp only [hk, bne_self_eq_false, Bool.false_or] at hus
  simp only [hus, Bool.not_true, Bool.false_eq_true, if_false]
  rcases hn : rq.new.us with _ | _ | ⟨t, _ | _ | p⟩ <;> simp [hn] at hds ⊢

/-- **C08.ii (frame).** A request that need not be held and is not an in-progress Deployment is
    never patched; unless it is malformed or the webhook configuration is missing it is allowed,
    i.e. the submitted object is admitted unchanged. -/
theorem unchanged_otherwise (rq : Req) (hm : mustHoldRollout rq = none) (hip : depInProgress rq = false) :
    (∀ o, handle rq ≠ .patched o) ∧
    (wellFormed rq = true → (rq.cfg.isSome = true ∨ rq.op ≠ "UPDATE" ∨ rq.subResource ≠ "") → handle rq = .allowed) := by
  cases hsel : selected rq
  · rcases handle_unselected hsel with h | ⟨h, hc, ho, hs⟩ | ⟨h, hd⟩
    · simp [h]
    · simp [h, hc, ho, hs]
    · refine ⟨by simp [h], ?_⟩
      intro hw; simp [wellFormed, hd] at hw
  · rw [handle_selected hsel]
    cases hdry : rq.dryRunSet
    · refine ⟨by simp, ?_⟩
      intro hw; simp [wellFormed, hdry] at hw
    simp only [if_true]
    cases hk : wkind rq with
    | notHandled => rw [wkind_notHandled hk]; simp
    | deployment =>
      have hu := (wkind_deployment hk).1
      have hab : rq.new.inProgress = .absent := by
        simp [depInProgress, hk, hsel] at hip; exact hip
      rw [hu]; simp only [Bool.false_eq_true, if_false]
      rw [dispatch_deployment hk, handleDeployment_eq hk hsel hab, hm]
      simp
    | cloneSet =>
      have hu := (wkind_cloneSet hk).1
      rw [hu]; simp only [Bool.false_eq_true, if_false]
      rw [dispatch_cloneSet hk, handleCloneSet_eq hk hsel, hm]
      simp [finish]
    | daemonSet =>
      have hu := (wkind_daemonSet hk).1
      rw [hu]; simp only [Bool.false_eq_true, if_false]
      rw [dispatch_daemonSet hk, dispatchDaemonSet_eq hk hsel, hm]
      split
      · rename_i hbad
        refine ⟨by simp, ?_⟩
        intro hw
        simp [wellFormed, hk] at hw
        simp [hw.2] at hbad
      · simp
    | stsLike =>
      obtain ⟨hu, hd⟩ := wkind_stsLike hk
      rw [hu]; simp only [if_true]
      rw [hd, handleSts_eq hk hsel, hm]
      split
      · rename_i hbad
        refine ⟨by simp, ?_⟩
        intro hw
        simp [wellFormed] at hw
        simp [hw.1.1.2] at hbad
      · simp

/-- **C08.ii / C08.iii (in-progress Deployments).** A selected Deployment carrying the in-progress
    marker is always admitted; the admitted object differs from the submitted one at most in
    `spec.paused`, `spec.strategy` and the strategy annotation; and it **is paused** whenever the
    release is canary- or partition-style (no original-strategy annotation, or strategy annotation
    with rolling style Partition) or the update is a release change. In particular an edit that
    sets `paused=false` in the middle of such a release is corrected. -/
theorem inProgress_repaused (rq : Req) (hip : depInProgress rq = true) (hdry : rq.dryRunSet = true) :
    ∃ o, run rq = .admitted o
      ∧ { o with paused := rq.new.paused, stratType := rq.new.stratType, stratRU := rq.new.stratRU,
                 stratAnno := rq.new.stratAnno } = rq.new
      ∧ ((repauseStyle rq.new = true ∨ releaseChange rq.old rq.new = true) → o.paused = true) := by
  unfold depInProgress at hip
  simp only [Bool.and_eq_true, beq_iff_eq, bne_iff_ne, ne_eq] at hip
  obtain ⟨⟨hk, hsel⟩, hne⟩ := hip
  have hu := (wkind_deployment hk).1
  unfold run
  rw [handle_selected hsel, hdry, hu]
  simp only [if_true, Bool.false_eq_true, if_false]
  rw [dispatch_deployment hk, handleDeployment_inProgress hne]
  obtain ⟨c, o, he, hf, hp⟩ := inProgress_spec rq.new rq.old
  rw [he]
  cases c
  · refine ⟨rq.new, by simp [finish, outcome], rfl, ?_⟩
    intro h; exact (hp h).2 rfl
  · refine ⟨o, by simp [finish, outcome], hf, ?_⟩
    intro h; exact (hp h).1

/-! ## the four oracles hold on the model, for every request

These are the statements the driver re-evaluates on the outcome of the *real* handlers
(`holds` entries `C08.hold`, `C08.total`, `C08.frame`, `C08.repause`). -/

/-- C08.i as an oracle. -/
theorem hold_ok (rq : Req) : holdOk rq (run rq) = true := by
  unfold holdOk
  cases hm : mustHoldRollout rq with
  | none => rfl
  | some r =>
    simp only []
    cases hw : wellFormed rq
    · simp
    · cases hds : dsNoRollingUpdate rq
      · obtain ⟨o, ho, h1, h2, h3, h4⟩ := held_and_marked rq r hm hw hds
        simp [run, ho, outcome, h1, h2, h3, h4]
      · have := daemonSet_without_rollingUpdate rq r hm hw hds
        simp [run, this, outcome]

/-- C08.iv as an oracle. -/
theorem total_ok (rq : Req) : totalOk rq (run rq) = true := by
  unfold totalOk
  cases hm : mustHoldRollout rq with
  | none => rfl
  | some r =>
    simp only []
    cases hr : run rq with
    | admitted o =>
      obtain ⟨h1, h2⟩ := never_admitted_unheld rq r hm o hr
      simp [h1, h2]
    | rejected => rfl
    | panic => rfl

/-- C08.ii as an oracle. -/
theorem frame_ok (rq : Req) : frameOk rq (run rq) = true := by
  unfold frameOk
  cases hm : mustHoldRollout rq with
  | some r => rfl
  | none =>
    simp only [Option.isSome_none, Bool.false_eq_true, if_false]
    cases hip : depInProgress rq
    · simp only [Bool.false_eq_true, if_false]
      obtain ⟨h1, h2⟩ := unchanged_otherwise rq hm hip
      cases hh : handle rq with
      | allowed => simp [run, hh, outcome]
      | patched o => exact absurd hh (h1 o)
      | errored =>
        simp only [run, hh, outcome]
        cases hw : wellFormed rq
        · simp
        · simp only [Bool.not_true, Bool.false_or]
          have h3 := h2 hw
          cases hc : rq.cfg with
          | some c => simp [hc, hh] at h3
          | none =>
            by_cases ho : rq.op = "UPDATE" <;> by_cases hs : rq.subResource = "" <;> simp [hc, hh, ho, hs] at h3 ⊢
      | panic =>
        simp only [run, hh, outcome]
        cases hw : wellFormed rq
        · simp
        · simp only [Bool.not_true, Bool.false_or]
          have h3 := h2 hw
          cases hc : rq.cfg with
          | some c => simp [hc, hh] at h3
          | none =>
            by_cases ho : rq.op = "UPDATE" <;> by_cases hs : rq.subResource = "" <;> simp [hc, hh, ho, hs] at h3 ⊢
    · simp only [if_true]
      cases hdry : rq.dryRunSet
      · have hsel : selected rq = true := by
          simp [depInProgress] at hip; exact hip.1.2
        have : handle rq = .panic := by rw [handle_selected hsel, hdry]; simp
        simp [run, this, outcome, wellFormed, hdry]
      · obtain ⟨o, ho, hf, _⟩ := inProgress_repaused rq hip hdry
        simp [ho, hf]

/-- C08.iii as an oracle. -/
theorem repause_ok (rq : Req) : repauseOk rq (run rq) = true := by
  unfold repauseOk
  split
  · rename_i h
    simp only [Bool.and_eq_true, Bool.or_eq_true] at h
    obtain ⟨hip, hst⟩ := h
    cases hdry : rq.dryRunSet
    · have hsel : selected rq = true := by
        simp [depInProgress] at hip; exact hip.1.2
      have : handle rq = .panic := by rw [handle_selected hsel, hdry]; simp
      simp [run, this, outcome, wellFormed, hdry]
    · obtain ⟨o, ho, _, hp⟩ := inProgress_repaused rq hip hdry
      simp [ho, hp hst]
  · rfl

/-- **C08.iv (no spurious failure).** With the webhook configuration present, a well-formed request
    is always admitted (patched or unchanged) — the handlers neither panic nor return an error —
    except for the one case of `daemonSet_without_rollingUpdate`. -/
theorem no_failure (rq : Req) (hw : wellFormed rq = true) (hc : rq.cfg.isSome = true)
    (hds : (dsNoRollingUpdate rq && (mustHoldRollout rq).isSome) = false) :
    ∃ o, run rq = .admitted o := by
  cases hm : mustHoldRollout rq with
  | some r =>
    have hds' : dsNoRollingUpdate rq = false := by simpa [hm] using hds
    obtain ⟨o, ho, _⟩ := held_and_marked rq r hm hw hds'
    exact ⟨o, by simp [run, ho, outcome]⟩
  | none =>
    cases hip : depInProgress rq
    · have h := (unchanged_otherwise rq hm hip).2 hw (Or.inl hc)
      exact ⟨rq.new, by simp [run, h, outcome]⟩
    · have hdry : rq.dryRunSet = true := by
        simp [wellFormed] at hw; exact hw.1.1.1
      obtain ⟨o, ho, _⟩ := inProgress_repaused rq hip hdry
      exact ⟨o, ho⟩

/-! ## non-vacuity: concrete requests satisfying the hypotheses (tests, by evaluation) -/

def exObj : Obj :=
  { group := "apps", kind := "Deployment", name := "web", workloadType := "deployment",
    replicas := some 3, rolloutId := "", tmplPresent := true, tmpl := { body := 1, hash := "h1" },
    inProgress := .absent, paused := false, stratType := "RollingUpdate", stratRU := none,
    stratAnno := .absent, hasOrigStrategy := false, stableRev := "", csPartition := none,
    statusReplicas := 3, statusUpdated := 3, us := .absent, rest := 0 }

def exRollout (kind apiVersion : String) : Rollout :=
  { name := "r1", deleting := false, phaseDisabled := false, refApiVersion := apiVersion, refKind := kind,
    refName := "web", emptyRelease := false, hasTraffic := true }

def exRS : RS :=
  { deleting := false, replicas := some 3, ctrl := .same, selected := true, tmplBody := 1,
    hashLabel := "h1", revision := some 1, created := 100 }

def exCfg : Option (List WH) :=
  some [{ rules := [false], sel := .existsWorkloadType }, { rules := [true], sel := .existsWorkloadType }]

/-- a Deployment whose pod template changes; the first Rollout is being deleted, the second matches -/
def exDep : Req :=
  { unified := false, op := "UPDATE", subResource := "", dryRunSet := true, cfg := exCfg,
    old := exObj, new := { exObj with tmpl := { body := 2, hash := "" } }, oldMetaPresent := true,
    rollouts := [{ exRollout "Deployment" "apps/v1" with name := "r0", deleting := true }, exRollout "Deployment" "apps/v1"],
    rss := [exRS] }

/-- a CloneSet whose rollout-id changes (template unchanged) -/
def exCS : Req :=
  { exDep with
    old := { exObj with group := "apps.kruise.io", kind := "CloneSet", rolloutId := "1" },
    new := { exObj with group := "apps.kruise.io", kind := "CloneSet", rolloutId := "2" },
    rollouts := [exRollout "CloneSet" "apps.kruise.io/v1alpha1"], rss := [] }

/-- an Advanced DaemonSet with / without a `rollingUpdate` block -/
def exDS (ru : RUBlock) : Req :=
  { exDep with
    old := { exObj with group := "apps.kruise.io", kind := "DaemonSet", us := .present "RollingUpdate" ru },
    new := { exObj with group := "apps.kruise.io", kind := "DaemonSet", us := .present "RollingUpdate" ru,
                        tmpl := { body := 2, hash := "" } },
    rollouts := [exRollout "DaemonSet" "apps.kruise.io/v1alpha1"], rss := [] }

/-- a custom StatefulSet-like kind through the unified handler, no `updateStrategy` at all -/
def exSts : Req :=
  { exDep with
    unified := true,
    old := { exObj with group := "games.example.io", kind := "GameServerSet", workloadType := "StatefulSet" },
    new := { exObj with group := "games.example.io", kind := "GameServerSet", workloadType := "StatefulSet",
                        tmpl := { body := 2, hash := "" } },
    rollouts := [exRollout "GameServerSet" "games.example.io/v1"], rss := [] }

/-- an in-progress canary-style Deployment that a user un-pauses -/
def exUnpause : Req :=
  { exDep with
    old := { exObj with inProgress := .rollout "r1", paused := true },
    new := { exObj with inProgress := .rollout "r1", paused := false } }

/-- an annotation-only edit (nothing modelled changes) -/
def exNoChange : Req := { exDep with new := exObj }

-- hypotheses of `held_and_marked` / `never_admitted_unheld` are satisfiable for every kind (tests)
example : mustHoldRollout exDep = some (exRollout "Deployment" "apps/v1") ∧ wellFormed exDep = true
    ∧ dsNoRollingUpdate exDep = false := by decide +kernel
example : mustHoldRollout exCS = some (exRollout "CloneSet" "apps.kruise.io/v1alpha1") ∧ wellFormed exCS = true
    ∧ dsNoRollingUpdate exCS = false := by decide +kernel
example : (mustHoldRollout (exDS (.present none))).isSome = true ∧ wellFormed (exDS (.present none)) = true
    ∧ dsNoRollingUpdate (exDS (.present none)) = false := by decide +kernel
example : (mustHoldRollout exSts).isSome = true ∧ wellFormed exSts = true
    ∧ dsNoRollingUpdate exSts = false := by decide +kernel
-- hypotheses of `daemonSet_without_rollingUpdate`
example : (mustHoldRollout (exDS .absent)).isSome = true ∧ wellFormed (exDS .absent) = true
    ∧ dsNoRollingUpdate (exDS .absent) = true := by decide +kernel
-- hypotheses of `unchanged_otherwise`
example : mustHoldRollout exNoChange = none ∧ depInProgress exNoChange = false ∧ wellFormed exNoChange = true
    ∧ exNoChange.cfg.isSome = true := by decide +kernel
-- hypotheses of `inProgress_repaused`, with the premise of its last conjunct
example : depInProgress exUnpause = true ∧ exUnpause.dryRunSet = true ∧ repauseStyle exUnpause.new = true
    ∧ exUnpause.new.paused = false := by decide +kernel
-- what the model answers on these (tests)
example : run exDep = .admitted { exDep.new with paused := true, inProgress := .rollout "r1", stableRev := "h1" } := by
  decide +kernel
example : run exCS = .admitted { exCS.new with csPartition := some (.pct 100), inProgress := .rollout "r1" } := by
  decide +kernel
example : run exSts = .admitted { exSts.new with us := .present "RollingUpdate" (.present (some 32767)),
                                                 inProgress := .rollout "r1" } := by decide +kernel
example : run (exDS .absent) = .panic := by decide +kernel
example : run exUnpause = .admitted { exUnpause.new with paused := true } := by decide +kernel
example : run exNoChange = .admitted exNoChange.new := by decide +kernel

end RV.Props.C08
