/-
  C07.ii — "it never waits on a wake-up that will not come".

  Part A: the handlers and predicates (`RV.Wakeup.roEnqueue` / `brEnqueue`, compared with the real handlers behind the
          real watch registrations by suite `wakeup`): who is woken by which event, for every cache content.
  Part B: the BatchRelease reconcile (`RV.Executor.reconcile`): a step that does not wake itself rests in a waiting class.
  Part C: the Rollout reconcile (`RV.RolloutSM.reconcile`): the same.
  Part D: every waiting class waits for events that the handlers map to the waiting object.

  Every oracle that the driver evaluates on the implementation's output is proved here for the model's output,
  for all inputs.
-/
import RV.Lemmas.Wakeup
namespace RV.Props.Wakeup
open RV.Wakeup RV.Oracle.Wakeup RV.Lemmas.Wakeup

/-! ## Part A — handlers -/

/-- the workload object of a Rollout-controller workload event -/
def RoEvent.wl? : RoEvent → Option Wl
  | .wlCreate o | .wlDelete o | .wlUpdate _ o => some o
  | _ => none

/-- **frame (`foreign_event_ignored`, Rollout controller)** — for every cache content, every workload event (create,
    update, delete; any kind, also kinds nobody watches): every request it produces is for a Rollout of the object's
    namespace whose workloadRef names the object's kind, group and name. -/
theorem ro_frame (e : RoEvent) (o : Wl) (he : RoEvent.wl? e = some o) (rs : List Obj) (listErr : Bool) :
    roFrame rs o (roEnqueue e rs listErr) = true := by
  have key : roFrame rs o (if watchedType o.ty then roHandleWorkload rs listErr o.ty o.ns o.name else []) = true := by
    unfold roFrame
    cases hw : watchedType o.ty
    · simp
    · simp only [Bool.not_true, Bool.false_eq_true, if_false, if_true]
      unfold roHandleWorkload
      cases hk : schemeKind o.ty with
      | none => simp
      | some g =>
        simp only
        split
        · simp
        · split
          · rename_i r hr
            have := getRollout_mem_owners rs o.ns o.name g r hr
            simp only [List.all_cons, List.all_nil, Bool.and_true, List.any_eq_true]
            exact ⟨r, this, by simp⟩
          · simp
  cases e <;> simp only [RoEvent.wl?, Option.some.injEq, reduceCtorEq] at he <;> subst he <;> exact key

/-- **a workload event reaches an owner** — for every cache content that can be listed: if some Rollout of the
    namespace names the workload (and its kind is watched), the event produces a request. -/
theorem ro_owner_woken (e : RoEvent) (o : Wl) (he : RoEvent.wl? e = some o) (rs : List Obj) (listErr : Bool) :
    roOwnerWoken rs listErr o (roEnqueue e rs listErr) = true := by
  have key : roOwnerWoken rs listErr o (if watchedType o.ty then roHandleWorkload rs listErr o.ty o.ns o.name else []) = true := by
    unfold roOwnerWoken
    cases hw : watchedType o.ty
    · simp
    · simp only [Bool.not_true, Bool.false_eq_true, if_false, if_true]
      unfold roHandleWorkload
      cases hk : schemeKind o.ty with
      | none => rfl
      | some g =>
        simp only
        cases listErr
        · simp only [Bool.false_eq_true, if_false, Bool.false_or]
          split
          · simp
          · rename_i hn
            rw [getRollout_none_owners rs o.ns o.name g hn]
            simp
        · simp
  cases e <;> simp only [RoEvent.wl?, Option.some.injEq, reduceCtorEq] at he <;> subst he <;> exact key

/-- order independence: when exactly one Rollout of the namespace names the workload, that Rollout is the one woken,
    wherever it stands in the cache's list. -/
theorem ro_unique_owner_woken (rs : List Obj) (o : Wl) (g : GVK) (r : Obj) (hw : watchedType o.ty = true)
    (hk : schemeKind o.ty = some g) (hu : owners rs o.ns o.name g = [r]) (old : Wl) :
    roEnqueue (.wlUpdate old o) rs = [r.key] ∧ roEnqueue (.wlCreate o) rs = [r.key] ∧ roEnqueue (.wlDelete o) rs = [r.key] := by
  have key : roHandleWorkload rs false o.ty o.ns o.name = [r.key] := by
    unfold roHandleWorkload
    rw [hk]
    simp only [Bool.false_eq_true, if_false]
    split
    · rename_i r' hr'
      have := getRollout_mem_owners rs o.ns o.name g r' hr'
      rw [hu] at this
      simp only [List.mem_singleton] at this
      rw [this]
    · rename_i hn
      have := getRollout_none_owners rs o.ns o.name g hn
      rw [hu] at this
      cases this
  simp only [roEnqueue, hw, if_true, key, and_self]

/-- **`br_update_wakes_rollout` (handler)** — every Update event of a BatchRelease produces exactly the request for the
    Rollout of the same namespace and name, whatever changed; Create and Delete events produce none. -/
theorem br_event_rollout (rs : List Obj) (listErr : Bool) (old b : BrMeta) :
    roBrEvent "update" b (roEnqueue (.brUpdate old b) rs listErr) = true ∧
    roBrEvent "create" b (roEnqueue (.brCreate b) rs listErr) = true ∧
    roBrEvent "delete" b (roEnqueue (.brDelete b) rs listErr) = true := by
  simp [roBrEvent, roEnqueue]

theorem getBatchRelease_frame (brs : List Obj) (listErr : Bool) (ns name : String) (g : GVK) (c : Control) (k : Key)
    (h : k ∈ (getBatchRelease brs listErr ns name g c).keys) :
    k.ns = ns ∧ (controlledBy c = some k.name ∨ ∃ r ∈ owners brs ns name g, r.key = k) := by
  have viaList : ∀ k, k ∈ (if listErr then Found.err else match lastMatch brs ns name g with
      | some b => Found.key b.key | none => Found.noName).keys → k.ns = ns ∧ ∃ r ∈ owners brs ns name g, r.key = k := by
    intro k hk
    split at hk
    · simp [Found.keys] at hk
    · split at hk
      · rename_i b hb
        simp only [Found.keys, List.mem_singleton] at hk
        have hm := lastMatch_mem_owners brs ns name g b hb
        have := owner_ns brs ns name g b hm
        subst hk
        exact ⟨this.1, b, hm, rfl⟩
      · simp [Found.keys] at hk
  unfold getBatchRelease at h
  cases c with
  | absent | empty | badSyntax =>
    obtain ⟨h1, h2⟩ := viaList k h
    exact ⟨h1, Or.inr h2⟩
  | partialRef a kd =>
    simp only at h
    split at h
    · simp [Found.keys] at h
    · obtain ⟨h1, h2⟩ := viaList k h
      exact ⟨h1, Or.inr h2⟩
  | ref a kd n =>
    simp only at h
    split at h
    · rename_i hc
      split at h
      · simp [Found.keys] at h
      · rename_i hn
        simp only [Found.keys, List.mem_singleton] at h
        subst h
        exact ⟨rfl, Or.inl (by simp [controlledBy, hc.1, hc.2, hn])⟩
    · obtain ⟨h1, h2⟩ := viaList k h
      exact ⟨h1, Or.inr h2⟩

/-- the workload object of a BatchRelease-controller workload event and the keys the event produced -/
def BrEvent.wl? : BrEvent → Option Wl
  | .wlCreate o | .wlDelete o | .wlUpdate _ o => some o
  | _ => none

/-- **frame (`foreign_event_ignored`, BatchRelease controller)** — for every cache content and every workload event: every
    request is for a BatchRelease of the object's namespace, and either the one named by the object's control
    annotation or one whose workloadRef names the object. -/
theorem br_frame (e : BrEvent) (o : Wl) (he : BrEvent.wl? e = some o) (brs : List Obj) (store : List StoreObj) (listErr getErr : Bool)
    (ks : List Key) (hk : brEnqueue e brs store listErr getErr = .keys ks) : brFrame brs o ks = true := by
  have base : ∀ ks, (∀ k ∈ ks, ∃ g, switchKind o.ty = some g ∧ k ∈ (getBatchRelease brs listErr o.ns o.name g o.control).keys) →
      brFrame brs o ks = true := by
    intro ks hks
    unfold brFrame
    cases hs : switchKind o.ty with
    | none =>
      cases ks with
      | nil => rfl
      | cons k _ => obtain ⟨g, hg, _⟩ := hks k (by simp); rw [hs] at hg; cases hg
    | some g =>
      simp only [List.all_eq_true]
      intro k hkm
      obtain ⟨g', hg', hmem⟩ := hks k hkm
      rw [hs] at hg'
      cases hg'
      obtain ⟨h1, h2⟩ := getBatchRelease_frame brs listErr o.ns o.name g o.control k hmem
      simp only [Bool.and_eq_true, beq_iff_eq, Bool.or_eq_true, List.any_eq_true]
      refine ⟨h1, ?_⟩
      rcases h2 with h2 | ⟨r, hr, hrk⟩
      · exact Or.inl h2
      · exact Or.inr ⟨r, hr, hrk⟩
  cases e <;> simp only [BrEvent.wl?, Option.some.injEq, reduceCtorEq] at he
  · -- create
    subst he
    simp only [brEnqueue, EnqOut.keys.injEq] at hk
    subst hk
    apply base
    intro k hkm
    unfold brHandleWorkload at hkm
    split at hkm
    · simp at hkm
    · rename_i g hg; exact ⟨g, hg, hkm⟩
  · -- update
    subst he
    rename_i old
    simp only [brEnqueue] at hk
    unfold brWorkloadUpdate at hk
    split at hk
    · simp only [UpdOut.toEnq, EnqOut.keys.injEq] at hk; subst hk; apply base; intro k hkm; simp at hkm
    · rename_i g hg
      split at hk
      · simp only [UpdOut.toEnq, EnqOut.keys.injEq] at hk; subst hk; apply base; intro k hkm; simp at hkm
      · split at hk
        · split at hk
          · simp only [UpdOut.toEnq, EnqOut.keys.injEq] at hk; subst hk; apply base; intro k hkm; exact ⟨g, hg, hkm⟩
          · simp only [UpdOut.toEnq, EnqOut.keys.injEq] at hk; subst hk; apply base; intro k hkm; simp at hkm
        · simp [UpdOut.toEnq] at hk
  · -- delete
    subst he
    simp only [brEnqueue, EnqOut.keys.injEq] at hk
    subst hk
    apply base
    intro k hkm
    unfold brHandleWorkload at hkm
    split at hkm
    · simp at hkm
    · rename_i g hg; exact ⟨g, hg, hkm⟩

/-- the control annotation written by `Initialize` leads straight to its BatchRelease, whatever the cache contains
    (even when it cannot be listed) -/
theorem getBatchRelease_controlled (brs : List Obj) (listErr : Bool) (ns name : String) (g : GVK) (c : Control) (n : String)
    (h : controlledBy c = some n) : getBatchRelease brs listErr ns name g c = .key ⟨ns, n⟩ := by
  cases c with
  | ref a k m =>
    simp only [controlledBy] at h
    split at h
    · rename_i hc
      simp only [Option.some.injEq] at h
      subst h
      simp [getBatchRelease, hc.1, hc.2.1, hc.2.2]
    · cases h
  | _ => simp [controlledBy] at h

/-- **`workload_progress_wakes_br`** — for every cache content (listable or not) and every Update event of a watched
    workload kind whose object was really rewritten and whose generation or parsed status changed (this is how the workload
    controller's progress — updated / ready counts, observed generation, revisions — and a user's spec change arrive): the
    BatchRelease named by the control annotation that `Initialize` wrote is woken. -/
theorem workload_progress_wakes_br (brs : List Obj) (store : List StoreObj) (listErr getErr : Bool) (old new : Wl) (ks : List Key)
    (hk : brEnqueue (.wlUpdate old new) brs store listErr getErr = .keys ks) : wlProgressWakes old new ks = true := by
  unfold wlProgressWakes
  split
  · rename_i g n hg hn
    simp only [brEnqueue] at hk
    unfold brWorkloadUpdate at hk
    rw [hg] at hk
    simp only at hk
    by_cases hp : wlProgressed old new = true
    · unfold wlProgressed at hp
      simp only [Bool.and_eq_true, decide_eq_true_eq, Bool.or_eq_true, bne_iff_ne, ne_eq] at hp
      obtain ⟨hrv, hch⟩ := hp
      rw [if_neg hrv] at hk
      split at hk
      · rename_i so sn hso hsn
        have hcond : old.generation ≠ new.generation ∨ so ≠ sn := by
          rcases hch with h | h
          · exact Or.inl h
          · right; intro heq; apply h; rw [hso, hsn, heq]
        rw [if_pos hcond, getBatchRelease_controlled brs listErr new.ns new.name g new.control n hn] at hk
        simp only [Found.keys, UpdOut.toEnq, EnqOut.keys.injEq] at hk
        subst hk
        simp
      · simp [UpdOut.toEnq] at hk
    · simp only [Bool.not_eq_true] at hp
      simp [hp]
  · rfl

/-- **the BatchRelease predicate** — for every Update event of a BatchRelease: a change of generation (= of the spec),
    of the annotations, or a deletion mark wakes its reconciler; -/
theorem br_spec_change_wakes (brs : List Obj) (store : List StoreObj) (listErr getErr : Bool) (old new : BrMeta) (ks : List Key)
    (hk : brEnqueue (.brUpdate old new) brs store listErr getErr = .keys ks) : brSpecChangeWakes old new ks = true := by
  simp only [brEnqueue, EnqOut.keys.injEq] at hk
  subst hk
  unfold brSpecChangeWakes
  split
  · rename_i hc
    have : brPredUpdate old new = true := by
      unfold brPredUpdate
      rcases hc with h | h | h
      · simp [h]
      · simp [h]
      · by_cases h1 : old.generation ≠ new.generation ∨ new.deleting = true
        · rw [if_pos h1]
        · rw [if_neg h1]
          have : ¬ annosEq old.annos new.annos = true := fun he => h ((annosEq_iff _ _).mp he)
          simp [this]
    simp [this]
  · rfl

/-- … and a status-only write (generation, annotations and deletion mark unchanged) does **not**: the executor cannot rely on
    its own status writes to be called again. -/
theorem br_status_only_silent (brs : List Obj) (store : List StoreObj) (listErr getErr : Bool) (old new : BrMeta) (ks : List Key)
    (hk : brEnqueue (.brUpdate old new) brs store listErr getErr = .keys ks) : brStatusOnlySilent old new ks = true := by
  simp only [brEnqueue, EnqOut.keys.injEq] at hk
  subst hk
  unfold brStatusOnlySilent
  split
  · rename_i hc
    obtain ⟨h1, h2, h3⟩ := hc
    have : brPredUpdate old new = false := by
      unfold brPredUpdate
      have ha : annosEq old.annos new.annos = true := (annosEq_iff _ _).mpr h3
      have ha' : annosEq new.annos new.annos = true := (annosEq_iff _ _).mpr rfl
      simp [h1, h2, h3, ha']
    simp [this]
  · rfl

/-- **`pod_ready_wakes_br`** — for every cache content and every Update event of a pod whose readiness or revision label
    changed: when the chain of controller owners leads to a top-level workload that carries the control annotation written by
    `Initialize`, the BatchRelease named there is woken. -/
theorem pod_ready_wakes_br (brs : List Obj) (store : List StoreObj) (listErr getErr : Bool) (old new : Pod) (ks : List Key)
    (hk : brEnqueue (.podUpdate old new) brs store listErr getErr = .keys ks) : podWakes store getErr old new ks = true := by
  unfold podWakes
  split
  · rename_i ow ip c how htop
    split
    · rename_i n hn
      by_cases hp : podChanged old new = true
      · unfold podChanged at hp
        simp only [Bool.and_eq_true, decide_eq_true_eq, Bool.or_eq_true, Bool.not_eq_true', bne_iff_ne, ne_eq] at hp
        obtain ⟨hrv, hch⟩ := hp
        simp only [brEnqueue] at hk
        unfold podUpdate at hk
        have hcond : ¬ (old.rv = new.rv ∨ (isEqualRevision old new = true ∧ podReady old = podReady new)) := by
          intro h
          rcases h with h | ⟨h1, h2⟩
          · exact hrv h
          · rcases hch with h' | h'
            · rw [h1] at h'; cases h'
            · exact h' h2
        rw [if_neg hcond] at hk
        unfold podEnqueue at hk
        rw [how] at hk
        simp only at hk
        unfold podTop at htop
        rw [how] at htop
        rw [htop] at hk
        simp only at hk
        have hne : c.nonEmpty = true := by
          cases c <;> simp [controlledBy] at hn <;> rfl
        rw [if_neg (by simp [hne]), getBatchRelease_controlled brs listErr new.ns ow.name _ c n hn] at hk
        simp only [Found.keys, PodOut.toEnq, EnqOut.keys.injEq] at hk
        subst hk
        simp
      · simp only [Bool.not_eq_true] at hp
        simp [hp]
    · rfl
  · rfl

/-- frame for pods: every request a pod event produces is for a BatchRelease of the pod's namespace -/
theorem pod_frame (brs : List Obj) (store : List StoreObj) (listErr getErr : Bool) (p : Pod) (ks : List Key)
    (hk : podEnqueue brs store listErr getErr p = .keys ks) : podFrame p ks = true := by
  unfold podEnqueue at hk
  unfold podFrame
  split at hk
  · simp only [PodOut.keys.injEq] at hk; subst hk; rfl
  · split at hk
    · cases hk
    · simp only [PodOut.keys.injEq] at hk; subst hk; rfl
    · simp only [PodOut.keys.injEq] at hk; subst hk; rfl
    · split at hk
      · simp only [PodOut.keys.injEq] at hk; subst hk; rfl
      · simp only [PodOut.keys.injEq] at hk
        subst hk
        simp only [List.all_eq_true, beq_iff_eq]
        intro k hkm
        exact (getBatchRelease_frame _ _ _ _ _ _ k hkm).1

/-- **`foreign_event_ignored`** — in the form of the property: a Rollout `r` of a cache in which keys are unique is
    never requested by a workload event whose object is in another namespace, has another name, kind or group than
    `r.spec.workloadRef` says. -/
theorem foreign_event_ignored (rs : List Obj) (r : Obj) (hr : r ∈ rs)
    (huniq : ∀ a ∈ rs, ∀ b ∈ rs, a.key = b.key → a = b)
    (e : RoEvent) (o : Wl) (he : RoEvent.wl? e = some o) (listErr : Bool)
    (hforeign : r.ns ≠ o.ns ∨ ∀ g, schemeKind o.ty = some g → refMatches r.ref g o.name = false) :
    r.key ∉ roEnqueue e rs listErr := by
  intro hmem
  have hf := ro_frame e o he rs listErr
  unfold roFrame at hf
  split at hf
  · simp only [List.isEmpty_iff] at hf; rw [hf] at hmem; cases hmem
  · split at hf
    · simp only [List.isEmpty_iff] at hf; rw [hf] at hmem; cases hmem
    · rename_i g hg
      simp only [List.all_eq_true, List.any_eq_true, beq_iff_eq] at hf
      obtain ⟨r', hr', hk'⟩ := hf _ hmem
      obtain ⟨h1, h2, h3⟩ := owner_ns rs o.ns o.name g r' hr'
      have := huniq r' h3 r hr hk'
      subst this
      rcases hforeign with h | h
      · exact h h1
      · rw [h g hg] at h2; cases h2

/-! ### non-vacuity of Part A -/

def exRollouts : List Obj :=
  [⟨"ns1", "a", ⟨"apps/v1", "Deployment", "w1"⟩⟩, ⟨"ns1", "b", ⟨"apps.kruise.io/v1alpha1", "CloneSet", "w1"⟩⟩,
   ⟨"ns2", "a", ⟨"apps.kruise.io/v1alpha1", "CloneSet", "w1"⟩⟩]

def exWl : Wl :=
  { ty := .cloneSet, ns := "ns1", name := "w1", rv := "2", generation := 2,
    status := { replicas := 5, ready := 5, available := 5, updated := 2, updatedReady := 2, observedGeneration := 2, updateRevision := "v2", stableRevision := "v1" },
    control := .ref brAPIVersion "BatchRelease" "b" }

def exWlOld : Wl := { exWl with rv := "1", status := { exWl.status with updated := 1, updatedReady := 1 } }

-- tests on literals (not the ∀ claims above): the CloneSet event wakes Rollout ns1/b only, and BatchRelease ns1/b
example : roEnqueue (.wlUpdate exWlOld exWl) exRollouts = [⟨"ns1", "b"⟩] := by decide
example : owners exRollouts "ns1" "w1" gvkCloneSet = [⟨"ns1", "b", ⟨"apps.kruise.io/v1alpha1", "CloneSet", "w1"⟩⟩] := by decide
example : wlProgressed exWlOld exWl = true ∧ controlledBy exWl.control = some "b" := by decide
example : brEnqueue (.wlUpdate exWlOld exWl) [] = .keys [⟨"ns1", "b"⟩] := by decide
-- a status-only write of a BatchRelease is silent, a generation change is not
example : brEnqueue (.brUpdate ⟨"ns1", "b", 1, false, none⟩ ⟨"ns1", "b", 1, false, none⟩) [] = .keys [] := by decide
example : brEnqueue (.brUpdate ⟨"ns1", "b", 1, false, none⟩ ⟨"ns1", "b", 2, false, none⟩) [] = .keys [⟨"ns1", "b"⟩] := by decide

def exStore : List StoreObj :=
  [⟨gvkReplicaSet, "ns1", "w1-rs", some ⟨"apps/v1", "Deployment", "w1"⟩, false, .absent⟩,
   ⟨gvkDeployment, "ns1", "w1", none, false, .ref brAPIVersion "BatchRelease" "a"⟩]
def exPodOld : Pod := ⟨"ns1", "p", "1", "h1", "", .condFalse, some ⟨"apps/v1", "ReplicaSet", "w1-rs"⟩, false⟩
def exPod : Pod := { exPodOld with rv := "2", ready := .condTrue }
example : podChanged exPodOld exPod = true ∧ podTop exStore false exPod = .obj false (.ref brAPIVersion "BatchRelease" "a") := by decide
example : brEnqueue (.podUpdate exPodOld exPod) [] exStore = .keys [⟨"ns1", "a"⟩] := by decide


/-! ## Part B — the BatchRelease reconcile -/
section executor
open RV.Executor

/-- what the driver evaluates on the implementation's result, for the model's result -/
def brRestsOk (o : StepOut) : Bool := brStepOk o.br o.wl false

/-- **`br_waits_only_for_wakeable`** — for every BatchRelease and workload state: a reconcile that does not wake its own
    reconciler — no requeue, no error (rate-limited retry), no event of its own making that passes the predicate / the
    workload handler (a status-only write of a live object does not) — leaves the release in an explicitly listed waiting class
    (Completed; batch Ready and partitioned; workload not yet observed by its controller; rollback signal awaited; superseded — the
    workload's pod template is no longer the recorded revision: the executor stops on every round until its owner deletes or rewrites
    the BatchRelease, a deletion / spec event, or the template changes again, a workload event), or gone. -/
theorem br_waits_only_for_wakeable (br : BR) (wl : Option Workload) (o : StepOut) (h : reconcile br wl = .val o)
    (hq : (brWakes br wl o).br = false) : brRestsOk o = true := by
  unfold brWakes wakesOf at hq
  simp only [Bool.not_false, Bool.true_and, Bool.or_eq_false_iff, List.any_eq_false] at hq
  obtain ⟨⟨hrq, herr⟩, hev⟩ := hq
  unfold brRestsOk brStepOk
  simp only [Bool.false_or]
  unfold reconcile at h
  split at h
  · injection h with h; subst h; rfl
  · rename_i hfin
    unfold reconcileBody at h
    simp only at h
    have hst : (withFinalizer br).status = br.status := rfl
    split at h
    · -- stopped after the sync step
      rename_i hstop
      injection h with h
      subst h
      simp only [decide_eq_false_iff_not, ne_eq, Decidable.not_not] at hrq
      simp only
      have hsame : (syncStatus (withFinalizer br) (initializedStatus (withFinalizer br).status) wl).status = (withFinalizer br).status := hrq
      have hstop' : (syncDecide (withFinalizer br) (initializedStatus (withFinalizer br).status)
            (syncInfo (withFinalizer br) (initializedStatus (withFinalizer br).status) wl).1
            (syncInfo (withFinalizer br) (initializedStatus (withFinalizer br).status) wl).2).2 = true := by
        unfold syncStatus at hstop
        simp only [Bool.or_eq_true, decide_eq_true_eq] at hstop
        rcases hstop with hs | hs
        · exact hs
        · exfalso; apply hs; unfold syncStatus at hsame; exact hsame
      rw [hrq]
      change (brAwaits (withFinalizer br) wl).isSome = true
      rcases sync_stop_quiet (withFinalizer br) wl hstop' hsame with hok | ⟨hc, hd, _⟩
      · exact hok
      · -- Completed, in deletion: either the finalizer is removed (first branch) or it was just added — an event the predicate passes
        exfalso
        by_cases hf : br.hasFinalizer = true
        · exact hfin ⟨hd, hc, hf⟩
        · have := hev (.brMetaUpdated br.deleting) (by
            unfold brStepEvents
            simp only [withFinalizer, List.mem_append]
            left; left
            simp [hf])
          simp only [AEvent.wakesBr] at this
          rw [show br.deleting = true from hd] at this
          exact this rfl
    · -- executed
      rename_i hnstop
      have hsame : (syncStatus (withFinalizer br) (initializedStatus (withFinalizer br).status) wl).status = br.status := by
        unfold syncStatus at hnstop ⊢
        simp only [Bool.or_eq_true, decide_eq_true_eq, not_or, Decidable.not_not] at hnstop
        exact hnstop.2
      rw [hsame] at h
      have hnc : br.status.phase ≠ .completed := by
        intro hc
        apply hnstop
        unfold syncStatus syncDecide
        simp [hc, withFinalizer]
      cases hx : execute (withFinalizer br) br.status wl with
      | panic => rw [hx] at h; cases h
      | val t =>
        obtain ⟨ns', wl', rq, er⟩ := t
        rw [hx] at h
        injection h with h
        subst h
        simp only at hrq herr
        subst hrq herr
        simp only
        rcases execute_quiet (withFinalizer br) br.status ns' wl wl' hnc hx with ⟨h1, h2, hph, hrd, hpart⟩ | hcompl
        · rw [h1, h2]
          change (brAwaits (withFinalizer br) wl).isSome = true
          unfold brAwaits
          simp only [hst]
          rw [if_neg hnc]
          split
          · rfl
          · split
            · rfl
            · split
              · rfl
              · rw [if_pos ⟨hph, hrd, hpart⟩]; rfl
        · -- Finalizing -> Completed: a status write; not woken means the object is not in deletion
          unfold brAwaits
          simp only
          rw [if_pos hcompl]
          have hnd : ¬ br.deleting = true := by
            intro hd
            have := hev (.brStatusUpdated br.deleting) (by
              unfold brStepEvents
              simp only [List.mem_append]
              left; right
              have : ns' ≠ br.status := by
                intro he; apply hnc; rw [← he]; exact hcompl
              simp [this])
            simp only [AEvent.wakesBr] at this
            rw [hd] at this; exact this rfl
          rw [if_neg (by intro hh; exact hnd hh.1)]; rfl


/-- **`br_status_write_requeues`** — for every BatchRelease and workload state: a reconcile that rewrites the status
    (which by `br_status_only_silent` does not bring the reconciler back) also returns a requeue or an error — except the one
    write that needs no further round, Finalizing → Completed. -/
theorem br_status_write_requeues (br : BR) (wl : Option Workload) (o : StepOut) (b' : BR) (h : reconcile br wl = .val o)
    (hb : o.br = some b') (hw : b'.status ≠ br.status) :
    o.requeue = true ∨ o.err = true ∨ (b'.status.phase = .completed ∧ br.status.phase ≠ .completed) := by
  unfold reconcile at h
  split at h
  · injection h with h; subst h; cases hb
  · unfold reconcileBody at h
    simp only at h
    split at h
    · injection h with h
      subst h
      simp only [Option.some.injEq] at hb
      subst hb
      left
      simp only [decide_eq_true_eq]
      exact hw
    · rename_i hnstop
      have hsame : (syncStatus (withFinalizer br) (initializedStatus (withFinalizer br).status) wl).status = br.status := by
        unfold syncStatus at hnstop ⊢
        simp only [Bool.or_eq_true, decide_eq_true_eq, not_or, Decidable.not_not] at hnstop
        exact hnstop.2
      have hnc : br.status.phase ≠ .completed := by
        intro hc
        apply hnstop
        unfold syncStatus syncDecide
        simp [hc, withFinalizer]
      rw [hsame] at h
      cases hx : execute (withFinalizer br) br.status wl with
      | panic => rw [hx] at h; cases h
      | val t =>
        obtain ⟨ns', wl', rq, er⟩ := t
        rw [hx] at h
        injection h with h
        subst h
        simp only [Option.some.injEq] at hb
        subst hb
        simp only at hw ⊢
        cases rq
        · cases er
          · rcases execute_quiet (withFinalizer br) br.status ns' wl wl' hnc hx with ⟨h1, _⟩ | hcompl
            · exact absurd h1 hw
            · exact Or.inr (Or.inr ⟨hcompl, hnc⟩)
          · exact Or.inr (Or.inl rfl)
        · exact Or.inl rfl

/-- **`br_update_wakes_rollout` (step)** — for every BatchRelease and workload state: every status write of the
    executor is an Update event of the BatchRelease, which the Rollout controller's handler maps to the Rollout of the same
    name (`br_event_rollout`). -/
theorem br_update_wakes_rollout (br : BR) (wl : Option Workload) (o : StepOut) (b' : BR)
    (hb : o.br = some b') (hw : b'.status ≠ br.status) : (brWakes br wl o).ro = true := by
  unfold brWakes wakesOf
  simp only [Bool.false_and, Bool.false_or, List.any_eq_true]
  refine ⟨.brStatusUpdated br.deleting, ?_, rfl⟩
  unfold brStepEvents
  rw [hb]
  simp [hw]

/-! non-vacuity of Part B: a release whose second batch is Ready and partitioned rests (class `specChange`);
    the same release one batch earlier does not rest -/
def exBR : BR :=
  { batches := [.pct 20, .pct 50, .pct 100], partition := some 1, failureThreshold := none, deleting := false, hasFinalizer := true,
    rollbackAnno := false,
    status := { phase := .progressing, currentBatch := 1, batchState := .ready, hasReadyTime := true, hash := .same, rolloutIDSame := true,
                observedReplicas := 10, updateRevision := "v2", stableRevision := "v1", noNeedUpdate := none, updated := 5, updatedReady := 5 } }
def exWL : Workload :=
  { replicas := 10, generation := 3, observedGeneration := 3, statusReplicas := 10, updated := 5, updatedReady := 5, updateRevision := "v2",
    currentRevision := "v1", partition := some (.pct 50), paused := false, owner := .this }

example : brAwaits exBR (some exWL) = some .specChange := by decide
example : ∃ o, reconcile exBR (some exWL) = .val o ∧ (brWakes exBR (some exWL) o).br = false ∧ brRestsOk o = true := by
  refine ⟨{ br := some exBR, wl := some exWL, requeue := false, err := false }, by rfl, by decide, by decide⟩
example : brAwaits { exBR with partition := some 2 } (some exWL) = none := by decide

end executor

/-! ## Part C — the Rollout reconcile -/
section rollout
open RV.Arith RV.Traffic RV.RolloutSM RV.Props.Rollout RV.Props.Reconcile

/-- what the driver evaluates on the implementation's result, for the model's result -/
def roRestsOk (w : World) (r : StepResult) : Bool := roStepOk w false r.roGone

/-- **`ro_waits_only_for_wakeable`** — for every world (rollout, workload, BatchRelease, network, grace memory): a
    Rollout reconcile that does not wake its own reconciler — no requeue, no error (rate-limited retry), the Rollout object
    unchanged (its watch has no predicate: any change is a wake-up), no BatchRelease update, no workload update — started in
    an explicitly listed waiting class (spec.paused; manual pause; disabled; `StepUpgrade` waiting for the BatchRelease's
    report; waiting for the workload; terminal Healthy; deleted and cleaned up), unless its status is one no controller
    writes (`roIllFormed`).  No class is "nothing will ever happen": see `ro_class_wakeable`. -/
theorem ro_waits_only_for_wakeable_core (w : World) (r : StepResult) (h : reconcileCore w = .val r)
    (hq : (roWakes w r).ro = false) : roRestsOk w r = true := by
  unfold roWakes wakesOf at hq
  simp only [Bool.true_and, Bool.or_eq_false_iff, List.any_eq_false] at hq
  obtain ⟨⟨hrq, herr⟩, hev⟩ := hq
  have hgone : r.roGone = false := by
    cases hg : r.roGone
    · rfl
    · exfalso
      exact hev .roDeleted (by unfold roStepEvents; simp [hg]) rfl
  have hro : normRo r.w.ro = normRo w.ro := by
    by_cases hne : normRo r.w.ro = normRo w.ro
    · exact hne
    · exfalso
      exact hev .roUpdated (by unfold roStepEvents; simp [hgone, hne]) rfl
  obtain ⟨f1, f2, f3, _, _, _⟩ := normRo_fields _ _ hro
  unfold roRestsOk roStepOk
  rw [hgone]
  simp only [Bool.false_or, Bool.or_eq_true]
  have hfr := hf_frame w.ro
  have e_phase : (handleFinalizer w.ro).1.phase = w.ro.phase := by rw [hfr]
  have e_dis : (handleFinalizer w.ro).1.disabled = w.ro.disabled := by rw [hfr]
  -- the rolling case is `inRolling_quiet`
  by_cases hroll : w.ro.phase = .progressing ∧ w.ro.reason = .inRolling ∧ ∃ wl os, w.wl = some wl ∧ wl.consistent = true ∧ w.ro.sub = some os
  · obtain ⟨hph, hr, wl, os, hwl, hc, hos⟩ := hroll
    obtain ⟨ns, s, hsame, hs, hcore, hreason, hrec⟩ := reconcile_inRolling_core w wl os hph hr hwl hc hos
    rw [hrec] at h
    cases hin : inRolling w w.ro ns s wl with
    | panic => rw [hin] at h; cases h
    | val r0 =>
      rw [hin] at h
      dsimp only at h
      split at h
      · simp only [Out.val.injEq] at h; subst h; cases herr
      · rename_i hne
        simp only [Out.val.injEq] at h
        subst h
        dsimp only at hrq hro
        have hq := inRolling_quiet w ns s os wl r0 hos hsame hs hcore hr hin (by simpa using hne) hrq hro
        rcases hq with ⟨hbg, hcont⟩ | ⟨hnorm, hq | ⟨hq, st, hst, hm⟩ | hq⟩
        · left
          unfold roAwaits
          simp only [hph, hr, hos, hwl]
          rw [if_pos ⟨hbg, hcont⟩]; rfl
        · left
          unfold roAwaits
          simp only [hph, hr, hos, hwl]
          split
          · rfl
          · simp [hq]
        · left
          unfold roAwaits
          simp only [hph, hr, hos, hwl]
          split
          · rfl
          · rw [hq]; dsimp only; rw [hst]; dsimp only; rw [if_pos hm]; rfl
        · -- unknown step state: not written by the controller
          right
          unfold roIllFormed
          simp [hph, hr, hos, hq]
  · -- every other path: unfold the reconcile
    have finish : ∀ (w' : World) (gone rq er : Bool) (ws : List String),
        (Out.val { w := w', roGone := gone, requeue := rq, err := er, writes := ws } : Out) = .val r → r.w.ro = w'.ro ∧ r.requeue = rq ∧ r.err = er := by
      intro w' gone rq er ws hh
      simp only [Out.val.injEq] at hh
      subst hh
      exact ⟨rfl, rfl, rfl⟩
    unfold reconcileCore at h
    dsimp only at h
    cases hcs : calculateStatus (handleFinalizer w.ro).1 w.wl with
    | none =>
      rw [hcs] at h
      obtain ⟨_, hh, _⟩ := finish _ _ _ _ _ h
      rw [hrq] at hh; cases hh
    | some ns =>
      rw [hcs] at h
      dsimp only at h
      obtain ⟨hsame, _⟩ := cs_frame _ ns w.wl hcs
      -- a result that keeps the calculated status `ns`
      have keepNs : r.w.ro = ns → ns.phase = (handleFinalizer w.ro).1.phase ∧ ns.reason = w.ro.reason := by
        intro hk
        rw [hk] at f1 f2
        exact ⟨by rw [e_phase]; exact f2, f1⟩
      cases hph : w.ro.phase <;> simp only [hph] at h
      case empty =>
        obtain ⟨hk, _, _⟩ := finish _ _ _ _ _ h
        exfalso
        exact (cs_rest _ ns w.wl hcs (keepNs hk).1).2.2.2 (by rw [e_phase]; exact hph)
      case initial =>
        obtain ⟨hk, _, _⟩ := finish _ _ _ _ _ h
        have := (cs_rest _ ns w.wl hcs (keepNs hk).1).1 (by rw [e_phase]; exact hph)
        left; unfold roAwaits; simp [hph, this]
      case healthy =>
        obtain ⟨hk, _, _⟩ := finish _ _ _ _ _ h
        obtain ⟨wl, hwl, hanno⟩ := (cs_rest _ ns w.wl hcs (keepNs hk).1).2.1 (by rw [e_phase]; exact hph)
        left; unfold roAwaits; simp [hph, hwl, hanno]
      case disabled =>
        obtain ⟨hk, _, _⟩ := finish _ _ _ _ _ h
        have := (cs_rest _ ns w.wl hcs (keepNs hk).1).2.2.1 (by rw [e_phase]; exact hph)
        rw [e_dis] at this
        left; unfold roAwaits; simp [hph, this]
      case terminating =>
        cases hterm : w.ro.term <;> simp only [hterm] at h
        case none => cases h
        case completed => left; unfold roAwaits; simp [hph, hterm]
        case inTerminating =>
          exfalso
          split at h
          · cases h
          · split at h
            · obtain ⟨_, _, hh⟩ := finish _ _ _ _ _ h; rw [herr] at hh; cases hh
            · split at h
              · obtain ⟨hk, _, _⟩ := finish _ _ _ _ _ h
                rw [hk, hterm] at f3; cases f3
              · obtain ⟨_, hh, _⟩ := finish _ _ _ _ _ h; rw [hrq] at hh; cases hh
      case disabling =>
        exfalso
        split at h
        · cases h
        · split at h
          · obtain ⟨_, _, hh⟩ := finish _ _ _ _ _ h; rw [herr] at hh; cases hh
          · split at h
            · obtain ⟨hk, _, _⟩ := finish _ _ _ _ _ h
              rw [hk, hph] at f2; cases f2
            · obtain ⟨_, hh, _⟩ := finish _ _ _ _ _ h; rw [hrq] at hh; cases hh
      case progressing =>
        cases hwl : w.wl with
        | none =>
          rw [hwl] at h hcs
          dsimp only at h
          obtain ⟨hk, _, _⟩ := finish _ _ _ _ _ h
          exfalso
          exact cs_progressing_nowl _ ns hcs (by rw [e_phase]; exact hph) (by rw [(keepNs hk).1, e_phase]; exact hph)
        | some wl =>
          rw [hwl] at h hcs
          dsimp only at h
          split at h
          · rename_i hinc
            obtain ⟨hk, _, _⟩ := finish _ _ _ _ _ h
            exfalso
            have := cs_inconsistent _ ns wl hcs hinc
            rw [(keepNs hk).1, e_phase, hph] at this; cases this
          · rename_i hcons
            simp only [Decidable.not_not] at hcons
            cases hreason : w.ro.reason <;> simp only [hreason] at h
            case none => cases h
            case initializing =>
              exfalso
              split at h
              · cases h
              · split at h
                · obtain ⟨_, _, hh⟩ := finish _ _ _ _ _ h; rw [herr] at hh; cases hh
                · split at h
                  · obtain ⟨_, hh, _⟩ := finish _ _ _ _ _ h; rw [hrq] at hh; cases hh
                  · obtain ⟨hk, _, _⟩ := finish _ _ _ _ _ h
                    rw [hk, hreason] at f1; cases f1
            case inRolling =>
              exfalso
              cases hsub : ns.sub with
              | none =>
                rw [hsub] at h
                dsimp only at h
                split at h
                · cases h
                · split at h
                  · obtain ⟨hk, _, _⟩ := finish _ _ _ _ _ h
                    rw [hk, hreason] at f1; cases f1
                  · cases h
              | some s =>
                -- the sub-status survives the status calculation: this is the rolling case
                obtain ⟨_, hsubrel⟩ := cs_frame _ ns (some wl) hcs
                have hrel := hsubrel (Or.inl (by rw [e_phase]; exact hph)) (Or.inl rfl)
                have e_sub : (handleFinalizer w.ro).1.sub = w.ro.sub := by rw [hfr]
                rw [hsub, e_sub] at hrel
                cases hos : w.ro.sub with
                | none => rw [hos] at hrel; simp at hrel
                | some os => exact hroll ⟨hph, hreason, wl, os, hwl, hcons, hos⟩
            case finalising =>
              exfalso
              split at h
              · cases h
              · split at h
                · obtain ⟨_, _, hh⟩ := finish _ _ _ _ _ h; rw [herr] at hh; cases hh
                · split at h
                  · obtain ⟨hk, _, _⟩ := finish _ _ _ _ _ h
                    rw [hk, hreason] at f1; cases f1
                  · obtain ⟨_, hh, _⟩ := finish _ _ _ _ _ h; rw [hrq] at hh; cases hh
            case paused =>
              split at h
              · exfalso
                obtain ⟨hk, _, _⟩ := finish _ _ _ _ _ h
                rw [hk, hreason] at f1; cases f1
              · rename_i hp
                simp only [Decidable.not_not] at hp
                have hpaused : w.ro.paused = true := by
                  have := hsame.2.2.2.1
                  rw [hfr] at this
                  rw [← this]; exact hp
                left; unfold roAwaits; simp [hph, hreason, hpaused]
            case cancelling =>
              exfalso
              split at h
              · cases h
              · split at h
                · obtain ⟨_, _, hh⟩ := finish _ _ _ _ _ h; rw [herr] at hh; cases hh
                · split at h
                  · obtain ⟨hk, _, _⟩ := finish _ _ _ _ _ h
                    rw [hk, hreason] at f1; cases f1
                  · obtain ⟨_, hh, _⟩ := finish _ _ _ _ _ h; rw [hrq] at hh; cases hh
            case completed =>
              exfalso
              obtain ⟨hk, _, _⟩ := finish _ _ _ _ _ h
              rw [hk, hph] at f2; cases f2
            case other =>
              right; unfold roIllFormed; simp [hph, hreason]


/-- **`ro_waits_only_for_wakeable`** (whole reconcile: body + cursor reset) — the statement of `ro_waits_only_for_wakeable_core`
    for `RV.RolloutSM.reconcile`.  Where the reset fires the phase has changed (Progressing → Terminating / Disabling): the
    Rollout object is updated, which wakes its reconciler — such a reconcile is not one that rests. -/
theorem ro_waits_only_for_wakeable (w : World) (r : StepResult) (h : reconcile w = .val r)
    (hq : (roWakes w r).ro = false) : roRestsOk w r = true := by
  obtain ⟨r0, h0, rfl⟩ := reconcile_val h
  cases hx : exitsProgressing w r0 with
  | false =>
    rw [resetOnExit_of_not w r0 hx] at hq ⊢
    exact ro_waits_only_for_wakeable_core w r0 h0 hq
  | true =>
    exfalso
    have hne : normRo (resetOnExit w r0).w.ro ≠ normRo w.ro := by
      intro he
      obtain ⟨_, f2, _⟩ := normRo_fields _ _ he
      rw [resetOnExit_phase] at f2
      simp only [exitsProgressing, Bool.and_eq_true, Bool.or_eq_true, decide_eq_true_eq] at hx
      obtain ⟨h1, h2⟩ := hx
      rw [h1] at f2
      rcases h2 with h2 | h2 <;> rw [h2] at f2 <;> cases f2
    unfold roWakes wakesOf at hq
    simp only [Bool.true_and, Bool.or_eq_false_iff, List.any_eq_false] at hq
    obtain ⟨_, hev⟩ := hq
    cases hg : r0.roGone
    · exact hev .roUpdated (by unfold roStepEvents; simp [hg, hne]) rfl
    · exact hev .roDeleted (by unfold roStepEvents; simp [hg]) rfl

/-- the contrapositive: outside the waiting classes a reconcile always wakes itself (or the rollout is gone) -/
theorem ro_not_waiting_wakes_itself (w : World) (r : StepResult) (h : reconcile w = .val r)
    (hc : roAwaits w = none) (hwf : roIllFormed w = false) : (roWakes w r).ro = true ∨ r.roGone = true := by
  cases hq : (roWakes w r).ro
  · right
    have := ro_waits_only_for_wakeable w r h hq
    unfold roRestsOk roStepOk at this
    simpa [hc, hwf] using this
  · left; rfl

/-- the clean-up situations: the Rollout waits, among other things, for its BatchRelease to be resumed and deleted -/
def cleaningUp (w : World) : Bool :=
  (w.ro.phase = .progressing && (w.ro.reason = .finalising || w.ro.reason = .cancelling)) ||
  (w.ro.phase = .terminating && w.ro.term = .inTerminating && w.ro.deleting) || w.ro.phase = .disabling

/-- **BatchRelease deletion is no event for the Rollout** (`br_event_rollout`: Delete reaches nobody) — so while it
    cleans up (which includes waiting for the BatchRelease to vanish) every reconcile of every world wakes itself:
    by a requeue, an error retry, or a change of its own status. -/
theorem cleanup_never_rests (w : World) (r : StepResult) (h : reconcile w = .val r) (hc : cleaningUp w = true) :
    (roWakes w r).ro = true ∨ r.roGone = true := by
  apply ro_not_waiting_wakes_itself w r h
  · unfold cleaningUp at hc
    simp only [Bool.or_eq_true, Bool.and_eq_true, decide_eq_true_eq] at hc
    unfold roAwaits
    rcases hc with (⟨hp, hr⟩ | ⟨⟨hp, ht⟩, _⟩) | hp
    · rcases hr with hr | hr <;> simp [hp, hr]
    · simp [hp, ht]
    · simp [hp]
  · unfold cleaningUp at hc
    simp only [Bool.or_eq_true, Bool.and_eq_true, decide_eq_true_eq] at hc
    unfold roIllFormed
    rcases hc with (⟨hp, hr⟩ | ⟨⟨hp, ht⟩, hd⟩) | hp
    · rcases hr with hr | hr <;> simp [hp, hr]
    · simp [hp, hd]
    · simp [hp]

/-- the same for a continuous release of a canary rollout (`doProgressingReset`: traffic back, BatchRelease deleted and waited
    for, canary Service removed): every reconcile of every such world wakes itself -/
theorem reset_never_rests (w : World) (r : StepResult) (s : Sub) (wl : WL) (h : reconcile w = .val r)
    (hp : w.ro.phase = .progressing) (hr : w.ro.reason = .inRolling) (hs : w.ro.sub = some s) (hst : s.state ≠ .other)
    (hwl : w.wl = some wl) (hstyle : w.ro.style = .canary) (hc : continuousRelease s wl = true) :
    (roWakes w r).ro = true ∨ r.roGone = true := by
  apply ro_not_waiting_wakes_itself w r h
  · unfold roAwaits
    simp only [hp, hr, hs, hwl, hstyle]
    rw [if_neg (by simp)]
    rw [if_pos (by simp [rollingNormally, hc])]
  · unfold roIllFormed
    simp [hp, hr, hs, hst]

/-- `removeBatchRelease` reports "retry" exactly as long as the object exists (it never reports done on the strength of
    having issued the Delete) -/
theorem removeBatchRelease_waits (br : Option BR) : (removeBatchRelease br).1 = br.isSome := by
  unfold removeBatchRelease
  cases br with
  | none => rfl
  | some b => simp only [Option.isSome_some]; split <;> rfl

/-- the clean-up task `ReleaseWorkloadControl` is not done, and not failed, while the BatchRelease exists:
    `doFinalising` reports "not done" — which every caller turns into a requeue -/
theorem doFinalising_release_waits (c : Ctx) (reason : Reason) (wr : Bool) (hcur : c.sub.finStep = .releaseWorkloadControl)
    (hbr : c.br.isSome = true) (hsteps : c.ro.steps ≠ []) : ∃ c', doFinalising c reason wr = some (c', false, false) := by
  have hs := stripAnno_frame c
  have hbr' : (stripAnno c).br = c.br := by unfold stripAnno; split <;> rfl
  unfold doFinalising
  dsimp only
  rw [hs.2, hs.1]
  have hne : c.ro.steps.isEmpty = false := by cases hh : c.ro.steps <;> simp_all
  rw [hne]
  simp only [Bool.false_eq_true, if_false, hcur]
  simp only [reduceCtorEq, if_false]
  unfold startCursor
  rw [hs.1, hcur]
  simp only [reduceCtorEq, if_false]
  rw [hs.2]
  unfold finKnown
  rw [hs.1, hcur]
  simp only [Bool.not_true, Bool.false_eq_true, if_false]
  unfold finTask
  rw [hs.1, hcur]
  simp only
  have hw := removeBatchRelease_waits (stripAnno c).br
  rw [hbr', hbr] at hw
  rw [hbr', hw]
  simp

/-! non-vacuity of Part C: a mid-rollout world at a manual pause (with an illegal, user-patched next-step index that is
    corrected in memory only) rests in class `userApprove`; the same world in `StepReady` does not rest -/
example : roAwaits exampleWorld = some .userApprove := by decide
example : roIllFormed exampleWorld = false := by decide
example : roAwaits { exampleWorld with ro := { exampleRo with sub := some { exampleSub with state := .ready } } } = none := by decide

end rollout

/-! ## Part D — every waiting class waits for something that wakes the waiting object -/

/-- **`waiting_class_is_wakeable` (Rollout)** — every class other than the terminal one awaits at least one kind of event, and every
    event a class awaits reaches the Rollout reconciler.  No class is "nothing will ever happen". -/
theorem ro_class_wakeable (c : RoWait) : (c = .terminated ∨ c.awaited ≠ []) ∧ ∀ e ∈ c.awaited, e.wakesRo = true := by
  cases c <;> simp [RoWait.awaited, AEvent.wakesRo]

/-- **`waiting_class_is_wakeable` (BatchRelease)** -/
theorem br_class_wakeable (c : BrWait) : (c = .completed ∨ c.awaited ≠ []) ∧ ∀ e ∈ c.awaited, e.wakesBr = true := by
  cases c <;> simp [BrWait.awaited, AEvent.wakesBr]

/-- the concrete watch events an abstract event stands for, seen from Rollout `R` (namespace, name) whose BatchRelease has the
    same name and whose workload is `wl`-shaped objects it alone names in the cache `rs` -/
def RealizesRo (R : Obj) (rs : List Obj) : AEvent → RoEvent → Prop
  | .roUpdated, .roUpdate ns name => ns = R.ns ∧ name = R.name
  | .roDeleted, .roDelete ns name => ns = R.ns ∧ name = R.name
  | .brCreated, .brCreate b => b.ns = R.ns ∧ b.name = R.name
  | .brSpecUpdated, .brUpdate _ new | .brStatusUpdated _, .brUpdate _ new | .brMetaUpdated _, .brUpdate _ new => new.ns = R.ns ∧ new.name = R.name
  | .brDeleteRequested, .brDelete b | .brGone, .brDelete b => b.ns = R.ns ∧ b.name = R.name
  | .wlMetaUpdated, .wlUpdate _ new | .wlSpecUpdated, .wlUpdate _ new | .wlStatusUpdated, .wlUpdate _ new =>
    new.ns = R.ns ∧ watchedType new.ty = true ∧ ∃ g, schemeKind new.ty = some g ∧ owners rs new.ns new.name g = [R]
  | _, _ => False

/-- **the abstract wake-up table is the handlers' table (Rollout)** — for every cache content: an abstract event that
    `AEvent.wakesRo` says wakes the Rollout produces, through `roEnqueue`, exactly the request for that Rollout; one that it says
    does not (BatchRelease created, deleted, gone) produces none. -/
theorem aevent_ro_sound (R : Obj) (rs : List Obj) (e : AEvent) (re : RoEvent) (hr : RealizesRo R rs e re) :
    roEnqueue re rs = if e.wakesRo then [R.key] else [] := by
  cases e <;> cases re <;> simp only [RealizesRo] at hr <;>
    first
    | (obtain ⟨h1, h2⟩ := hr; simp [roEnqueue, AEvent.wakesRo, Obj.key, h1, h2]; done)
    | skip
  all_goals
    obtain ⟨h1, hw, g, hg, ho⟩ := hr
    rename_i old new
    have := (ro_unique_owner_woken rs new g R hw hg ho old).1
    simpa [AEvent.wakesRo] using this

/-- the concrete watch events an abstract event stands for, seen from BatchRelease `B` whose workload carries the control
    annotation naming it -/
def RealizesBr (B : Key) : AEvent → BrEvent → Prop
  | .brCreated, .brCreate b => b.ns = B.ns ∧ b.name = B.name
  | .brSpecUpdated, .brUpdate old new => new.ns = B.ns ∧ new.name = B.name ∧ (old.generation ≠ new.generation ∨ old.annos ≠ new.annos)
  | .brStatusUpdated d, .brUpdate old new | .brMetaUpdated d, .brUpdate old new =>
    new.ns = B.ns ∧ new.name = B.name ∧ old.generation = new.generation ∧ old.annos = new.annos ∧ new.deleting = d
  | .brDeleteRequested, .brUpdate _ new => new.ns = B.ns ∧ new.name = B.name ∧ new.deleting = true
  | .brDeleteRequested, .brDelete b | .brGone, .brDelete b => b.ns = B.ns ∧ b.name = B.name
  | .wlSpecUpdated, .wlUpdate old new =>
    new.ns = B.ns ∧ controlledBy new.control = some B.name ∧ (switchKind new.ty).isSome ∧ new.rv ≠ old.rv ∧ old.generation ≠ new.generation ∧
    (parseStatus old.ty old.status).isSome ∧ (parseStatus new.ty new.status).isSome
  | .wlStatusUpdated, .wlUpdate old new =>
    new.ns = B.ns ∧ controlledBy new.control = some B.name ∧ (switchKind new.ty).isSome ∧ new.rv ≠ old.rv ∧
    (parseStatus old.ty old.status).isSome ∧ (parseStatus new.ty new.status).isSome ∧ parseStatus old.ty old.status ≠ parseStatus new.ty new.status
  | .wlMetaUpdated, .wlUpdate old new =>
    new.ns = B.ns ∧ old.generation = new.generation ∧ (parseStatus old.ty old.status).isSome ∧ parseStatus old.ty old.status = parseStatus new.ty new.status
  | _, _ => False

/-- **the abstract wake-up table is the handlers' table (BatchRelease)** — for every cache content (listable or not): an
    abstract event that `AEvent.wakesBr` says wakes the BatchRelease produces, through `brEnqueue` (predicate + handlers), exactly
    the request for it; a status-only or finalizer-only write of a live object and a metadata-only write of the workload
    produce none. -/
theorem aevent_br_sound (B : Key) (brs : List Obj) (store : List StoreObj) (listErr getErr : Bool) (e : AEvent) (be : BrEvent)
    (hr : RealizesBr B e be) : brEnqueue be brs store listErr getErr = .keys (if e.wakesBr then [B] else []) := by
  have keyB : ∀ ns name, ns = B.ns → name = B.name → (⟨ns, name⟩ : Key) = B := by
    intro ns name h1 h2; subst h1 h2; rfl
  cases e <;> cases be <;> simp only [RealizesBr] at hr
  case brCreated.brCreate b => simp [brEnqueue, AEvent.wakesBr, keyB _ _ hr.1 hr.2]
  case brSpecUpdated.brUpdate old new =>
    obtain ⟨h1, h2, h3⟩ := hr
    have : brPredUpdate old new = true := by
      unfold brPredUpdate
      rcases h3 with h3 | h3
      · simp [h3]
      · have : ¬ annosEq old.annos new.annos = true := fun he => h3 ((annosEq_iff _ _).mp he)
        split
        · rfl
        · simp [this]
    simp [brEnqueue, AEvent.wakesBr, this, keyB _ _ h1 h2]
  case brStatusUpdated.brUpdate d old new =>
    obtain ⟨h1, h2, h3, h4, h5⟩ := hr
    have : brPredUpdate old new = d := by
      unfold brPredUpdate
      have ha : annosEq new.annos new.annos = true := (annosEq_iff _ _).mpr rfl
      subst h5
      cases hd : new.deleting <;> simp [h3, h4, ha]
    simp only [brEnqueue, AEvent.wakesBr, this]
    cases d <;> simp [keyB _ _ h1 h2]
  case brMetaUpdated.brUpdate d old new =>
    obtain ⟨h1, h2, h3, h4, h5⟩ := hr
    have : brPredUpdate old new = d := by
      unfold brPredUpdate
      have ha : annosEq new.annos new.annos = true := (annosEq_iff _ _).mpr rfl
      subst h5
      cases hd : new.deleting <;> simp [h3, h4, ha]
    simp only [brEnqueue, AEvent.wakesBr, this]
    cases d <;> simp [keyB _ _ h1 h2]
  case brDeleteRequested.brUpdate old new =>
    obtain ⟨h1, h2, h3⟩ := hr
    have : brPredUpdate old new = true := by unfold brPredUpdate; simp [h3]
    simp [brEnqueue, AEvent.wakesBr, this, keyB _ _ h1 h2]
  case brDeleteRequested.brDelete b => simp [brEnqueue, AEvent.wakesBr, keyB _ _ hr.1 hr.2]
  case brGone.brDelete b => simp [brEnqueue, AEvent.wakesBr, keyB _ _ hr.1 hr.2]
  case wlSpecUpdated.wlUpdate old new =>
    obtain ⟨h1, h2, h3, h4, h5, h6, h7⟩ := hr
    obtain ⟨g, hg⟩ := Option.isSome_iff_exists.mp h3
    obtain ⟨so, hso⟩ := Option.isSome_iff_exists.mp h6
    obtain ⟨sn, hsn⟩ := Option.isSome_iff_exists.mp h7
    simp only [brEnqueue, brWorkloadUpdate, hg, if_neg h4, hso, hsn, if_pos (Or.inl h5 : old.generation ≠ new.generation ∨ so ≠ sn),
      getBatchRelease_controlled brs listErr new.ns new.name g new.control B.name h2, Found.keys, UpdOut.toEnq, AEvent.wakesBr, if_true]
    rw [keyB _ _ h1 rfl]
  case wlStatusUpdated.wlUpdate old new =>
    obtain ⟨h1, h2, h3, h4, h6, h7, h8⟩ := hr
    obtain ⟨g, hg⟩ := Option.isSome_iff_exists.mp h3
    obtain ⟨so, hso⟩ := Option.isSome_iff_exists.mp h6
    obtain ⟨sn, hsn⟩ := Option.isSome_iff_exists.mp h7
    have hne : so ≠ sn := by intro he; apply h8; rw [hso, hsn, he]
    simp only [brEnqueue, brWorkloadUpdate, hg, if_neg h4, hso, hsn, if_pos (Or.inr hne : old.generation ≠ new.generation ∨ so ≠ sn),
      getBatchRelease_controlled brs listErr new.ns new.name g new.control B.name h2, Found.keys, UpdOut.toEnq, AEvent.wakesBr, if_true]
    rw [keyB _ _ h1 rfl]
  case wlMetaUpdated.wlUpdate old new =>
    obtain ⟨_, h2, h3, h4⟩ := hr
    obtain ⟨so, hso⟩ := Option.isSome_iff_exists.mp h3
    simp only [brEnqueue, brWorkloadUpdate, AEvent.wakesBr, Bool.false_eq_true, if_false]
    split
    · rfl
    · split
      · rfl
      · rw [← h4, hso]
        simp [h2, UpdOut.toEnq]

end RV.Props.Wakeup
