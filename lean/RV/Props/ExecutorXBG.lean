import RV.Props.ExecutorXThms
import RV.Props.CtlBlueGreenThms
import RV.Props.C11
/-!
# The blue-green planes (Deployment, CloneSet) under the plane laws

`bgPlane kind` is a thin adapter over the blue-green model `RV.CtlBlueGreen` (`cpInitialize` / `cpUpgradeBatch` / `cpFinalize`
without API fault, BatchRelease UID 0).  The laws are derived from the inversion lemmas and property theorems of that model
(`RV.Lemmas.CtlBlueGreen`, `RV.Props.CtlBlueGreen`); nothing of the model is re-proved here.

* `bgLaws` — both planes are lawful for `bgPreds`, whose `released` carries the two known-finding guards
  (`gBgPartitioned`, `gBgRestoredControlled`); the full-strength "released" is false on the code
  (`bg_released_full_FALSE_partitioned`, `bg_released_full_FALSE_restored`) and holds outside the guards
  (`bg_fin_ok_released_partial`).
* exposure: `upgrade_monotone`, `upgrade_within`, `upgrade_err_same` hold for `bgPreds` as it is; `init_exposes_nothing` is false
  in the region `bgPreds.expoOK` (`bg_init_exposes_nothing_full_FALSE_*`) and holds under the guard `bgInitQuiet`
  (`bg_init_exposes_nothing_partial`).  `bgExposure` is therefore stated for `bgPredsQuiet` = `bgPreds` with `expoOK`
  strengthened by that guard.
-/
namespace RV.Props.ExecutorX
open RV.Arith RV.BatchCtx RV.Executor RV.ExecutorX RV.Oracle.ExecutorX

/-! ## the adapter, inverted -/

theorem resOfBool_ok (b : Bool) : resOfBool b = .ok ↔ b = true := by
  cases b <;> simp [resOfBool]

theorem resOfBool_err (b : Bool) : resOfBool b = .err ↔ b = false := by
  cases b <;> simp [resOfBool]

/-- `Finalize` of the plane is `cpFinalize` of the model, without fault, for the BatchRelease with UID 0 -/
theorem bg_fin_inv (kind : CtlBlueGreen.Kind) (br : BR) (w w' : BGW) (r : CallResult)
    (h : (bgPlane kind).fin br w = .val (w', r)) :
    ∃ o, CtlBlueGreen.cpFinalize kind w.w (bgBR br) CtlBlueGreen.noFault = .val o ∧
      w' = { w with w := o.world } ∧ r = resOfBool (o.res = .ok) := by
  simp only [bgPlane] at h
  split at h
  · cases h
  · rename_i o ho
    simp only [Out.val.injEq, Prod.mk.injEq] at h
    exact ⟨o, ho, h.1.symm, h.2.symm⟩

/-- `UpgradeBatch` of the plane is `cpUpgradeBatch` of the model -/
theorem bg_upgrade_inv (kind : CtlBlueGreen.Kind) (br : BR) (ns : Status) (w w' : BGW) (r : CallResult)
    (h : (bgPlane kind).upgrade br ns w = .val (w', r)) :
    ∃ o, CtlBlueGreen.cpUpgradeBatch kind w.w (bgBR br) CtlBlueGreen.noFault = .val o ∧
      w' = { w with w := o.world } ∧ r = resOfBool (o.res = .ok) := by
  simp only [bgPlane] at h
  split at h
  · cases h
  · rename_i o ho
    simp only [Out.val.injEq, Prod.mk.injEq] at h
    exact ⟨o, ho, h.1.symm, h.2.symm⟩

/-- `Initialize` of the plane is `cpInitialize` of the model; the new status differs from the old one in the recorded revisions
    and replicas only, and success is the model's success -/
theorem bg_init_inv (kind : CtlBlueGreen.Kind) (br : BR) (ns ns' : Status) (w w' : BGW) (r : CallResult)
    (h : (bgPlane kind).init br ns w = .val (w', ns', r)) :
    ∃ o, CtlBlueGreen.cpInitialize kind w.w (bgBR br) CtlBlueGreen.noFault = .val o ∧
      w' = { w with w := o.world } ∧ (r = .ok → o.res = .ok) ∧
      (ns' = ns ∨ ∃ sr ur R, ns' = { ns with stableRevision := sr, updateRevision := ur, observedReplicas := R }) := by
  simp only [bgPlane] at h
  split at h
  · cases h
  · cases h
  · rename_i o i ho hi
    refine ⟨o, ho, ?_⟩
    split at h
    · rename_i hres _
      simp only [Out.val.injEq, Prod.mk.injEq] at h
      obtain ⟨h1, h2, _⟩ := h
      exact ⟨h1.symm, fun _ => hres, Or.inr ⟨_, _, _, h2.symm⟩⟩
    · simp only [Out.val.injEq, Prod.mk.injEq] at h
      obtain ⟨h1, h2, h3⟩ := h
      refine ⟨h1.symm, ?_, Or.inl h2.symm⟩
      intro hr; rw [← h3] at hr; cases hr

/-! ## `Finalize` -/

/-- the restoring patch removes the control-info, and the removal of the saved annotation does not bring it back -/
theorem finalizePatch_ctl (kind : CtlBlueGreen.Kind) (s : CtlBlueGreen.Setting) (wl : CtlBlueGreen.Workload) :
    (RV.Lemmas.CtlBlueGreen.forgetWl (CtlBlueGreen.finalizePatch kind s wl)).ctl = .none := by
  cases kind <;> rfl

/-- What a `Finalize` of the model that reports success leaves behind: nothing is touched when `batchPartition` is set; otherwise
    the workload is gone, or it is "restored" (no saved annotation, or being deleted) and untouched, or it carries no
    control-info any more. -/
theorem cpFinalize_ok_cases (kind : CtlBlueGreen.Kind) (w : CtlBlueGreen.World) (b : CtlBlueGreen.BR) (f : CtlBlueGreen.Fault)
    (o : CtlBlueGreen.CallOut) (h : CtlBlueGreen.cpFinalize kind w b f = .val o) (hok : o.res = .ok) :
    b.partitioned = true ∨ o.world.wl = none ∨
    ∃ wl', o.world.wl = some wl' ∧ ((CtlBlueGreen.restored wl' = true ∧ w.wl = some wl') ∨ wl'.ctl = .none) := by
  cases hp : b.partitioned
  case true => exact Or.inl rfl
  case false =>
    right
    cases hw : w.wl with
    | none =>
      left
      rcases RV.Lemmas.CtlBlueGreen.finalize_wl kind w b f o h with e | ⟨wl, _, hwl, _⟩
      · rw [e, hw]
      · rw [hw] at hwl; cases hwl
    | some wl =>
      right
      obtain ⟨d, w1, n, o1, _, ho1, _, hc⟩ := RV.Lemmas.CtlBlueGreen.finalize_done kind w b f o wl h hw hp hok
      rcases hc with ⟨hr, _, hw1, _, ho⟩ | ⟨_, s, _, hd, _, _, _, hwl', _⟩
      · refine ⟨wl, ?_, Or.inl ⟨hr, rfl⟩⟩
        rw [ho, ho1, RV.Lemmas.CtlBlueGreen.finishHPA_wl, hw1, hw]
      · refine ⟨_, hwl', Or.inr ?_⟩
        rw [hd]; exact finalizePatch_ctl kind s wl

/-- **`fin_ok_released`, readable form (partial)** — a `Finalize` that returns nil has removed this BatchRelease's control-info
    (or the workload is gone), outside the two known findings: `batchPartition` set (`gBgPartitioned`), and a workload that
    carries the control-info but no saved-settings annotation (`gBgRestoredControlled`). -/
theorem bg_fin_ok_released_partial (kind : CtlBlueGreen.Kind) (br : BR) (w w' : BGW)
    (h : (bgPlane kind).fin br w = .val (w', .ok))
    (hp : gBgPartitioned br = false) (hr : gBgRestoredControlled w' = false) : bgReleasedFull w' = true := by
  obtain ⟨o, ho, hw', hres⟩ := bg_fin_inv kind br w w' .ok h
  have hok : o.res = .ok := by simpa using (resOfBool_ok _).1 hres.symm
  subst hw'
  unfold bgReleasedFull
  unfold gBgRestoredControlled at hr
  dsimp only at hr ⊢
  rcases cpFinalize_ok_cases kind w.w (bgBR br) _ o ho hok with hpart | hnone | ⟨wl', hwl', hc⟩
  · exact absurd hpart (by simpa [bgBR, gBgPartitioned] using hp)
  · rw [hnone]
  · rw [hwl'] at hr ⊢
    dsimp only at hr ⊢
    rcases hc with ⟨hrest, _⟩ | hctl
    · rw [hrest] at hr
      simpa using hr
    · simp [bgControlled, hctl]

/-- `fin_ok_released` for `bgPreds` -/
theorem bg_fin_ok_released (kind : CtlBlueGreen.Kind) (br : BR) (w w' : BGW)
    (h : (bgPlane kind).fin br w = .val (w', .ok)) : (bgPreds kind).released br w' = true := by
  show (gBgPartitioned br || gBgRestoredControlled w' || bgReleasedFull w') = true
  cases hp : gBgPartitioned br
  case true => rfl
  case false =>
    cases hr : gBgRestoredControlled w'
    case true => rfl
    case false => simpa using bg_fin_ok_released_partial kind br w w' h hp hr

/-! ## `Initialize` -/

/-- the claiming patch: control-info of the BatchRelease, saved settings, the blue-green hold -/
theorem initPatch_claims (kind : CtlBlueGreen.Kind) (b : CtlBlueGreen.BR) (s : CtlBlueGreen.Setting) (wl : CtlBlueGreen.Workload) :
    (CtlBlueGreen.initPatch kind b s wl).ctl = .uid b.uid ∧
    (CtlBlueGreen.initPatch kind b s wl).saved = .some s ∧
    (CtlBlueGreen.initPatch kind b s wl).minReadySeconds = CtlBlueGreen.maxReady ∧
    CtlBlueGreen.ruUnavailable (CtlBlueGreen.initPatch kind b s wl).ru = some (.int 0) ∧
    CtlBlueGreen.ruSurge (CtlBlueGreen.initPatch kind b s wl).ru = some (.int 1) := by
  cases kind <;> exact ⟨rfl, rfl, rfl, rfl, rfl⟩

/-- `init_ok_claimed` for `bgPreds`: after a successful `Initialize` the workload carries this BatchRelease's control-info; when
    it did not before, also the saved settings and the hold (`minReadySeconds = MaxReadySeconds`, `maxUnavailable = 0`). -/
theorem bg_init_ok_claimed (kind : CtlBlueGreen.Kind) (br : BR) (ns ns' : Status) (w w' : BGW)
    (h : (bgPlane kind).init br ns w = .val (w', ns', .ok)) : (bgPreds kind).claimed br w w' = true := by
  obtain ⟨o, ho, hw', hres, _⟩ := bg_init_inv kind br ns ns' w w' .ok h
  have hok := hres rfl
  subst hw'
  simp only [bgPreds]
  rcases RV.Lemmas.CtlBlueGreen.initialize_wl kind w.w (bgBR br) _ o ho with ⟨hsame, hctl⟩ | ⟨wl, s, hwl, _, _, _, hwl'⟩
  · obtain ⟨wl, hwl, hc⟩ := hctl hok
    rw [hsame, hwl]
    have : bgControlled wl = true := hc
    simp [this]
  · rw [hwl, hwl']
    obtain ⟨h1, h2, h3, h4, _⟩ := initPatch_claims kind (bgBR br) (CtlBlueGreen.initSetting kind s wl) wl
    have h1' : (CtlBlueGreen.initPatch kind (bgBR br) (CtlBlueGreen.initSetting kind s wl) wl).ctl = .uid 0 := h1
    simp [bgControlled, h1', h2, h3, h4]

/-! ## the laws -/

/-- **the blue-green planes are lawful** (Deployment and CloneSet): readiness = `CalculateBatchContext` → `IsBatchReady` on the
    world (`bgReady`), released = the control-info of this BatchRelease is gone *or* one of the two known-finding guards holds,
    claimed = control-info of this BatchRelease and — when newly taken — saved settings and hold. -/
theorem bgLaws (kind : CtlBlueGreen.Kind) : Laws (bgPlane kind) (bgPreds kind) where
  ensure_ok_iff := by
    intro br ns w _
    show (match bgReady kind br w with
          | .panic => (Out.panic : Out CallResult)
          | .val b => .val (resOfBool b)) = .val .ok ↔ outBool (bgReady kind br w) = true
    generalize bgReady kind br w = r
    rcases r with b | _
    · cases b <;> simp [resOfBool, outBool]
    · simp [outBool]
  fin_ok_released := fun br w w' _ h => bg_fin_ok_released kind br w w' h
  init_frame := by
    intro br ns w w' ns' r h
    obtain ⟨_, _, _, _, hns⟩ := bg_init_inv kind br ns ns' w w' r h
    rcases hns with e | ⟨_, _, _, e⟩ <;> subst e <;> exact ⟨rfl, rfl, rfl, rfl, rfl⟩
  init_ok_claimed := fun br ns w w' ns' _ h => bg_init_ok_claimed kind br ns ns' w w' h

/-! ## the full-strength "released" is false on the code (witnesses) -/

/-- what the harness reports of the workload status besides the model's own fields (not read by `Finalize`) -/
def bgObsW : RV.ExecutorX.Obs :=
  { generation := 1, observedGeneration := 1, statusReplicas := 10, updated := 10, updatedReady := 10,
    updateRevision := "v2", stableRevision := "v1" }

/-- a CloneSet under the control of this BatchRelease (UID 0), initialised, partition `100%`, no pod updated yet -/
def bgWitnessCS : BGW :=
  { w := RV.Props.CtlBlueGreen.worldOf RV.Props.CtlBlueGreen.wlCloneSet [] [], obs := bgObsW }

/-- a Deployment that carries the control-info of this BatchRelease but **no** saved-settings annotation; every pod updated
    and ready -/
def bgWitnessDep : BGW :=
  { w := RV.Props.CtlBlueGreen.worldOf
      { RV.Props.CtlBlueGreen.wlInitialised with saved := .none, status := RV.Props.CtlBlueGreen.st 10 10 10 10 0 } [] [],
    obs := bgObsW }

def bgWitnessBR (partition : Option Int) (st : Status) : BR :=
  { batches := [.pct 50, .pct 100], partition := partition, failureThreshold := none, deleting := false, hasFinalizer := true,
    rollbackAnno := false, status := st }

/-- **`bgPartitionedFinalize`** — `Finalize` with `batchPartition` set (whatever the status of the BatchRelease says) returns nil
    without touching the CloneSet: the control-info of this BatchRelease is still there. -/
theorem bg_released_full_FALSE_partitioned (st : Status) :
    gBgPartitioned (bgWitnessBR (some 0) st) = true ∧
    (bgPlane .cloneSet).fin (bgWitnessBR (some 0) st) bgWitnessCS = .val (bgWitnessCS, .ok) ∧
    bgReleasedFull bgWitnessCS = false := by
  exact ⟨rfl, rfl, by decide⟩

/-- **`bgRestoredControlled`** — `Finalize` with `batchPartition` cleared on a Deployment that carries the control-info but no
    saved-settings annotation: no patch is issued, nil is returned, the control-info of this BatchRelease is still there. -/
theorem bg_released_full_FALSE_restored :
    gBgPartitioned (bgWitnessBR none default) = false ∧ gBgRestoredControlled bgWitnessDep = true ∧
    (bgPlane .deployment).fin (bgWitnessBR none default) bgWitnessDep = .val (bgWitnessDep, .ok) ∧
    bgReleasedFull bgWitnessDep = false :=
  ⟨by decide, by decide, rfl, by decide⟩

/-! ## exposure -/

theorem exposureW_some (kind : CtlBlueGreen.Kind) (w : CtlBlueGreen.World) (wl : CtlBlueGreen.Workload) (h : w.wl = some wl) :
    RV.Oracle.CtlBlueGreen.exposureW kind w = RV.Oracle.CtlBlueGreen.exposureBG kind wl := by
  unfold RV.Oracle.CtlBlueGreen.exposureW; rw [h]

theorem exposureW_congr (kind : CtlBlueGreen.Kind) (w w' : CtlBlueGreen.World) (h : w'.wl = w.wl) :
    RV.Oracle.CtlBlueGreen.exposureW kind w' = RV.Oracle.CtlBlueGreen.exposureW kind w := by
  unfold RV.Oracle.CtlBlueGreen.exposureW; rw [h]

/-- a failed `UpgradeBatch` changed nothing -/
theorem bg_upgrade_err_same (kind : CtlBlueGreen.Kind) (br : BR) (ns : Status) (w w' : BGW)
    (h : (bgPlane kind).upgrade br ns w = .val (w', .err)) : w' = w := by
  obtain ⟨o, ho, hw', hres⟩ := bg_upgrade_inv kind br ns w w' .err h
  have hne : o.res ≠ .ok := by simpa using (resOfBool_err _).1 hres.symm
  rcases RV.Lemmas.CtlBlueGreen.upgrade_world kind w.w (bgBR br) _ o ho with ⟨e, _⟩ | ⟨_, _, _, _, _, _, _, _, _, hok, _⟩
  · rw [hw', e]
  · exact absurd hok hne

/-- `UpgradeBatch` never lowers the exposure, in the region `bgPreds.expoOK` (hold in place, surge set) — from
    `RV.Props.CtlBlueGreen.upgrade_monotone` -/
theorem bg_upgrade_monotone (kind : CtlBlueGreen.Kind) (br : BR) (ns : Status) (w w' : BGW) (r : CallResult)
    (hok : (bgPreds kind).expoOK br w = true) (h : (bgPlane kind).upgrade br ns w = .val (w', r)) :
    (bgPreds kind).exposure w ≤ (bgPreds kind).exposure w' := by
  obtain ⟨o, ho, hw', _⟩ := bg_upgrade_inv kind br ns w w' r h
  subst hw'
  show RV.Oracle.CtlBlueGreen.exposureW kind w.w ≤ RV.Oracle.CtlBlueGreen.exposureW kind o.world
  have m := RV.Props.CtlBlueGreen.upgrade_monotone kind w.w (bgBR br) _ o ho
  unfold RV.Oracle.CtlBlueGreen.upgradeMonotone at m
  simp only [bgPreds] at hok
  cases hw : w.w.wl with
  | none =>
    rcases RV.Lemmas.CtlBlueGreen.upgrade_world kind w.w (bgBR br) _ o ho with ⟨e, _⟩ | ⟨wl, _, _, hwl, _⟩
    · rw [e]; exact Int.le_refl _
    · rw [hw] at hwl; cases hwl
  | some wl =>
    rw [hw] at m hok
    simp only [Bool.and_eq_true] at hok
    rw [exposureW_some kind w.w wl hw]
    simpa [hok.1, hok.2] using m

/-- `UpgradeBatch` raises the exposure at most to what the current batch plans, in the region `bgPreds.expoOK` — from
    `RV.Props.CtlBlueGreen.upgrade_within_step` -/
theorem bg_upgrade_within (kind : CtlBlueGreen.Kind) (br : BR) (ns : Status) (w w' : BGW) (r : CallResult)
    (hok : (bgPreds kind).expoOK br w = true) (h : (bgPlane kind).upgrade br ns w = .val (w', r)) :
    (bgPreds kind).exposure w' ≤ max ((bgPreds kind).exposure w) ((bgPreds kind).allowed br w) := by
  obtain ⟨o, ho, hw', _⟩ := bg_upgrade_inv kind br ns w w' r h
  subst hw'
  have m := RV.Props.CtlBlueGreen.upgrade_within_step kind w.w (bgBR br) _ o ho
  unfold RV.Oracle.CtlBlueGreen.upgradeWithinStep at m
  simp only [bgPreds] at hok ⊢
  rcases RV.Lemmas.CtlBlueGreen.upgrade_cases kind w.w (bgBR br) _ o ho with ⟨hg, _⟩ | ⟨_, hw, e⟩ | ⟨wl, R, _, hw, hR, _⟩
  · cases hg
  · subst e; rw [hw]; simp only [Int.le_max_left]
  · rw [hw] at m hok ⊢
    simp only [hR] at m ⊢
    simp only [Bool.and_eq_true] at hok
    rw [exposureW_some kind w.w wl hw]
    simpa [hok.1] using m

/-! ### `Initialize` exposes nothing — false in the region `bgPreds.expoOK` -/

/-- a Deployment whose hold is in place (`minReadySeconds = MaxReadySeconds`, `maxUnavailable = 0`) with surge `0`, not paused,
    under the control of *another* BatchRelease (UID 1): nothing of the new revision may run -/
def bgWitnessHeldDep : BGW :=
  { w := RV.Props.CtlBlueGreen.worldOf
      { RV.Props.CtlBlueGreen.wlInitialised with
        ctl := .uid 1, ru := some { maxSurge := some (.int 0), maxUnavailable := some (.int 0) },
        status := RV.Props.CtlBlueGreen.st 10 10 0 10 0 } [] [],
    obs := bgObsW }

/-- a paused CloneSet without partition whose hold is in place, under the control of another BatchRelease -/
def bgWitnessPausedCS : BGW :=
  { w := RV.Props.CtlBlueGreen.worldOf
      { RV.Props.CtlBlueGreen.wlCloneSet with ctl := .uid 1, paused := true, partition := none } [] [],
    obs := bgObsW }

/-- **`init_exposes_nothing` is false for `bgPreds` (Deployment)** — `Initialize` of a held, un-paused Deployment with surge `0`
    that this BatchRelease does not control yet sets `maxSurge = 1`: one pod of the new revision may run where none could. -/
theorem bg_init_exposes_nothing_full_FALSE_deployment :
    (bgPreds .deployment).expoOK (bgWitnessBR (some 0) default) bgWitnessHeldDep = true ∧
    (bgPreds .deployment).exposure bgWitnessHeldDep = 0 ∧
    (match (bgPlane .deployment).init (bgWitnessBR (some 0) default) default bgWitnessHeldDep with
     | .val (w', _, .ok) => (bgPreds .deployment).exposure w'
     | _ => 0) = 1 := by
  decide

/-- **… and for the CloneSet** — `Initialize` un-pauses a paused CloneSet; without the partition `100%` of the webhook one pod
    of the new revision may run afterwards. -/
theorem bg_init_exposes_nothing_full_FALSE_cloneSet :
    (bgPreds .cloneSet).expoOK (bgWitnessBR (some 0) default) bgWitnessPausedCS = true ∧
    (bgPreds .cloneSet).exposure bgWitnessPausedCS = 0 ∧
    (match (bgPlane .cloneSet).init (bgWitnessBR (some 0) default) default bgWitnessPausedCS with
     | .val (w', _, .ok) => (bgPreds .cloneSet).exposure w'
     | _ => 0) = 1 := by
  decide

/-- the guard under which `Initialize` exposes nothing: this BatchRelease controls the workload already (then nothing is
    written), or the admission webhook prepared it (Deployment paused / CloneSet partition `100%`), or a pod of the new revision
    may run already (the initial surge of `1` adds nothing) -/
def bgInitQuiet (kind : CtlBlueGreen.Kind) (w : BGW) : Bool :=
  match w.w.wl with
  | none => true
  | some wl =>
    bgControlled wl || RV.Oracle.CtlBlueGreen.prepared kind wl || decide (1 ≤ RV.Oracle.CtlBlueGreen.exposureBG kind wl)

theorem exposureBG_paused (kind : CtlBlueGreen.Kind) (wl : CtlBlueGreen.Workload) (h : wl.paused = true) :
    RV.Oracle.CtlBlueGreen.exposureBG kind wl = 0 := by
  unfold RV.Oracle.CtlBlueGreen.exposureBG
  cases wl.replicas <;> simp [h]

/-- **`init_exposes_nothing` (partial)** — under the guard `bgInitQuiet` (and without any hold condition) `Initialize`, whatever
    it returns, does not raise the exposure — from `RV.Props.CtlBlueGreen.init_exposure`. -/
theorem bg_init_exposes_nothing_partial (kind : CtlBlueGreen.Kind) (br : BR) (ns ns' : Status) (w w' : BGW) (r : CallResult)
    (h : (bgPlane kind).init br ns w = .val (w', ns', r)) (hq : bgInitQuiet kind w = true) :
    (bgPreds kind).exposure w' ≤ (bgPreds kind).exposure w := by
  obtain ⟨o, ho, hw', _⟩ := bg_init_inv kind br ns ns' w w' r h
  subst hw'
  show RV.Oracle.CtlBlueGreen.exposureW kind o.world ≤ RV.Oracle.CtlBlueGreen.exposureW kind w.w
  have hwl := RV.Lemmas.CtlBlueGreen.initialize_wl kind w.w (bgBR br) _ o ho
  have m := RV.Props.CtlBlueGreen.init_exposure kind w.w (bgBR br) _ o ho
  unfold RV.Oracle.CtlBlueGreen.initExposure at m
  unfold bgInitQuiet at hq
  cases hw : w.w.wl with
  | none =>
    rcases hwl with ⟨e, _⟩ | ⟨wl, _, hwl, _⟩
    · rw [exposureW_congr kind w.w o.world e]; exact Int.le_refl _
    · rw [hw] at hwl; cases hwl
  | some wl =>
    rw [hw] at m hq
    simp only [Bool.and_eq_true, Bool.or_eq_true, decide_eq_true_eq] at m hq
    rw [exposureW_some kind w.w wl hw]
    rcases hq with (hc | hp) | h1
    · -- controlled already: nothing is written
      rcases hwl with ⟨e, _⟩ | ⟨wl2, _, hwl2, hnc, _⟩
      · rw [exposureW_congr kind w.w o.world e, exposureW_some kind w.w wl hw]; exact Int.le_refl _
      · rw [hw] at hwl2; cases hwl2
        have : CtlBlueGreen.controlled (bgBR br) wl = true := hc
        rw [this] at hnc; cases hnc
    · -- prepared: nothing is exposed afterwards
      have h0 := m.2
      rw [if_pos hp] at h0
      simp only [decide_eq_true_eq] at h0
      rw [h0]; exact RV.Lemmas.CtlBlueGreen.exposureBG_nonneg kind wl
    · -- a pod may run already: the workload is not paused, and the call adds at most the initial surge of one
      have hnp : ¬ (wl.paused = true) := by
        intro hp; rw [exposureBG_paused kind wl hp] at h1; omega
      have h0 := m.1
      rw [if_neg (fun hc => hnp hc.2.1)] at h0
      simp only [decide_eq_true_eq] at h0
      omega

/-- `bgPreds` with the region of the exposure figures narrowed by the guard of `Initialize`: what `expoOK` has to be for
    **all** exposure laws to hold -/
def bgPredsQuiet (kind : CtlBlueGreen.Kind) : Preds BGW :=
  { bgPreds kind with expoOK := fun br w => (bgPreds kind).expoOK br w && bgInitQuiet kind w }

/-- the plane laws do not mention `expoOK` -/
theorem bgLawsQuiet (kind : CtlBlueGreen.Kind) : Laws (bgPlane kind) (bgPredsQuiet kind) :=
  ⟨(bgLaws kind).ensure_ok_iff, (bgLaws kind).fin_ok_released, (bgLaws kind).init_frame, (bgLaws kind).init_ok_claimed⟩

/-- **exposure laws of the blue-green planes**, in the region "hold in place, surge set, `Initialize` quiet" (exposure =
    `RV.Oracle.CtlBlueGreen.exposureW`, allowed = `CalculateBatchReplicas` of the current plan entry).  For `bgPreds` itself the three
    `UpgradeBatch` laws hold (`bg_upgrade_monotone`, `bg_upgrade_within`, `bg_upgrade_err_same`) and the `Initialize` law does not
    (`bg_init_exposes_nothing_full_FALSE_*`). -/
theorem bgExposure (kind : CtlBlueGreen.Kind) : ExposureLaws (bgPlane kind) (bgPredsQuiet kind) where
  init_exposes_nothing := by
    intro br ns w w' ns' r _ hok h
    have hq : bgInitQuiet kind w = true := by
      have : ((bgPreds kind).expoOK br w && bgInitQuiet kind w) = true := hok
      simp only [Bool.and_eq_true] at this; exact this.2
    exact bg_init_exposes_nothing_partial kind br ns ns' w w' r h hq
  upgrade_monotone := by
    intro br ns w w' r _ hok h
    have hk : (bgPreds kind).expoOK br w = true := by
      have : ((bgPreds kind).expoOK br w && bgInitQuiet kind w) = true := hok
      simp only [Bool.and_eq_true] at this; exact this.1
    exact bg_upgrade_monotone kind br ns w w' r hk h
  upgrade_within := by
    intro br ns w w' r _ hok h
    have hk : (bgPreds kind).expoOK br w = true := by
      have : ((bgPreds kind).expoOK br w && bgInitQuiet kind w) = true := hok
      simp only [Bool.and_eq_true] at this; exact this.1
    exact bg_upgrade_within kind br ns w w' r hk h
  upgrade_err_same := fun br ns w w' h => bg_upgrade_err_same kind br ns w w' h

/-! ## readiness -/

/-- what `CalculateBatchContext` of the blue-green controls reads for workload `wl` with `R` replicas (`bgReady`): the current
    plan entry, the current surge, `status.updatedReplicas`, and the updated-ready count (CloneSet: `status.updatedReadyReplicas`;
    Deployment: `status.readyReplicas` of the newest ReplicaSet, `0` without ReplicaSets); no failure threshold -/
def bgCtxObs (kind : CtlBlueGreen.Kind) (br : BR) (w : BGW) (wl : CtlBlueGreen.Workload) (R : Int) : RV.BatchCtx.Obs :=
  { kind := bgKindOf kind, replicas := R, entry := entryOf br, noNeedUpdate := none,
    knobCur := (CtlBlueGreen.ruSurge wl.ru).getD (.int 0), updated := wl.status.updated,
    updatedReady := (match kind with
      | .cloneSet => wl.status.updatedReady
      | .deployment => if w.w.rss.isEmpty then 0 else w.obs.updatedReady),
    failureThreshold := none }

/-- `bgReady` on an existing workload with `spec.replicas` -/
theorem bgReady_eq (kind : CtlBlueGreen.Kind) (br : BR) (w : BGW) (wl : CtlBlueGreen.Workload) (R : Int)
    (hw : w.w.wl = some wl) (hR : wl.replicas = some R) :
    bgReady kind br w =
      if R = 0 then .val true else
      match calcCtx (bgCtxObs kind br w wl R) with
      | .panic => .panic
      | .ok c => .val (isBatchReady c none = .ok) := by
  unfold bgReady bgInfo
  simp only [hw, hR]
  rfl

/-- **what "ready" means for the blue-green planes** — when the plane's readiness predicate holds, the workload exists and either
    has no replicas, or the batch context `CalculateBatchContext` computes for it has at least the desired number of updated pods
    and of updated *ready* pods (no failure threshold), and at least one ready pod when any is called for — from
    `RV.Props.C11.ready_sound`. -/
theorem bg_ready_means (kind : CtlBlueGreen.Kind) (br : BR) (w : BGW) (h : (bgPreds kind).ready br w = true) :
    ∃ wl R, w.w.wl = some wl ∧ wl.replicas = some R ∧
      (R = 0 ∨ ∃ c, calcCtx (bgCtxObs kind br w wl R) = .ok c ∧
        c.updated ≥ c.desired ∧ c.updatedReady ≥ c.desired ∧ (c.desired > 0 → c.updatedReady > 0)) := by
  have h' : outBool (bgReady kind br w) = true := h
  cases hw : w.w.wl with
  | none =>
    have : bgReady kind br w = .val false := by unfold bgReady bgInfo; simp only [hw]
    rw [this] at h'; cases h'
  | some wl =>
    cases hR : wl.replicas with
    | none =>
      have : bgReady kind br w = .panic := by unfold bgReady bgInfo; simp only [hw, hR]
      rw [this] at h'; cases h'
    | some R =>
      refine ⟨wl, R, rfl, hR, ?_⟩
      rw [bgReady_eq kind br w wl R hw hR] at h'
      by_cases h0 : R = 0
      · exact Or.inl h0
      · right
        rw [if_neg h0] at h'
        cases hc : calcCtx (bgCtxObs kind br w wl R) with
        | panic => rw [hc] at h'; cases h'
        | ok c =>
          rw [hc] at h'
          have hrdy : isBatchReady c none = .ok := by simpa [outBool] using h'
          refine ⟨c, rfl, ?_⟩
          have hft : c.failureThreshold = none := by
            unfold calcCtx at hc
            split at hc
            · cases hc
            · simp only [Outcome.ok.injEq] at hc; subst hc; rfl
          by_cases hn : 0 ≤ c.updatedReady
          · have m := RV.Props.C11.ready_sound c none hn hrdy
            simp only [RV.Oracle.Batch.readyMeans, hft, allowedUnavailable, Bool.and_eq_true, decide_eq_true_eq] at m
            obtain ⟨⟨⟨m1, m2⟩, m3⟩, _⟩ := m
            exact ⟨m1, by omega, m3⟩
          · -- a negative ready count (not a value the API server reports) never passes `IsBatchReady` for a positive target
            unfold isBatchReady at hrdy
            simp only [hft, allowedUnavailable] at hrdy
            split at hrdy
            · cases hrdy
            · split at hrdy
              · cases hrdy
              · refine ⟨by omega, by omega, by omega⟩

/-! ## non-vacuity (tests on literals) -/

/-- a Deployment initialised by this BatchRelease, surge `50%`, 5 of 10 pods updated, 5 updated pods ready (newest ReplicaSet) -/
def bgReadyWorld : BGW :=
  { w := { wl := some { RV.Props.CtlBlueGreen.wlInitialised with status := RV.Props.CtlBlueGreen.st 15 15 5 10 0 },
           rss := [⟨false, CtlBlueGreen.maxReady⟩, ⟨false, 0⟩], hpaV2 := [], hpaV1 := [] },
    obs := { bgObsW with updated := 5, updatedReady := 5 } }

def bgProgressing (cb : Int) : Status :=
  { (default : Status) with phase := .progressing, currentBatch := cb, batchState := .verifying, hash := .same }

/-- the first batch (`50%` of 10) is ready on it, the second (`100%`) is not; `EnsureBatchPodsReadyAndLabeled` agrees -/
example :
    (bgPreds .deployment).ready (bgWitnessBR (some 0) (bgProgressing 0)) bgReadyWorld = true ∧
    (bgPreds .deployment).ready (bgWitnessBR (some 1) (bgProgressing 1)) bgReadyWorld = false ∧
    (match (bgPlane .deployment).ensure (bgWitnessBR (some 0) (bgProgressing 0)) (bgProgressing 0) bgReadyWorld with
     | .val .ok => true
     | _ => false) = true := by
  decide

/-- a successful `Finalize` with `batchPartition` cleared that really releases: the Deployment carried this BatchRelease's
    control-info and the saved settings, all pods updated and ready; afterwards the control-info is gone and neither guard holds -/
example :
    let br := bgWitnessBR none default
    let w : BGW := { w := RV.Props.CtlBlueGreen.worldOf
                       { RV.Props.CtlBlueGreen.wlInitialised with status := RV.Props.CtlBlueGreen.st 10 10 10 10 0 } [] [],
                     obs := bgObsW }
    bgReleasedFull w = false ∧ gBgPartitioned br = false ∧
    (match (bgPlane .deployment).fin br w with
     | .val (w', .ok) => bgReleasedFull w' && !gBgRestoredControlled w'
     | _ => false) = true := by
  decide

/-- the same on the CloneSet plane -/
example :
    (match (bgPlane .cloneSet).fin (bgWitnessBR none default) bgWitnessCS with
     | .val (w', .ok) => bgReleasedFull w' && !gBgRestoredControlled w'
     | _ => false) = true := by
  decide

/-- `Initialize` really claims (the hypothesis of `init_ok_claimed` is satisfiable with a write): a paused Deployment without
    rollout annotations -/
example :
    let w : BGW := { w := RV.Props.CtlBlueGreen.worldOf RV.Props.CtlBlueGreen.wlUser [] [], obs := bgObsW }
    (match (bgPlane .deployment).init (bgWitnessBR (some 0) default) default w with
     | .val (w', _, .ok) => (bgPreds .deployment).claimed (bgWitnessBR (some 0) default) w w' && bgInitQuiet .deployment w &&
         !(match w.w.wl with
           | some wl => bgControlled wl
           | none => true)
     | _ => false) = true := by
  decide

/-- `UpgradeBatch` really raises the exposure within the plan (the hypotheses of the `UpgradeBatch` laws are satisfiable with a
    write): initialised Deployment with surge `1`, batch `50%` of 10 → exposure 1 → 5 = allowed -/
example :
    let w : BGW := { w := RV.Props.CtlBlueGreen.worldOf
                       { RV.Props.CtlBlueGreen.wlInitialised with
                         ru := some { maxSurge := some (.int 1), maxUnavailable := some (.int 0) } } [] [],
                     obs := bgObsW }
    let br := bgWitnessBR (some 0) (bgProgressing 0)
    (bgPreds .deployment).expoOK br w = true ∧ (bgPreds .deployment).exposure w = 1 ∧ (bgPreds .deployment).allowed br w = 5 ∧
    (match (bgPlane .deployment).upgrade br br.status w with
     | .val (w', .ok) => (bgPreds .deployment).exposure w'
     | _ => 0) = 5 := by
  decide

/-- **the `UpgradeBatch` laws hold for the blue-green planes with `bgPreds` as the run-time oracle uses it** (`expoOK` = the hold is in
    place and the surge is set); only `init_exposes_nothing` needs the stronger `bgPredsQuiet`. -/
theorem bgUpgradeLaws (kind : CtlBlueGreen.Kind) : UpgradeLaws (bgPlane kind) (bgPreds kind) where
  upgrade_monotone := fun br ns w w' r _ hok h => bg_upgrade_monotone kind br ns w w' r hok h
  upgrade_within := fun br ns w w' r _ hok h => bg_upgrade_within kind br ns w w' r hok h
  upgrade_err_same := fun br ns w w' h => bg_upgrade_err_same kind br ns w w' h

end RV.Props.ExecutorX
