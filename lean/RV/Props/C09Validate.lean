import RV.Lemmas.Validate
/-!
# C09 (validation part) — what the Rollout validating webhook promises the controllers

Property C09, second sentence: *"Validation also keeps the structural promises the
controllers depend on: non-empty, non-decreasing steps, one Rollout per workload, and no
change of workload reference, traffic routing, style or step count while a release is
progressing."*  Quantifier: every Rollout spec, v1beta1 and v1alpha1, create and update.

`handleB` / `handleA` (`RV.Model.Validate`) are the transcription of
`RolloutCreateUpdateHandler.Handle` for the two API versions **after** the six repairs
`fixes/C09V-1 … 6.patch`; the correspondence suite `validate` compares them with the real
handler on every run, and evaluates the oracles below on the real handler's decisions.

All statements quantify over **every** store content (`List Stored`, any length), every
partition limit, every object (any number of steps, any values) — no bounds.

How to read the oracles (`RV.Oracle.C09V`):
* `specOKB r` / `specOKA r` = workload reference of a supported kind ∧ steps non-empty ∧ every
  step has a valid replicas entry (v1alpha1: or a weight) ∧ `stepsNonDecreasing` ∧ traffic /
  weight in range ∧ at most one traffic routing, with a service and a named provider.
* `stepsNonDecreasing`: **every two steps of the same type** (both integer, or both percentage;
  a v1alpha1 weight-only step counts as a percentage), in plan order, do not decrease — see
  `nonDecreasing_meaning`.  An integer step and a percentage step are *not* comparable without the
  workload size; validation does not (and cannot) order them, and no claim is made about them.
* `unchangedB` / `unchangedA`: workload reference, traffic routings, rolling style (v1alpha1: the
  lower-cased style annotation, which with the reference determines the style) and number of
  steps are equal in old and new object.
* `noConflict`: no other Rollout of the namespace references the same workload (API group, kind,
  name).
-/
namespace RV.Props.C09Validate
open RV.Validate RV.Oracle.C09V RV.Arith

/-! ## meaning of the non-decreasing oracle -/

/-- `pairNonDecr` is the pairwise statement: for all positions `i < j` of the same type,
    `valueᵢ ≤ valueⱼ`. -/
theorem nonDecreasing_meaning (l : List (Bool × Int)) :
    pairNonDecr l = true ↔ l.Pairwise (fun a b => a.1 = b.1 → a.2 ≤ b.2) := by
  induction l with
  | nil => simp [pairNonDecr]
  | cons a rest ih =>
    simp only [pairNonDecr, Bool.and_eq_true, List.all_eq_true, List.pairwise_cons, ih]
    constructor
    · rintro ⟨h1, h2⟩
      refine ⟨fun b hb e => ?_, h2⟩
      have := h1 b hb
      simp only [Bool.or_eq_true, bne_iff_ne, ne_eq, decide_eq_true_eq] at this
      rcases this with h | h
      · exact absurd e h
      · exact h
    · rintro ⟨h1, h2⟩
      refine ⟨fun b hb => ?_, h2⟩
      simp only [Bool.or_eq_true, bne_iff_ne, ne_eq, decide_eq_true_eq]
      by_cases e : a.1 = b.1
      · exact Or.inr (h1 b hb e)
      · exact Or.inl e

/-- for a plan whose steps are all of one type the oracle is plain sortedness -/
theorem nonDecreasing_single_type (l : List (Bool × Int)) (t : Bool) (hall : ∀ k ∈ l, k.1 = t)
    (h : pairNonDecr l = true) : l.Pairwise (fun a b => a.2 ≤ b.2) := by
  rw [nonDecreasing_meaning] at h
  exact h.imp_of_mem fun {a b} ha hb hab => hab ((hall a ha).trans (hall b hb).symm)

/-! ## (i) structure of every admitted spec -/

/-- **v1beta1, create or update: an admitted Rollout has a supported workload reference, non-empty
    steps, valid replicas in every step, non-decreasing comparable steps, traffic in range and at
    most one (usable) traffic routing.** -/
theorem accepted_spec_v1beta1 (store : List Stored) (limit : Int) (op : Op) (obj : RolloutB)
    (old : Option RolloutB) (hop : op ≠ .other)
    (h : handleB store limit op obj old = .allowed) : specOKB obj = true := by
  exact (validateB_ok (handleB_allowed hop h)).1

/-- **v1alpha1, create or update: the same promises** (a step may carry a weight instead of
    replicas; every weight present is in (0,100]). -/
theorem accepted_spec_v1alpha1 (store : List Stored) (limit : Int) (op : Op) (obj : RolloutA)
    (old : Option RolloutA) (hop : op ≠ .other)
    (h : handleA store limit op obj old = .allowed) : specOKA obj = true := by
  exact (validateA_ok (handleA_allowed hop h)).1

/-! ## (iii) one Rollout per workload -/

/-- **v1beta1: an admitted Rollout is the only one of its namespace that references its workload**
    (API group, kind, name), whatever the store holds. -/
theorem accepted_no_conflict_v1beta1 (store : List Stored) (limit : Int) (op : Op) (obj : RolloutB)
    (old : Option RolloutB) (hop : op ≠ .other)
    (h : handleB store limit op obj old = .allowed) :
    noConflict store obj.ns obj.name obj.ref = true := by
  exact (validateB_ok (handleB_allowed hop h)).2

/-- **v1alpha1: the same; in particular the workload reference is present.** -/
theorem accepted_no_conflict_v1alpha1 (store : List Stored) (limit : Int) (op : Op) (obj : RolloutA)
    (old : Option RolloutA) (hop : op ≠ .other)
    (h : handleA store limit op obj old = .allowed) :
    ∃ ref, obj.ref = some ref ∧ noConflict store obj.ns obj.name ref = true := by
  exact (validateA_ok (handleA_allowed hop h)).2

/-! ## (ii) nothing structural changes while a release is progressing -/

/-- **v1beta1: an admitted update of a Rollout whose stored phase is Progressing or Terminating
    leaves workload reference, traffic routings, rolling style and step count unchanged**
    (and there was an old object with a strategy block to compare with). -/
theorem accepted_update_immutable_v1beta1 (store : List Stored) (limit : Int) (obj : RolloutB)
    (old : Option RolloutB) (h : handleB store limit .update obj old = .allowed)
    (hp : progressing store obj.ns obj.name = true) :
    ∃ o, old = some o ∧ unchangedB o obj = true := by
  simp only [handleB, respond] at h
  split at h
  · cases h
  · cases old with
    | none => cases h
    | some o =>
      refine ⟨o, rfl, ?_⟩
      simp only at h
      split at h
      · cases h
      · rename_i hu; exact validateUpdateB_ok hu hp
      · cases h
  · cases h

/-- **v1alpha1: the same** (style = the rolling-style annotation, compared case-insensitively). -/
theorem accepted_update_immutable_v1alpha1 (store : List Stored) (limit : Int) (obj : RolloutA)
    (old : Option RolloutA) (h : handleA store limit .update obj old = .allowed)
    (hp : progressing store obj.ns obj.name = true) :
    ∃ o, old = some o ∧ unchangedA o obj = true := by
  simp only [handleA, respond] at h
  split at h
  · cases h
  · cases old with
    | none => cases h
    | some o =>
      refine ⟨o, rfl, ?_⟩
      simp only at h
      split at h
      · cases h
      · rename_i hu; exact validateUpdateA_ok hu hp
      · cases h
  · cases h

/-! ## (iv) totality: the handler does not panic on any decodable request -/

/-- **v1beta1: `Handle` never reaches a nil dereference**, for every object, old object (present,
    absent, with or without strategy blocks) and store. -/
theorem handle_total_v1beta1 (store : List Stored) (limit : Int) (op : Op) (obj : RolloutB)
    (old : Option RolloutB) : handleB store limit op obj old ≠ .panic := by
  have hB := validateB_ne_none store limit obj
  cases op with
  | other => simp [handleB]
  | create =>
    simp only [handleB, respond]
    split <;> simp_all
  | update =>
    simp only [handleB, respond]
    split
    · simp_all
    · cases old with
      | none => simp
      | some o =>
        have hU := validateUpdateB_ne_none store limit o obj
        simp only
        split <;> simp_all
    · simp

/-- **v1alpha1: `Handle` never reaches a nil dereference** (workloadRef, canary block, weight and
    replicas may all be absent). -/
theorem handle_total_v1alpha1 (store : List Stored) (limit : Int) (op : Op) (obj : RolloutA)
    (old : Option RolloutA) : handleA store limit op obj old ≠ .panic := by
  have hA := validateA_ne_none store limit obj
  cases op with
  | other => simp [handleA]
  | create =>
    simp only [handleA, respond]
    split <;> simp_all
  | update =>
    simp only [handleA, respond]
    split
    · simp_all
    · cases old with
      | none => simp
      | some o =>
        have hU := validateUpdateA_ne_none store limit o obj
        simp only
        split <;> simp_all
    · simp


/-! ## non-vacuity: concrete requests that satisfy the hypotheses

(`decide` on literals — these are *tests* that the hypotheses are satisfiable by non-trivial
inputs and that the repaired behaviour rejects the finding witnesses; the ∀ claims are the
theorems above.) -/
section Examples

private def dep : Ref := ⟨"apps/v1", "Deployment", "w1"⟩
private def depOtherVersion : Ref := ⟨"apps/v1beta1", "Deployment", "w1"⟩
private def cs : Ref := ⟨"apps.kruise.io/v1alpha1", "CloneSet", "w1"⟩
private def ing : TR := { service := "svc", ingress := some ⟨"", "ing"⟩ }
private def i1 : Step := { replicas := some (.int 1) }
private def i3 : Step := { replicas := some (.int 3) }
private def i5 : Step := { replicas := some (.int 5) }
private def p10 : Step := { replicas := some (.pct 10) }
private def p10t : Step := { replicas := some (.pct 10), traffic := some (.pct 10) }
private def p100 : Step := { replicas := some (.pct 100) }
private def w20 : Step := { weight := some 20 }
private def w5 : Step := { weight := some 5 }
private def p50w : Step := { replicas := some (.pct 50), weight := some 50 }
private def p20w500 : Step := { replicas := some (.pct 20), weight := some 500 }

/-- a v1beta1 canary Rollout with a mixed int/percent plan, traffic and an ingress routing -/
private def goodB : RolloutB :=
  { ns := "ns1", name := "r1", ref := dep, canary := some { steps := [i1, p10t, i3, p100], trs := some [ing] } }
/-- a v1alpha1 partition-style Rollout with a weight-only step -/
private def goodA : RolloutA :=
  { ns := "ns1", name := "r1", anno := "Partition", ref := some cs,
    canary := some { steps := [w20, i3, p50w], trs := some [ing] } }
/-- the object is stored and Progressing; two other Rollouts exist (other workload / other namespace) -/
private def storeB : List Stored :=
  [{ ns := "ns1", name := "r1", ref := some dep, phase := "Progressing" },
   { ns := "ns1", name := "r2", ref := some cs, phase := "Healthy" },
   { ns := "ns2", name := "r9", ref := some dep, phase := "Healthy" }]
private def storeA : List Stored :=
  [{ ns := "ns1", name := "r1", ref := some cs, phase := "Terminating" },
   { ns := "ns1", name := "r2", ref := some dep, phase := "Healthy" }]

-- hypotheses of (i) and (iii) are satisfiable (create and update, both versions)
example : handleB storeB 50 .create goodB none = .allowed := by decide
example : handleA storeA 50 .create goodA none = .allowed := by decide
-- hypotheses of (ii) are satisfiable: an admitted update while Progressing / Terminating
example : handleB storeB 50 .update goodB (some goodB) = .allowed ∧ progressing storeB "ns1" "r1" = true := by decide
example : handleA storeA 50 .update goodA (some goodA) = .allowed ∧ progressing storeA "ns1" "r1" = true := by decide
-- … and the immutability really bites: dropping a step while Progressing is denied (both versions)
example : handleB storeB 50 .update { goodB with canary := some { steps := [i1, p10t, i3], trs := some [ing] } } (some goodB)
    = .denied 422 [.immutSteps] := by decide
example : handleA storeA 50 .update { goodA with canary := some { steps := [w20, i3], trs := some [ing] } } (some goodA)
    = .denied 422 [.immutSteps] := by decide

/-! regression tests: the witnesses of the six repaired defects (corpus/validate/finding-*.jsonl) -/
-- 1: v1alpha1 object without workloadRef: "WorkloadRef is required" instead of a nil dereference
example : handleA [] 50 .create { goodA with ref := none } none = .denied 422 [.refRequired] := by decide
-- 2: old object without a strategy block while Progressing: denied instead of a nil dereference
example : handleB storeB 50 .update goodB (some { goodB with canary := none }) = .denied 422 [.immutStyle] := by decide
example : handleA storeA 50 .update goodA (some { goodA with canary := none }) = .denied 422 [.immutStyle] := by decide
-- 3: v1alpha1 weight 500 next to replicas
example : handleA [] 50 .create { goodA with canary := some { steps := [p20w500] } } none = .denied 422 [.weightBad] := by decide
-- 5: 5, 10%, 3 — a decrease hidden behind a step of the other type
example : handleB [] 50 .create { goodB with canary := some { steps := [i5, p10, i3] } } none = .denied 422 [.nonDecr] := by decide
example : handleA [] 50 .create { goodA with canary := some { steps := [w20, i1, w5] } } none = .denied 422 [.nonDecr] := by decide
-- 6: apps/v1beta1 Deployment w1 is the workload apps/v1 Deployment w1
example : handleB storeB 50 .create { goodB with name := "r7", ref := depOtherVersion } none = .denied 422 [.conflict] := by decide

end Examples

end RV.Props.C09Validate
