import RV.Lemmas.Validate
namespace RV.Props.C09Validate
end RV.Props.C09Validate
