import RV.Props.ExecutorXCs
import RV.Props.ExecutorXPDep
import RV.Props.ExecutorXSts
import RV.Props.ExecutorXBG
import RV.Props.ExecutorXCanary
/-!
# Every control plane `getReleaseController` can hand out is lawful

So every theorem of `RV.Props.ExecutorX` (`x_…`, proved once for every lawful plane) holds for the BatchRelease executor over the
partition-style CloneSet / Deployment / StatefulSet-like / DaemonSet planes, the blue-green Deployment / CloneSet planes and the
canary-style Deployment plane — each with that plane's **own** readiness / released / claimed / exposure predicates.
A few instances are spelled out for the planes that have their own event detection and multi-object worlds.
-/
namespace RV.Props.ExecutorX
open RV.Arith RV.BatchCtx RV.Executor RV.ExecutorX RV.Oracle.ExecutorX

/-- the plane serving a `PlaneId`, with its world type and predicates, is lawful — all seven ids (`dsPartition` and `stsLike` share `stsPlane`) -/
theorem every_plane_lawful :
    Laws csPlane csPreds ∧ Laws pdepPlane pdepPreds ∧ Laws stsPlane stsPreds ∧
    (∀ k, Laws (bgPlane k) (bgPreds k)) ∧ Laws canaryPlane canaryPreds :=
  ⟨csLaws, pdepLaws, stsLaws, bgLaws, canaryLaws⟩

/-- `UpgradeBatch` is monotone and within the batch for every plane (in the region `expoOK` of the plane's own exposure theorems) -/
theorem every_plane_upgrade_lawful :
    UpgradeLaws csPlane csPreds ∧ UpgradeLaws pdepPlane pdepPreds ∧ UpgradeLaws stsPlane stsPreds ∧
    (∀ k, UpgradeLaws (bgPlane k) (bgPreds k)) ∧ UpgradeLaws canaryPlane canaryPreds :=
  ⟨csExposure.upgradeLaws, pdepExposure.upgradeLaws, stsExposure.upgradeLaws, bgUpgradeLaws, canaryExposure.upgradeLaws⟩

/-- **C11.iii / C18, canary-style plane, every attempt** — whatever world an earlier (failed, partial) `Finalize` left: when a reconcile
    of the canary-style executor enters `Completed`, the stable Deployment carries no control-info (or is gone) and **no** Deployment
    owned by this BatchRelease still carries the batch-release finalizer. -/
theorem canary_completed_means_released (br : BR) (w : CanaryW) (o : StepOutX CanaryW) (b : BR)
    (h : reconcileX canaryPlane br w = .val o) (hb : o.br = some b) (hne : br.status.phase ≠ .empty)
    (hwf : RV.Oracle.CtlCanary.namesNodup w.w = true) :
    completedMeansReleased (canaryPreds.released (withFinalizer br) o.wl) br b = true :=
  x_completed_means_released canaryPlane canaryPreds canaryLaws br w o b h hb hwf hne

/-- **C11.iii / C18, blue-green planes (partial)** — outside the two findings (`batchPartition` still set; control-info without
    saved settings) a reconcile that enters `Completed` leaves the workload without this BatchRelease's control-info. -/
theorem bg_completed_means_released_partial (kind : CtlBlueGreen.Kind) (br : BR) (w : BGW) (o : StepOutX BGW) (b : BR)
    (h : reconcileX (bgPlane kind) br w = .val o) (hb : o.br = some b) (hne : br.status.phase ≠ .empty)
    (hc : b.status.phase = .completed) (hnc : br.status.phase ≠ .completed)
    (hp : gBgPartitioned br = false) (hr : gBgRestoredControlled o.wl = false) :
    bgReleasedFull o.wl = true := by
  have := x_completed_means_released (bgPlane kind) (bgPreds kind) (bgLaws kind) br w o b h hb rfl hne
  unfold completedMeansReleased at this
  rw [if_pos ⟨hc, hnc⟩] at this
  simp only [Bool.and_eq_true] at this
  have hrel := this.2
  simp only [bgPreds] at hrel
  have hp' : gBgPartitioned (withFinalizer br) = false := hp
  rw [hp', hr] at hrel
  simpa using hrel

/-- **C11.i, canary-style plane** — `Ready` is reported only when `EnsureBatchPodsReadyAndLabeled` of the canary-style plane passes on
    the Deployments as observed in this reconcile. -/
theorem canary_ready_only_if_ready (br : BR) (w : CanaryW) (o : StepOutX CanaryW) (b : BR)
    (h : reconcileX canaryPlane br w = .val o) (hb : o.br = some b) (hwf : RV.Oracle.CtlCanary.namesNodup w.w = true) :
    readyOnlyIfReady (stoppedX canaryPlane br w) (readyNow canaryPreds br w) br b = true :=
  x_ready_only_if_ready canaryPlane canaryPreds canaryLaws br w o b h hb hwf

/-- **C01, every plane** — the exposure of the new revision moves only upwards and only up to what the current batch allows while a
    release is and stays `Progressing` (partition-style Deployment spelled out; the other planes alike). -/
theorem pdep_write_within_batch (br : BR) (w : PDepW) (o : StepOutX PDepW) (b : BR)
    (h : reconcileX pdepPlane br w = .val o) (hb : o.br = some b) :
    writeWithinBatch (pdepPreds.exposure w) (pdepPreds.exposure o.wl) (pdepPreds.allowed (withFinalizer br) w) br b = true :=
  x_write_within_batch pdepPlane pdepPreds pdepLaws pdepExposure.upgradeLaws br w o b h hb rfl rfl

end RV.Props.ExecutorX
