import RV.Lemmas.CtlPDeploy
/-!
# The partition-style Deployment control plane (attached to C01, C05, C06, C07)

Every statement quantifies over **every** Deployment shape (any strategy annotation, valid or not;
leftovers of earlier releases; nil fields), every BatchRelease plan, every API fault, and — for the
walk theorems — every finite sequence of controller calls and user updates.  The oracles are those of
`RV/Oracle/CtlPDeploy.lean`, which the driver evaluates on the snapshots of the real code.
-/
namespace RV.Props.CtlPDeploy
open RV.Arith IntOrPct RV.Webhook RV.CtlPDeploy RV.Oracle.CtlPDeploy

/-! ## C01 — exposure -/

/-- **C01 `initialize_exposes_nothing`** — for every prior state of the Deployment (in particular one that still
    carries the strategy annotation of an earlier BatchRelease with any partition): a successful `Initialize`
    either finds it already under rollout control and leaves it untouched, or claims it with a partition-style
    strategy whose partition is the integer 0 and which is not paused, so `NewRSReplicasLimit` is 0: the
    advanced deployment controller may move no pod until `UpgradeBatch` says so. -/
theorem initialize_exposes_nothing (c : Cfg) (d : Option Dep) (s : Step) (o : StepOut)
    (hcall : s.call = .initialize) (h : step c d s = .val o) :
    initExposesNothing d o = true := by
  have hc : s.call ≠ .admit := by rw [hcall]; decide
  unfold initExposesNothing
  rcases ctrl_step_cases c d s o hc h with ⟨_, hr, _⟩ | ⟨_, _, _, _, hr⟩ | ⟨d0, r, hd, hrep, _, hrest⟩
  · simp [hr]
  · have : o.res ≠ .ok := by intro hk; have := hr.mp hk; rw [hcall] at this; cases this
    simp [this]
  · subst hd
    have hw : writeOf c.rel s d0 = ctrlInitialize d0 := by simp [writeOf, hcall]
    rw [hw] at hrest
    rcases hrest with ⟨hn, hres, hdep, _⟩ | ⟨d', _, _, hres, _⟩ | ⟨d', hsome, _, hres, hdep, _⟩
    · have hu := ctrlInitialize_none hn
      simp [hres, hdep, hu]
    · simp [hres]
    · obtain ⟨hu, hd'⟩ := ctrlInitialize_some hsome
      obtain ⟨f1, f2, f3⟩ := initStrategy_facts d0
      have hs : getStrategy d' = initStrategy d0 := by subst hd'; rfl
      have hrep' : d'.replicas = some r := by subst hd'; exact hrep
      have hund : isUnderRolloutControl d' = true := by subst hd'; simp [isUnderRolloutControl]
      simp only [hres, hdep, hu, hs, f1, f2, f3, limitOf, hrep', limit_int0, hund]
      simp

/-- **C01 `upgradeBatch_within_step`** — after `UpgradeBatch` for batch `i` (any outcome) nothing but the strategy
    annotation differs; the partition is either what it was or — only for a Deployment under rollout control —
    step `i`'s `canaryReplicas` verbatim; and the limit it allows is at most the larger of what was already
    allowed and what step `i` plans (`CalculateBatchReplicas`, rounded up, clamped). -/
theorem upgradeBatch_within_step (c : Cfg) (d : Option Dep) (s : Step) (o : StepOut)
    (hcall : s.call = .upgradeBatch) (h : step c d s = .val o) :
    upgradeWithinStep c.rel s.batch d o = true := by
  have hc : s.call ≠ .admit := by rw [hcall]; decide
  unfold upgradeWithinStep
  rcases ctrl_step_cases c d s o hc h with ⟨_, _, hdep, _⟩ | ⟨_, hd, hdep, _⟩ | ⟨d0, r, hd, hrep, _, hrest⟩
  · cases d with
    | none => simp [hdep]
    | some d0 =>
      simp only [hdep, sameButAnno_self, Bool.true_and]
      cases d0.replicas <;> cases entryOf c.rel s.batch <;> simp [Int.le_max_left]
  · subst hd; simp [hdep]
  · subst hd
    have hsame : ∀ (dd : Dep), o.dep = some dd → dd = d0 →
        (match some d0, o.dep with
          | some d, some d' =>
            sameButAnno d d' &&
            (match d.replicas, entryOf c.rel s.batch with
             | some r, some e =>
               (d' == d || ((getStrategy d').partition == e && isUnderRolloutControl d)) &&
               decide (limitOf d' ≤ max (limitOf d) (calcBatchReplicas r e))
             | _, _ => d' == d)
          | none, none => true
          | _, _ => false) = true := by
      intro dd h1 h2
      subst h2
      simp only [h1, sameButAnno_self, Bool.true_and, hrep]
      cases entryOf c.rel s.batch <;> simp [Int.le_max_left]
    rcases hrest with ⟨_, _, hdep, _⟩ | ⟨d', _, _, _, hdep, _⟩ | ⟨d', hsome, _, _, hdep, _⟩
    · exact hsame d0 hdep rfl
    · exact hsame d0 hdep rfl
    · -- a write: the partition becomes the plan entry
      simp only [writeOf, hcall, hrep] at hsome
      cases he : entryOf c.rel s.batch with
      | none => simp [he] at hsome
      | some e =>
        simp only [he] at hsome
        split at hsome
        · cases hsome
        · obtain ⟨hu, hlt, hd'⟩ := ctrlUpgradeBatch_some hsome
          have hp : (getStrategy d').partition = e := by subst hd'; rfl
          have hrep' : d'.replicas = some r := by subst hd'; exact hrep
          have hsb : sameButAnno d0 d' = true := by subst hd'; simp [sameButAnno]
          have hlim : limitOf d' = newRSReplicasLimit e r := by simp [limitOf, hrep', hp]
          have := limit_le_calc e r
          have h0 := limitOf_nonneg d0
          simp only [hdep, hsb, hrep, hp, hu, hlim, Bool.true_and, beq_self_eq_true, Bool.and_true, Bool.or_true,
            decide_eq_true_eq]
          omega

/-- **C01.2 / C11 (monotone)** — `UpgradeBatch` never lowers the limit: when the partition already allows at
    least what the step wants, it is a no-op. -/
theorem upgradeBatch_monotone (c : Cfg) (d : Option Dep) (s : Step) (o : StepOut)
    (hcall : s.call = .upgradeBatch) (h : step c d s = .val o) :
    upgradeMonotone d o = true := by
  have hc : s.call ≠ .admit := by rw [hcall]; decide
  unfold upgradeMonotone
  rcases ctrl_step_cases c d s o hc h with ⟨_, _, hdep, _⟩ | ⟨_, hd, hdep, _⟩ | ⟨d0, r, hd, hrep, _, hrest⟩
  · cases d <;> simp [hdep]
  · subst hd; simp [hdep]
  · subst hd
    rcases hrest with ⟨_, _, hdep, _⟩ | ⟨d', _, _, _, hdep, _⟩ | ⟨d', hsome, _, _, hdep, _⟩
    · simp [hdep]
    · simp [hdep]
    · simp only [writeOf, hcall, hrep] at hsome
      cases he : entryOf c.rel s.batch with
      | none => simp [he] at hsome
      | some e =>
        simp only [he] at hsome
        split at hsome
        · cases hsome
        · obtain ⟨_, hlt, hd'⟩ := ctrlUpgradeBatch_some hsome
          have hp : (getStrategy d').partition = e := by subst hd'; rfl
          have hrep' : d'.replicas = some r := by subst hd'; exact hrep
          simp only [hdep, limitOf, hrep, hrep', hp, decide_eq_true_eq]
          omega

/-- **C07 (the write suffices)** — an `UpgradeBatch` that returns ok on a Deployment under rollout control leaves a
    partition whose limit is at least the batch's `DesiredUpdatedReplicas` (= `NewRSReplicasLimit` of the step's
    `canaryReplicas`): the advanced deployment controller is allowed to bring the batch to readiness. -/
theorem upgradeBatch_suffices (c : Cfg) (d : Option Dep) (s : Step) (o : StepOut)
    (hcall : s.call = .upgradeBatch) (h : step c d s = .val o) :
    upgradeSuffices c.rel s.batch d o = true := by
  have hc : s.call ≠ .admit := by rw [hcall]; decide
  unfold upgradeSuffices
  split
  · rename_i hok
    rcases ctrl_step_cases c d s o hc h with ⟨_, hr, _⟩ | ⟨_, hd, hdep, _⟩ | ⟨d0, r, hd, hrep, _, hrest⟩
    · rw [hr] at hok; cases hok
    · subst hd; simp [hdep]
    · subst hd
      rcases hrest with ⟨hn, _, hdep, _⟩ | ⟨d', _, _, hres, _⟩ | ⟨d', hsome, _, _, hdep, _⟩
      · simp only [hdep, hrep]
        cases he : entryOf c.rel s.batch with
        | none => rfl
        | some e =>
          simp only []
          split
          · rename_i hcond
            obtain ⟨hu, hr0⟩ := hcond
            simp only [writeOf, hcall, hrep, he, hr0, if_false] at hn
            rcases ctrlUpgradeBatch_none hn with hnu | hle
            · rw [hu] at hnu; cases hnu
            · simp only [limitOf, hrep, decide_eq_true_eq]; exact hle
          · rfl
      · rw [hres] at hok; cases hok
      · simp only [writeOf, hcall, hrep] at hsome
        cases he : entryOf c.rel s.batch with
        | none => simp [he] at hsome
        | some e =>
          simp only [he] at hsome
          split at hsome
          · cases hsome
          · obtain ⟨_, _, hd'⟩ := ctrlUpgradeBatch_some hsome
            have hp : (getStrategy d').partition = e := by subst hd'; rfl
            have hrep' : d'.replicas = some r := by subst hd'; exact hrep
            simp only [hdep, hrep, limitOf, hrep', hp]
            split <;> simp
  · rfl

/-! ## C06 — API faults and repetition -/

/-- **C06 (fault safety)** — a controller call hit by an API fault leaves the Deployment exactly as it was: a failed
    read is an error without any write; a call whose write fails returns an error; it returns ok under a write
    fault only when it had nothing to write.  And an error never comes with a change. -/
theorem fault_safe (c : Cfg) (d : Option Dep) (s : Step) (o : StepOut) (h : step c d s = .val o) :
    faultSafe s d o = true := by
  unfold faultSafe
  by_cases hc : s.call = .admit
  · simp [hc]
  · simp only [hc, if_false]
    rcases ctrl_step_cases c d s o hc h with ⟨hf, hr, hdep, hw⟩ | ⟨hf, hd, hdep, hw, _⟩ | ⟨d0, r, hd, _, hf, hrest⟩
    · simp [hf, hr, hdep, hw]
    · subst hd; simp [hf, hdep, hw]
    · subst hd
      rcases hrest with ⟨_, hres, hdep, hw⟩ | ⟨d', _, hfw, hres, hdep, hw⟩ | ⟨d', _, hfn, hres, hdep, hw⟩
      · simp [hf, hres, hdep, hw]
      · simp [hfw, hres, hdep]
      · simp [hfn, hres]

/-- **C06 (a call that returns ok has its effect)** — after a successful `Initialize` the Deployment is under rollout
    control (paused, `Recreate`, control-info present); after a successful `Finalize` of a claimed Deployment the
    control-info is gone and, with `batchPartition = nil`, so are the strategy annotation and the pause; a
    `Finalize` of an unclaimed Deployment changes nothing.  (`UpgradeBatch`: `upgradeBatch_suffices`.) -/
theorem ok_has_effect (c : Cfg) (d : Option Dep) (s : Step) (o : StepOut) (h : step c d s = .val o) :
    okHasEffect s d o = true := by
  unfold okHasEffect
  split
  · rename_i hok
    cases hcall : s.call
    · have hc : s.call ≠ .admit := by rw [hcall]; decide
      rcases ctrl_step_cases c d s o hc h with ⟨_, hr, _⟩ | ⟨_, _, _, _, hr⟩ | ⟨d0, r, hd, _, _, hrest⟩
      · rw [hr] at hok; cases hok
      · have := hr.mp hok; rw [hcall] at this; cases this
      · subst hd
        have hw : writeOf c.rel s d0 = ctrlInitialize d0 := by simp [writeOf, hcall]
        rw [hw] at hrest
        rcases hrest with ⟨hn, _, hdep, _⟩ | ⟨d', _, _, hres, _⟩ | ⟨d', hsome, _, _, hdep, _⟩
        · simp [hdep, ctrlInitialize_none hn]
        · rw [hres] at hok; cases hok
        · obtain ⟨_, hd'⟩ := ctrlInitialize_some hsome
          subst hd'
          simp [hdep, isUnderRolloutControl]
    · cases d <;> cases o.dep <;> rfl
    · have hc : s.call ≠ .admit := by rw [hcall]; decide
      rcases ctrl_step_cases c d s o hc h with ⟨_, hr, _⟩ | ⟨_, hd, hdep, _⟩ | ⟨d0, r, hd, _, _, hrest⟩
      · rw [hr] at hok; cases hok
      · subst hd; simp [hdep]
      · subst hd
        have hw : writeOf c.rel s d0 = ctrlFinalize d0 s.bpNil := by simp [writeOf, hcall]
        rw [hw] at hrest
        rcases hrest with ⟨hn, _, hdep, _⟩ | ⟨d', _, _, hres, _⟩ | ⟨d', hsome, _, _, hdep, _⟩
        · simp [hdep, ctrlFinalize_none hn]
        · rw [hres] at hok; cases hok
        · obtain ⟨hcl, hd'⟩ := ctrlFinalize_some hsome
          subst hd'
          simp only [hdep, hcl, if_true]
          unfold finalized
          cases s.bpNil <;> simp
    · cases d <;> cases o.dep <;> rfl
  · rfl

/-- **frame** — a controller call never touches the size, the template, the in-progress annotation or anything
    outside the model and issues at most one write; an admitted user update never touches the control-info, the
    control label or the extra-status annotation. -/
theorem step_frame (c : Cfg) (d : Option Dep) (s : Step) (o : StepOut) (h : step c d s = .val o) :
    frame s d o = true := by
  unfold frame
  by_cases hc : s.call = .admit
  · simp only [hc, if_true]
    simp only [step, hc] at h
    cases d with
    | none => simp only [Out.val.injEq] at h; subst h; rfl
    | some d0 =>
      simp only at h
      cases ha : admit c.world d0 s.edit with
      | panic => rw [ha] at h; cases h
      | val d' =>
        rw [ha] at h
        simp only [Out.val.injEq] at h; subst h
        simp only
        unfold admit at ha
        simp only at ha
        split at ha
        · cases ha
        · simp only [Out.val.injEq] at ha
          subst ha
          have : ∀ e : Edit, (applyEdit d0 e).rest = d0.rest ∧ (applyEdit d0 e).control = d0.control ∧
              (applyEdit d0 e).ctrlLabel = d0.ctrlLabel ∧ (applyEdit d0 e).extraStatus = d0.extraStatus := by
            intro e; unfold applyEdit
            cases e.tmpl <;> cases e.strat <;> cases e.paused <;> cases e.replicas <;> simp
          obtain ⟨h1, h2, h3, h4⟩ := this s.edit
          simp [ofObj, h1, h2, h3, h4]
  · simp only [hc, if_false]
    rcases ctrl_step_cases c d s o hc h with ⟨_, _, hdep, hw⟩ | ⟨_, hd, hdep, hw, _⟩ | ⟨d0, r, hd, _, _, hrest⟩
    · cases d <;> simp [hdep, hw]
    · subst hd; simp [hdep, hw]
    · subst hd
      rcases hrest with ⟨_, _, hdep, hw⟩ | ⟨d', _, _, _, hdep, hw⟩ | ⟨d', hsome, _, _, hdep, hw⟩
      · simp [hdep, hw]
      · simp [hdep, hw]
      · simp only [hdep, hw]
        cases hcall : s.call
        · simp only [writeOf, hcall] at hsome
          obtain ⟨_, hd'⟩ := ctrlInitialize_some hsome
          subst hd'; simp
        · simp only [writeOf, hcall] at hsome
          split at hsome
          · split at hsome
            · cases hsome
            · obtain ⟨_, _, hd'⟩ := ctrlUpgradeBatch_some hsome
              subst hd'; simp
          · cases hsome
        · simp only [writeOf, hcall] at hsome
          obtain ⟨_, hd'⟩ := ctrlFinalize_some hsome
          subst hd'
          unfold finalized
          cases s.bpNil <;> simp
        · exact absurd hcall hc

/-- **C06 (idempotence)** — `initialize ∘ initialize = initialize`, `finalize ∘ finalize = finalize`,
    `upgradeBatch ∘ upgradeBatch = upgradeBatch` (same batch): repeating a successful call returns ok, changes
    nothing and issues no write. -/
theorem idempotent_calls (c : Cfg) (d : Option Dep) (a b : Step) (oa ob : StepOut)
    (ha : step c d a = .val oa) (hb : step c oa.dep b = .val ob) :
    idempotent a b oa ob = true := by
  unfold idempotent
  split
  · rename_i hcond
    obtain ⟨hsame, hok⟩ := hcond
    simp only [sameCall, Bool.and_eq_true, beq_iff_eq, bne_iff_ne, ne_eq, Bool.or_eq_true] at hsame
    obtain ⟨⟨⟨⟨⟨hcall, hca⟩, hfa⟩, hfb⟩, hbatch⟩, hbp⟩ := hsame
    have hcb : b.call ≠ .admit := by rw [← hcall]; exact hca
    have hfbg : b.fault ≠ .get := by rw [hfb]; decide
    have hfag : a.fault ≠ .get := by rw [hfa]; decide
    -- it suffices that the second call has nothing to write on the first call's result
    have key : ∀ d1, oa.dep = some d1 → writeOf c.rel b d1 = none →
        (ob.res == .ok && ob.dep == oa.dep && ob.writes == 0) = true := by
      intro d1 h1 hwn
      rw [h1] at hb
      rcases ctrl_step_cases c (some d1) b ob hcb hb with ⟨hg, _⟩ | ⟨_, hd, _⟩ | ⟨d0, r, hd, _, _, hrest⟩
      · exact absurd hg hfbg
      · cases hd
      · simp only [Option.some.injEq] at hd; subst hd
        rcases hrest with ⟨_, hres, hdep, hw⟩ | ⟨d', hs, _⟩ | ⟨d', hs, _⟩
        · simp [hres, hdep, hw, h1]
        · rw [hwn] at hs; cases hs
        · rw [hwn] at hs; cases hs
    rcases ctrl_step_cases c d a oa hca ha with ⟨hg, _⟩ | ⟨_, hd, hdep, _, hr⟩ | ⟨d0, r, hd, hrep, _, hrest⟩
    · exact absurd hg hfag
    · -- no Deployment: only finalize returns ok, and it does so again
      subst hd
      rw [hdep] at hb
      rcases ctrl_step_cases c none b ob hcb hb with ⟨hg, _⟩ | ⟨_, _, hdepb, hwb, hrb⟩ | ⟨d0, r, hd, _⟩
      · exact absurd hg hfbg
      · have : b.call = .finalize := by rw [← hcall]; exact hr.mp hok
        simp [hrb.mpr this, hdepb, hdep, hwb]
      · cases hd
    · subst hd
      rcases hrest with ⟨hn, _, hdep, _⟩ | ⟨d', _, _, hres, _⟩ | ⟨d', hsome, _, _, hdep, _⟩
      · -- nothing to write the first time: nothing the second time
        apply key d0 hdep
        have : writeOf c.rel b d0 = writeOf c.rel a d0 := by
          unfold writeOf
          rw [← hcall]
          cases hcc : a.call
          · rfl
          · have : a.batch = b.batch := by rcases hbatch with h | h; exact absurd hcc h; exact h
            rw [this]
          · have : a.bpNil = b.bpNil := by rcases hbp with h | h; exact absurd hcc h; exact h
            rw [this]
          · rfl
        rw [this]; exact hn
      · rw [hres] at hok; cases hok
      · -- written the first time: the result needs no further write
        apply key d' hdep
        unfold writeOf at hsome ⊢
        rw [← hcall]
        cases hcc : a.call
        · simp only [hcc] at hsome
          obtain ⟨_, hd'⟩ := ctrlInitialize_some hsome
          have : isUnderRolloutControl d' = true := by subst hd'; simp [isUnderRolloutControl]
          simp [ctrlInitialize, this]
        · simp only [hcc, hrep] at hsome
          have hbb : a.batch = b.batch := by rcases hbatch with h | h; exact absurd hcc h; exact h
          rw [← hbb]
          cases he : entryOf c.rel a.batch with
          | none => simp [he] at hsome
          | some e =>
            simp only [he] at hsome
            split at hsome
            · cases hsome
            · rename_i hr0
              obtain ⟨hu, _, hd'⟩ := ctrlUpgradeBatch_some hsome
              have hrep' : d'.replicas = some r := by subst hd'; exact hrep
              have hp : (getStrategy d').partition = e := by subst hd'; rfl
              have hu' : isUnderRolloutControl d' = true := by
                subst hd'; simpa [isUnderRolloutControl] using hu
              simp [hrep', hr0, ctrlUpgradeBatch, hu', hp]
        · simp only [hcc] at hsome
          obtain ⟨_, hd'⟩ := ctrlFinalize_some hsome
          have : d'.control = .none := by subst hd'; unfold finalized; cases a.bpNil <;> rfl
          simp [ctrlFinalize, this]
        · exact absurd hcc hca
  · rfl

end RV.Props.CtlPDeploy
