import RV.Lemmas.CtlPDeploy
/-!
# The partition-style Deployment control plane (attached to C01, C05, C06, C07)

Every statement quantifies over **every** Deployment shape (any strategy annotation, valid or not;
leftovers of earlier releases; nil fields), every BatchRelease plan, every API fault, and — for the
walk theorems — every finite sequence of controller calls and user updates.  The oracles are those of
`RV/Oracle/CtlPDeploy.lean`, which the driver evaluates on the snapshots of the real code.
-/
namespace RV.Props.CtlPDeploy
open RV.Arith IntOrPct RV.Webhook RV.CtlPDeploy RV.Oracle.CtlPDeploy

/-! ## C01 — exposure -/

/-- **C01 `initialize_exposes_nothing`** — for every prior state of the Deployment (in particular one that still
    carries the strategy annotation of an earlier BatchRelease with any partition): a successful `Initialize`
    either finds it already under rollout control and leaves it untouched, or claims it with a partition-style
    strategy whose partition is the integer 0 and which is not paused, so `NewRSReplicasLimit` is 0: the
    advanced deployment controller may move no pod until `UpgradeBatch` says so. -/
theorem initialize_exposes_nothing (c : Cfg) (d : Option Dep) (s : Step) (o : StepOut)
    (hcall : s.call = .initialize) (h : step c d s = .val o) :
    initExposesNothing d o = true := by
  have hc : s.call ≠ .submit := by rw [hcall]; decide
  unfold initExposesNothing
  rcases ctrl_step_cases c d s o hc h with ⟨_, hr, _⟩ | ⟨_, _, _, _, hr⟩ | ⟨d0, r, hd, hrep, _, hrest⟩
  · simp [hr]
  · have : o.res ≠ .ok := by intro hk; have := hr.mp hk; rw [hcall] at this; cases this
    simp [this]
  · subst hd
    have hw : writeOf c.rel s d0 = ctrlInitialize d0 := by simp [writeOf, hcall]
    rw [hw] at hrest
    rcases hrest with ⟨hn, hres, hdep, _⟩ | ⟨d', _, _, hres, _⟩ | ⟨d', hsome, _, hres, hdep, _⟩
    · have hu := ctrlInitialize_none hn
      simp [hres, hdep, hu]
    · simp [hres]
    · obtain ⟨hu, hd'⟩ := ctrlInitialize_some hsome
      obtain ⟨f1, f2, f3⟩ := initStrategy_facts d0
      have hs : getStrategy d' = initStrategy d0 := by subst hd'; rfl
      have hrep' : d'.replicas = some r := by subst hd'; exact hrep
      have hund : isUnderRolloutControl d' = true := by subst hd'; simp [isUnderRolloutControl]
      simp only [hres, hdep, hu, hs, f1, f2, f3, limitOf, hrep', limit_int0, hund]
      simp

/-- **C01 `upgradeBatch_within_step`** — after `UpgradeBatch` for batch `i` (any outcome) nothing but the strategy
    annotation differs; the partition is either what it was or — only for a Deployment under rollout control —
    step `i`'s `canaryReplicas` verbatim; and the limit it allows is at most the larger of what was already
    allowed and what step `i` plans (`CalculateBatchReplicas`, rounded up, clamped). -/
theorem upgradeBatch_within_step (c : Cfg) (d : Option Dep) (s : Step) (o : StepOut)
    (hcall : s.call = .upgradeBatch) (h : step c d s = .val o) :
    upgradeWithinStep c.rel s.batch d o = true := by
  have hc : s.call ≠ .submit := by rw [hcall]; decide
  unfold upgradeWithinStep
  rcases ctrl_step_cases c d s o hc h with ⟨_, _, hdep, _⟩ | ⟨_, hd, hdep, _⟩ | ⟨d0, r, hd, hrep, _, hrest⟩
  · cases d with
    | none => simp [hdep]
    | some d0 =>
      simp only [hdep, sameButAnno_self, Bool.true_and]
      cases d0.replicas <;> cases entryOf c.rel s.batch <;> simp [Int.le_max_left]
  · subst hd; simp [hdep]
  · subst hd
    have hsame : ∀ (dd : Dep), o.dep = some dd → dd = d0 →
        (match some d0, o.dep with
          | some d, some d' =>
            sameButAnno d d' &&
            (match d.replicas, entryOf c.rel s.batch with
             | some r, some e =>
               (d' == d || ((getStrategy d').partition == e && isUnderRolloutControl d)) &&
               decide (limitOf d' ≤ max (limitOf d) (calcBatchReplicas r e))
             | _, _ => d' == d)
          | none, none => true
          | _, _ => false) = true := by
      intro dd h1 h2
      subst h2
      simp only [h1, sameButAnno_self, Bool.true_and, hrep]
      cases entryOf c.rel s.batch <;> simp [Int.le_max_left]
    rcases hrest with ⟨_, _, hdep, _⟩ | ⟨d', _, _, _, hdep, _⟩ | ⟨d', hsome, _, _, hdep, _⟩
    · exact hsame d0 hdep rfl
    · exact hsame d0 hdep rfl
    · -- a write: the partition becomes the plan entry
      simp only [writeOf, hcall, hrep] at hsome
      cases he : entryOf c.rel s.batch with
      | none => simp [he] at hsome
      | some e =>
        simp only [he] at hsome
        split at hsome
        · cases hsome
        · obtain ⟨hu, hlt, hd'⟩ := ctrlUpgradeBatch_some hsome
          have hp : (getStrategy d').partition = e := by subst hd'; rfl
          have hrep' : d'.replicas = some r := by subst hd'; exact hrep
          have hsb : sameButAnno d0 d' = true := by subst hd'; simp [sameButAnno]
          have hlim : limitOf d' = newRSReplicasLimit e r := by simp [limitOf, hrep', hp]
          have := limit_le_calc e r
          have h0 := limitOf_nonneg d0
          simp only [hdep, hsb, hrep, hp, hu, hlim, Bool.true_and, beq_self_eq_true, Bool.and_true, Bool.or_true,
            decide_eq_true_eq]
          omega

/-- **C01.2 / C11 (monotone)** — `UpgradeBatch` never lowers the limit: when the partition already allows at
    least what the step wants, it is a no-op. -/
theorem upgradeBatch_monotone (c : Cfg) (d : Option Dep) (s : Step) (o : StepOut)
    (hcall : s.call = .upgradeBatch) (h : step c d s = .val o) :
    upgradeMonotone d o = true := by
  have hc : s.call ≠ .submit := by rw [hcall]; decide
  unfold upgradeMonotone
  rcases ctrl_step_cases c d s o hc h with ⟨_, _, hdep, _⟩ | ⟨_, hd, hdep, _⟩ | ⟨d0, r, hd, hrep, _, hrest⟩
  · cases d <;> simp [hdep]
  · subst hd; simp [hdep]
  · subst hd
    rcases hrest with ⟨_, _, hdep, _⟩ | ⟨d', _, _, _, hdep, _⟩ | ⟨d', hsome, _, _, hdep, _⟩
    · simp [hdep]
    · simp [hdep]
    · simp only [writeOf, hcall, hrep] at hsome
      cases he : entryOf c.rel s.batch with
      | none => simp [he] at hsome
      | some e =>
        simp only [he] at hsome
        split at hsome
        · cases hsome
        · obtain ⟨_, hlt, hd'⟩ := ctrlUpgradeBatch_some hsome
          have hp : (getStrategy d').partition = e := by subst hd'; rfl
          have hrep' : d'.replicas = some r := by subst hd'; exact hrep
          simp only [hdep, limitOf, hrep, hrep', hp, decide_eq_true_eq]
          omega

/-- **C07 (the write suffices)** — an `UpgradeBatch` that returns ok on a Deployment under rollout control leaves a
    partition whose limit is at least the batch's `DesiredUpdatedReplicas` (= `NewRSReplicasLimit` of the step's
    `canaryReplicas`): the advanced deployment controller is allowed to bring the batch to readiness. -/
theorem upgradeBatch_suffices (c : Cfg) (d : Option Dep) (s : Step) (o : StepOut)
    (hcall : s.call = .upgradeBatch) (h : step c d s = .val o) :
    upgradeSuffices c.rel s.batch d o = true := by
  have hc : s.call ≠ .submit := by rw [hcall]; decide
  unfold upgradeSuffices
  split
  · rename_i hok
    rcases ctrl_step_cases c d s o hc h with ⟨_, hr, _⟩ | ⟨_, hd, hdep, _⟩ | ⟨d0, r, hd, hrep, _, hrest⟩
    · rw [hr] at hok; cases hok
    · subst hd; simp [hdep]
    · subst hd
      rcases hrest with ⟨hn, _, hdep, _⟩ | ⟨d', _, _, hres, _⟩ | ⟨d', hsome, _, _, hdep, _⟩
      · simp only [hdep, hrep]
        cases he : entryOf c.rel s.batch with
        | none => rfl
        | some e =>
          simp only []
          split
          · rename_i hcond
            obtain ⟨hu, hr0⟩ := hcond
            simp only [writeOf, hcall, hrep, he, hr0, if_false] at hn
            rcases ctrlUpgradeBatch_none hn with hnu | hle
            · rw [hu] at hnu; cases hnu
            · simp only [limitOf, hrep, decide_eq_true_eq]; exact hle
          · rfl
      · rw [hres] at hok; cases hok
      · simp only [writeOf, hcall, hrep] at hsome
        cases he : entryOf c.rel s.batch with
        | none => simp [he] at hsome
        | some e =>
          simp only [he] at hsome
          split at hsome
          · cases hsome
          · obtain ⟨_, _, hd'⟩ := ctrlUpgradeBatch_some hsome
            have hp : (getStrategy d').partition = e := by subst hd'; rfl
            have hrep' : d'.replicas = some r := by subst hd'; exact hrep
            simp only [hdep, hrep, limitOf, hrep', hp]
            split <;> simp
  · rfl

/-- **C07 (… and then the batch can become ready)** — the context `CalculateBatchContext` builds for the batch has
    `DesiredUpdatedReplicas = NewRSReplicasLimit(canaryReplicas)`; once the advanced deployment controller has used
    the limit `upgradeBatch_suffices` guarantees (that many pods updated and ready), `IsBatchReady` passes, whatever
    the (non-negative) failure threshold. -/
theorem ready_when_limit_reached (r upd : Int) (e cur : IntOrPct) (ft : Option IntOrPct)
    (h : newRSReplicasLimit e r ≤ upd) (hft : 0 ≤ allowedUnavailable ft upd) :
    RV.BatchCtx.isBatchReady
      { replicas := r, updated := upd, updatedReady := upd, planned := newRSReplicasLimit e r,
        desired := newRSReplicasLimit e r, knobCur := cur, knobDes := e, failureThreshold := ft } none = .ok := by
  unfold RV.BatchCtx.isBatchReady
  simp only
  have h1 : ¬ upd < newRSReplicasLimit e r := by omega
  have h2 : ¬ allowedUnavailable ft upd + upd < newRSReplicasLimit e r := by omega
  have h3 : ¬ (newRSReplicasLimit e r > 0 ∧ upd = 0) := by omega
  simp only [h1, h2, h3, if_false]

/-! ## C06 — API faults and repetition -/

/-- **C06 (fault safety)** — a controller call hit by an API fault leaves the Deployment exactly as it was: a failed
    read is an error without any write; a call whose write fails returns an error; it returns ok under a write
    fault only when it had nothing to write.  And an error never comes with a change. -/
theorem fault_safe (c : Cfg) (d : Option Dep) (s : Step) (o : StepOut) (h : step c d s = .val o) :
    faultSafe s d o = true := by
  unfold faultSafe
  by_cases hc : s.call = .submit
  · simp [hc]
  · simp only [hc, if_false]
    rcases ctrl_step_cases c d s o hc h with ⟨hf, hr, hdep, hw⟩ | ⟨hf, hd, hdep, hw, _⟩ | ⟨d0, r, hd, _, hf, hrest⟩
    · simp [hf, hr, hdep, hw]
    · subst hd; simp [hf, hdep, hw]
    · subst hd
      rcases hrest with ⟨_, hres, hdep, hw⟩ | ⟨d', _, hfw, hres, hdep, hw⟩ | ⟨d', _, hfn, hres, hdep, hw⟩
      · simp [hf, hres, hdep, hw]
      · simp [hfw, hres, hdep]
      · simp [hfn, hres]

/-- **frame** — a controller call never touches the size, the template, the in-progress annotation or anything
    outside the model and issues at most one write; an admitted user update never touches the control-info, the
    control label or the extra-status annotation. -/
theorem step_frame (c : Cfg) (d : Option Dep) (s : Step) (o : StepOut) (h : step c d s = .val o) :
    frame s d o = true := by
  unfold frame
  by_cases hc : s.call = .submit
  · simp only [hc, if_true]
    simp only [step, hc] at h
    cases d with
    | none => simp only [Out.val.injEq] at h; subst h; rfl
    | some d0 =>
      simp only at h
      cases ha : submit c.world d0 s.edit with
      | panic => rw [ha] at h; cases h
      | val d' =>
        rw [ha] at h
        simp only [Out.val.injEq] at h; subst h
        simp only
        unfold submit at ha
        simp only at ha
        split at ha
        · cases ha
        · simp only [Out.val.injEq] at ha
          subst ha
          have : ∀ e : Edit, (applyEdit d0 e).rest = d0.rest ∧ (applyEdit d0 e).control = d0.control ∧
              (applyEdit d0 e).ctrlLabel = d0.ctrlLabel ∧ (applyEdit d0 e).extraStatus = d0.extraStatus := by
            intro e; unfold applyEdit
            cases e.tmpl <;> cases e.strat <;> cases e.paused <;> cases e.replicas <;> simp
          obtain ⟨h1, h2, h3, h4⟩ := this s.edit
          simp [ofObj, h1, h2, h3, h4]
  · simp only [hc, if_false]
    rcases ctrl_step_cases c d s o hc h with ⟨_, _, hdep, hw⟩ | ⟨_, hd, hdep, hw, _⟩ | ⟨d0, r, hd, _, _, hrest⟩
    · cases d <;> simp [hdep, hw]
    · subst hd; simp [hdep, hw]
    · subst hd
      rcases hrest with ⟨_, _, hdep, hw⟩ | ⟨d', _, _, _, hdep, hw⟩ | ⟨d', hsome, _, _, hdep, hw⟩
      · simp [hdep, hw]
      · simp [hdep, hw]
      · simp only [hdep, hw]
        cases hcall : s.call
        · simp only [writeOf, hcall] at hsome
          obtain ⟨_, hd'⟩ := ctrlInitialize_some hsome
          subst hd'; simp
        · simp only [writeOf, hcall] at hsome
          split at hsome
          · split at hsome
            · cases hsome
            · obtain ⟨_, _, hd'⟩ := ctrlUpgradeBatch_some hsome
              subst hd'; simp
          · cases hsome
        · simp only [writeOf, hcall] at hsome
          obtain ⟨_, hd'⟩ := ctrlFinalize_some hsome
          subst hd'
          unfold finalized
          cases s.bpNil <;> simp
        · exact absurd hcall hc

/-- **C06 (idempotence)** — `initialize ∘ initialize = initialize`, `finalize ∘ finalize = finalize`,
    `upgradeBatch ∘ upgradeBatch = upgradeBatch` (same batch): repeating a successful call returns ok, changes
    nothing and issues no write. -/
theorem idempotent_calls (c : Cfg) (d : Option Dep) (a b : Step) (oa ob : StepOut)
    (ha : step c d a = .val oa) (hb : step c oa.dep b = .val ob) :
    idempotent a b oa ob = true := by
  unfold idempotent
  split
  · rename_i hcond
    obtain ⟨hsame, hok⟩ := hcond
    simp only [sameCall, Bool.and_eq_true, beq_iff_eq, bne_iff_ne, ne_eq, Bool.or_eq_true] at hsame
    obtain ⟨⟨⟨⟨⟨hcall, hca⟩, hfa⟩, hfb⟩, hbatch⟩, hbp⟩ := hsame
    have hcb : b.call ≠ .submit := by rw [← hcall]; exact hca
    have hfbg : b.fault ≠ .get := by rw [hfb]; decide
    have hfag : a.fault ≠ .get := by rw [hfa]; decide
    -- it suffices that the second call has nothing to write on the first call's result
    have key : ∀ d1, oa.dep = some d1 → writeOf c.rel b d1 = none →
        (ob.res == .ok && ob.dep == oa.dep && ob.writes == 0) = true := by
      intro d1 h1 hwn
      rw [h1] at hb
      rcases ctrl_step_cases c (some d1) b ob hcb hb with ⟨hg, _⟩ | ⟨_, hd, _⟩ | ⟨d0, r, hd, _, _, hrest⟩
      · exact absurd hg hfbg
      · cases hd
      · simp only [Option.some.injEq] at hd; subst hd
        rcases hrest with ⟨_, hres, hdep, hw⟩ | ⟨d', hs, _⟩ | ⟨d', hs, _⟩
        · simp [hres, hdep, hw, h1]
        · rw [hwn] at hs; cases hs
        · rw [hwn] at hs; cases hs
    rcases ctrl_step_cases c d a oa hca ha with ⟨hg, _⟩ | ⟨_, hd, hdep, _, hr⟩ | ⟨d0, r, hd, hrep, _, hrest⟩
    · exact absurd hg hfag
    · -- no Deployment: only finalize returns ok, and it does so again
      subst hd
      rw [hdep] at hb
      rcases ctrl_step_cases c none b ob hcb hb with ⟨hg, _⟩ | ⟨_, _, hdepb, hwb, hrb⟩ | ⟨d0, r, hd, _⟩
      · exact absurd hg hfbg
      · have : b.call = .finalize := by rw [← hcall]; exact hr.mp hok
        simp [hrb.mpr this, hdepb, hdep, hwb]
      · cases hd
    · subst hd
      rcases hrest with ⟨hn, _, hdep, _⟩ | ⟨d', _, _, hres, _⟩ | ⟨d', hsome, _, _, hdep, _⟩
      · -- nothing to write the first time: nothing the second time
        apply key d0 hdep
        have : writeOf c.rel b d0 = writeOf c.rel a d0 := by
          unfold writeOf
          rw [← hcall]
          cases hcc : a.call
          · rfl
          · have : a.batch = b.batch := by rcases hbatch with h | h; exact absurd hcc h; exact h
            rw [this]
          · have : a.bpNil = b.bpNil := by rcases hbp with h | h; exact absurd hcc h; exact h
            rw [this]
          · rfl
        rw [this]; exact hn
      · rw [hres] at hok; cases hok
      · -- written the first time: the result needs no further write
        apply key d' hdep
        unfold writeOf at hsome ⊢
        rw [← hcall]
        cases hcc : a.call
        · simp only [hcc] at hsome
          obtain ⟨_, hd'⟩ := ctrlInitialize_some hsome
          have : isUnderRolloutControl d' = true := by subst hd'; simp [isUnderRolloutControl]
          simp [ctrlInitialize, this]
        · simp only [hcc, hrep] at hsome
          have hbb : a.batch = b.batch := by rcases hbatch with h | h; exact absurd hcc h; exact h
          rw [← hbb]
          cases he : entryOf c.rel a.batch with
          | none => simp [he] at hsome
          | some e =>
            simp only [he] at hsome
            split at hsome
            · cases hsome
            · rename_i hr0
              obtain ⟨hu, _, hd'⟩ := ctrlUpgradeBatch_some hsome
              have hrep' : d'.replicas = some r := by subst hd'; exact hrep
              have hp : (getStrategy d').partition = e := by subst hd'; rfl
              have hu' : isUnderRolloutControl d' = true := by
                subst hd'; simpa [isUnderRolloutControl] using hu
              simp [hrep', hr0, ctrlUpgradeBatch, hu', hp]
        · simp only [hcc] at hsome
          obtain ⟨_, hd'⟩ := ctrlFinalize_some hsome
          have : d'.control = .none := by subst hd'; unfold finalized; cases a.bpNil <;> rfl
          simp [ctrlFinalize, this]
        · exact absurd hcc hca
  · rfl

/-! ## C01 — exposure along every walk -/

/-- **C01 (walk bound)** — for every Deployment of a fixed size `r`, every plan and every finite sequence of
    controller calls (with any faults) and admitted user updates (that do not scale): at the end, the number of
    pods the partition allows on the new revision is at most the larger of what the Deployment allowed at the
    start and the largest `CalculateBatchReplicas` of the batches `UpgradeBatch` was called for. -/
theorem walk_exposure_bound (c : Cfg) (r : Int) (steps : List Step) :
    ∀ (d df : Dep), d.replicas = some r → noScale steps = true → runD c (some d) steps = some (some df) →
      df.replicas = some r ∧ limitOf df ≤ max (limitOf d) (allowedMax c.rel r steps) := by
  induction steps with
  | nil =>
    intro d df hrep _ hrun
    simp only [runD, Option.some.injEq] at hrun
    subst hrun
    exact ⟨hrep, Int.le_max_left _ _⟩
  | cons s ss ih =>
    intro d df hrep hns hrun
    simp only [noScale, List.all_cons, Bool.and_eq_true] at hns
    obtain ⟨hs, hss⟩ := hns
    have hs' : s.edit.replicas = none := by cases h : s.edit.replicas <;> simp_all
    simp only [runD] at hrun
    cases hst : step c (some d) s with
    | panic => rw [hst] at hrun; cases hrun
    | val o =>
      rw [hst] at hrun
      simp only at hrun
      obtain ⟨d1, hd1, hr1, hl1⟩ := step_limit c d r s o hrep hs' hst
      rw [hd1] at hrun
      obtain ⟨hrf, hlf⟩ := ih d1 df hr1 (by simpa [noScale] using hss) hrun
      refine ⟨hrf, ?_⟩
      simp only [allowedMax]
      omega

/-- **C01 (initialize, then only what the batches allow)** — the brief's scenario at full strength: whatever
    partition an earlier BatchRelease left in the strategy annotation, once a new BatchRelease has successfully
    initialised a Deployment it did not yet control, every later state of every walk allows at most the largest
    planned size among the batches upgraded since — nothing before the first `UpgradeBatch`. -/
theorem initialize_then_within_steps (c : Cfg) (r : Int) (d df : Dep) (s0 : Step) (o0 : StepOut) (rest : List Step)
    (hrep : d.replicas = some r) (hnc : isUnderRolloutControl d = false)
    (hcall : s0.call = .initialize) (h0 : step c (some d) s0 = .val o0) (hok : o0.res = .ok)
    (hns : noScale rest = true) (hrun : runD c o0.dep rest = some (some df)) :
    limitOf df ≤ allowedMax c.rel r rest := by
  have h1 := initialize_exposes_nothing c (some d) s0 o0 hcall h0
  simp only [initExposesNothing, hok, if_true] at h1
  cases hd1 : o0.dep with
  | none => rw [hd1] at h1; simp at h1
  | some d1 =>
    rw [hd1] at h1 hrun
    simp only [hnc, Bool.false_eq_true, if_false, Bool.and_eq_true, beq_iff_eq] at h1
    obtain ⟨⟨⟨_, _⟩, hl⟩, _⟩ := h1
    have hc : s0.call ≠ .submit := by rw [hcall]; decide
    have hfr := step_frame c (some d) s0 o0 h0
    simp only [frame, hc, if_false, hd1, Bool.and_eq_true, beq_iff_eq] at hfr
    obtain ⟨⟨⟨⟨_, hr1⟩, _⟩, _⟩, _⟩ := hfr
    obtain ⟨_, hb⟩ := walk_exposure_bound c r rest d1 df (by rw [hr1, hrep]) hns hrun
    have := allowedMax_nonneg c.rel r rest
    rw [hl] at hb
    omega

/-! ## C05 — the user's strategy survives the round trip -/

theorem stepRU_of_ctrl (u : RU) (s : Step) (hc : s.call ≠ .submit) : stepRU u s = u := by
  simp [stepRU, hc]

/-- one step keeps the invariant -/
theorem step_inv (c : Cfg) (d : Dep) (u : RU) (s : Step) (o : StepOut)
    (hu : ruValid u = true) (hi : Inv d u) (hs : (s.call != .submit || editOK s.edit) = true)
    (h : step c (some d) s = .val o) :
    ∃ d', o.dep = some d' ∧ Inv d' (stepRU u s) ∧ ruValid (stepRU u s) = true := by
  by_cases hc : s.call = .submit
  · have he : editOK s.edit = true := by simpa [hc] using hs
    simp only [step, hc] at h
    cases ha : submit c.world d s.edit with
    | panic => rw [ha] at h; cases h
    | val d' =>
      rw [ha] at h
      simp only [Out.val.injEq] at h
      subst h
      obtain ⟨hin, hun⟩ := inv_applyEdit hu hi he
      have : stepRU u s = editRU u s.edit := by simp [stepRU, hc]
      rw [this]
      exact ⟨d', rfl, inv_webhook rfl hun hin ha, hun⟩
  · rw [stepRU_of_ctrl u s hc]
    rcases ctrl_step_cases c (some d) s o hc h with ⟨_, _, hdep, _⟩ | ⟨_, hd, _⟩ | ⟨d0, r0, hd, _, _, hrest⟩
    · exact ⟨d, hdep, hi, hu⟩
    · cases hd
    · simp only [Option.some.injEq] at hd; subst hd
      rcases hrest with ⟨_, _, hdep, _⟩ | ⟨d', _, _, _, hdep, _⟩ | ⟨d', hsome, _, _, hdep, _⟩
      · exact ⟨d, hdep, hi, hu⟩
      · exact ⟨d, hdep, hi, hu⟩
      · refine ⟨d', hdep, ?_, hu⟩
        cases hcall : s.call
        · simp only [writeOf, hcall] at hsome
          exact inv_initialize hu hi hsome
        · simp only [writeOf, hcall] at hsome
          split at hsome
          · split at hsome
            · cases hsome
            · exact inv_upgrade hi hsome
          · cases hsome
        · simp only [writeOf, hcall] at hsome
          exact (inv_finalize hu hi hsome).1
        · exact absurd hcall hc

/-- every walk keeps the invariant, for the block the user submitted last -/
theorem walk_inv (c : Cfg) (steps : List Step) :
    ∀ (d df : Dep) (u : RU), ruValid u = true → Inv d u → stepsOK steps = true →
      runD c (some d) steps = some (some df) →
      Inv df (trackRU u steps) ∧ ruValid (trackRU u steps) = true := by
  induction steps with
  | nil =>
    intro d df u hu hi _ hrun
    simp only [runD, Option.some.injEq] at hrun
    subst hrun
    exact ⟨hi, hu⟩
  | cons s ss ih =>
    intro d df u hu hi hok hrun
    simp only [stepsOK, List.all_cons, Bool.and_eq_true] at hok
    obtain ⟨hs, hss⟩ := hok
    simp only [runD] at hrun
    cases hst : step c (some d) s with
    | panic => rw [hst] at hrun; cases hrun
    | val o =>
      rw [hst] at hrun
      simp only at hrun
      obtain ⟨d1, hd1, hi1, hu1⟩ := step_inv c d u s o hu hi hs hst
      rw [hd1] at hrun
      exact ih d1 df (stepRU u s) hu1 hi1 (by simpa [stepsOK] using hss) hrun

/-- a Deployment as its user configured it satisfies the invariant -/
theorem userState_inv (d : Dep) (u : RU) (h : userState d u = true) : Inv d u := by
  simp only [userState, userClean, Bool.and_eq_true, beq_iff_eq, Bool.not_eq_true'] at h
  obtain ⟨⟨h1, h2⟩, ⟨⟨⟨⟨h3, h4⟩, h5⟩, h6⟩, h7⟩⟩ := h
  exact ⟨fun _ => ⟨h4, h5, h6, h7⟩, Shape.user h1 h2 h3⟩

/-- **C05 `finalize_restores_user_strategy`** — for every `rollingUpdate` block `u` a user can have (both fields
    set, not both zero), every Deployment configured with it, and **every** finite walk of controller calls
    (`Initialize`, `UpgradeBatch`, `Finalize` with or without `batchPartition`, each with any API fault) and admitted
    user updates (new templates, scaling, re-submitting a RollingUpdate strategy — the latest one counts): if the
    walk is followed by a successful `Finalize(batchPartition = nil)` of a Deployment that carries the control-info
    (`claimed`), the Deployment ends with `strategy = RollingUpdate` + the user's latest block, not paused, and
    without strategy annotation, control-info, control label, extra-status and stable-revision label. -/
theorem finalize_restores_user_strategy (c : Cfg) (d0 dl : Dep) (u : RU) (pre : List Step) (last : Step) (o : StepOut)
    (hu : ruValid u = true) (h0 : userState d0 u = true) (hpre : stepsOK pre = true)
    (hrun : runD c (some d0) pre = some (some dl))
    (hlast : step c (some dl) last = .val o) (hend : endsWithFinalize last o = true)
    (hcl : claimed dl = true) :
    ∃ d', o.dep = some d' ∧ restored d' (trackRU u pre) = true := by
  obtain ⟨hi, hul⟩ := walk_inv c pre d0 dl u hu (userState_inv d0 u h0) hpre hrun
  simp only [endsWithFinalize, Bool.and_eq_true, beq_iff_eq] at hend
  obtain ⟨⟨⟨hcall, hbp⟩, hf⟩, hres⟩ := hend
  have hc : last.call ≠ .submit := by rw [hcall]; decide
  rcases ctrl_step_cases c (some dl) last o hc hlast with ⟨hg, _⟩ | ⟨_, hd, _⟩ | ⟨d1, r1, hd, _, _, hrest⟩
  · rw [hf] at hg; cases hg
  · cases hd
  · simp only [Option.some.injEq] at hd; subst hd
    have hw : writeOf c.rel last dl = ctrlFinalize dl last.bpNil := by simp [writeOf, hcall]
    rw [hw] at hrest
    rcases hrest with ⟨hn, _⟩ | ⟨d', _, hfw, _⟩ | ⟨d', hsome, _, _, hdep, _⟩
    · have := ctrlFinalize_none hn
      rw [hcl] at this; cases this
    · rw [hf] at hfw; cases hfw
    · exact ⟨d', hdep, (inv_finalize hul hi hsome).2 hbp⟩

/-- **C05 (nothing left to restore)** — same walks; if the final `Finalize(batchPartition = nil)` finds the Deployment
    unclaimed, with no parked strategy and not paused, then it is already as the user configured it. -/
theorem finalize_nothing_to_restore (c : Cfg) (d0 dl : Dep) (u : RU) (pre : List Step) (last : Step) (o : StepOut)
    (hu : ruValid u = true) (h0 : userState d0 u = true) (hpre : stepsOK pre = true)
    (hrun : runD c (some d0) pre = some (some dl))
    (hlast : step c (some dl) last = .val o) (hend : endsWithFinalize last o = true)
    (hcl : claimed dl = false) (hpk : parked dl = false) (hpa : dl.paused = false) :
    o.dep = some dl ∧ restored dl (trackRU u pre) = true := by
  obtain ⟨hi, _⟩ := walk_inv c pre d0 dl u hu (userState_inv d0 u h0) hpre hrun
  simp only [endsWithFinalize, Bool.and_eq_true, beq_iff_eq] at hend
  obtain ⟨⟨⟨hcall, _⟩, hf⟩, _⟩ := hend
  have hc : last.call ≠ .submit := by rw [hcall]; decide
  have hr : restored dl (trackRU u pre) = true := by
    obtain ⟨c1, c2, c3, c4⟩ := hi.clean hpa
    rcases hi.shape with ⟨h1, h2, h3⟩ | ⟨s, _, _, h3, _⟩ | ⟨s, _, _, _, h4, _⟩
    · simp [restored, h1, h2, h3, hpa, c1, c2, c3, c4]
    · simp [parked, h3] at hpk
    · simp [parked, h4] at hpk
  refine ⟨?_, hr⟩
  rcases ctrl_step_cases c (some dl) last o hc hlast with ⟨hg, _⟩ | ⟨_, hd, _⟩ | ⟨d1, r1, hd, _, _, hrest⟩
  · rw [hf] at hg; cases hg
  · cases hd
  · simp only [Option.some.injEq] at hd; subst hd
    have hw : writeOf c.rel last dl = ctrlFinalize dl last.bpNil := by simp [writeOf, hcall]
    rw [hw] at hrest
    rcases hrest with ⟨_, _, hdep, _⟩ | ⟨d', _, hfw, _⟩ | ⟨d', hsome, _⟩
    · exact hdep
    · rw [hf] at hfw; cases hfw
    · have := (ctrlFinalize_some hsome).1
      rw [hcl] at this; cases this

/-- **C05 (round trip, as the driver evaluates it)** — `roundTripPartial` holds on every walk of the model: outside
    the two guards (`userRecreate`, `unclaimedFinalize`) the full-strength statement `roundTripFull` is a theorem. -/
theorem round_trip_partial (c : Cfg) (d0 dl : Dep) (pre : List Step) (last : Step) (o : StepOut)
    (hrun : runD c (some d0) pre = some (some dl)) (hlast : step c (some dl) last = .val o) :
    roundTripPartial d0 pre last (some dl) o = true := by
  unfold roundTripPartial
  by_cases g1 : guardUserRecreate d0 = true
  · simp [g1]
  by_cases g2 : guardUnclaimed (some dl) = true
  · simp [g2]
  have g1' : guardUserRecreate d0 = false := by simpa using g1
  have g2' : guardUnclaimed (some dl) = false := by simpa using g2
  simp only [g1', g2', Bool.false_or]
  unfold roundTripFull
  split
  · rename_i hcond
    obtain ⟨hpre, hend, hclean⟩ := hcond
    have hne : d0.stratType ≠ "Recreate" := by simpa [guardUserRecreate] using g1'
    split
    · rename_i u _ d' hst hru _ hod
      split
      · rename_i hu
        have h0 : userState d0 u = true := by simp [userState, hst, hru, hclean]
        by_cases hcl : claimed dl = true
        · obtain ⟨d'', hd'', hres⟩ := finalize_restores_user_strategy c d0 dl u pre last o hu h0 hpre hrun hlast hend hcl
          rw [hod] at hd''; cases hd''; exact hres
        · have hcl' : claimed dl = false := by simpa using hcl
          simp only [guardUnclaimed, hcl', Bool.not_false, Bool.true_and, Bool.or_eq_false_iff] at g2'
          obtain ⟨hpk, hpa⟩ := g2'
          obtain ⟨hdep, hres⟩ := finalize_nothing_to_restore c d0 dl u pre last o hu h0 hpre hrun hlast hend hcl' hpk hpa
          rw [hod] at hdep; cases hdep; exact hres
      · rfl
    · rename_i hst _ _ _
      exact absurd hst hne
    · rfl
  · rfl

/-! ## Known findings: where the full-strength C05 statement is false on the unchanged code -/

def exU : RU := { maxUnavailable := some (int 1), maxSurge := some (pct 30) }
def exU2 : RU := { maxUnavailable := some (pct 10), maxSurge := some (int 2) }

/-- a Deployment as a user configures it -/
def exD : Dep :=
  { replicas := some 10, paused := false, stratType := "RollingUpdate", stratRU := some exU, stratAnno := .absent,
    control := .none, ctrlLabel := false, stableRev := "", extraStatus := false, inProgress := false, tmpl := 1, rest := 0 }

def exCfg : Cfg :=
  { rel := { batches := [pct 20, pct 50, pct 100], rollbackAnno := false, updated := 0 },
    world := { matched := true, rsTmpl := some 1 } }

def mk (c : Call) (b : Int := 0) (bp : Bool := false) (e : Edit := Edit.none) : Step :=
  { call := c, fault := .none, batch := b, bpNil := bp, edit := e }

/-- the Deployment after `Initialize` and a `Finalize` that released only the control-info -/
def exParked : Dep :=
  { exD with paused := true, stratType := "Recreate", ctrlLabel := true,
             stratAnno := .valid { rollingStyle := "Partition", ru := some exU, paused := false, partition := int 0 } }

/-- **finding `unclaimedFinalize` (C05 full strength is FALSE)** — `Initialize`, then a `Finalize` with
    `batchPartition ≠ nil` (the BatchRelease of a superseded release is deleted: only the control-info is dropped),
    then a complete `Finalize(batchPartition = nil)` by a BatchRelease that never initialised: the call returns ok,
    writes nothing, and the Deployment stays paused, `Recreate`, with the strategy annotation and the control label. -/
theorem finalize_restores_user_strategy_full_FALSE_unclaimed :
    runD exCfg (some exD) [mk .initialize, mk .finalize 1 false] = some (some exParked) ∧
    step exCfg (some exParked) (mk .finalize 1 true) = .val { res := .ok, dep := some exParked, writes := 0, obs := none } ∧
    guardUnclaimed (some exParked) = true ∧
    roundTripFull exD [mk .initialize, mk .finalize 1 false] (mk .finalize 1 true) (some exParked)
      { res := .ok, dep := some exParked, writes := 0, obs := none } = false := by
  decide +kernel

/-- a user's Deployment with `strategy.type: Recreate` -/
def exRecreate : Dep := { exD with stratType := "Recreate", stratRU := none }

def exRecreateEnd : Dep :=
  { exRecreate with stratType := "RollingUpdate", stratRU := some { maxUnavailable := some (pct 25), maxSurge := none } }

def exRecreateClaimed : Dep :=
  { exRecreate with
      paused := true, ctrlLabel := true, control := Owner.this,
      stratAnno := .valid { rollingStyle := "Partition", ru := some { maxUnavailable := some (pct 25), maxSurge := none },
                            paused := false, partition := int 0 } }

/-- **finding `userRecreate` (C05 full strength is FALSE)** — a Deployment whose user chose `strategy.type: Recreate`
    comes out of `Initialize ; Finalize(batchPartition = nil)` as `RollingUpdate` with `maxUnavailable: 25%`:
    nothing remembers the original type. -/
theorem finalize_restores_user_strategy_full_FALSE_recreate :
    runD exCfg (some exRecreate) [mk .initialize, mk .finalize 0 true] = some (some exRecreateEnd) ∧
    guardUserRecreate exRecreate = true ∧
    (∃ dl o, runD exCfg (some exRecreate) [mk .initialize] = some (some dl) ∧
       step exCfg (some dl) (mk .finalize 0 true) = .val o ∧
       roundTripFull exRecreate [mk .initialize] (mk .finalize 0 true) (some dl) o = false) := by
  refine ⟨by decide +kernel, by decide +kernel, ?_⟩
  refine ⟨exRecreateClaimed, { res := .ok, dep := some exRecreateEnd, writes := 1, obs := none }, ?_⟩
  decide +kernel

/-- **C06 (a call that returns ok has its effect)** — after a successful `Initialize` the Deployment is under rollout
    control (paused, `Recreate`, control-info present); after a successful `Finalize` of a paused Deployment the
    control-info is gone and, with `batchPartition = nil`, so are the strategy annotation and the pause — except in
    the region of the open finding `unclaimedFinalize` (complete `Finalize`, no control-info, yet paused or parked),
    where the full statement is false (`ok_has_effect_full_FALSE`).  (`UpgradeBatch`: `upgradeBatch_suffices`.) -/
theorem ok_has_effect_partial (c : Cfg) (d : Option Dep) (s : Step) (o : StepOut) (h : step c d s = .val o) :
    okHasEffectPartial s d o = true := by
  unfold okHasEffectPartial
  by_cases hg : guardUnclaimedStep s d = true
  · simp [hg]
  have hg' : guardUnclaimedStep s d = false := by simpa using hg
  simp only [hg', Bool.false_or]
  unfold okHasEffect
  split
  · rename_i hok
    cases hcall : s.call
    · have hc : s.call ≠ .submit := by rw [hcall]; decide
      rcases ctrl_step_cases c d s o hc h with ⟨_, hr, _⟩ | ⟨_, _, _, _, hr⟩ | ⟨d0, r, hd, _, _, hrest⟩
      · rw [hr] at hok; cases hok
      · have := hr.mp hok; rw [hcall] at this; cases this
      · subst hd
        have hw : writeOf c.rel s d0 = ctrlInitialize d0 := by simp [writeOf, hcall]
        rw [hw] at hrest
        rcases hrest with ⟨hn, _, hdep, _⟩ | ⟨d', _, _, hres, _⟩ | ⟨d', hsome, _, _, hdep, _⟩
        · simp [hdep, ctrlInitialize_none hn]
        · rw [hres] at hok; cases hok
        · obtain ⟨_, hd'⟩ := ctrlInitialize_some hsome
          subst hd'
          simp [hdep, isUnderRolloutControl]
    · cases d <;> cases o.dep <;> rfl
    · have hc : s.call ≠ .submit := by rw [hcall]; decide
      rcases ctrl_step_cases c d s o hc h with ⟨_, hr, _⟩ | ⟨_, hd, hdep, _⟩ | ⟨d0, r, hd, _, _, hrest⟩
      · rw [hr] at hok; cases hok
      · subst hd; simp [hdep]
      · subst hd
        have hw : writeOf c.rel s d0 = ctrlFinalize d0 s.bpNil := by simp [writeOf, hcall]
        rw [hw] at hrest
        rcases hrest with ⟨hn, _, hdep, _⟩ | ⟨d', _, _, hres, _⟩ | ⟨d', hsome, _, _, hdep, _⟩
        · -- nothing written: the Deployment is not claimed
          have hcl := ctrlFinalize_none hn
          simp only [hdep]
          cases hpa : d0.paused
          · simp
          · simp only [if_true]
            have hcn : d0.control = .none := by
              simp only [claimed, hpa, Bool.and_true, bne_eq_false_iff_eq] at hcl; exact hcl
            have hbp : s.bpNil = false := by
              cases hb : s.bpNil
              · rfl
              · simp [guardUnclaimedStep, hcall, hb, guardUnclaimed, hcl, hpa] at hg'
            simp [hcn, hbp]
        · rw [hres] at hok; cases hok
        · obtain ⟨hcl, hd'⟩ := ctrlFinalize_some hsome
          have hpa : d0.paused = true := by
            simp only [claimed, Bool.and_eq_true] at hcl; exact hcl.2
          subst hd'
          simp only [hdep, hpa, if_true]
          unfold finalized
          cases s.bpNil <;> simp [released]
    · cases d <;> cases o.dep <;> rfl
  · rfl

/-- **finding `unclaimedFinalize`, step form (C06 full strength is FALSE)** — a complete `Finalize` of the parked
    but unclaimed Deployment returns ok and has no effect at all. -/
theorem ok_has_effect_full_FALSE :
    step exCfg (some exParked) (mk .finalize 1 true) = .val { res := .ok, dep := some exParked, writes := 0, obs := none } ∧
    guardUnclaimedStep (mk .finalize 1 true) (some exParked) = true ∧
    okHasEffect (mk .finalize 1 true) (some exParked) { res := .ok, dep := some exParked, writes := 0, obs := none } = false := by
  decide +kernel

/-! ## non-vacuity (tests on literals, not the ∀ claims) -/

/-- the hypotheses of `finalize_restores_user_strategy` are satisfiable by a real life cycle: new template admitted,
    claimed, two batches, the user re-applies the manifest with another block, complete finalize -/
example :
    ruValid exU = true ∧ userState exD exU = true ∧
    (let pre := [mk .submit 0 false { Edit.none with tmpl := some 2 }, mk .initialize, mk .upgradeBatch 0,
                 mk .submit 0 false { Edit.none with strat := some ("RollingUpdate", some exU2) }, mk .upgradeBatch 1];
     stepsOK pre = true ∧ trackRU exU pre = exU2 ∧
     (match runD exCfg (some exD) pre with
      | some (some dl) =>
        claimed dl && limitOf dl == 5 &&
        (match step exCfg (some dl) (mk .finalize 1 true) with
         | .val o => (match o.dep with
                      | some d' => restored d' exU2
                      | none => false)
         | .panic => false)
      | _ => false) = true) := by
  decide +kernel

/-- a Deployment that still carries an earlier release's annotation at 50 % (its control-info was dropped) -/
def exStale : Dep :=
  { exParked with
      stratAnno := .valid { rollingStyle := "Partition", ru := some exU, paused := true, partition := pct 50 } }

/-- `initialize_exposes_nothing` is not vacuous: the stale 50 % partition (limit 5) is reset to 0 by one write -/
example :
    limitOf exStale = 5 ∧ isUnderRolloutControl exStale = false ∧
    (match step exCfg (some exStale) (mk .initialize) with
     | .val o => (match o.dep with
                  | some d' => limitOf d' == 0 && o.writes == 1
                  | none => false)
     | .panic => false) = true := by
  decide +kernel

end RV.Props.CtlPDeploy
