/-
  C19 — rollouts are isolated from each other: the theorems.

  Subject: the process-wide helpers all rollouts of one controller process share (`RV/Model/Isolation.lean`):
  the grace expectation map, the resource expectation map, the dynamic watch registry, and the derivation
  of the keys under which every call site of `pkg/trafficrouting/manager.go` and of the BatchRelease
  canary-style Deployment control uses them.

  What is proved (all quantifiers unbounded: any store, any trace, any number of rollouts):
    frame         an operation leaves everything under a key it does not name unchanged, so it does not
                  change the result of any later operation on another key
    commute       operations on different keys commute (same store contents, same results)
    interleave    in any trace in which the rollouts use disjoint keys, each rollout observes exactly what
                  it observes when it runs alone — for the raw grace operations, for the Manager calls,
                  for the resource expectations and the BatchRelease call sites
    keys          the keys of rollouts that are about different objects are disjoint at every call site;
                  a key taken from a locally built (un-fetched) object makes this impossible
  What is *not* a theorem here: freedom from data races (runtime behaviour; `tools/race_isolation.sh`).
-/
import RV.Model.Isolation
import RV.Model.Traffic
import RV.Oracle.Isolation
import RV.Lemmas.Isolation
set_option linter.unusedSimpArgs false
set_option linter.unusedVariables false
namespace RV.Props.Isolation
open RV.Isolation RV.Oracle.Isolation

/-! ## (a) frame -/

/-- **frame, grace map**: an operation on controller key `k` leaves the entry of every other key as it was -/
theorem op_frame (now : Nat) (g : Grace) (o : GOp) (k' : String) (h : k' ≠ o.key) :
    aget (Grace.apply now g o).1 k' = aget g k' :=
  Grace.local.frame now g o k' (by simpa using h)

/-- … hence the result of any operation on another key (`SatisfiedExpectations`, `RunWithGraceSeconds`, …)
    is the same before and after -/
theorem op_frame_obs (now now' : Nat) (g : Grace) (o q : GOp) (h : q.key ≠ o.key) :
    (Grace.apply now' (Grace.apply now g o).1 q).2 = (Grace.apply now' g q).2 := by
  have hout := Grace.local.out (fun x => x == q.key) now g o (by simpa using fun e => h e.symm)
  exact (Grace.local.obs_local (fun x => x == q.key) now' _ _ q (by simp) hout).1

/-- the recorded time of `(key, action)` -/
def lookup2 (g : Grace) (key action : String) : Option Nat := (aget g key).bind (fun e => aget e action)

theorem adel_nil_aget {β : Type} (e : AMap β) (a a' : String) (h : (adel e a).isEmpty = true) (hne : a' ≠ a) :
    aget e a' = none := by
  rw [← aget_adel_ne e a a' hne]
  have : adel e a = [] := List.isEmpty_iff.mp h
  rw [this]; rfl

/-- **frame inside one key**: `RunWithGraceSeconds` for action `a` leaves the record of every other action
    of the same controller key as it was (a rollout's `restoreGateway` wait is not disturbed by its `updateRoute`) -/
theorem action_frame (g : Grace) (now : Nat) (k a a' : String) (gr : Int) (md er : Bool) (h : a' ≠ a) :
    lookup2 (runWithGraceSeconds g now k a gr md er).1 k a' = lookup2 g k a' := by
  have hobs : lookup2 (g.observe k a) k a' = lookup2 g k a' := by
    unfold Grace.observe lookup2
    cases hg : aget g k with
    | none => simp [hg]
    | some e =>
      dsimp only
      by_cases he : (adel e a).isEmpty = true
      · simp [he, aget_adel_same, adel_nil_aget e a a' he h]
      · simp [he, aget_aset_same, aget_adel_ne e a a' h]
  have hexp : lookup2 (g.expect now k a) k a' = lookup2 g k a' := by
    unfold Grace.expect lookup2
    cases hg : aget g k with
    | none => simp [aget_aset_same, aget_aset_ne, h, aget]
    | some e => simp [aget_aset_same, aget_aset_ne _ a a' now h]
  unfold runWithGraceSeconds
  by_cases h1 : er = true
  · simp [h1]
  · by_cases h2 : gr = 0
    · simp [h1, h2, hobs]
    · by_cases h3 : md = true
      · simp [h1, h2, h3, hexp]
      · by_cases h4 : (g.satisfied now k a gr).1 = true
        · simp [h1, h2, h3, h4, hobs]
        · simp [h1, h2, h3, h4]

/-- a failed closure is reported as retry-with-error and leaves the map untouched -/
theorem closure_error_reported (g : Grace) (now : Nat) (k a : String) (gr : Int) (md : Bool) :
    runWithGraceSeconds g now k a gr md true = (g, ⟨true, 0, true⟩) ∧
    errorReported true (runWithGraceSeconds g now k a gr md true).2.retry (runWithGraceSeconds g now k a gr md true).2.err = true := by
  simp [runWithGraceSeconds, errorReported]

/-- **frame, resource expectations** (incl. the two BatchRelease call sites) -/
theorem exp_frame (now : Nat) (st : ExpStore) (o : EOp) (k' : String) (h : k' ∉ o.keys) :
    aget (ExpStore.apply now st o).1 k' = aget st k' :=
  ExpStore.local.frame now st o k' h

/-- **frame, Manager calls**: a call leaves every grace entry under a key other than its `graceKey` as it was -/
theorem manager_frame (now : Nat) (g : Grace) (o : MOp) (k' : String) (h : k' ∉ o.keys) :
    aget (MOp.apply now g o).1 k' = aget g k' :=
  MOp.local.frame now g o k' h

/-! ## (b) commutation -/

/-- **commutation**: two operations on different keys give the same results and the same store contents
    in either order -/
theorem op_commute (now : Nat) (g : Grace) (o₁ o₂ : GOp) (h : o₁.key ≠ o₂.key) :
    (Grace.apply now (Grace.apply now g o₂).1 o₁).2 = (Grace.apply now g o₁).2 ∧
    (Grace.apply now (Grace.apply now g o₁).1 o₂).2 = (Grace.apply now g o₂).2 ∧
    ∀ k, aget (Grace.apply now (Grace.apply now g o₁).1 o₂).1 k = aget (Grace.apply now (Grace.apply now g o₂).1 o₁).1 k := by
  refine ⟨op_frame_obs now now g o₂ o₁ h, op_frame_obs now now g o₁ o₂ (Ne.symm h), ?_⟩
  intro k
  apply aget_eq_of_restrict_eq
  let p : String → Bool := fun x => x == k
  by_cases h1 : k = o₁.key
  · -- `k` is `o₁`'s key: `o₂` is outside
    have hp1 : ([o₁.key]).all p = true := by simp [p, h1]
    have hp2 : ([o₂.key]).all (fun x => !p x) = true := by simp [p, h1]; exact fun e => h e.symm
    rw [Grace.local.out p now _ o₂ hp2]
    have hout := Grace.local.out p now g o₂ hp2
    exact ((Grace.local.obs_local p now _ _ o₁ hp1 hout).2).symm
  · by_cases h2 : k = o₂.key
    · have hp2 : ([o₂.key]).all p = true := by simp [p, h2]
      have hp1 : ([o₁.key]).all (fun x => !p x) = true := by simp [p, h2]; exact h
      rw [Grace.local.out p now (Grace.apply now g o₂).1 o₁ hp1]
      have hout := Grace.local.out p now g o₁ hp1
      exact (Grace.local.obs_local p now _ _ o₂ hp2 hout).2
    · have hp1 : ([o₁.key]).all (fun x => !p x) = true := by simp [p]; exact fun e => h1 e.symm
      have hp2 : ([o₂.key]).all (fun x => !p x) = true := by simp [p]; exact fun e => h2 e.symm
      rw [Grace.local.out p now _ o₂ hp2, Grace.local.out p now g o₁ hp1,
          Grace.local.out p now _ o₁ hp1, Grace.local.out p now g o₂ hp2]

/-! ## (c) interleavings -/

/-- **interleave_solo (grace map, any number of rollouts)**: in a trace of the whole process in which
    rollout `r`'s operations use only keys selected by `p` and no other rollout's operation uses such a key,
    `r` observes exactly what it observes when it runs alone on its part of the map (with the same clock
    ticks and the same runs of the cleaner), and its part of the map ends up the same -/
theorem interleave_solo (p : String → Bool) (r : Nat) (tr : List (Ev GOp)) (now : Nat) (g : Grace)
    (h : sepFor (fun o : GOp => [o.key]) p r tr = true) :
    sameAsSolo r (Grace.run (now, g) tr).2 (Grace.run (now, restrict p g) (proj r tr)).2 = true ∧
    restrict p (Grace.run (now, g) tr).1.2 = (Grace.run (now, restrict p g) (proj r tr)).1.2 := by
  have := run_restrict Grace.local Grace.globLocal p r tr (now, g) h
  exact ⟨by simp [sameAsSolo, Grace.run, this.2.2], this.2.1⟩

/-- **interleave_solo for Manager calls** (`RouteAllTrafficToNewVersion`, `RestoreGateway`,
    `RemoveCanaryService`, `PatchStableService`, `RestoreStableService`, `FinalisingTrafficRouting`) -/
theorem manager_interleave_solo (p : String → Bool) (r : Nat) (tr : List (Ev MOp)) (now : Nat) (g : Grace)
    (h : sepFor MOp.keys p r tr = true) :
    sameAsSolo r (Grace.runM (now, g) tr).2 (Grace.runM (now, restrict p g) (proj r tr)).2 = true ∧
    restrict p (Grace.runM (now, g) tr).1.2 = (Grace.runM (now, restrict p g) (proj r tr)).1.2 := by
  have := run_restrict MOp.local Grace.globLocal p r tr (now, g) h
  exact ⟨by simp [sameAsSolo, Grace.runM, this.2.2], this.2.1⟩

/-- **interleave_solo for the resource expectations** and their BatchRelease call sites
    (`realCanaryController.Create`, `expectationObserved`) -/
theorem exp_interleave_solo (p : String → Bool) (r : Nat) (tr : List (Ev EOp)) (now : Nat) (st : ExpStore)
    (h : sepFor EOp.keys p r tr = true) :
    sameAsSolo r (ExpStore.run (now, st) tr).2 (ExpStore.run (now, restrict p st) (proj r tr)).2 = true ∧
    restrict p (ExpStore.run (now, st) tr).1.2 = (ExpStore.run (now, restrict p st) (proj r tr)).1.2 := by
  have := run_restrict ExpStore.local ExpStore.globLocal p r tr (now, st) h
  exact ⟨by simp [sameAsSolo, ExpStore.run, this.2.2], this.2.1⟩

/-- `zs` is an interleaving of `xs` and `ys` -/
inductive Interleave {α : Type} : List α → List α → List α → Prop where
  | nil : Interleave [] [] []
  | left {x xs ys zs} : Interleave xs ys zs → Interleave (x :: xs) ys (x :: zs)
  | right {y xs ys zs} : Interleave xs ys zs → Interleave xs (y :: ys) (y :: zs)

/-- the operation sequence `ops` performed by rollout `r` -/
def asEvents {Op : Type} (r : Nat) (ops : List Op) : List (Ev Op) := ops.map (Ev.op r)

theorem proj_interleave {Op : Type} (xs ys : List Op) (zs : List (Ev Op))
    (h : Interleave (asEvents 1 xs) (asEvents 2 ys) zs) : proj 1 zs = asEvents 1 xs := by
  generalize hx : asEvents 1 xs = ex at h
  generalize hy : asEvents 2 ys = ey at h
  induction h generalizing xs ys with
  | nil => rfl
  | left hh ih =>
    cases xs with
    | nil => cases hx
    | cons x xs' =>
      simp only [asEvents, List.map_cons, List.cons.injEq] at hx
      rw [← hx.1, proj_cons_own, ih xs' ys hx.2 hy]
  | right hh ih =>
    cases ys with
    | nil => cases hy
    | cons y ys' =>
      simp only [asEvents, List.map_cons, List.cons.injEq] at hy
      rw [← hy.1, proj_cons_other 1 2 y _ (by decide), ih xs ys' hx hy.2]

theorem sepFor_interleave {Op : Type} (keys : Op → List String) (p : String → Bool) (xs ys : List Op)
    (zs : List (Ev Op)) (h : Interleave (asEvents 1 xs) (asEvents 2 ys) zs)
    (hx : ∀ o ∈ xs, (keys o).all p = true) (hy : ∀ o ∈ ys, (keys o).all (fun k => !p k) = true) :
    sepFor keys p 1 zs = true := by
  generalize hxe : asEvents 1 xs = ex at h
  generalize hye : asEvents 2 ys = ey at h
  induction h generalizing xs ys with
  | nil => rfl
  | left hh ih =>
    cases xs with
    | nil => cases hxe
    | cons x xs' =>
      simp only [asEvents, List.map_cons, List.cons.injEq] at hxe
      have := ih xs' ys (fun o ho => hx o (List.mem_cons_of_mem _ ho)) hy hxe.2 hye
      simp only [sepFor, List.all_cons, Bool.and_eq_true] at this ⊢
      refine ⟨?_, this⟩
      rw [← hxe.1]; simpa using hx x (List.mem_cons_self ..)
  | right hh ih =>
    cases ys with
    | nil => cases hye
    | cons y ys' =>
      simp only [asEvents, List.map_cons, List.cons.injEq] at hye
      have := ih xs ys' hx (fun o ho => hy o (List.mem_cons_of_mem _ ho)) hxe hye.2
      simp only [sepFor, List.all_cons, Bool.and_eq_true] at this ⊢
      refine ⟨?_, this⟩
      rw [← hye.1]; simpa using hy y (List.mem_cons_self ..)

/-- **interleave_solo, two rollouts** (by induction over the interleaving): if rollout 1's Manager calls `xs`
    use only keys selected by `p` and rollout 2's calls `ys` use none of them, then in *every* interleaving
    `zs` of the two sequences rollout 1 gets the results of running `xs` alone -/
theorem interleave_two (p : String → Bool) (xs ys : List MOp) (zs : List (Ev MOp)) (now : Nat) (g : Grace)
    (h : Interleave (asEvents 1 xs) (asEvents 2 ys) zs)
    (hx : ∀ o ∈ xs, (o.keys).all p = true) (hy : ∀ o ∈ ys, (o.keys).all (fun k => !p k) = true) :
    obsOf 1 (Grace.runM (now, g) zs).2 = (Grace.runM (now, restrict p g) (asEvents 1 xs)).2.map (·.2) := by
  have hs := sepFor_interleave MOp.keys p xs ys zs h hx hy
  have := run_restrict MOp.local Grace.globLocal p 1 zs (now, g) hs
  have hp := proj_interleave xs ys zs h
  unfold Grace.runM
  rw [this.2.2, ← hp]
  exact obsOf_proj_all 1 zs _

/-! ## (d) keys -/

theorem toList_nsName (ns n : String) : (nsName ns n).toList = ns.toList ++ '/' :: n.toList := by
  unfold nsName
  rw [String.toList_append, String.toList_append]
  simp

theorem list_split_unique {α : Type} [DecidableEq α] (c : α) :
    ∀ (l₁ l₂ r₁ r₂ : List α), c ∉ l₁ → c ∉ l₂ → l₁ ++ c :: r₁ = l₂ ++ c :: r₂ → l₁ = l₂ ∧ r₁ = r₂ := by
  intro l₁
  induction l₁ with
  | nil =>
    intro l₂ r₁ r₂ _ h2 h
    cases l₂ with
    | nil => simp at h; exact ⟨rfl, h⟩
    | cons b l₂' =>
      simp only [List.nil_append, List.cons_append, List.cons.injEq] at h
      exact absurd (h.1 ▸ List.mem_cons_self ..) h2
  | cons a l₁' ih =>
    intro l₂ r₁ r₂ h1 h2 h
    cases l₂ with
    | nil =>
      simp only [List.nil_append, List.cons_append, List.cons.injEq] at h
      exact absurd (h.1 ▸ List.mem_cons_self ..) h1
    | cons b l₂' =>
      simp only [List.cons_append, List.cons.injEq] at h
      have := ih l₂' r₁ r₂ (fun m => h1 (List.mem_cons_of_mem _ m)) (fun m => h2 (List.mem_cons_of_mem _ m)) h.2
      exact ⟨by rw [h.1, this.1], this.2⟩

theorem noSlash_iff (s : String) : noSlash s = true ↔ '/' ∉ s.toList := by
  simp [noSlash]

/-- `types.NamespacedName.String()` is injective on namespaces without '/' -/
theorem nsName_injective (ns₁ n₁ ns₂ n₂ : String) (h₁ : noSlash ns₁ = true) (h₂ : noSlash ns₂ = true)
    (h : nsName ns₁ n₁ = nsName ns₂ n₂) : ns₁ = ns₂ ∧ n₁ = n₂ := by
  have hl := congrArg String.toList h
  rw [toList_nsName, toList_nsName] at hl
  have := list_split_unique '/' _ _ _ _ ((noSlash_iff _).mp h₁) ((noSlash_iff _).mp h₂) hl
  exact ⟨String.toList_inj.mp this.1, String.toList_inj.mp this.2⟩

/-- a string without '/' is never a namespaced name -/
theorem noSlash_ne_nsName (u ns n : String) (h : noSlash u = true) : u ≠ nsName ns n := by
  intro e
  have := (noSlash_iff u).mp h
  rw [e, toList_nsName] at this
  exact this (by simp)

theorem canaryName_injective (s₁ s₂ : String) (h : s₁ ++ "-canary" = s₂ ++ "-canary") : s₁ = s₂ := by
  have hl := congrArg String.toList h
  rw [String.toList_append, String.toList_append] at hl
  exact String.toList_inj.mp (List.append_cancel_right hl)

/-- the identity a call's key stands for: the UID of an object, or the namespaced name of the canary Service -/
inductive Ident where
  | uid (u : String)
  | named (ns name : String)
  deriving DecidableEq, Repr

def identOf (x : MCall) : Option Ident :=
  match x.graceKey with
  | none => none
  | some _ =>
    match x.site with
    | .updateRoute | .restoreGateway => some (.uid x.c.ownerUID)
    | .removeCanaryService =>
      match x.c.refs with
      | [] => none
      | r :: _ => some (.named x.c.ns (getCanaryServiceName r.service x.c.onlyTrafficRouting x.c.disableGen))
    | .patchService | .restoreService =>
      match x.stable with
      | .ok o => some (.uid o.uid)
      | _ => none

theorem action_injective (s₁ s₂ : Site) (h : s₁.action = s₂.action) : s₁ = s₂ := by
  cases s₁ <;> cases s₂ <;> first | rfl | (exact absurd h (by decide))

/-- the identity that key `k` stands for at the site of `x` -/
def keyIdent (x : MCall) (k : String) : Ident :=
  match x.site, x.c.refs with
  | .removeCanaryService, r :: _ => .named x.c.ns (getCanaryServiceName r.service x.c.onlyTrafficRouting x.c.disableGen)
  | _, _ => .uid k

theorem graceKey_spec (x : MCall) (k a : String) (h : x.graceKey = some (k, a)) :
    a = x.site.action ∧ identOf x = some (keyIdent x k) ∧
    (x.site = .removeCanaryService → ∀ r rs, x.c.refs = r :: rs →
      k = nsName x.c.ns (getCanaryServiceName r.service x.c.onlyTrafficRouting x.c.disableGen)) := by
  unfold identOf keyIdent
  rw [h]
  unfold MCall.graceKey at h
  cases hr : x.c.refs with
  | nil => rw [hr] at h; cases h
  | cons r0 rs0 =>
    rw [hr] at h
    cases hs : x.site <;> rw [hs] at h <;> dsimp only at h ⊢
    · split at h <;> simp_all
    · split at h <;> simp_all
    · split at h <;> simp_all
    · split at h
      · cases h
      · cases hst : x.stable <;> rw [hst] at h <;> simp_all
    · cases hst : x.stable <;> rw [hst] at h <;> simp_all

/-- **keys_injective**: at every call site, two calls that use the same `(key, action)` of the grace map are
    the same site and stand for the same object: the same owner UID, the same stable Service UID, or the same
    (namespace, canary Service name) -/
theorem keys_injective (x y : MCall) (kx ky : String × String)
    (hx : x.graceKey = some kx) (hy : y.graceKey = some ky)
    (hnx : noSlash x.c.ns = true) (hny : noSlash y.c.ns = true) (h : kx = ky) :
    x.site = y.site ∧ identOf x = identOf y := by
  subst h
  obtain ⟨k, a⟩ := kx
  have sx := graceKey_spec x k a hx
  have sy := graceKey_spec y k a hy
  have hs : x.site = y.site := action_injective _ _ (sx.1.symm.trans sy.1)
  refine ⟨hs, ?_⟩
  rw [sx.2.1, sy.2.1]
  congr 1
  by_cases hc : x.site = .removeCanaryService
  · have hcy : y.site = .removeCanaryService := hs ▸ hc
    unfold MCall.graceKey at hx hy
    cases hrx : x.c.refs with
    | nil => rw [hrx] at hx; cases hx
    | cons rx rsx =>
      cases hry : y.c.refs with
      | nil => rw [hry] at hy; cases hy
      | cons ry rsy =>
        have e1 := sx.2.2 hc rx rsx hrx
        have e2 := sy.2.2 hcy ry rsy hry
        have := nsName_injective _ _ _ _ hnx hny (e1.symm.trans e2)
        unfold keyIdent
        rw [hc, hcy, hrx, hry]
        simp only [this.1, this.2]
  · have hcy : y.site ≠ .removeCanaryService := hs ▸ hc
    unfold keyIdent
    cases hsx : x.site <;> cases hsy : y.site <;> simp_all

/-- **frame at (key, action) level for Manager calls**: a call changes no record whose action is not its own -/
theorem manager_action_frame (g : Grace) (now : Nat) (x : MCall) (k' a' : String) (h : a' ≠ x.site.action) :
    lookup2 (managerCall g now x).1 k' a' = lookup2 g k' a' := by
  cases hk : x.graceKey with
  | none => rw [managerCall_none g now x hk]
  | some ka =>
    obtain ⟨k, a⟩ := ka
    have ha := (graceKey_spec x k a hk).1
    rw [managerCall_some g now x k a hk]
    by_cases hkk : k' = k
    · subst hkk
      exact action_frame g now k' a a' _ _ _ (ha ▸ h)
    · have := (runWithGraceSeconds_out (fun z => z == k') g now k a (getGraceSeconds x.c.refs x.defaultGrace) x.cl.modified x.cl.err
        (by simpa using fun e => hkk e.symm))
      unfold lookup2
      rw [aget_eq_of_restrict_eq _ _ k' this]

/-- the keys of a call made for rollout `a` are among `a.keys` -/
theorem keys_of_call (a : RIdent) (x : MCall) (h : callOf a x = true) :
    ∀ k ∈ (x.graceKey.map (·.1)).toList, k ∈ a.keys := by
  intro k hk
  simp only [callOf, Bool.and_eq_true, beq_iff_eq] at h
  unfold MCall.graceKey at hk
  cases hr : x.c.refs with
  | nil => rw [hr] at hk; simp at hk
  | cons r0 rs =>
    rw [hr] at hk h
    cases hs : x.site <;> rw [hs] at hk <;> dsimp only at hk h
    all_goals first
      | (split at hk <;> simp_all [RIdent.keys, getCanaryServiceName] <;> done)
      | (split at hk <;> (try split at hk) <;> simp_all [RIdent.keys, getCanaryServiceName] <;> done)
      | (cases hst : x.stable <;> simp_all [RIdent.keys] <;> done)

/-- **keys of different rollouts are disjoint**: if the two rollouts are about different objects, no
    controller key of one is a controller key of the other -/
theorem keys_disjoint (a b : RIdent) (ha : a.wf = true) (hb : b.wf = true) (hd : a.distinct b = true) :
    ∀ k ∈ a.keys, k ∉ b.keys := by
  simp only [RIdent.wf, Bool.and_eq_true] at ha hb
  simp only [RIdent.distinct, Bool.and_eq_true, bne_iff_ne, ne_eq, Bool.not_eq_true', Bool.and_eq_false_iff,
    beq_eq_false_iff_ne] at hd
  obtain ⟨⟨⟨⟨d1, d2⟩, d3⟩, d4⟩, d5⟩ := hd
  intro k hk hk'
  simp only [RIdent.keys, List.mem_cons, List.mem_nil_iff, or_false] at hk hk'
  have n1 := noSlash_ne_nsName a.ownerUID b.ns (b.svc ++ "-canary") ha.1.1
  have n2 := noSlash_ne_nsName a.svcUID b.ns (b.svc ++ "-canary") ha.1.2
  have n3 := noSlash_ne_nsName b.ownerUID a.ns (a.svc ++ "-canary") hb.1.1
  have n4 := noSlash_ne_nsName b.svcUID a.ns (a.svc ++ "-canary") hb.1.2
  rcases hk with rfl | rfl | rfl <;> rcases hk' with e | e | e
  · exact d1 e
  · exact d2 e
  · exact n1 e
  · exact d3 e
  · exact d4 e
  · exact n2 e
  · exact n3 e.symm
  · exact n4 e.symm
  · have := nsName_injective _ _ _ _ ha.2 hb.2 e
    have hsvc := canaryName_injective _ _ this.2
    rcases d5 with d | d
    · exact d this.1
    · exact d hsvc

/-- … which an object that was never fetched cannot satisfy: built locally, every rollout's stable Service
    has the same (empty) UID, and the `patchService` keys of any two rollouts coincide -/
theorem unfetched_never_distinct (a b : RIdent) (ns₁ n₁ ns₂ n₂ : String) :
    ({ a with svcUID := (Obj.built ns₁ n₁).uid } : RIdent).distinct { b with svcUID := (Obj.built ns₂ n₂).uid } = false := by
  simp [RIdent.distinct, Obj.built]

theorem unfetched_keys_collide (x y : MCall) (rx ry : Ref) (rsx rsy : List Ref) (ns₁ n₁ ns₂ n₂ : String)
    (hx : x.c.refs = rx :: rsx) (hy : y.c.refs = ry :: rsy)
    (hsx : x.site = .patchService) (hsy : y.site = .patchService)
    (hgx : (x.c.onlyTrafficRouting || x.c.disableGen) = false) (hgy : (y.c.onlyTrafficRouting || y.c.disableGen) = false)
    (hbx : x.stable = .ok (Obj.built ns₁ n₁)) (hby : y.stable = .ok (Obj.built ns₂ n₂)) :
    x.graceKey = y.graceKey := by
  unfold MCall.graceKey
  rw [hx, hy, hsx, hsy, hbx, hby]
  simp [hgx, hgy, Obj.built, Site.action]

theorem mem_of_lookup {β : Type} : ∀ (l : List (Nat × β)) (k : Nat) (v : β), l.lookup k = some v → (k, v) ∈ l := by
  intro l
  induction l with
  | nil => intro k v h; cases h
  | cons e es ih =>
    intro k v h
    obtain ⟨k', v'⟩ := e
    simp only [List.lookup] at h
    by_cases hk : k = k'
    · subst hk; simp at h; subst h; exact List.mem_cons_self ..
    · have : (k == k') = false := by simpa using hk
      rw [this] at h
      exact List.mem_cons_of_mem _ (ih k v h)

/-- membership test for a rollout's keys -/
def inKeys (a : RIdent) : String → Bool := fun k => a.keys.contains k

/-- **the separation the interleaving theorem needs follows from the objects being different**: in a trace in
    which every Manager call is made for the rollout that owns it, and the rollouts are pairwise about
    different objects, rollout `r`'s calls use only `r`'s keys and nobody else's call uses one of them -/
theorem sep_of_distinct (ids : List (Nat × RIdent)) (r : Nat) (a : RIdent) (tr : List (Ev MOp))
    (hr : ids.lookup r = some a) (hall : allDistinct ids = true) (htr : traceOf ids tr = true) :
    sepFor MOp.keys (inKeys a) r tr = true := by
  simp only [sepFor, List.all_eq_true]
  intro e he
  have hte := (List.all_eq_true.mp htr) e he
  cases e with
  | tick d => rfl
  | glob x => rfl
  | op r' o =>
    dsimp only at hte ⊢
    cases hl : ids.lookup r' with
    | none => rw [hl] at hte; cases hte
    | some b =>
      rw [hl] at hte
      dsimp only at hte
      -- the keys of `o` are among `b.keys`
      have hkb : ∀ k ∈ o.keys, k ∈ b.keys := by
        intro k hk
        cases o with
        | call x => exact keys_of_call b x hte k (by simpa [MOp.keys] using hk)
        | finalising x y z =>
          simp only [opOf, Bool.and_eq_true] at hte
          simp only [MOp.keys, List.mem_append] at hk
          rcases hk with (hk | hk) | hk
          · exact keys_of_call b x hte.1.1 k hk
          · exact keys_of_call b y hte.1.2 k hk
          · exact keys_of_call b z hte.2 k hk
      by_cases hrr : r' = r
      · subst hrr
        rw [hr] at hl; cases hl
        simp only [if_true, List.all_eq_true]
        intro k hk
        simpa [inKeys] using hkb k hk
      · simp only [hrr, if_false, List.all_eq_true]
        intro k hk
        have hma := mem_of_lookup ids r a hr
        have hmb := mem_of_lookup ids r' b hl
        have hA := (List.all_eq_true.mp hall) (r, a) hma
        have hB := (List.all_eq_true.mp hall) (r', b) hmb
        simp only [Bool.and_eq_true] at hA hB
        have hab := (List.all_eq_true.mp hA.2) (r', b) hmb
        have hne : (r == r') = false := by simpa using fun e => hrr e.symm
        simp only [hne, Bool.false_or] at hab
        have := keys_disjoint a b hA.1 hB.1 hab
        have hkn : k ∉ a.keys := fun hka => this k hka (hkb k hk)
        simpa [inKeys] using hkn

/-- **C19, Manager calls — headline**: for any number of rollouts that are pairwise about different objects
    (different Rollout/TrafficRouting UIDs, different stable Service UIDs, different namespace/Service name),
    any trace of the whole process (any interleaving of their grace-using Manager calls, clock ticks, cleaner
    runs), any initial grace map: each rollout gets exactly the retry / error / recheck results it gets when it
    runs alone -/
theorem manager_isolated (ids : List (Nat × RIdent)) (r : Nat) (a : RIdent) (tr : List (Ev MOp)) (now : Nat) (g : Grace)
    (hr : ids.lookup r = some a) (hall : allDistinct ids = true) (htr : traceOf ids tr = true) :
    sameAsSolo r (Grace.runM (now, g) tr).2 (Grace.runM (now, restrict (inKeys a) g) (proj r tr)).2 = true :=
  (manager_interleave_solo (inKeys a) r tr now g (sep_of_distinct ids r a tr hr hall htr)).1

/-! ### the BatchRelease call sites of the resource expectations -/

/-- the key under which the event handler observes a canary Deployment that BatchRelease `(ns, n)` created (in its
    own namespace, with itself as controller owner) is the key under which `Create` expected it -/
theorem observed_key_matches_create (ns n : String) :
    getControllerKey ns (some ⟨"BatchRelease", n⟩) = some (nsName ns n) := by
  simp [getControllerKey]

theorem br_keys (ns n : String) (o : EOp) (h : brOpOf ns n o = true) : ∀ k ∈ o.keys, k = nsName ns n := by
  intro k hk
  cases o with
  | brCreate t ns' n' known sf ok uid =>
    simp only [brOpOf, Bool.and_eq_true, beq_iff_eq] at h
    simp only [EOp.keys] at hk
    split at hk
    · cases hk
    · simp at hk; rw [hk, h.1, h.2]
  | brObserved ns' uid ow =>
    simp only [brOpOf, Bool.and_eq_true, beq_iff_eq] at h
    simp only [EOp.keys, getControllerKey] at hk
    cases ow with
    | none => simp at hk
    | some w =>
      dsimp only at hk h
      split at hk
      · rename_i hkind
        simp at hk
        have : w.name = n := by simpa [hkind] using h.2
        rw [hk, h.1, this]
      · simp at hk
  | expect _ _ _ => simp [brOpOf] at h
  | observe _ _ _ => simp [brOpOf] at h
  | satisfied _ => simp [brOpOf] at h
  | delete _ => simp [brOpOf] at h
  | get _ => simp [brOpOf] at h

/-- **C19, BatchRelease canary Deployments — headline**: BatchReleases with different (namespace, name) never
    see each other's creation expectations: in any interleaving each one's `Create` is allowed, blocked or
    timed out exactly as when it runs alone -/
theorem br_isolated (rels : List (Nat × String × String)) (r : Nat) (ns n : String) (tr : List (Ev EOp)) (now : Nat)
    (st : ExpStore) (hr : rels.lookup r = some (ns, n)) (hall : brAllDistinct rels = true) (htr : brTraceOf rels tr = true) :
    sameAsSolo r (ExpStore.run (now, st) tr).2
      (ExpStore.run (now, restrict (fun k => k == nsName ns n) st) (proj r tr)).2 = true := by
  refine (exp_interleave_solo (fun k => k == nsName ns n) r tr now st ?_).1
  simp only [sepFor, List.all_eq_true]
  intro e he
  have hte := (List.all_eq_true.mp htr) e he
  cases e with
  | tick d => rfl
  | glob x => rfl
  | op r' o =>
    dsimp only at hte ⊢
    cases hl : rels.lookup r' with
    | none => rw [hl] at hte; cases hte
    | some b =>
      rw [hl] at hte
      dsimp only at hte
      have hkb := br_keys b.1 b.2 o hte
      by_cases hrr : r' = r
      · subst hrr
        rw [hr] at hl; cases hl
        simp only [if_true, List.all_eq_true]
        intro k hk
        simpa using hkb k hk
      · simp only [hrr, if_false, List.all_eq_true]
        intro k hk
        have hma := mem_of_lookup rels r (ns, n) hr
        have hmb := mem_of_lookup rels r' b hl
        have hA := (List.all_eq_true.mp hall) _ hma
        have hB := (List.all_eq_true.mp hall) _ hmb
        simp only [Bool.and_eq_true] at hA hB
        have hab := (List.all_eq_true.mp hA.2) _ hmb
        have hne : (r == r') = false := by simpa using fun e => hrr e.symm
        simp only [hne, Bool.false_or, relDistinct, Bool.not_eq_true', Bool.and_eq_false_iff, beq_eq_false_iff_ne] at hab
        rw [hkb k hk]
        simp only [Bool.not_eq_true', beq_eq_false_iff_ne]
        intro e
        have := nsName_injective _ _ _ _ hB.1 hA.1 e
        rcases hab with d | d
        · exact d this.1.symm
        · exact d this.2.symm

/-- **the expectation guards creation**: `realCanaryController.Create` reports `created` only if the release had no
    unobserved creation pending, or the pending one has been unsatisfied for at least the timeout -/
theorem create_respects_expectation (st : ExpStore) (now t : Nat) (ns n : String) (known sf ok : Bool) (uid : String) :
    createAllowed (pendingOf st (nsName ns n)) (unsatAgeOf st now (nsName ns n)) t
      (brCreate st now t ns n known sf ok uid).2 = true := by
  unfold createAllowed brCreate pendingOf unsatAgeOf ExpStore.satisfied brCreateCont
  cases known with
  | true => simp
  | false =>
    cases hg : aget st (nsName ns n) with
    | none => simp [hg]
    | some e =>
      simp only [hg, Bool.false_eq_true, if_false]
      cases hf : e.objs.filter (fun x => x.2.length > 0) with
      | nil =>
        have : e.objs.any (fun x => x.2.length > 0) = false := by
          rw [List.any_eq_false]
          intro x hx hlen
          have : x ∈ e.objs.filter (fun x => x.2.length > 0) := List.mem_filter.mpr ⟨hx, hlen⟩
          rw [hf] at this; cases this
        simp [this]
      | cons x more =>
        cases hu : e.firstUnsat with
        | none =>
          by_cases ht : now - now ≥ t
          · have : t = 0 := by omega
            simp [this]
          · have ht0 : ¬ t = 0 := by omega
            cases sf <;> cases ok <;> simp [ht0]
        | some fu =>
          by_cases ht : now - fu ≥ t
          · simp [ht]
          · cases sf <;> cases ok <;> simp [ht]

/-! ### API objects -/

/-- rollouts in different namespaces never touch a common network object -/
theorem footprint_disjoint_of_ns (ns₁ svc₁ ing₁ : String) (o₁ d₁ : Bool) (ns₂ svc₂ ing₂ : String) (o₂ d₂ : Bool)
    (h : ns₁ ≠ ns₂) : noNameClash ns₁ svc₁ ing₁ o₁ d₁ ns₂ svc₂ ing₂ o₂ d₂ = true := by
  simp [noNameClash, disjointKeys, footprint, h]

/-- FULL-STRENGTH STATEMENT (false for the unchanged code, known finding F-C19-1, guard `canaryNameClash`):
      rollouts in one namespace on different Services and different Ingresses never touch a common object.
    The canary Service of a rollout on Service `web` is the stable Service of a rollout on Service `web-canary`,
    and the Manager re-selects / deletes it by name without checking who created it. -/
theorem footprint_disjoint_full_FALSE :
    ¬ (∀ ns svc₁ ing₁ svc₂ ing₂ : String, svc₁ ≠ svc₂ → ing₁ ≠ ing₂ →
        noNameClash ns svc₁ ing₁ false false ns svc₂ ing₂ false false = true) := by
  intro h
  have := h "ns" "web" "web" "web-canary" "other" (by decide) (by decide)
  revert this
  decide

/-- the same witness as a *test* on literals -/
theorem canary_name_clash_witness :
    noNameClash "ns" "web" "web" false false "ns" "web-canary" "other" false false = false := by decide

/-- **partial (outside the guard)**: in one namespace, if neither rollout's Service / Ingress name is the other's
    name or the other's derived `-canary` name, the two rollouts touch no common object -/
theorem footprint_disjoint_partial (ns svc₁ ing₁ svc₂ ing₂ : String)
    (hs : svc₁ ≠ svc₂) (hs1 : svc₁ ++ "-canary" ≠ svc₂) (hs2 : svc₂ ++ "-canary" ≠ svc₁)
    (hi : ing₁ ≠ ing₂) (hi1 : ing₁ ++ "-canary" ≠ ing₂) (hi2 : ing₂ ++ "-canary" ≠ ing₁) :
    noNameClash ns svc₁ ing₁ false false ns svc₂ ing₂ false false = true := by
  have c1 : svc₁ ++ "-canary" ≠ svc₂ ++ "-canary" := fun e => hs (canaryName_injective _ _ e)
  have c2 : ing₁ ++ "-canary" ≠ ing₂ ++ "-canary" := fun e => hi (canaryName_injective _ _ e)
  simp [noNameClash, disjointKeys, footprint, getCanaryServiceName, hs, hs1, Ne.symm hs2, hi, hi1, Ne.symm hi2, c1, c2]

/-! ### the dynamic watch registry -/

theorem step_start (s : WState) (r : Nat) (gvk : String) :
    s.step (.start r gvk) = if watchStart s.registry gvk = true then { s with inflight := r :: s.inflight } else s := rfl
theorem step_finish (s : WState) (r : Nat) (gvk : String) (res : AddRes) :
    s.step (.finish r gvk res) = if s.inflight.contains r = true then
      { registry := (watchFinish s.registry gvk res).1, inflight := s.inflight.filter (· != r),
        succeeded := if res = .added then gvk :: s.succeeded else s.succeeded } else s := rfl

/-- a rollout whose workload kind is registered leaves the registry alone, calls no `Watch` and is not delayed -/
theorem watch_registered_noop (w : List String) (gvk : String) (res : AddRes) (h : w.contains gvk = true) :
    reconcileWatch w gvk res = (w, false, .proceed) := by
  unfold reconcileWatch watchStart
  rw [h]; rfl

/-- a reconcile that nothing interleaves with is `start` followed by `finish` -/
theorem reconcile_is_start_finish (s : WState) (r : Nat) (gvk : String) (res : AddRes) (h : s.inflight.contains r = false) :
    ((s.step (.start r gvk)).step (.finish r gvk res)).registry = (reconcileWatch s.registry gvk res).1 := by
  rw [step_start]
  unfold reconcileWatch
  by_cases hs : watchStart s.registry gvk = true
  · rw [if_pos hs, if_pos hs, step_finish]
    simp
  · rw [if_neg hs, if_neg hs, step_finish, h]
    simp

theorem finish_registry_mem (w : List String) (gvk : String) (res : AddRes) (k : String) :
    k ∈ (watchFinish w gvk res).1 ↔ (k ∈ w ∨ (k = gvk ∧ res = .added)) := by
  unfold watchFinish
  cases res with
  | err => simp
  | notServed => simp
  | added =>
    by_cases hc : w.contains gvk = true
    · have hm : gvk ∈ w := by simpa using hc
      simp only [hc, if_true]
      constructor
      · exact Or.inl
      · rintro (h | ⟨h, _⟩)
        · exact h
        · exact h ▸ hm
    · simp only [hc]
      simp [List.mem_append]

/-- the invariant: a kind is registered iff it was registered initially or some `Watch` call for it has succeeded -/
def regInv (w0 : List String) (s : WState) : Prop :=
  ∀ k, k ∈ s.registry ↔ (k ∈ w0 ∨ k ∈ s.succeeded)

theorem regInv_step (w0 : List String) (s : WState) (e : WEv) (h : regInv w0 s) : regInv w0 (s.step e) := by
  cases e with
  | start r gvk =>
    rw [step_start]; split <;> exact h
  | finish r gvk res =>
    rw [step_finish]
    split
    · intro k
      show k ∈ (watchFinish s.registry gvk res).1 ↔ _
      rw [finish_registry_mem, h k]
      cases res with
      | err => simp
      | notServed => simp
      | added =>
        simp only [and_true, if_true, List.mem_cons]
        constructor
        · rintro ((h1 | h1) | h1)
          · exact Or.inl h1
          · exact Or.inr (Or.inr h1)
          · exact Or.inr (Or.inl h1)
        · rintro (h1 | h1 | h1)
          · exact Or.inl (Or.inl h1)
          · exact Or.inr h1
          · exact Or.inl (Or.inr h1)
    · exact h

theorem registry_step_mono (s : WState) (e : WEv) (k : String) (h : k ∈ s.registry) : k ∈ (s.step e).registry := by
  cases e with
  | start r gvk => rw [step_start]; split <;> exact h
  | finish r gvk res =>
    rw [step_finish]
    split
    · show k ∈ (watchFinish s.registry gvk res).1
      rw [finish_registry_mem]; exact Or.inl h
    · exact h

/-- **a failed `Watch` leaves the registry unchanged** and the reconcile returns the error (so it is retried);
    nothing is claimed before success -/
theorem watch_error_keeps_registry (w : List String) (gvk : String) :
    (reconcileWatch w gvk .err).1 = w ∧
    (w.contains gvk = false → reconcileWatch w gvk .err = (w, true, .error)) := by
  unfold reconcileWatch watchStart watchFinish
  cases h : w.contains gvk <;> simp

/-- the registry only grows, and what a reconcile adds is its own kind, after a successful `Watch` -/
theorem watch_monotone (w : List String) (gvk : String) (res : AddRes) (k : String) :
    (k ∈ (reconcileWatch w gvk res).1 ↔ (k ∈ w ∨ (k = gvk ∧ gvk ∉ w ∧ res = .added))) := by
  unfold reconcileWatch watchStart
  cases h1 : w.contains gvk with
  | true =>
    have hm : gvk ∈ w := by simpa using h1
    simp only [Bool.not_true, Bool.false_eq_true, if_false]
    constructor
    · exact Or.inl
    · rintro (h | ⟨_, h, _⟩)
      · exact h
      · exact absurd hm h
  | false =>
    have hm : gvk ∉ w := by simpa using h1
    simp only [Bool.not_false, if_true]
    rw [finish_registry_mem]
    simp [hm]

/-- **frame, watch registry**: a reconcile for kind `gvk` never changes whether another kind is registered,
    whatever its own `Watch` call answers -/
theorem watch_frame (w : List String) (gvk k : String) (res : AddRes) (h : k ≠ gvk) :
    (k ∈ (reconcileWatch w gvk res).1 ↔ k ∈ w) := by
  rw [watch_monotone]
  constructor
  · rintro (h1 | ⟨h1, _⟩)
    · exact h1
    · exact absurd h1 h
  · exact Or.inl

/-- the six kinds registered by `init()` are never delayed, whatever other rollouts did before and whatever
    `Watch` would answer (a *test* over the table) -/
theorem watch_static (gvk : String) (h : staticKinds.contains gvk = true) (res : AddRes) :
    reconcileWatch staticKinds gvk res = (staticKinds, false, .proceed) :=
  watch_registered_noop staticKinds gvk res h

/-- **watch_registered_iff_succeeded** (by induction over the trace): in any trace of reconciles of any rollouts of
    arbitrary kinds, interleaved at the granularity of `Load` / return of `AddWatcherDynamically`, with arbitrary
    `Watch` failures, a kind is in the registry iff it was there initially or some `Watch` call for it succeeded -/
theorem watch_registered_iff_succeeded (w0 : List String) (tr : List WEv) :
    ∀ k, (k ∈ (WState.run ⟨w0, [], []⟩ tr).registry ↔
      (k ∈ w0 ∨ k ∈ (WState.run ⟨w0, [], []⟩ tr).succeeded)) := by
  have gen : ∀ (tr : List WEv) (s : WState), regInv w0 s → regInv w0 (s.run tr) := by
    intro tr
    induction tr with
    | nil => intro s h; exact h
    | cons e es ih => intro s h; exact ih _ (regInv_step w0 s e h)
  exact gen tr ⟨w0, [], []⟩ (by intro k; simp)

theorem registry_run_mono (tr : List WEv) : ∀ (s : WState) (k : String), k ∈ s.registry → k ∈ (s.run tr).registry := by
  induction tr with
  | nil => intro s k h; exact h
  | cons e es ih => intro s k h; exact ih _ k (registry_step_mono s e k h)

theorem run_append (s : WState) (a b : List WEv) : s.run (a ++ b) = (s.run a).run b := by
  induction a generalizing s with
  | nil => rfl
  | cons e es ih => exact ih _

/-- **a rollout whose own `Watch` call succeeds has a watcher from then on**: whatever happened before (failed
    calls of anybody, in-flight calls of others), whatever other reconciles start or finish while it is in flight,
    and whatever happens afterwards: once a reconcile of rollout `r` runs its `Load` and its `Watch` call — if it
    has to make one — succeeds, the kind is registered for good.  No failure of another rollout can prevent it,
    and no rollout is ever kept from calling `Watch` by a kind that is claimed but not watched. -/
theorem watch_eventually (s : WState) (pre mid post : List WEv) (r : Nat) (gvk : String)
    (hmid : ∀ r' g res, WEv.finish r' g res ∈ mid → r' ≠ r) :
    gvk ∈ (s.run (pre ++ [.start r gvk] ++ mid ++ [.finish r gvk .added] ++ post)).registry := by
  rw [run_append, run_append, run_append, run_append]
  apply registry_run_mono
  generalize s.run pre = s1
  have hstart : gvk ∈ (s1.run [.start r gvk]).registry ∨ r ∈ (s1.run [.start r gvk]).inflight := by
    show gvk ∈ (s1.step (.start r gvk)).registry ∨ r ∈ (s1.step (.start r gvk)).inflight
    rw [step_start]
    by_cases hw : watchStart s1.registry gvk = true
    · right; rw [if_pos hw]; exact List.mem_cons_self ..
    · left; rw [if_neg hw]; simpa [watchStart] using hw
  have hmidInv : ∀ (mid : List WEv) (t : WState),
      (∀ r' g res, WEv.finish r' g res ∈ mid → r' ≠ r) →
      (gvk ∈ t.registry ∨ r ∈ t.inflight) → (gvk ∈ (t.run mid).registry ∨ r ∈ (t.run mid).inflight) := by
    intro mid
    induction mid with
    | nil => intro t _ h; exact h
    | cons e es ih =>
      intro t hm h
      apply ih _ (fun r' g res he' => hm r' g res (List.mem_cons_of_mem _ he'))
      rcases h with h | h
      · exact Or.inl (registry_step_mono t e gvk h)
      · right
        cases e with
        | start r' g => rw [step_start]; split
                        · exact List.mem_cons_of_mem _ h
                        · exact h
        | finish r' g res =>
          have hne := hm r' g res (List.mem_cons_self ..)
          rw [step_finish]
          split
          · show r ∈ t.inflight.filter (· != r')
            rw [List.mem_filter]
            exact ⟨h, by simpa using fun e => hne e.symm⟩
          · exact h
  have h2 := hmidInv mid _ hmid hstart
  generalize (s1.run [.start r gvk]).run mid = s2 at h2
  show gvk ∈ (s2.step (.finish r gvk .added)).registry
  rcases h2 with h2 | h2
  · exact registry_step_mono s2 _ gvk h2
  · rw [step_finish]
    have : s2.inflight.contains r = true := by simpa using h2
    rw [if_pos this]
    show gvk ∈ (watchFinish s2.registry gvk .added).1
    rw [finish_registry_mem]; exact Or.inr ⟨rfl, rfl⟩

/-! ### the one-rollout model is the projection of the shared map -/

/-- how `RV.Traffic` sees one entry: absent / younger than the grace period / older -/
def absExp (now grace : Nat) : Option Nat → RV.Traffic.Exp
  | none => .none
  | some t => if (grace : Int) - ((now - t : Nat) : Int) ≤ 0 then .elapsed else .fresh

theorem lookup2_observe_same (g : Grace) (k a : String) : lookup2 (g.observe k a) k a = none := by
  unfold Grace.observe lookup2
  cases hg : aget g k with
  | none => simp [hg]
  | some e =>
    dsimp only
    by_cases he : (adel e a).isEmpty = true
    · simp [he, aget_adel_same]
    · simp [he, aget_aset_same, aget_adel_same]

theorem lookup2_expect_same (g : Grace) (now : Nat) (k a : String) : lookup2 (g.expect now k a) k a = some now := by
  unfold Grace.expect lookup2
  cases hg : aget g k <;> simp [aget_aset_same]

theorem satisfied_lookup2 (g : Grace) (now : Nat) (k a : String) (gr : Int) :
    g.satisfied now k a gr =
      match lookup2 g k a with
      | none => (true, 0)
      | some t => if gr - ((now - t : Nat) : Int) ≤ 0 then (true, 0) else (false, gr - ((now - t : Nat) : Int)) := by
  unfold Grace.satisfied lookup2
  cases aget g k with
  | none => rfl
  | some e => cases aget e a <;> rfl

/-- **the grace wrapper of `RV.Traffic` is the shared map seen through one rollout's key**: what
    `runWithGraceSeconds` leaves under `(k, a)` and the retry flag it returns are what `RV.Traffic.runGrace`
    computes from the abstraction of the entry under `(k, a)` -/
theorem bridge_runGrace (g : Grace) (now : Nat) (k a : String) (grace : Nat) (md : Bool) :
    absExp now grace (lookup2 (runWithGraceSeconds g now k a grace md false).1 k a) =
      (RV.Traffic.runGrace grace (absExp now grace (lookup2 g k a)) md).1 ∧
    (runWithGraceSeconds g now k a grace md false).2.retry =
      (RV.Traffic.runGrace grace (absExp now grace (lookup2 g k a)) md).2 := by
  unfold runWithGraceSeconds RV.Traffic.runGrace
  rw [satisfied_lookup2]
  by_cases h0 : grace = 0
  · subst h0; simp [lookup2_observe_same, absExp]
  · have hz : ¬ ((grace : Int) = 0) := by omega
    cases md with
    | true =>
      simp only [Bool.false_eq_true, if_false, hz, h0, if_true, lookup2_expect_same, absExp]
      have : ¬ ((grace : Int) - ((now - now : Nat) : Int) ≤ 0) := by omega
      simp [this, h0]
    | false =>
      simp only [Bool.false_eq_true, if_false, hz, h0]
      cases hl : lookup2 g k a with
      | none => simp [absExp, lookup2_observe_same]
      | some t =>
        by_cases hrem : (grace : Int) - ((now - t : Nat) : Int) ≤ 0
        · simp [absExp, hrem, lookup2_observe_same]
        · simp [absExp, hrem, hl]

/-- the `RV.Traffic.Mem` of rollout `a` inside the shared grace map -/
def memOf (g : Grace) (now grace : Nat) (a : RIdent) : RV.Traffic.Mem :=
  { patchService := absExp now grace (lookup2 g a.svcUID "patchService"),
    restoreService := absExp now grace (lookup2 g a.svcUID "restoreService"),
    restoreGateway := absExp now grace (lookup2 g a.ownerUID "restoreGateway"),
    removeCanaryService := absExp now grace (lookup2 g (nsName a.ns (a.svc ++ "-canary")) "removeCanaryService"),
    updateRoute := absExp now grace (lookup2 g a.ownerUID "updateRoute") }

/-- **other rollouts never change a rollout's `Mem`**: a Manager call that uses none of `a`'s keys leaves the
    one-rollout view of `a` as it was, so every theorem about `RV.Traffic` / `RV.RolloutSM` (which are stated
    over that view) holds for `a` inside the shared process -/
theorem others_keep_mem (a : RIdent) (g : Grace) (now now' grace : Nat) (o : MOp) (h : ∀ k ∈ o.keys, k ∉ a.keys) :
    memOf (MOp.apply now g o).1 now' grace a = memOf g now' grace a := by
  have f : ∀ k ∈ a.keys, aget (MOp.apply now g o).1 k = aget g k :=
    fun k hk => manager_frame now g o k (fun hko => h k hko hk)
  have f1 := f a.ownerUID (by simp [RIdent.keys])
  have f2 := f a.svcUID (by simp [RIdent.keys])
  have f3 := f (nsName a.ns (a.svc ++ "-canary")) (by simp [RIdent.keys])
  simp only [memOf, lookup2, f1, f2, f3]

/-! ## non-vacuity: concrete instances of every hypothesis (tests on literals, not the ∀ claims) -/

def exA : RIdent := ⟨"prod", "7d1e-ro-a", "web", "91aa-svc-a"⟩
def exB : RIdent := ⟨"prod", "7d1e-ro-b", "web2", "91aa-svc-b"⟩
/-- same Service name in another namespace -/
def exC : RIdent := ⟨"stage", "55c0-ro-c", "web", "0f3b-svc-c"⟩

def exCtx (a : RIdent) (grace : Int) : TRCtx := ⟨a.ns, a.ownerUID, [⟨a.svc, grace⟩], false, false⟩
def exCall (a : RIdent) (site : Site) (grace : Int) (md : Bool) : MCall :=
  ⟨site, exCtx a grace, 3, .ok ⟨a.ns, a.svc, a.svcUID⟩, false, ⟨md, false⟩⟩

def exIds : List (Nat × RIdent) := [(1, exA), (2, exB), (3, exC)]
def exTrace : List (Ev MOp) :=
  [.op 1 (.call (exCall exA .patchService 100 true)), .op 2 (.call (exCall exB .patchService 200 true)),
   .op 3 (.call (exCall exC .removeCanaryService 0 true)), .tick 100,
   .op 2 (.call (exCall exB .patchService 200 false)), .op 1 (.call (exCall exA .patchService 100 false)),
   .glob 250, .op 1 (.finalising (exCall exA .restoreService 100 true) (exCall exA .restoreGateway 100 false) (exCall exA .removeCanaryService 100 false))]

example : allDistinct exIds = true := by decide
example : traceOf exIds exTrace = true := by decide
example : sepFor MOp.keys (inKeys exA) 1 exTrace = true := by decide
/-- in the example, B is still waiting (retry) after 100 s while A is done: different grace periods, no influence -/
example : obsOf 2 (Grace.runM (0, []) exTrace).2 =
    [.call ⟨true, false, 200⟩, .call ⟨true, false, 100⟩] := by decide
example : obsOf 1 (Grace.runM (0, []) exTrace).2 =
    [.call ⟨true, false, 100⟩, .call ⟨false, false, 0⟩, .fin ⟨false, false, 100⟩] := by decide
example : exA.wf = true ∧ exB.wf = true ∧ exA.distinct exB = true ∧ exA.distinct exC = true := by decide
example : (exCall exA .patchService 100 true).graceKey = some ("91aa-svc-a", "patchService") := by decide
example : (exCall exC .removeCanaryService 0 true).graceKey = some ("stage/web-canary", "removeCanaryService") := by decide
/-- frame hypotheses are satisfiable: two different keys -/
example : (GOp.run "u1" "patchService" 100 true false).key ≠ (GOp.satisfied "u2" "patchService" 100).key := by decide
/-- BatchReleases with the same name in two namespaces, and similar names in one -/
def exRels : List (Nat × String × String) := [(1, "prod", "demo"), (2, "stage", "demo"), (3, "prod", "demo-2")]
def exBrTrace : List (Ev EOp) :=
  [.op 1 (.brCreate 300 "prod" "demo" false true true "uid-c1"), .op 2 (.brCreate 300 "stage" "demo" false true true "uid-c2"),
   .op 1 (.brCreate 300 "prod" "demo" false true true "uid-c1b"), .op 3 (.brCreate 300 "prod" "demo-2" false true true "uid-c3"),
   .op 2 (.brObserved "stage" "uid-c2" (some ⟨"BatchRelease", "demo"⟩)), .tick 400,
   .op 2 (.brCreate 300 "stage" "demo" false true true "uid-c2b"), .op 1 (.brCreate 300 "prod" "demo" false true true "uid-c1c")]
example : brAllDistinct exRels = true := by decide
example : brTraceOf exRels exBrTrace = true := by decide
example : obsOf 1 (ExpStore.run (0, []) exBrTrace).2 = [.created .created, .created .blocked, .created .created] := by decide
example : obsOf 2 (ExpStore.run (0, []) exBrTrace).2 = [.created .created, .unit, .created .created] := by decide
example : noNameClash "prod" "web" "web" false false "stage" "web" "web" false false = true := by decide
/-- the hypotheses of `footprint_disjoint_partial` are satisfiable -/
example : ("web" : String) ≠ "api" ∧ ("web" : String) ++ "-canary" ≠ "api" ∧ ("api" : String) ++ "-canary" ≠ "web" := by decide
example : staticKinds.contains "apps/v1, Kind=Deployment" = true := by decide
/-- `watch_eventually`: hypotheses satisfiable with another rollout finishing in between -/
example : ∀ r' g res, WEv.finish r' g res ∈ [WEv.start 2 "g, Kind=Foo", WEv.finish 2 "g, Kind=Foo" .err] → r' ≠ 1 := by
  intro r' g res h; simp at h; omega
example : reconcileWatch staticKinds "example.com/v1, Kind=Foo" .added = (staticKinds ++ ["example.com/v1, Kind=Foo"], true, .early) := by decide
example : reconcileWatch staticKinds "example.com/v1, Kind=Foo" .err = (staticKinds, true, .error) := by decide
/-- A's Watch fails, B (same kind) then registers it; C's in-flight Watch fails while D succeeds -/
example : (WState.run ⟨staticKinds, [], []⟩ [.start 1 "g, Kind=Foo", .finish 1 "g, Kind=Foo" .err, .start 2 "g, Kind=Foo",
    .finish 2 "g, Kind=Foo" .added, .start 3 "g, Kind=Bar", .start 4 "g, Kind=Bar", .finish 4 "g, Kind=Bar" .added,
    .finish 3 "g, Kind=Bar" .err]).registry = staticKinds ++ ["g, Kind=Foo", "g, Kind=Bar"] := by decide
/-- interleaving hypotheses are satisfiable -/
example : Interleave (asEvents 1 [MOp.call (exCall exA .patchService 100 true)]) (asEvents 2 [MOp.call (exCall exB .patchService 200 true)])
    [.op 2 (.call (exCall exB .patchService 200 true)), .op 1 (.call (exCall exA .patchService 100 true))] :=
  .right (.left .nil)

/-- the un-fetched mutant: taking the key from a locally built Service object makes two unrelated rollouts
    share their `patchService` wait (a *test* on the example; the ∀ statement is `unfetched_keys_collide`) -/
theorem unfetched_FALSE :
    let x := { exCall exA .patchService 100 true with stable := .ok (Obj.built "prod" "web") }
    let y := { exCall exB .patchService 200 true with stable := .ok (Obj.built "prod" "web2") }
    x.graceKey = y.graceKey ∧
    obsOf 2 (Grace.runM (0, []) [.op 1 (.call x), .op 2 (.call { y with cl := ⟨false, false⟩ })]).2 = [.call ⟨true, false, 200⟩] ∧
    obsOf 2 (Grace.runM (0, []) [.op 2 (.call { y with cl := ⟨false, false⟩ })]).2 = [.call ⟨false, false, 0⟩] := by decide

end RV.Props.Isolation
