import RV.Props.ExecutorXThms
/-!
# The CloneSet partition plane is a lawful plane

`csPlane` is the plane of `RV.Executor` (so every theorem of `RV.Props.ExecutorX` specialises to the CloneSet executor, which is
`RV.Executor.reconcile` by `executor_is_instance`).
-/
namespace RV.Props.ExecutorX
open RV.Arith RV.BatchCtx RV.Executor RV.ExecutorX RV.Oracle.ExecutorX

/-- **the CloneSet plane is lawful**: readiness = the verdict of `RV.Oracle.Executor.batchReadyNow`, released = the control
    annotation does not name this BatchRelease (or the CloneSet is gone), claimed = it does. -/
theorem csLaws : Laws csPlane csPreds where
  ensure_ok_iff := by
    intro br ns wl _
    simp only [csPreds]
    constructor
    · intro h
      have := RV.Props.Executor.ensureReady_ok_iff { br with hasFinalizer := br.hasFinalizer } ns wl
      unfold csPlane at h
      -- `ensureReady` does not read the finalizer flag
      have h2 : ensureReady (withFinalizer br) ns wl = .val .ok := by
        have : ensureReady (withFinalizer br) ns wl = ensureReady br ns wl := by
          unfold ensureReady; cases wl <;> rfl
        rw [this]; exact h
      exact RV.Props.Executor.ensureReady_ok_iff br ns wl h2
    · intro h
      have h2 := RV.Props.Executor.ensureReady_of_ready br ns wl h
      have : ensureReady (withFinalizer br) ns wl = ensureReady br ns wl := by
        unfold ensureReady; cases wl <;> rfl
      rw [this] at h2; exact h2
  fin_ok_released := by
    intro br wl wl' _ h
    simp only [csPreds]
    simp only [csPlane, Out.val.injEq] at h
    unfold RV.Executor.finalize at h
    cases wl with
    | none => simp only [Prod.mk.injEq] at h; obtain ⟨h1, _⟩ := h; subst h1; rfl
    | some w =>
      simp only [Prod.mk.injEq] at h
      obtain ⟨h1, _⟩ := h; subst h1
      dsimp only; split <;> simp
  init_frame := by
    intro br ns wl wl' ns' r h
    simp only [csPlane, Out.val.injEq] at h
    unfold initializeWl at h
    cases wl with
    | none => simp only [Prod.mk.injEq] at h; obtain ⟨_, h2, _⟩ := h; subst h2; exact ⟨rfl, rfl, rfl, rfl, rfl⟩
    | some w =>
      simp only [Prod.mk.injEq] at h
      obtain ⟨_, h2, _⟩ := h; subst h2
      split <;> exact ⟨rfl, rfl, rfl, rfl, rfl⟩
  init_ok_claimed := by
    intro br ns wl wl' ns' _ h
    simp only [csPlane, Out.val.injEq] at h
    unfold initializeWl at h
    cases wl with
    | none => simp only [Prod.mk.injEq] at h; exact absurd h.2.2 (by decide)
    | some w =>
      simp only [Prod.mk.injEq] at h
      obtain ⟨h1, _⟩ := h; subst h1
      dsimp only [csPreds]
      split <;> simp_all

/-- **exposure laws of the CloneSet plane** (exposure = pods the partition lets move, `RV.Arith.exposure`; allowed = what the
    desired partition of the current batch lets move) -/
theorem csExposure : ExposureLaws csPlane csPreds where
  init_exposes_nothing := by
    intro br ns wl wl' ns' r _ _ h
    simp only [csPreds]
    simp only [csPlane, Out.val.injEq] at h
    unfold initializeWl at h
    cases wl with
    | none => simp only [Prod.mk.injEq] at h; obtain ⟨h1, _⟩ := h; subst h1; exact Int.le_refl _
    | some w =>
      simp only [Prod.mk.injEq] at h
      obtain ⟨h1, _⟩ := h; subst h1
      dsimp only
      split
      · exact Int.le_refl _
      · simp only [Option.getD_some]
        have h100 : scaledV (.pct 100) w.replicas true = w.replicas := by
          unfold scaledV scaled ceilDiv100; simp only [if_true]; omega
        unfold exposure keptStable
        rw [h100]
        omega
  upgrade_monotone := by
    intro br ns wl wl' r _ _ h
    simp only [csPreds]
    simp only [csPlane] at h
    unfold upgradeBatch at h
    cases wl with
    | none => simp only [Out.val.injEq, Prod.mk.injEq] at h; obtain ⟨h1, _⟩ := h; subst h1; exact Int.le_refl _
    | some w =>
      dsimp only at h
      split at h
      · simp only [Out.val.injEq, Prod.mk.injEq] at h; obtain ⟨h1, _⟩ := h; subst h1; exact Int.le_refl _
      · split at h
        · cases h
        · rename_i c hc
          split at h
          · simp only [Out.val.injEq, Prod.mk.injEq] at h; obtain ⟨h1, _⟩ := h; subst h1; exact Int.le_refl _
          · rename_i k hk
            simp only [Out.val.injEq, Prod.mk.injEq] at h; obtain ⟨h1, _⟩ := h; subst h1
            dsimp only
            -- `upgrade .cloneSet c = some k` only when the current partition keeps more pods than the desired one
            unfold upgrade at hk
            simp only at hk
            split at hk
            · cases hk
            · rename_i hgt
              simp only [Option.some.injEq] at hk; subst hk
              have hcur : c.knobCur = w.partition.getD (.int 0) := by
                unfold calcCtx at hc
                split at hc
                · cases hc
                · simp only [Outcome.ok.injEq] at hc; subst hc; rfl
              have hrep : c.replicas = w.replicas := by
                unfold calcCtx at hc
                split at hc
                · cases hc
                · simp only [Outcome.ok.injEq] at hc; subst hc; rfl
              simp only [Option.getD_some]
              rw [hcur, hrep] at hgt
              unfold exposure keptStable
              omega
  upgrade_within := by
    intro br ns wl wl' r _ _ h
    simp only [csPreds]
    simp only [csPlane] at h
    unfold upgradeBatch at h
    cases wl with
    | none => simp only [Out.val.injEq, Prod.mk.injEq] at h; obtain ⟨h1, _⟩ := h; subst h1; simp
    | some w =>
      dsimp only at h
      split at h
      · simp only [Out.val.injEq, Prod.mk.injEq] at h; obtain ⟨h1, _⟩ := h; subst h1; dsimp only; omega
      · split at h
        · cases h
        · rename_i c hc
          have hobs : obsOf br ns w = obsOf br br.status w := rfl
          split at h
          · simp only [Out.val.injEq, Prod.mk.injEq] at h; obtain ⟨h1, _⟩ := h; subst h1; dsimp only; omega
          · rename_i k hk
            simp only [Out.val.injEq, Prod.mk.injEq] at h; obtain ⟨h1, _⟩ := h; subst h1
            dsimp only
            rw [← hobs, hc]
            dsimp only
            unfold upgrade at hk
            simp only at hk
            split at hk
            · cases hk
            · simp only [Option.some.injEq] at hk; subst hk
              simp only [Option.getD_some]
              omega
  upgrade_err_same := by
    intro br ns wl wl' h
    simp only [csPlane] at h
    unfold upgradeBatch at h
    cases wl with
    | none => simp only [Out.val.injEq, Prod.mk.injEq] at h; exact h.1.symm
    | some w =>
      dsimp only at h
      split at h
      · simp only [Out.val.injEq, Prod.mk.injEq] at h; exact absurd h.2 (by decide)
      · split at h
        · cases h
        · split at h <;> (simp only [Out.val.injEq, Prod.mk.injEq] at h; exact absurd h.2 (by decide))


/-- what readiness of the CloneSet plane means: `RV.Props.C11.ready_sound` on the batch context of the persisted status -/
theorem cs_ready_is_batchReady (br : BR) (wl : Option Workload) :
    csPreds.ready br wl = RV.Oracle.Executor.batchReadyNow br wl := rfl

/-- **C09 (finding `stsPlaneForeignKind`, repaired) — regression** — a BatchRelease whose workloadRef names an apps/v1 ReplicaSet gets
    no control plane under any rolling style: `getReleaseController` refuses it like an unsupported workload, and the reconcile
    persists the initialised status and returns without reading the ReplicaSet (before the repair the StatefulSet-like control was
    built for it and `util.ParseWorkload` crashed the manager). -/
theorem rs_reference_refused (s : Style) (e : Bool) (br : BR) (w : Bool) :
    dispatch .replicaSet s e = none ∧ reconcileNoPlane br w ≠ .panic :=
  ⟨by cases s <;> cases e <;> rfl, x_no_panic_without_plane br w⟩

end RV.Props.ExecutorX
