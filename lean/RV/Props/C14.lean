import RV.Lemmas.Ingress
namespace RV.Props.C14
end RV.Props.C14
