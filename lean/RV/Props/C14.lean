import RV.Lemmas.Ingress
/-!
# C14 — the canary Ingress reflects the stable Ingress and the current step only

Model: `RV/Model/Ingress.lean` (`buildCanaryIngress`, the four annotation scripts,
`EnsureRoutes`, `Finalise`), oracles: `RV/Oracle/C14.lean`.  The model follows the code
*with* `fixes/C14-7.patch` (mse.lua clears every key it sets) and `fixes/C14-8.patch`
(nil checks in `buildCanaryIngress`); on the unpatched code the check reports the
witnesses in `corpus/ingress/finding-7.jsonl` / `finding-8.jsonl`.

Annotation maps are association lists read through `lookup`; `Eqv a b` (all lookups agree)
is equality of the Go maps they denote, `eqvB` its decidable form.
-/
namespace RV.Props.C14
open RV.Ingress RV.Oracle.C14

/-! ## concrete inputs used by the non-vacuity examples (tests, not the ∀ claims) -/

def demoCfg : Cfg :=
  { cls := .mse, name := "echoserver", stableSvc := "echoserver", canarySvc := "echoserver-canary" }

def svcPath (path svc : String) : Path :=
  { path := path, pathType := some "Prefix",
    backend := { service := some { name := svc, portName := "", portNumber := 80 }, resource := none } }

/-- a stable Ingress with a path to the stable Service, a resource backend, a path to another
    Service, a host-only rule and a rule that contributes nothing -/
def demoStable : Ingress :=
  { ann := [("kubernetes.io/ingress.class", "mse"), ("mse.ingress.kubernetes.io/service-subset", "")],
    labels := [("app", "echoserver")], className := none, tls := [], defaultBackend := true,
    rules := [
      { host := "a.example.com",
        http := some [svcPath "/" "echoserver",
                      { path := "/static", pathType := none,
                        backend := { service := none, resource := some "StorageBucket/static" } },
                      svcPath "/other" "other"] },
      { host := "redirect.example.com", http := none },
      { host := "b.example.com", http := some [svcPath "/" "other"] }] }

/-- an A/B step: query-parameter match plus a header modifier -/
def demoQuery : Strategy :=
  { traffic := none,
    mts := some [{ headers := [], queryParams := [{ name := "user", value := "bob", kind := none }] }],
    rhm := some [{ name := "gray", value := "blue" }] }

/-- a weight step -/
def demoWeight : Strategy := { traffic := some "20%", mts := none, rhm := none }

/-! ## (i) canary paths = exactly the stable-Service paths, re-targeted -/

/-- **C14.i** `buildCanaryIngress` returns (never panics — also on rules without an `http`
    section and on resource backends), its rules are exactly `expectedRules`, and metadata /
    class / TLS are copied from the stable Ingress. -/
theorem build_paths (cfg : Cfg) (st : Ingress) :
    ∃ c, buildCanaryIngress cfg st = .ok c ∧ pathsOk cfg st.rules c.rules = true ∧
      c.ann = st.ann ∧ c.labels = st.labels ∧ c.className = st.className ∧ c.tls = st.tls := by
  refine ⟨_, build_spec cfg st, ?_, rfl, rfl, rfl, rfl⟩
  simp [pathsOk]

/-- test (non-vacuity): host-only rule and resource backend are skipped, the other Service is
    left out, the one stable path is kept and re-targeted -/
example : buildCanaryIngress demoCfg demoStable =
    .ok { ann := demoStable.ann, labels := demoStable.labels, className := none, tls := [],
          defaultBackend := false,
          rules := [{ host := "a.example.com", http := some [svcPath "/" "echoserver-canary"] }] } := by
  decide

/-- what `expectedRules` says, rule by rule: a canary rule is a stable rule with an `http`
    section and at least one path to the stable Service, keeping the host and exactly those
    paths, each re-targeted. -/
theorem canary_rule_iff (cfg : Cfg) (rules : List Rule) (r' : Rule) :
    r' ∈ expectedRules cfg rules ↔
      ∃ r ∈ rules, ∃ ps, r.http = some ps ∧ ps.filter (pointsAtStable cfg) ≠ [] ∧
        r' = { host := r.host, http := some ((ps.filter (pointsAtStable cfg)).map (retargetPath cfg)) } := by
  simp only [expectedRules, List.mem_filterMap]
  constructor
  · rintro ⟨r, hr, h⟩
    cases hh : r.http with
    | none => simp [hh] at h
    | some ps =>
      simp only [hh] at h
      split at h
      · cases h
      · rename_i hne
        refine ⟨r, hr, ps, hh, ?_, ?_⟩
        · intro he; simp [he] at hne
        · exact (Option.some.inj h).symm
  · rintro ⟨r, hr, ps, hh, hne, rfl⟩
    refine ⟨r, hr, ?_⟩
    simp only [hh]
    have : ((ps.filter (pointsAtStable cfg)).map (retargetPath cfg)).isEmpty = false := by
      cases hf : ps.filter (pointsAtStable cfg) with
      | nil => exact absurd hf hne
      | cons => rfl
    simp [this]

/-- a re-targeted path differs from the stable path in the Service name only -/
theorem retargetPath_spec (cfg : Cfg) (p : Path) (svc : SvcBackend) (h : p.backend.service = some svc) :
    (retargetPath cfg p).path = p.path ∧ (retargetPath cfg p).pathType = p.pathType ∧
    (retargetPath cfg p).backend.resource = p.backend.resource ∧
    (retargetPath cfg p).backend.service =
      some { name := cfg.canarySvc, portName := svc.portName, portNumber := svc.portNumber } := by
  simp [retargetPath, h]

/-! ## (ii) history independence of the annotations -/

/-- which steps a class's script accepts: `supported` (alb / higress: every match has a header;
    mse: a header modifier has `set` entries) and, for mse, an Ingress that has annotations. -/
theorem script_accepts_iff (cls : Class) (a : AnnMap) (s : LuaStep) :
    (script cls a s).isSome = (supported cls s && annOk cls a) := by
  rw [(specOf cls).run_eq]
  cases supported cls s && annOk cls a <;> rfl

/-- **C14.ii (one earlier step)** for every class, every annotation map and every two steps the
    script accepts one after the other: the second step alone is accepted too and yields the
    same map — on *all* keys, not only the class's own. -/
theorem script_history_independent (cls : Class) (a b c : AnnMap) (s₁ s₂ : LuaStep)
    (h₁ : script cls a s₁ = some b) (h₂ : script cls b s₂ = some c) :
    ∃ d, script cls a s₂ = some d ∧ Eqv c d :=
  (specOf cls).hist h₁ h₂

/-- test (non-vacuity): mse, a query + header-modifier step and then a weight step are both
    accepted; the first leaves query / header-control annotations which the second removes -/
example : ∃ b c, script .mse demoStable.ann (luaStepOf demoQuery) = some b ∧
    script .mse b (luaStepOf demoWeight) = some c ∧
    lookup b "nginx.ingress.kubernetes.io/canary-by-query" = some "user" ∧
    lookup b "mse.ingress.kubernetes.io/request-header-control-update" = some "gray blue" ∧
    lookup c "nginx.ingress.kubernetes.io/canary-by-query" = none ∧
    lookup c "mse.ingress.kubernetes.io/request-header-control-update" = none ∧
    lookup c "nginx.ingress.kubernetes.io/canary-weight" = some "20" :=
  ⟨_, _, rfl, rfl, by decide⟩

/-- test: the four classes on a header step followed by a weight step -/
example : ∀ cls ∈ [Class.nginx, .alb, .higress, .mse],
    ∃ b c, script cls demoStable.ann
        { weight := "-1", mts := some [{ headers := [{ name := "user", value := "bob", kind := none }],
                                          queryParams := [] }], rhm := none } = some b ∧
      script cls b { weight := "20", mts := none, rhm := none } = some c := by
  intro cls h
  simp only [List.mem_cons, List.not_mem_nil, or_false] at h
  rcases h with rfl | rfl | rfl | rfl <;> exact ⟨_, _, rfl, rfl⟩

/-- mse.lua as it was shipped (before `fixes/C14-7.patch`): it sets
    `nginx…/canary-by-query*` but clears `mse…/canary-by-query*`, and never clears
    `…/request-header-control-update`.  Kept only to record why the patch is needed. -/
def mseLuaShipped (a : AnnMap) (s : LuaStep) : Option AnnMap :=
  if a.isEmpty then none else
  let a := aset "nginx.ingress.kubernetes.io/canary" "true" a
  let a := adel "nginx.ingress.kubernetes.io/canary-by-cookie" a
  let a := adel "nginx.ingress.kubernetes.io/canary-by-header" a
  let a := adel "nginx.ingress.kubernetes.io/canary-by-header-pattern" a
  let a := adel "nginx.ingress.kubernetes.io/canary-by-header-value" a
  let a := adel "mse.ingress.kubernetes.io/canary-by-query" a
  let a := adel "mse.ingress.kubernetes.io/canary-by-query-pattern" a
  let a := adel "mse.ingress.kubernetes.io/canary-by-query-value" a
  let a := adel "nginx.ingress.kubernetes.io/canary-weight" a
  let a := if s.weight != "-1" then aset "nginx.ingress.kubernetes.io/canary-weight" s.weight a else a
  let a := if (lookup a "mse.ingress.kubernetes.io/service-subset").isSome
           then aset "mse.ingress.kubernetes.io/service-subset" "gray" a else a
  let a? : Option AnnMap :=
    match s.rhm with
    | none => some a
    | some [] => none
    | some (h :: hs) =>
      some (aset "mse.ingress.kubernetes.io/request-header-control-update" (mseHeaderControl (h :: hs)) a)
  match a? with
  | none => none
  | some a =>
    match s.mts with
    | none => some a
    | some ms => some (ms.foldl mseMatch a)

/-- the shipped script is history dependent (defect #7): after the A/B step the weight step
    keeps the query and header-control annotations that the weight step alone never sets.
    The same inputs are replayed against the real script in `corpus/ingress/finding-7.jsonl`. -/
theorem mse_shipped_history_dependent :
    ∃ b c d, mseLuaShipped demoStable.ann (luaStepOf demoQuery) = some b ∧
      mseLuaShipped b (luaStepOf demoWeight) = some c ∧
      mseLuaShipped demoStable.ann (luaStepOf demoWeight) = some d ∧ ¬ Eqv c d := by
  refine ⟨_, _, _, rfl, rfl, rfl, ?_⟩
  intro h
  have := h "nginx.ingress.kubernetes.io/canary-by-query"
  revert this
  decide

/-- **C14.ii (any number of earlier steps)** -/
theorem script_sequence_history_independent (cls : Class) (a c : AnnMap)
    (earlier : List LuaStep) (s : LuaStep)
    (h : runSteps cls a (earlier ++ [s]) = some c) :
    ∃ d, script cls a s = some d ∧ Eqv c d := by
  cases earlier with
  | nil =>
    simp only [List.nil_append, runSteps_cons, runSteps_nil] at h
    cases hs : script cls a s with
    | none => simp [hs] at h
    | some d =>
      simp only [hs, Option.bind_some, Option.some.injEq] at h
      exact ⟨d, rfl, h ▸ Eqv.refl _⟩
  | cons s0 ss => exact runSteps_hist cls a c s0 ss s h

/-- scripts respect equality of maps (so the statements above do not depend on the list
    representation) -/
theorem script_congr (cls : Class) (a a' b : AnnMap) (s : LuaStep)
    (he : Eqv a a') (h : script cls a s = some b) :
    ∃ b', script cls a' s = some b' ∧ Eqv b b' :=
  (specOf cls).congr he h

/-- **C14.ii (the controller)** start from a store with the stable Ingress `st` and no canary
    Ingress; run *any* sequence of `EnsureRoutes` (any strategies) / `Finalise` / finalizer
    calls.  If a canary Ingress exists then, whenever a further `EnsureRoutes(s)` succeeds, the
    canary annotations are those of entering `s` first (`annAsFresh`: creation from the stable
    annotations, then `s`) — they depend on the stable Ingress and `s` alone. -/
theorem ensure_history_independent (cfg : Cfg) (st : Ingress) (calls : List Call) (s : Strategy)
    (w w' : World) (done : Bool) (ws : List Write)
    (hrun : runCalls cfg { stable := some st, canary := none } calls = some w)
    (hex : w.canary.isSome = true)
    (hens : ensureRoutes cfg w s = .ret w' done .ok ws) :
    ∃ c, w'.canary = some c ∧ annAsFresh cfg.cls st.ann (luaStepOf s) c.ing.ann = true := by
  have hi : Inv cfg st w := inv_run (inv_init cfg st) hrun
  have fresh : ∀ (c : CanaryObj) (new x : AnnMap), w.canary = some c →
      script cfg.cls c.ing.ann (luaStepOf s) = some new → Eqv x new →
      annAsFresh cfg.cls st.ann (luaStepOf s) x = true := by
    intro c new x hc hn hx
    obtain ⟨d, hf, hnd⟩ := derived_step (hi.derived c hc) hn
    simp only [annAsFresh, hf]
    exact (eqvB_iff _ _).mpr (hx.trans hnd)
  rcases ensure_cases cfg w s with ⟨hn, _, _⟩ | ⟨hn, _, _⟩ | ⟨_, hn, _, _, _⟩ | ⟨_, _, hn, _, _, _⟩ |
    ⟨c, hc, hn, h'⟩ | ⟨c, new, hc, hn, hv, h'⟩ | ⟨c, new, ann', hc, hn, hv, h'⟩
  · simp [hn] at hex
  · simp [hn] at hex
  · simp [hn] at hex
  · simp [hn] at hex
  · rw [h'] at hens; injection hens with _ _ he _; cases he
  · rw [h'] at hens; injection hens with hw _ _ _; subst hw
    exact ⟨c, hc, fresh c new _ hc hn hv⟩
  · rw [h'] at hens; injection hens with hw _ _ _; subst hw
    exact ⟨_, rfl, fresh c new _ hc hn hv⟩

/-- test (non-vacuity of the hypotheses): the A/B step entered (three `EnsureRoutes` calls:
    create, patch, done), then the weight step: a canary Ingress exists, carries the query
    annotation, and `EnsureRoutes` of the weight step succeeds with a patch -/
example : ∃ w w' ws c,
    runCalls demoCfg { stable := some demoStable, canary := none }
      [.ensure demoQuery, .ensure demoQuery, .ensure demoQuery] = some w ∧
    w.canary = some c ∧
    lookup c.ing.ann "nginx.ingress.kubernetes.io/canary-by-query" = some "user" ∧
    ensureRoutes demoCfg w demoWeight = .ret w' false .ok ws ∧ ws = [.patch "echoserver-canary"] :=
  ⟨_, _, _, _, rfl, rfl, by decide, rfl, by decide⟩

/-! ## (iii) write set, stable Ingress, finalise -/

/-- **C14.iii / C14.iv** every call returns (no panic), leaves the stable Ingress as it is and
    writes nothing but the canary Ingress. -/
theorem writes_only_canary (cfg : Cfg) (w : World) (call : Call) :
    ∃ w' done e ws, stepCall cfg w call = .ret w' done e ws ∧ w'.stable = w.stable ∧
      writesOk cfg ws = true :=
  stepCall_frame cfg w call

/-- **C14.iii / C14.iv** every sequence of calls runs to the end and the stable Ingress is the
    one it started with. -/
theorem stable_never_modified (cfg : Cfg) (w : World) (calls : List Call) :
    ∃ w', runCalls cfg w calls = some w' ∧ w'.stable = w.stable :=
  runCalls_total cfg w calls

/-- **C14.i along runs** whatever was called before, an existing canary Ingress has exactly the
    expected rules. -/
theorem canary_rules_invariant (cfg : Cfg) (st : Ingress) (calls : List Call) (w : World) (c : CanaryObj)
    (hrun : runCalls cfg { stable := some st, canary := none } calls = some w)
    (hc : w.canary = some c) :
    pathsOk cfg st.rules c.ing.rules = true := by
  have hi : Inv cfg st w := inv_run (inv_init cfg st) hrun
  simp [pathsOk, hi.rules c hc]

/-- **C14.iii (finalise)** after any run, `Finalise` succeeds and leaves no canary Ingress — or,
    if somebody put a finalizer on it, one that is marked for deletion. -/
theorem finalise_removes (cfg : Cfg) (st : Ingress) (calls : List Call) (w : World)
    (hrun : runCalls cfg { stable := some st, canary := none } calls = some w) :
    ∃ w' done ws, finalise cfg w = .ret w' done .ok ws ∧ finalisedOk w'.canary = true ∧
      ((∀ c, w.canary = some c → c.fin = false) → w'.canary = none) := by
  have hi : Inv cfg st w := inv_run (inv_init cfg st) hrun
  unfold finalise
  cases hc : w.canary with
  | none => exact ⟨_, _, _, rfl, by simp [hc, finalisedOk], fun _ => hc⟩
  | some c =>
    by_cases hd : c.deleting = true
    · have hf := hi.wf c hc hd
      simp only [hd, if_true]
      refine ⟨_, _, _, rfl, by simp [hc, finalisedOk, hd, hf], ?_⟩
      intro h; have := h c rfl; simp [hf] at this
    · simp only [hd, Bool.false_eq_true, if_false]
      by_cases hf : c.fin = true
      · refine ⟨_, _, _, rfl, by simp [finalisedOk, hf], ?_⟩
        intro h; have := h c rfl; simp [hf] at this
      · exact ⟨_, _, _, rfl, by simp [finalisedOk, hf], fun _ => by simp [hf]⟩

/-- test (non-vacuity): after a run that created the canary Ingress, `Finalise` deletes it; with a
    finalizer on it, it is marked for deletion and a second `Finalise` changes nothing -/
example : runCalls demoCfg { stable := some demoStable, canary := none }
    [.ensure demoWeight, .ensure demoWeight, .finalise] = some { stable := some demoStable, canary := none } := by
  decide

example : ∃ w c, runCalls demoCfg { stable := some demoStable, canary := none }
    [.ensure demoWeight, .addFinalizer, .finalise, .finalise] = some w ∧ w.canary = some c ∧
    c.deleting = true ∧ c.fin = true ∧ w.stable = some demoStable :=
  ⟨_, _, rfl, rfl, rfl, rfl, rfl⟩

/-! ## (iv) no panic -/

/-- **C14.iv** -/
theorem build_never_panics (cfg : Cfg) (st : Ingress) : buildCanaryIngress cfg st ≠ .panic := by
  rw [build_spec]; intro h; cases h

/-- **C14.iv** -/
theorem calls_never_panic (cfg : Cfg) (w : World) (call : Call) : stepCall cfg w call ≠ .panic := by
  obtain ⟨_, _, _, _, h, _⟩ := stepCall_frame cfg w call
  rw [h]; intro h'; cases h'

end RV.Props.C14
