import RV.Lemmas.Executor
/-!
# Theorems about one BatchRelease reconcile (used by C01.3, C06, C11, C18)

All statements quantify over every BatchRelease (any plan, partition, status — including
corrupted phases/states) and every CloneSet observation.
-/
namespace RV.Props.Executor
open RV.Arith RV.BatchCtx RV.Executor RV.Oracle.Executor

/-- **C18 (BatchRelease)** — the controller drops its own finalizer (so that the object can
    disappear) only while the object is being deleted *and* its phase is `Completed`;
    in every other reconcile the finalizer is present afterwards. -/
theorem finalizer_guards_teardown (br : BR) (wl : Option Workload) (o : StepOut)
    (h : reconcile br wl = .val o) :
    goneOnlyWhenCompleted br o.br = true := by
  rcases reconcile_cases br wl o h with ⟨hd, hp, hf, hb, _⟩ | ⟨_, hrest⟩
  · simp [goneOnlyWhenCompleted, hb, hd, hp]
  · simp only [] at hrest
    rcases hrest with ⟨_, hb, _⟩ | ⟨_, _, _, _, _, _, hb, _⟩ <;>
      simp [goneOnlyWhenCompleted, hb, withFinalizer]

/-- **C06** — a phase / batch-state / cursor change decided by the sync step is persisted
    *before* anything acts on it: when the reconcile stops after the sync, the workload is
    not written. -/
theorem no_act_before_persist (br : BR) (wl : Option Workload) (o : StepOut)
    (h : reconcile br wl = .val o) :
    noActBeforePersist br wl o.wl = true := by
  rcases reconcile_cases br wl o h with ⟨_, _, _, _, hw⟩ | ⟨_, hrest⟩
  · simp [noActBeforePersist, hw]
  · simp only [] at hrest
    rcases hrest with ⟨hs, _, hw⟩ | ⟨hs, _⟩
    · simp [noActBeforePersist, hw]
    · have : stopped br wl = false := by simpa [stopped, withFinalizer] using hs
      simp [noActBeforePersist, this]


/-- `ensureReady` is the readiness verdict of the oracle (same observation, same predicate). -/
theorem ensureReady_ok_iff (br : BR) (ns : Status) (wl : Option Workload) :
    ensureReady (withFinalizer br) ns wl = .val .ok → batchReadyNow br wl = true := by
  intro h
  unfold ensureReady at h
  unfold batchReadyNow
  cases wl with
  | none => simp at h
  | some w =>
    simp only [] at h ⊢
    split at h
    · rename_i h0; simp [h0]
    · rename_i h0
      simp only [h0, if_false]
      have hobs : obsOf (withFinalizer br) ns w = obsOf br br.status w := rfl
      rw [hobs] at h
      split at h
      · cases h
      · rename_i c hc
        simp only [hc]
        split at h
        · rename_i hr; simp [hr]
        · cases h

/-- what `execute` can do to the cursor and phase -/
theorem execute_cases (br : BR) (ns : Status) (wl : Option Workload) (ns' : Status)
    (wl' : Option Workload) (rq er : Bool) (h : execute br ns wl = .val (ns', wl', rq, er)) :
    (ns.phase = .progressing ∧ execProgressing br ns wl = .val (ns', wl', rq, er)) ∨
    (ns.phase ≠ .progressing ∧ ns'.currentBatch = ns.currentBatch ∧
      (ns'.phase = .completed → ns.phase ≠ .completed →
         ns.phase = .finalizing ∧ wl' = (finalize br wl).1)) := by
  unfold execute at h
  dsimp only at h
  cases hp : ns.phase
  case progressing =>
    left
    rw [normPhase_of_progressing ns hp] at h
    simp only [hp] at h
    exact ⟨rfl, h⟩
  case preparing =>
    right
    have hn : normPhase ns = ns := by unfold normPhase; simp [hp]
    rw [hn] at h; simp only [hp] at h
    unfold execPreparing at h
    dsimp only at h
    have hcb := initializeWl_currentBatch br ns wl
    split at h <;> simp only [Out.val.injEq, Prod.mk.injEq] at h <;> obtain ⟨h1, _⟩ := h <;> subst h1
    · exact ⟨by decide, hcb, by intro hc; cases hc⟩
    · refine ⟨by decide, hcb, ?_⟩
      intro hc
      -- a failed initialize keeps phase Preparing
      exfalso
      unfold initializeWl at hc
      cases wl with
      | none => simp only [hp] at hc; cases hc
      | some w => dsimp only at hc; split at hc <;> simp only [hp] at hc <;> cases hc
  case finalizing =>
    right
    have hn : normPhase ns = ns := by unfold normPhase; simp [hp]
    rw [hn] at h; simp only [hp] at h
    unfold execFinalizing at h
    dsimp only at h
    split at h <;> simp only [Out.val.injEq, Prod.mk.injEq] at h <;> obtain ⟨h1, h2, _⟩ := h <;> subst h1 h2
    · exact ⟨by decide, rfl, fun _ _ => ⟨rfl, rfl⟩⟩
    · exact ⟨by decide, rfl, by intro hc; rw [hp] at hc; cases hc⟩
  case completed =>
    right
    have hn : normPhase ns = ns := by unfold normPhase; simp [hp]
    rw [hn] at h; simp only [hp] at h
    simp only [Out.val.injEq, Prod.mk.injEq] at h
    obtain ⟨h1, _⟩ := h; subst h1
    exact ⟨by decide, rfl, by intro _ hc; exact absurd rfl hc⟩
  case empty =>
    right
    have hn : normPhase ns = { ns with phase := .preparing } := by unfold normPhase; simp [hp]
    rw [hn] at h; dsimp only at h
    unfold execPreparing at h
    dsimp only at h
    have hcb := initializeWl_currentBatch br { ns with phase := .preparing } wl
    split at h <;> simp only [Out.val.injEq, Prod.mk.injEq] at h <;> obtain ⟨h1, _⟩ := h <;> subst h1
    · exact ⟨by decide, hcb, by intro hc; cases hc⟩
    · refine ⟨by decide, hcb, ?_⟩
      intro hc; exfalso
      unfold initializeWl at hc
      cases wl with
      | none => cases hc
      | some w => dsimp only at hc; split at hc <;> cases hc
  case other =>
    right
    have hn : normPhase ns = { ns with phase := .preparing } := by unfold normPhase; simp [hp]
    rw [hn] at h; dsimp only at h
    unfold execPreparing at h
    dsimp only at h
    have hcb := initializeWl_currentBatch br { ns with phase := .preparing } wl
    split at h <;> simp only [Out.val.injEq, Prod.mk.injEq] at h <;> obtain ⟨h1, _⟩ := h <;> subst h1
    · exact ⟨by decide, hcb, by intro hc; cases hc⟩
    · refine ⟨by decide, hcb, ?_⟩
      intro hc; exfalso
      unfold initializeWl at hc
      cases wl with
      | none => cases hc
      | some w => dsimp only at hc; split at hc <;> cases hc


/-- the status after a stopped round -/
theorem stopped_status (br : BR) (wl : Option Workload) (o : StepOut) (b : BR)
    (h : reconcile br wl = .val o) (hb : o.br = some b) (hs : stopped br wl = true) :
    b.status = (syncStatus (withFinalizer br) (initializedStatus br.status) wl).status ∧ o.wl = wl := by
  rcases reconcile_cases br wl o h with ⟨_, _, _, hn, _⟩ | ⟨_, hrest⟩
  · rw [hn] at hb; cases hb
  · simp only [] at hrest
    rcases hrest with ⟨_, hb', hw⟩ | ⟨hs', _⟩
    · rw [hb'] at hb; simp only [Option.some.injEq] at hb; subst hb
      exact ⟨rfl, hw⟩
    · simp only [stopped, withFinalizer] at hs hs'
      rw [hs] at hs'; cases hs'

/-- **C11.i (executor)** — whenever the executor acts on a `Progressing` release and leaves
    the batch state `Ready`, `EnsureBatchPodsReadyAndLabeled` passed in this very reconcile
    on the workload as it was observed. -/
theorem ready_only_if_ready (br : BR) (wl : Option Workload) (o : StepOut) (b : BR)
    (h : reconcile br wl = .val o) (hb : o.br = some b) :
    readyOnlyIfReady br wl b = true := by
  unfold readyOnlyIfReady
  split
  · rename_i hc
    obtain ⟨hns, hp, hp', hs'⟩ := hc
    have hns' : stopped br wl = false := by simpa using hns
    obtain ⟨ns', wl', rq, er, hex, hb', _⟩ := reconcile_exec br wl o h hns'
    rw [hb'] at hb; simp only [Option.some.injEq] at hb; subst hb
    simp only at hp' hs'
    rcases execute_cases _ _ _ _ _ _ _ hex with ⟨_, hpr⟩ | ⟨hnp, _⟩
    · rcases execProgressing_cases _ _ _ _ _ _ _ hpr with ⟨_, _, hr⟩ | ⟨hmv, _⟩
      · exact ensureReady_ok_iff br _ wl (hr hs').2
      · rw [hmv] at hs'; simp [moveToNextBatch] at hs'
    · exact absurd hp hnp
  · rfl

/-- **C11.ii / C01.3 (invariant)** — the executor never works on a batch beyond its
    `batchPartition`: if `currentBatch ≤ batchPartition` held before a reconcile of a release
    that is (still) Progressing, it holds after it — across plan recalculation, restart,
    scaling and normal advancement. -/
theorem within_partition (br : BR) (wl : Option Workload) (o : StepOut) (b : BR)
    (h : reconcile br wl = .val o) (hb : o.br = some b) (hne : br.status.phase ≠ .empty) :
    withinPartition br b = true := by
  unfold withinPartition
  cases hpart : br.partition with
  | none => rfl
  | some p =>
    simp only []
    split
    · rename_i hc
      obtain ⟨hp', hle, h0⟩ := hc
      apply decide_eq_true
      by_cases hs : stopped br wl = true
      · obtain ⟨hst, _⟩ := stopped_status br wl o b h hb hs
        rw [hst]
        unfold syncStatus
        simp only [refresh_currentBatch, initialized_id _ hne]
        exact syncDecide_within (withFinalizer br) br.status _ _ p hpart h0 hle
      · have hns : stopped br wl = false := by simpa using hs
        obtain ⟨ns', wl', rq, er, hex, hb', _⟩ := reconcile_exec br wl o h hns
        rw [hb'] at hb; simp only [Option.some.injEq] at hb; subst hb
        simp only at hp' ⊢
        rcases execute_cases _ _ _ _ _ _ _ hex with ⟨_, hpr⟩ | ⟨_, hcb, _⟩
        · rcases execProgressing_cases _ _ _ _ _ _ _ hpr with ⟨hcb, _⟩ | ⟨hmv, _⟩
          · omega
          · rw [hmv]
            simp only [moveToNextBatch, withFinalizer, hpart, normState_currentBatch]
            split <;> omega
        · omega
    · rfl

/-- **C11.ii / C01.3 (advance)** — with an unchanged, healthy plan, `currentBatch` rises only by
    exactly one, only from batch state `Ready`, only after the readiness check passed in this
    reconcile, and only while `batchPartition` is strictly above it. -/
theorem batch_advance_guarded (br : BR) (wl : Option Workload) (o : StepOut) (b : BR)
    (h : reconcile br wl = .val o) (hb : o.br = some b) :
    batchAdvanceGuarded br wl b = true := by
  unfold batchAdvanceGuarded
  split
  · rename_i hc
    obtain ⟨hgt, hp, hh, hu⟩ := hc
    have hne : br.status.phase ≠ .empty := by rw [hp]; decide
    have hchg : isPlanChanged (withFinalizer br) = false := by
      simp [isPlanChanged, withFinalizer, hh]
    have hunh : isPlanUnhealthy (withFinalizer br) = false := by
      have : isPlanUnhealthy (withFinalizer br) = isPlanUnhealthy br := rfl
      rw [this]; simpa using hu
    by_cases hs : stopped br wl = true
    · exfalso
      obtain ⟨hst, _⟩ := stopped_status br wl o b h hb hs
      rw [hst] at hgt
      unfold syncStatus at hgt
      simp only [refresh_currentBatch, initialized_id _ hne] at hgt
      rw [syncDecide_currentBatch _ _ _ _ hchg hunh] at hgt
      omega
    · have hns : stopped br wl = false := by simpa using hs
      obtain ⟨ns', wl', rq, er, hex, hb', _⟩ := reconcile_exec br wl o h hns
      rw [hb'] at hb; simp only [Option.some.injEq] at hb; subst hb
      simp only at hgt
      rcases execute_cases _ _ _ _ _ _ _ hex with ⟨_, hpr⟩ | ⟨_, hcb, _⟩
      · rcases execProgressing_cases _ _ _ _ _ _ _ hpr with ⟨hcb, _⟩ | ⟨hmv, hrd, hok, hnp⟩
        · omega
        · have hready := ensureReady_ok_iff br _ wl hok
          rw [hmv] at hgt ⊢
          simp only [moveToNextBatch, withFinalizer, normState_currentBatch] at hgt ⊢
          cases hpart : br.partition with
          | none =>
            -- a release without partition is finalizing: the sync step would have stopped
            exfalso
            have hfin : isPlanFinalizing (withFinalizer br) = true := by
              simp [isPlanFinalizing, withFinalizer, hpart]
            have hstop : (syncStatus (withFinalizer br) (withFinalizer br).status wl).stop = false := by
              have := hns; simp only [stopped, initialized_id _ hne] at this; exact this
            have := nostop_progressing_partitioned (withFinalizer br) wl hstop hp
            rw [hfin] at this; cases this
          | some p =>
            simp only [hpart] at hgt ⊢
            split at hgt
            · rename_i hlt
              simp [hrd, hready, hlt]
            · omega
      · omega
  · rfl

/-- **C11.iii / C18** — phase `Completed` is entered only from `Finalizing`, in a reconcile in
    which `Finalize` returned without error, and the workload has then been released from
    this BatchRelease's control (or no longer exists). -/
theorem completed_means_released (br : BR) (wl : Option Workload) (o : StepOut) (b : BR)
    (h : reconcile br wl = .val o) (hb : o.br = some b) (hne : br.status.phase ≠ .empty) :
    completedMeansReleased br b o.wl = true := by
  unfold completedMeansReleased
  split
  · rename_i hc
    obtain ⟨hc', hnc⟩ := hc
    by_cases hs : stopped br wl = true
    · exfalso
      obtain ⟨hst, _⟩ := stopped_status br wl o b h hb hs
      rw [hst] at hc'
      unfold syncStatus at hc'
      simp only [refresh_phase, initialized_id _ hne] at hc'
      exact syncDecide_not_completed _ _ _ _ hnc hc'
    · have hns : stopped br wl = false := by simpa using hs
      obtain ⟨ns', wl', rq, er, hex, hb', hw⟩ := reconcile_exec br wl o h hns
      rw [hb'] at hb; simp only [Option.some.injEq] at hb; subst hb
      simp only at hc'
      rcases execute_cases _ _ _ _ _ _ _ hex with ⟨hp, hpr⟩ | ⟨_, _, hfin⟩
      · exfalso
        rcases execProgressing_cases _ _ _ _ _ _ _ hpr with ⟨_, hph, _⟩ | ⟨hmv, _⟩
        · rw [hph, hp] at hc'; cases hc'
        · rw [hmv] at hc'
          have : (normState br.status).phase = br.status.phase := by unfold normState; split <;> rfl
          simp only [moveToNextBatch, this] at hc'
          rw [hp] at hc'; cases hc'
      · obtain ⟨hf, hwl⟩ := hfin hc' hnc
        rw [hw, hwl]
        simp only [hf, decide_true, Bool.true_and]
        unfold finalize
        cases wl with
        | none => rfl
        | some w => dsimp only; split <;> simp
  · rfl


/-- **C11.iv** — if the readiness check fails while the batch state is `Verifying` or `Ready`,
    the state falls back to `Upgrading` (and a recorded ready time is cleared) rather than
    staying `Ready`. -/
theorem falls_back (br : BR) (wl : Option Workload) (o : StepOut) (b : BR)
    (h : reconcile br wl = .val o) (hb : o.br = some b) :
    fallsBack br wl b = true := by
  unfold fallsBack
  split
  · rename_i hc
    obtain ⟨hns, hp, hst, _, hnr, _⟩ := hc
    have hns' : stopped br wl = false := by simpa using hns
    obtain ⟨ns', wl', rq, er, hex, hb', _⟩ := reconcile_exec br wl o h hns'
    rw [hb'] at hb; simp only [Option.some.injEq] at hb; subst hb
    dsimp only
    rcases execute_cases _ _ _ _ _ _ _ hex with ⟨_, hpr⟩ | ⟨hnp, _⟩
    · have hnorm : normState br.status = br.status := by
        unfold normState; rcases hst with h1 | h1 <;> simp [h1]
      unfold execProgressing at hpr
      dsimp only at hpr
      rw [hnorm] at hpr
      have hnok : ensureReady (withFinalizer br) br.status wl ≠ .val .ok := by
        intro hok; exact hnr (ensureReady_ok_iff br _ wl hok)
      rcases hst with h1 | h1
      · simp only [h1] at hpr
        split at hpr
        · cases hpr
        · rename_i hok; exact absurd hok hnok
        · simp only [Out.val.injEq, Prod.mk.injEq] at hpr
          obtain ⟨hh, _⟩ := hpr; subst hh
          simp [h1]
      · simp only [h1] at hpr
        split at hpr
        · cases hpr
        · simp only [Out.val.injEq, Prod.mk.injEq] at hpr
          obtain ⟨hh, _⟩ := hpr; subst hh
          simp
        · rename_i hok; exact absurd hok hnok
    · exact absurd hp hnp
  · rfl

/-- **C11.iv (plan change)** — for every release and workload: when the executor finds the plan changed
    while `Progressing`, the status it persists acknowledges the new plan only as `Upgrading` with the
    ready time cleared; it never keeps `Ready` across a plan edit. -/
theorem plan_change_falls_back (br : BR) (wl : Option Workload) (o : StepOut) (b : BR)
    (h : reconcile br wl = .val o) (hb : o.br = some b) :
    planChangeFallsBack br b = true := by
  unfold planChangeFallsBack
  split
  · rename_i hc
    obtain ⟨hp, hh, hnf⟩ := hc
    have hnf' : isPlanFinalizing (withFinalizer br) = false := by
      have : isPlanFinalizing (withFinalizer br) = isPlanFinalizing br := rfl
      rw [this]; simpa using hnf
    have hch : isPlanChanged (withFinalizer br) = true := by simp [isPlanChanged, withFinalizer, hp, hh]
    have hinit : initializedStatus br.status = br.status := by simp [initializedStatus, hp]
    -- the status the sync step computes
    have hst : (syncStatus (withFinalizer br) (initializedStatus br.status) wl).status =
        refreshStatus (signalRecalculate (withFinalizer br) br.status)
          (syncInfo (withFinalizer br) br.status wl).2 := by
      unfold syncStatus; dsimp only; rw [hinit]
      have : syncDecide (withFinalizer br) br.status (syncInfo (withFinalizer br) br.status wl).1
          (syncInfo (withFinalizer br) br.status wl).2 = (signalRecalculate (withFinalizer br) br.status, false) := by
        unfold syncDecide
        have hpc : (withFinalizer br).status.phase ≠ .completed := by simp [withFinalizer, hp]
        simp only [hpc, if_false, hnf', hch, if_true, Bool.false_eq_true]
      rw [this]
    have hfields : ∀ i, (refreshStatus (signalRecalculate (withFinalizer br) br.status) i).batchState = .upgrading ∧
        (refreshStatus (signalRecalculate (withFinalizer br) br.status) i).hasReadyTime = false ∧
        (refreshStatus (signalRecalculate (withFinalizer br) br.status) i).hash = .same := by
      intro i; unfold refreshStatus signalRecalculate; cases i <;> simp
    have hstop : stopped br wl = true := by
      unfold stopped syncStatus; dsimp only
      rw [Bool.or_eq_true]; right
      rw [decide_eq_true_eq]
      intro heq
      have := congrArg Status.hash heq
      unfold syncStatus at hst; dsimp only at hst
      rw [hst] at this
      rw [(hfields _).2.2] at this
      exact hh (by simpa [withFinalizer] using this.symm)
    obtain ⟨hs, _⟩ := stopped_status br wl o b h hb hstop
    rw [hs, hst]
    obtain ⟨f1, f2, f3⟩ := hfields (syncInfo (withFinalizer br) br.status wl).2
    simp [f1, f2, f3]
  · rfl

/-! ### C07 — the executor settles (nothing oscillates) -/

/-- the converse of `ensureReady_ok_iff`: on a workload that passes the readiness check the call says ok -/
theorem ensureReady_of_ready (br : BR) (ns : Status) (wl : Option Workload) (h : batchReadyNow br wl = true) :
    ensureReady (withFinalizer br) ns wl = .val .ok := by
  unfold batchReadyNow at h
  unfold ensureReady
  cases wl with
  | none => simp at h
  | some w =>
    dsimp only at h ⊢
    split
    · rfl
    · rename_i h0
      rw [if_neg h0] at h
      have hobs : obsOf (withFinalizer br) ns w = obsOf br br.status w := rfl
      rw [hobs]
      split at h
      · cases h
      · rename_i c hc
        rw [hc]
        dsimp only
        rw [if_pos (by simpa using h)]

/-- **C07 (executor, verifying)** — when the workload has what the batch calls for, a reconcile in
    `Verifying` reports `Ready` (with the ready time set) and touches nothing. -/
theorem verifying_becomes_ready (br : BR) (wl : Option Workload) (o : StepOut)
    (h : reconcile br wl = .val o) (hns : stopped br wl = false)
    (hp : br.status.phase = .progressing) (hst : br.status.batchState = .verifying) (hr : batchReadyNow br wl = true) :
    ∃ b, o.br = some b ∧ b.status.batchState = .ready ∧ b.status.hasReadyTime = true ∧
      b.status.currentBatch = br.status.currentBatch ∧ o.wl = wl := by
  obtain ⟨ns', wl', rq, er, hex, hb, hw⟩ := reconcile_exec br wl o h hns
  rcases execute_cases _ _ _ _ _ _ _ hex with ⟨_, hpr⟩ | ⟨hnp, _⟩
  · unfold execProgressing at hpr
    dsimp only at hpr
    have hnorm : normState br.status = br.status := by unfold normState; simp [hst]
    rw [hnorm] at hpr
    simp only [hst] at hpr
    rw [ensureReady_of_ready br br.status wl hr] at hpr
    simp only [Out.val.injEq, Prod.mk.injEq] at hpr
    obtain ⟨h1, h2, _, _⟩ := hpr
    refine ⟨_, hb, ?_, ?_, ?_, ?_⟩
    · rw [← h1]
    · rw [← h1]
    · rw [← h1]
    · rw [hw, ← h2]
  · exact absurd hp hnp

/-- **C07 (executor, fixed point)** — a batch that is `Ready`, whose pods still pass the readiness check and
    whose partition does not ask for more, is a fixed point: the reconcile changes neither the status nor
    the workload and asks for no requeue — the executor does not oscillate while it waits for the Rollout
    controller to raise the partition. -/
theorem ready_is_fixed_point (br : BR) (wl : Option Workload) (o : StepOut)
    (h : reconcile br wl = .val o) (hns : stopped br wl = false)
    (hp : br.status.phase = .progressing) (hst : br.status.batchState = .ready) (hr : batchReadyNow br wl = true)
    (hpart : isPartitioned br = true) :
    o.br = some (withFinalizer br) ∧ o.wl = wl := by
  obtain ⟨ns', wl', rq, er, hex, hb, hw⟩ := reconcile_exec br wl o h hns
  rcases execute_cases _ _ _ _ _ _ _ hex with ⟨_, hpr⟩ | ⟨hnp, _⟩
  · unfold execProgressing at hpr
    dsimp only at hpr
    have hnorm : normState br.status = br.status := by unfold normState; simp [hst]
    rw [hnorm] at hpr
    simp only [hst] at hpr
    rw [ensureReady_of_ready br br.status wl hr] at hpr
    have hpart' : isPartitioned (withFinalizer br) = true := hpart
    simp only [hpart', not_true_eq_false, if_false, Out.val.injEq, Prod.mk.injEq] at hpr
    obtain ⟨h1, h2, _, _⟩ := hpr
    refine ⟨?_, by rw [hw, ← h2]⟩
    rw [hb, ← h1]
    rfl
  · exact absurd hp hnp

/-! ### non-vacuity (tests on literals) -/
def exampleBR : BR :=
  { batches := [.pct 20, .pct 50, .pct 100], partition := some 1, failureThreshold := none,
    deleting := false, hasFinalizer := true, rollbackAnno := false,
    status := { phase := .progressing, currentBatch := 0, batchState := .ready, hasReadyTime := true,
                hash := .same, rolloutIDSame := true, observedReplicas := 10, updateRevision := "v2",
                stableRevision := "v1", noNeedUpdate := none, updated := 2, updatedReady := 2 } }
def exampleWL : Workload :=
  { replicas := 10, generation := 2, observedGeneration := 2, statusReplicas := 10, updated := 2, updatedReady := 2,
    updateRevision := "v2", currentRevision := "v1", partition := some (.pct 80), paused := false, owner := .this }

/-- the advance actually happens on a concrete healthy state (so the guarded-advance theorem is not vacuous) -/
example : (match reconcile exampleBR (some exampleWL) with
    | .val o => (o.br.map (·.status.currentBatch), o.br.map (·.status.batchState))
    | .panic => (none, none)) = (some 1, some BState.upgrading) := by decide

end RV.Props.Executor
