import RV.Oracle.RolloutSM
/-!
# Theorems about one Rollout reconcile (used by C02, C03, C09, C10, C18)
-/
namespace RV.Props.Rollout
open RV.Arith RV.Traffic RV.RolloutSM RV.Oracle.RolloutSM

/-- sub-states past `StepUpgrade` -/
def Upgraded (st : StepState) : Prop :=
  st = .trafficRouting ∨ st = .metricsAnalysis ∨ st = .paused ∨ st = .ready ∨ st = .completed

/-- **C02/C03 (jump)** — `doCanaryJump` changes the cursor only on a user request
    (`nextStepIndex` differs from the natural successor and is positive); it then moves exactly to
    the requested step, and lands in `StepTrafficRouting` only if the target step has the same
    replicas as the current one *and* the current step's pods were already reported ready;
    otherwise the target step starts from `BeforeStepUpgrade`.  Without a request nothing changes. -/
theorem jump_spec (ro : Rollout) (s s' : Sub) (jumped : Bool) (h : doCanaryJump ro s = some (s', jumped)) :
    (jumped = false → s' = s) ∧
    (jumped = true →
      s.nextIdx ≠ nextBatchIndex ro.steps.length s.curIdx ∧ 0 < s.nextIdx ∧ s.nextIdx ≤ ro.steps.length ∧
      s'.curIdx = s.nextIdx ∧ s'.nextIdx = nextBatchIndex ro.steps.length s.nextIdx ∧
      (s'.state = .trafficRouting ∨ s'.state = .init) ∧
      (s'.state = .trafficRouting → Upgraded s.state)) := by
  unfold doCanaryJump at h
  dsimp only at h
  split at h
  · cases h
  · split at h
    · rename_i hreq
      split at h
      · cases h
      · rename_i hle
        simp only [Option.some.injEq, Prod.mk.injEq] at h
        obtain ⟨hs, hj⟩ := h
        subst hs hj
        constructor
        · intro hc; cases hc
        · intro _
          refine ⟨hreq.1, hreq.2, by omega, rfl, rfl, ?_, ?_⟩
          · dsimp only; split <;> simp
          · dsimp only
            intro hst
            split at hst
            · rename_i hc; exact hc.2
            · cases hst
    · simp only [Option.some.injEq, Prod.mk.injEq] at h
      obtain ⟨hs, hj⟩ := h
      subst hs hj
      exact ⟨fun _ => rfl, by intro hc; cases hc⟩

/-- **C09 (jump)** — `doCanaryJump` cannot index out of range when the current step index is valid
    and the next-step index has been corrected to a legal value. -/
theorem jump_total (ro : Rollout) (s : Sub) (h1 : 1 ≤ s.curIdx) (h2 : s.curIdx ≤ ro.steps.length)
    (h3 : s.nextIdx ≤ ro.steps.length) : doCanaryJump ro s ≠ none := by
  unfold doCanaryJump
  dsimp only
  split
  · omega
  · split
    · split
      · omega
      · simp
    · simp


/-- a Manager call made through `callTM` never touches the cursor or the sub-state -/
theorem callTM_sub (f : TCtx → Net → Mem → TOut) (c c' : Ctx) (cb d e : Bool) (h : callTM f c cb = some (c', d, e)) :
    c'.sub.curIdx = c.sub.curIdx ∧ c'.sub.state = c.sub.state ∧ c'.sub.nextIdx = c.sub.nextIdx ∧ c'.ro = c.ro ∧
    c'.wl = c.wl ∧ c'.br = c.br ∧ c'.sub.finStep = c.sub.finStep := by
  unfold callTM at h
  split at h
  · cases h
  · simp only [Option.some.injEq, Prod.mk.injEq] at h
    obtain ⟨hc, _, _⟩ := h
    subst hc
    dsimp only
    split <;> exact ⟨rfl, rfl, rfl, rfl, rfl, rfl, rfl⟩


/-- what `StepUpgrade` can do: stay, or — only when the BatchRelease reports the step's pods ready —
    move to traffic routing (or past it on the partition-style full-replica bypass). Cursor untouched. -/
theorem upgradeStep_spec (ro : Rollout) (step : Step) (c c' : Ctx) (err : Bool)
    (h : upgradeStep ro step c = .ok c' err) :
    c'.sub.curIdx = c.sub.curIdx ∧ c'.sub.nextIdx = c.sub.nextIdx ∧ c'.net = c.net ∧ c'.mem = c.mem ∧
    ((c'.sub.state = c.sub.state) ∨
     ((c'.sub.state = .trafficRouting ∨ c'.sub.state = .metricsAnalysis) ∧ (doCanaryUpgrade ro c.sub c.wl c.br).1 = true)) := by
  unfold upgradeStep at h
  dsimp only at h
  split at h
  · rename_i hd
    simp only [RunOut.ok.injEq] at h
    obtain ⟨hc, _⟩ := h
    subst hc
    refine ⟨rfl, rfl, rfl, rfl, Or.inr ⟨?_, hd⟩⟩
    dsimp only; split <;> simp
  · simp only [RunOut.ok.injEq] at h
    obtain ⟨hc, _⟩ := h
    subst hc
    exact ⟨rfl, rfl, rfl, rfl, Or.inl rfl⟩

/-- `afterRetryCall` either stops with the context the call returned, or continues with it -/
theorem afterRetryCall_spec (r : Option (Ctx × Bool × Bool)) (k : Ctx → RunOut) (c' : Ctx) (err : Bool)
    (h : afterRetryCall r k = .ok c' err) :
    ∃ c1 rt e, r = some (c1, rt, e) ∧ ((c' = c1 ∧ (e = true ∨ rt = true)) ∨ (c' = { c1 with requeue := true } ∧ rt = true) ∨
      (e = false ∧ rt = false ∧ k c1 = .ok c' err)) := by
  unfold afterRetryCall at h
  split at h
  · cases h
  · rename_i c1 rt e
    refine ⟨c1, rt, e, rfl, ?_⟩
    split at h
    · rename_i he
      simp only [RunOut.ok.injEq] at h
      exact Or.inl ⟨h.1.symm, Or.inl he⟩
    · rename_i he
      split at h
      · rename_i hr
        simp only [RunOut.ok.injEq] at h
        exact Or.inr (Or.inl ⟨h.1.symm, hr⟩)
      · rename_i hr
        exact Or.inr (Or.inr ⟨by simpa using he, by simpa using hr, h⟩)


/-- `doCanaryUpgrade` reads the sub-status only through the step index -/
theorem doCanaryUpgrade_congr (ro : Rollout) (s s' : Sub) (wl : WL) (br : Option BR) (h : s'.curIdx = s.curIdx) :
    doCanaryUpgrade ro s' wl br = doCanaryUpgrade ro s wl br := by
  unfold doCanaryUpgrade; rw [h]

/-- the pods of the step are reported ready, as `doCanaryUpgrade` sees it -/
def UpgradeDone (ro : Rollout) (c : Ctx) : Prop := (doCanaryUpgrade ro c.sub c.wl c.br).1 = true

/-- what the per-sub-state switch can do in one reconcile -/
structure StepSpec (ro : Rollout) (c c' : Ctx) : Prop where
  /-- the step index moves only from `StepReady`, by one, to the natural next step -/
  cursor : c'.sub.curIdx = c.sub.curIdx ∨
    (c.sub.state = .ready ∧ c'.sub.curIdx = c.sub.curIdx + 1 ∧ c'.sub.state = .init ∧ c.sub.curIdx < ro.steps.length ∧
      c'.sub.nextIdx = nextBatchIndex ro.steps.length (c.sub.curIdx + 1))
  /-- traffic routing (or the bypass past it) is entered only once the BatchRelease reports the pods ready -/
  routing : (c'.sub.state = .trafficRouting ∨ c'.sub.state = .metricsAnalysis) → c'.sub.state ≠ c.sub.state →
    (c.sub.state = .trafficRouting ∧ c'.sub.state = .metricsAnalysis) ∨
    ((c.sub.state = .upgrade ∨ c.sub.state = .init) ∧ UpgradeDone ro c)
  /-- `StepReady` is entered only from `StepPaused` -/
  ready : c'.sub.state = .ready → c.sub.state = .paused ∨ c.sub.state = .ready
  /-- `StepPaused` is entered only from metrics analysis -/
  paused : c'.sub.state = .paused → c.sub.state = .metricsAnalysis ∨ c.sub.state = .paused
  /-- the BatchRelease and the workload are only touched through `doCanaryUpgrade` -/
  wl : c'.wl = c.wl

theorem initStep_spec (ro : Rollout) (step : Step) (c c' : Ctx) (err : Bool) (hst : c.sub.state = .init)
    (h : initStep ro step c = .ok c' err) : StepSpec ro c c' := by
  -- the continuation entered after the (optional) Service calls
  have hk : ∀ c1 : Ctx, c1.sub.curIdx = c.sub.curIdx → c1.sub.state = c.sub.state → c1.wl = c.wl → c1.br = c.br →
      upgradeStep ro step { c1 with sub := { c1.sub with state := .upgrade, lastUpdate := .fresh } } = .ok c' err →
      StepSpec ro c c' := by
    intro c1 h1 h2 h3 h4 hu
    obtain ⟨u1, _, _, _, u5⟩ := upgradeStep_spec ro step _ c' err hu
    have hwl : c'.wl = c.wl := by
      unfold upgradeStep at hu; dsimp only at hu
      split at hu <;> simp only [RunOut.ok.injEq] at hu <;> obtain ⟨hc, _⟩ := hu <;> subst hc <;> exact h3
    dsimp only at u1 u5
    refine ⟨Or.inl (by rw [u1, h1]), ?_, ?_, ?_, hwl⟩
    · intro _ _
      rcases u5 with u5 | ⟨_, hd⟩
      · rename_i hs _; rw [u5] at hs; rcases hs with hs | hs <;> cases hs
      · right
        refine ⟨Or.inr hst, ?_⟩
        unfold UpgradeDone
        rw [← doCanaryUpgrade_congr ro c.sub { c1.sub with state := .upgrade, lastUpdate := .fresh } c.wl c.br (by exact h1)]
        rw [← h3, ← h4]; exact hd
    · intro hr
      rcases u5 with u5 | ⟨hs, _⟩
      · rw [u5] at hr; cases hr
      · rcases hs with hs | hs <;> rw [hs] at hr <;> cases hr
    · intro hp
      rcases u5 with u5 | ⟨hs, _⟩
      · rw [u5] at hp; cases hp
      · rcases hs with hs | hs <;> rw [hs] at hp <;> cases hp
  -- a context returned by a stopping Service call: same cursor and state
  have hstop : ∀ c1 : Ctx, c1.sub.curIdx = c.sub.curIdx → c1.sub.state = c.sub.state → c1.wl = c.wl →
      (c' = c1 ∨ c' = { c1 with requeue := true }) → StepSpec ro c c' := by
    intro c1 h1 h2 h3 hc
    have e1 : c'.sub = c1.sub := by rcases hc with hc | hc <;> rw [hc]
    have e2 : c'.wl = c1.wl := by rcases hc with hc | hc <;> rw [hc]
    refine ⟨Or.inl (by rw [e1, h1]), ?_, ?_, ?_, by rw [e2, h3]⟩
    · intro _ hne; exact absurd (by rw [e1, h2]) hne
    · intro hr; rw [e1, h2, hst] at hr; cases hr
    · intro hp; rw [e1, h2, hst] at hp; cases hp
  unfold initStep at h
  dsimp only at h
  split at h
  · -- canary
    split at h
    · simp only [RunOut.ok.injEq] at h
      obtain ⟨hc, _⟩ := h; subst hc
      refine ⟨Or.inl rfl, ?_, ?_, ?_, rfl⟩
      · intro hs; rcases hs with hs | hs <;> cases hs
      · intro hr; cases hr
      · intro hp; cases hp
    · obtain ⟨c1, rt, e, hr1, hcase⟩ := afterRetryCall_spec _ _ c' err h
      have hc1 : c1.sub.curIdx = c.sub.curIdx ∧ c1.sub.state = c.sub.state ∧ c1.wl = c.wl ∧ c1.br = c.br := by
        split at hr1
        · obtain ⟨a, b, _, _, d, e', _⟩ := callTM_sub _ _ _ _ _ _ hr1; exact ⟨a, b, d, e'⟩
        · simp only [Option.some.injEq, Prod.mk.injEq] at hr1; rw [← hr1.1]; exact ⟨rfl, rfl, rfl, rfl⟩
      rcases hcase with ⟨hc, _⟩ | ⟨hc, _⟩ | ⟨_, _, hcont⟩
      · exact hstop c1 hc1.1 hc1.2.1 hc1.2.2.1 (Or.inl hc)
      · exact hstop c1 hc1.1 hc1.2.1 hc1.2.2.1 (Or.inr hc)
      · obtain ⟨c2, rt2, e2, hr2, hcase2⟩ := afterRetryCall_spec _ _ c' err hcont
        have hc2 : c2.sub.curIdx = c.sub.curIdx ∧ c2.sub.state = c.sub.state ∧ c2.wl = c.wl ∧ c2.br = c.br := by
          split at hr2
          · obtain ⟨a, b, _, _, d, e', _⟩ := callTM_sub _ _ _ _ _ _ hr2
            exact ⟨by rw [a, hc1.1], by rw [b, hc1.2.1], by rw [d, hc1.2.2.1], by rw [e', hc1.2.2.2]⟩
          · simp only [Option.some.injEq, Prod.mk.injEq] at hr2; rw [← hr2.1]; exact hc1
        rcases hcase2 with ⟨hc, _⟩ | ⟨hc, _⟩ | ⟨_, _, hcont2⟩
        · exact hstop c2 hc2.1 hc2.2.1 hc2.2.2.1 (Or.inl hc)
        · exact hstop c2 hc2.1 hc2.2.1 hc2.2.2.1 (Or.inr hc)
        · exact hk c2 hc2.1 hc2.2.1 hc2.2.2.1 hc2.2.2.2 hcont2
  · -- blue-green
    obtain ⟨c1, rt, e, hr1, hcase⟩ := afterRetryCall_spec _ _ c' err h
    have hc1 : c1.sub.curIdx = c.sub.curIdx ∧ c1.sub.state = c.sub.state ∧ c1.wl = c.wl ∧ c1.br = c.br := by
      split at hr1
      · obtain ⟨a, b, _, _, d, e', _⟩ := callTM_sub _ _ _ _ _ _ hr1; exact ⟨a, b, d, e'⟩
      · simp only [Option.some.injEq, Prod.mk.injEq] at hr1; rw [← hr1.1]; exact ⟨rfl, rfl, rfl, rfl⟩
    rcases hcase with ⟨hc, _⟩ | ⟨hc, _⟩ | ⟨_, _, hcont⟩
    · exact hstop c1 hc1.1 hc1.2.1 hc1.2.2.1 (Or.inl hc)
    · exact hstop c1 hc1.1 hc1.2.1 hc1.2.2.1 (Or.inr hc)
    · exact hk c1 hc1.1 hc1.2.1 hc1.2.2.1 hc1.2.2.2 hcont


/-- **C02.i / C03.ii (one sub-state step)** — for every sub-state, what one reconcile may do. -/
theorem stateStep_spec (ro : Rollout) (step : Step) (c c' : Ctx) (err : Bool)
    (h : stateStep ro step c = .ok c' err) : StepSpec ro c c' := by
  unfold stateStep at h
  cases hst : c.sub.state <;> simp only [hst] at h
  case init => exact initStep_spec ro step c c' err hst h
  case upgrade =>
    obtain ⟨u1, _, _, _, u5⟩ := upgradeStep_spec ro step c c' err h
    have hwl : c'.wl = c.wl := by
      unfold upgradeStep at h; dsimp only at h
      split at h <;> simp only [RunOut.ok.injEq] at h <;> obtain ⟨hc, _⟩ := h <;> subst hc <;> rfl
    refine ⟨Or.inl u1, ?_, ?_, ?_, hwl⟩
    · intro _ hne
      rcases u5 with u5 | ⟨_, hd⟩
      · exact absurd u5 hne
      · exact Or.inr ⟨Or.inl hst, hd⟩
    · intro hr
      rcases u5 with u5 | ⟨hs, _⟩
      · rw [u5, hst] at hr; cases hr
      · rcases hs with hs | hs <;> rw [hs] at hr <;> cases hr
    · intro hp
      rcases u5 with u5 | ⟨hs, _⟩
      · rw [u5, hst] at hp; cases hp
      · rcases hs with hs | hs <;> rw [hs] at hp <;> cases hp
  case trafficRouting =>
    split at h
    · cases h
    · rename_i c4 done e hcall
      obtain ⟨a, b, _, _, d, _, _⟩ := callTM_sub _ _ _ _ _ _ hcall
      split at h
      · simp only [RunOut.ok.injEq] at h; obtain ⟨hc, _⟩ := h; subst hc
        refine ⟨Or.inl a, ?_, ?_, ?_, d⟩
        · intro _ hne; exact absurd b hne
        · intro hr; rw [b, hst] at hr; cases hr
        · intro hp; rw [b, hst] at hp; cases hp
      · split at h
        · simp only [RunOut.ok.injEq] at h; obtain ⟨hc, _⟩ := h; subst hc
          refine ⟨Or.inl a, ?_, ?_, ?_, d⟩
          · intro _ _; exact Or.inl ⟨hst, rfl⟩
          · intro hr; cases hr
          · intro hp; cases hp
        · simp only [RunOut.ok.injEq] at h; obtain ⟨hc, _⟩ := h; subst hc
          refine ⟨Or.inl a, ?_, ?_, ?_, d⟩
          · intro _ hne; exact absurd b hne
          · intro hr; dsimp only at hr; rw [b, hst] at hr; cases hr
          · intro hp; dsimp only at hp; rw [b, hst] at hp; cases hp
  case metricsAnalysis =>
    simp only [RunOut.ok.injEq] at h; obtain ⟨hc, _⟩ := h; subst hc
    refine ⟨Or.inl rfl, ?_, ?_, ?_, rfl⟩
    · intro hs; rcases hs with hs | hs <;> cases hs
    · intro hr; cases hr
    · intro _; exact Or.inl hst
  case paused =>
    split at h
    · cases h
    · simp only [RunOut.ok.injEq] at h; obtain ⟨hc, _⟩ := h; subst hc
      refine ⟨Or.inl rfl, ?_, ?_, ?_, rfl⟩
      · intro hs; rcases hs with hs | hs <;> cases hs
      · intro _; exact Or.inl hst
      · intro hp; cases hp
    · simp only [RunOut.ok.injEq] at h; obtain ⟨hc, _⟩ := h; subst hc
      refine ⟨Or.inl rfl, ?_, ?_, ?_, rfl⟩
      · intro _ hne; exact absurd rfl hne
      · intro _; exact Or.inl hst
      · intro _; exact Or.inr hst
  case ready =>
    split at h
    · rename_i hlt
      simp only [RunOut.ok.injEq] at h; obtain ⟨hc, _⟩ := h; subst hc
      refine ⟨Or.inr ⟨hst, rfl, rfl, by omega, rfl⟩, ?_, ?_, ?_, rfl⟩
      · intro hs; rcases hs with hs | hs <;> cases hs
      · intro hr; cases hr
      · intro hp; cases hp
    · simp only [RunOut.ok.injEq] at h; obtain ⟨hc, _⟩ := h; subst hc
      refine ⟨Or.inl rfl, ?_, ?_, ?_, rfl⟩
      · intro hs; rcases hs with hs | hs <;> cases hs
      · intro hr; cases hr
      · intro hp; cases hp
  case completed =>
    simp only [RunOut.ok.injEq] at h; obtain ⟨hc, _⟩ := h; subst hc
    refine ⟨Or.inl rfl, ?_, ?_, ?_, rfl⟩
    · intro _ hne; exact absurd rfl hne
    · intro hr; rw [hst] at hr; cases hr
    · intro hp; rw [hst] at hp; cases hp
  case other =>
    simp only [RunOut.ok.injEq] at h; obtain ⟨hc, _⟩ := h; subst hc
    refine ⟨Or.inl rfl, ?_, ?_, ?_, rfl⟩
    · intro _ hne; exact absurd rfl hne
    · intro hr; rw [hst] at hr; cases hr
    · intro hp; rw [hst] at hp; cases hp


theorem syncStep_sub (c : Ctx) :
    (syncStep c).sub.curIdx = c.sub.curIdx ∧ (syncStep c).sub.nextIdx = c.sub.nextIdx ∧ (syncStep c).sub.state = c.sub.state ∧
    (syncStep c).ro = c.ro ∧ (syncStep c).wl = c.wl := by
  unfold syncStep
  dsimp only
  cases c.br with
  | none => dsimp only; split <;> exact ⟨rfl, rfl, rfl, rfl, rfl⟩
  | some b => dsimp only; split <;> split <;> exact ⟨rfl, rfl, rfl, rfl, rfl⟩

/-- a user step-jump request is pending in the status -/
def JumpReq (ro : Rollout) (s : Sub) : Prop :=
  s.nextIdx ≠ nextBatchIndex ro.steps.length s.curIdx ∧ 0 < s.nextIdx

/-- **C02.i / C03.ii (one `runCanary`)** — for every rollout, status, workload, BatchRelease and
    network state, one round of the release manager
    1. changes the step index only by one from `StepReady` to the natural next step, or to the
       step a pending jump request names;
    2. enters `StepTrafficRouting` only from a sub-state in which the step's pods are already ready,
       or from `StepUpgrade`/`BeforeStepUpgrade` of the same step in a round in which the
       BatchRelease reports the step's pods ready;
    3. enters `StepReady` only from `StepPaused` of the same step. -/
theorem runCanary_gated (c0 c' : Ctx) (err : Bool) (h : runCanary c0 = .ok c' err) :
    (c'.sub.curIdx ≠ c0.sub.curIdx →
      (c0.sub.state = .ready ∧ c'.sub.curIdx = c0.sub.curIdx + 1 ∧ c0.sub.curIdx < c0.ro.steps.length ∧ ¬ JumpReq c0.ro c0.sub) ∨
      (JumpReq c0.ro c0.sub ∧ c'.sub.curIdx = c0.sub.nextIdx)) ∧
    (c'.sub.state = .trafficRouting → (c0.sub.state ≠ .trafficRouting ∨ c'.sub.curIdx ≠ c0.sub.curIdx) →
      Upgraded c0.sub.state ∨
      ((c0.sub.state = .upgrade ∨ c0.sub.state = .init) ∧ c'.sub.curIdx = c0.sub.curIdx ∧ ¬ JumpReq c0.ro c0.sub ∧
        ∃ c : Ctx, c.sub.curIdx = c0.sub.curIdx ∧ c.wl = c0.wl ∧ c.br = (syncStep c0).br ∧ UpgradeDone c0.ro c)) ∧
    (c'.sub.state = .ready → c0.sub.state ≠ .ready → c0.sub.state = .paused ∧ c'.sub.curIdx = c0.sub.curIdx) := by
  obtain ⟨y1, y2, y3, y4, y5⟩ := syncStep_sub c0
  unfold runCanary at h
  dsimp only at h
  split at h
  · cases h
  · -- jumped
    rename_i s2 hj
    simp only [RunOut.ok.injEq] at h; obtain ⟨hc, _⟩ := h; subst hc
    obtain ⟨_, hjs⟩ := jump_spec _ _ _ _ hj
    obtain ⟨j1, j2, j3, j4, j5, j6, j7⟩ := hjs rfl
    rw [y1, y2] at j1; rw [y2] at j2 j4; rw [y3] at j7
    have hreq : JumpReq c0.ro c0.sub := ⟨j1, j2⟩
    dsimp only
    refine ⟨fun _ => Or.inr ⟨hreq, j4⟩, fun hst _ => Or.inl (j7 hst), ?_⟩
    intro hr; rcases j6 with j6 | j6 <;> rw [j6] at hr <;> cases hr
  · -- no jump
    rename_i s2 hj
    obtain ⟨hsame, _⟩ := jump_spec _ _ _ _ hj
    have hs2 : s2 = (syncStep c0).sub := hsame rfl
    subst hs2
    have hnoreq : ¬ JumpReq c0.ro c0.sub := by
      intro ⟨r1, r2⟩
      unfold doCanaryJump at hj
      dsimp only at hj
      split at hj
      · cases hj
      · split at hj
        · split at hj <;> simp at hj
        · rename_i hn
          apply hn
          rw [y1, y2]; exact ⟨r1, r2⟩
    split at h
    · cases h
    · rename_i step _
      split at h
      · cases h
      · rename_i c3 done e hpre
        -- the pre-step never touches cursor, state, workload or BatchRelease
        have hc3 : c3.sub.curIdx = c0.sub.curIdx ∧ c3.sub.state = c0.sub.state ∧ c3.wl = c0.wl ∧ c3.br = (syncStep c0).br ∧
            c3.sub.nextIdx = c0.sub.nextIdx := by
          unfold preStep at hpre
          split at hpre
          · obtain ⟨a, b, n', _, d, e', _⟩ := callTM_sub _ _ _ _ _ _ hpre
            dsimp only at a b n' d e'
            exact ⟨by rw [a, y1], by rw [b, y3], by rw [d, y5], e', by rw [n', y2]⟩
          · simp only [Option.some.injEq, Prod.mk.injEq] at hpre
            rw [← hpre.1]; exact ⟨y1, y3, y5, rfl, y2⟩
        have hstop : ∀ cx : Ctx, cx.sub = c3.sub → c' = cx →
            (c'.sub.curIdx ≠ c0.sub.curIdx → False) ∧ c'.sub.state = c0.sub.state := by
          intro cx h1 h2
          subst h2
          exact ⟨fun hne => hne (by rw [h1, hc3.1]), by rw [h1, hc3.2.1]⟩
        split at h
        · simp only [RunOut.ok.injEq] at h; obtain ⟨hc, _⟩ := h
          obtain ⟨k1, k2⟩ := hstop c3 rfl hc.symm
          refine ⟨fun hne => absurd hne (fun h' => k1 h'), ?_, ?_⟩
          · intro hst hne
            rcases hne with hne | hne
            · rw [k2] at hst; exact absurd hst hne
            · exact absurd hne (fun h' => k1 h')
          · intro hr hne; rw [k2] at hr; exact absurd hr hne
        · split at h
          · simp only [RunOut.ok.injEq] at h; obtain ⟨hc, _⟩ := h
            obtain ⟨k1, k2⟩ := hstop { c3 with requeue := true } rfl hc.symm
            refine ⟨fun hne => absurd hne (fun h' => k1 h'), ?_, ?_⟩
            · intro hst hne
              rcases hne with hne | hne
              · rw [k2] at hst; exact absurd hst hne
              · exact absurd hne (fun h' => k1 h')
            · intro hr hne; rw [k2] at hr; exact absurd hr hne
          · have sp := stateStep_spec _ _ _ _ _ h
            have hro : (syncStep c0).ro = c0.ro := y4
            refine ⟨?_, ?_, ?_⟩
            · intro hne
              rcases sp.cursor with hc | ⟨r1, r2, _, r4, _⟩
              · exact absurd (by rw [hc, hc3.1]) hne
              · left
                refine ⟨by rw [← hc3.2.1]; exact r1, by rw [r2, hc3.1], by rw [← hc3.1]; exact r4, hnoreq⟩
            · intro hst hne
              by_cases hsame' : c'.sub.state = c3.sub.state
              · -- state unchanged, so the index changed: only from ready, where the new state is init
                rcases sp.cursor with hc | ⟨_, _, r3, _, _⟩
                · rcases hne with hne | hne
                  · rw [hsame', hc3.2.1] at hst; exact absurd hst hne
                  · exact absurd (by rw [hc, hc3.1]) hne
                · rw [r3] at hst; cases hst
              · rcases sp.routing (Or.inl hst) hsame' with ⟨r1, r2⟩ | ⟨r1, r2⟩
                · rw [hst] at r2; cases r2
                · right
                  have hcur : c'.sub.curIdx = c0.sub.curIdx := by
                    rcases sp.cursor with hc | ⟨r', _, _, _, _⟩
                    · rw [hc, hc3.1]
                    · rcases r1 with r1 | r1 <;> rw [r1] at r' <;> cases r'
                  exact ⟨by rw [← hc3.2.1]; exact r1, hcur, hnoreq, c3, hc3.1, hc3.2.2.1, hc3.2.2.2.1, r2⟩
            · intro hr hne
              rcases sp.ready hr with r1 | r1
              · refine ⟨by rw [← hc3.2.1]; exact r1, ?_⟩
                rcases sp.cursor with hc | ⟨r', _, _, _, _⟩
                · rw [hc, hc3.1]
                · rw [r1] at r'; cases r'
              · rw [hc3.2.1] at r1; exact absurd r1 hne


/-! ### No crash (C09.ii) -/

theorem callTM_total (f : TCtx → Net → Mem → TOut) (c : Ctx) (cb : Bool) (h : c.ro.steps ≠ []) : callTM f c cb ≠ none := by
  unfold callTM trCtx
  cases hs : c.ro.steps with
  | nil => exact absurd hs h
  | cons a l => simp

theorem callTM_lastUpdate (f : TCtx → Net → Mem → TOut) (c c' : Ctx) (cb d e : Bool) (h : callTM f c cb = some (c', d, e))
    (hl : c.sub.lastUpdate ≠ .none) : c'.sub.lastUpdate ≠ .none := by
  unfold callTM at h
  split at h
  · cases h
  · simp only [Option.some.injEq, Prod.mk.injEq] at h
    obtain ⟨hc, _, _⟩ := h
    subst hc
    dsimp only
    split
    · intro hc; cases hc
    · exact hl

theorem upgradeStep_total (ro : Rollout) (step : Step) (c : Ctx) : upgradeStep ro step c ≠ .panic := by
  unfold upgradeStep; dsimp only; split <;> intro h <;> cases h

theorem afterRetryCall_total (r : Option (Ctx × Bool × Bool)) (k : Ctx → RunOut) (hr : r ≠ none)
    (hk : ∀ c rt e, r = some (c, rt, e) → k c ≠ .panic) : afterRetryCall r k ≠ .panic := by
  unfold afterRetryCall
  split
  · exact absurd rfl hr
  · rename_i c rt e
    split
    · intro h; cases h
    · split
      · intro h; cases h
      · exact hk c rt e rfl

theorem initStep_total (ro : Rollout) (step : Step) (c : Ctx) (h : c.ro.steps ≠ []) :
    initStep ro step c ≠ .panic := by
  unfold initStep
  dsimp only
  have hk : ∀ c1 : Ctx, upgradeStep ro step { c1 with sub := { c1.sub with state := .upgrade, lastUpdate := .fresh } } ≠ .panic :=
    fun c1 => upgradeStep_total _ _ _
  split
  · split
    · intro hc; cases hc
    · apply afterRetryCall_total
      · split
        · exact callTM_total _ _ _ h
        · simp
      · intro c4 rt e hr4
        have h4 : c4.ro.steps ≠ [] := by
          split at hr4
          · obtain ⟨_, _, _, hro, _⟩ := callTM_sub _ _ _ _ _ _ hr4; rw [hro]; exact h
          · simp only [Option.some.injEq, Prod.mk.injEq] at hr4; rw [← hr4.1]; exact h
        apply afterRetryCall_total
        · split
          · exact callTM_total _ _ _ h4
          · simp
        · intro c5 _ _ _; exact hk c5
  · apply afterRetryCall_total
    · split
      · exact callTM_total _ _ _ h
      · simp
    · intro c5 _ _ _; exact hk c5

/-- the statuses on which the release manager cannot crash: a step index inside the plan, a legal
    (corrected) next-step index and a recorded last-update time -/
def SubOk (ro : Rollout) (s : Sub) : Prop :=
  1 ≤ s.curIdx ∧ s.curIdx ≤ ro.steps.length ∧ s.nextIdx ≤ ro.steps.length ∧ s.lastUpdate ≠ .none

/-- **C09.ii (release manager)** — for every plan, every workload / BatchRelease / network state, every
    sub-state (including unknown strings) and **every** legal-or-corrected `nextStepIndex`, one round
    of the release manager does not crash. -/
theorem runCanary_total (c0 : Ctx) (hok : SubOk c0.ro c0.sub) : runCanary c0 ≠ .panic := by
  obtain ⟨h1, h2, h3, h4⟩ := hok
  obtain ⟨y1, y2, y3, y4, y5⟩ := syncStep_sub c0
  have hsteps : c0.ro.steps ≠ [] := by
    intro he; rw [he] at h2; simp at h2; omega
  have hlu : (syncStep c0).sub.lastUpdate ≠ .none := by
    unfold syncStep; dsimp only
    cases c0.br with
    | none => dsimp only; split <;> exact h4
    | some b => dsimp only; split <;> split <;> exact h4
  unfold runCanary
  dsimp only
  have hj := jump_total c0.ro (syncStep c0).sub (by rw [y1]; exact h1) (by rw [y1]; exact h2) (by rw [y2]; exact h3)
  split
  · rename_i hn; exact absurd hn hj
  · intro hc; cases hc
  · rename_i s2 hjj
    obtain ⟨hsame, _⟩ := jump_spec _ _ _ _ hjj
    have hs2 : s2 = (syncStep c0).sub := hsame rfl
    subst hs2
    split
    · rename_i hnone
      exfalso
      have hlt : ((syncStep c0).sub.curIdx - 1).toNat < c0.ro.steps.length := by rw [y1]; omega
      rw [List.getElem?_eq_getElem hlt] at hnone
      cases hnone
    · rename_i step _
      have hro2 : ({ syncStep c0 with sub := (syncStep c0).sub } : Ctx).ro.steps ≠ [] := by
        show (syncStep c0).ro.steps ≠ []; rw [y4]; exact hsteps
      split
      · rename_i hpre
        exfalso
        unfold preStep at hpre
        split at hpre
        · exact callTM_total _ _ _ hro2 hpre
        · cases hpre
      · rename_i c3 done e hpre
        have hc3 : c3.ro.steps ≠ [] ∧ c3.sub.lastUpdate ≠ .none := by
          unfold preStep at hpre
          split at hpre
          · obtain ⟨_, _, _, hro, _⟩ := callTM_sub _ _ _ _ _ _ hpre
            exact ⟨by rw [hro]; exact hro2, callTM_lastUpdate _ _ _ _ _ _ hpre hlu⟩
          · simp only [Option.some.injEq, Prod.mk.injEq] at hpre; rw [← hpre.1]; exact ⟨hro2, hlu⟩
        split
        · intro hc; cases hc
        · split
          · intro hc; cases hc
          · unfold stateStep
            split
            · exact initStep_total _ _ _ hc3.1
            · exact upgradeStep_total _ _ _
            · split
              · rename_i hcall; exact absurd hcall (callTM_total _ _ _ hc3.1)
              · split
                · intro hc; cases hc
                · split <;> intro hc <;> cases hc
            · intro hc; cases hc
            · split
              · rename_i hp
                exfalso
                unfold doCanaryPaused at hp
                split at hp
                · cases hp
                · split at hp
                  · cases hp
                  · split at hp
                    · exact hc3.2 (by assumption)
                    · cases hp
                    · cases hp
                  · split at hp
                    · exact hc3.2 (by assumption)
                    · cases hp
              · intro hc; cases hc
              · intro hc; cases hc
            · dsimp only; split <;> intro hc <;> cases hc
            · intro hc; cases hc


/-! ### Finalising cursor (C04/C05/C18) -/

theorem stripAnno_frame (c : Ctx) : (stripAnno c).sub = c.sub ∧ (stripAnno c).ro = c.ro := by
  unfold stripAnno; split <;> exact ⟨rfl, rfl⟩

theorem finTask_cursor (c c' : Ctx) (wr rt e : Bool) (h : finTask c wr = some (c', rt, e)) :
    c'.sub.finStep = c.sub.finStep := by
  unfold finTask at h
  split at h
  all_goals
    first
      | (simp only [Option.some.injEq, Prod.mk.injEq] at h; obtain ⟨hc, _, _⟩ := h; rw [← hc])
      | (obtain ⟨_, _, _, _, _, _, hf⟩ := callTM_sub _ _ _ _ _ _ h; exact hf)

/-- **C04.a / C18** — the clean-up sequence reports *done* only with its cursor at END and no error;
    in one round the cursor only ever stays, moves to the successor the task table names for the
    cursor as it was read, or restarts from the first task on an unknown value.  It moves to the
    successor only when the task at the cursor ran in this round and reported completion. -/
theorem doFinalising_cursor (c c' : Ctx) (reason : Reason) (wr done err : Bool)
    (h : doFinalising c reason wr = some (c', done, err)) :
    (done = true → c'.sub.finStep = .end_ ∧ err = false) ∧
    (c'.sub.finStep = c.sub.finStep ∨
     c'.sub.finStep = nextTask (taskList c.ro.style reason) c.sub.finStep ∨
     c'.sub.finStep = nextTask (taskList c.ro.style reason) .empty) := by
  obtain ⟨hs, hr⟩ := stripAnno_frame c
  unfold doFinalising at h
  dsimp only at h
  rw [hs, hr] at h
  split at h
  · cases h
  · split at h
    · rename_i hend
      simp only [Option.some.injEq, Prod.mk.injEq] at h
      obtain ⟨hc, hd, he⟩ := h
      subst hc
      exact ⟨fun _ => ⟨by rw [hs]; exact hend, he.symm⟩, Or.inl (by rw [hs])⟩
    · -- cursor after the optional start
      have hsc : (startCursor (stripAnno c) (nextTask (taskList c.ro.style reason) c.sub.finStep)).sub.finStep =
          (if c.sub.finStep = .empty then nextTask (taskList c.ro.style reason) c.sub.finStep else c.sub.finStep) := by
        unfold startCursor; rw [hs]; split
        · rfl
        · rw [hs]
      split at h
      · simp only [Option.some.injEq, Prod.mk.injEq] at h
        obtain ⟨hc, hd, _⟩ := h
        subst hc
        exact ⟨fun hdone => (by rw [← hd] at hdone; cases hdone), Or.inr (Or.inr rfl)⟩
      · split at h
        · cases h
        · rename_i cr retry e hrun
          have hfin := finTask_cursor _ _ _ _ _ hrun
          rw [hsc] at hfin
          split at h
          · simp only [Option.some.injEq, Prod.mk.injEq] at h
            obtain ⟨hc, hd, _⟩ := h
            subst hc
            refine ⟨fun hdone => (by rw [← hd] at hdone; cases hdone), ?_⟩
            rw [hfin]
            split
            · right; left; rfl
            · left; rfl
          · simp only [Option.some.injEq, Prod.mk.injEq] at h
            obtain ⟨hc, hd, he⟩ := h
            subst hc
            exact ⟨fun hdone => ⟨(by rw [← hd] at hdone; simpa using hdone), he.symm⟩, Or.inr (Or.inl rfl)⟩


/-! ### Finalizer (C18, Rollout) -/

/-- **C18 (Rollout)** — for every rollout: the controller drops its own finalizer only while the object
    is being deleted and its Terminating condition already says Completed; otherwise the finalizer is
    present afterwards (added if missing) unless the object is already in deletion. -/
theorem handleFinalizer_guard (ro : Rollout) :
    ((handleFinalizer ro).2.1 = true → ro.deleting = true ∧ ro.term = .completed ∧ ro.hasFinalizer = true) ∧
    ((handleFinalizer ro).1.hasFinalizer = false → ro.hasFinalizer = true → ro.deleting = true ∧ ro.term = .completed) ∧
    (ro.deleting = false → (handleFinalizer ro).1.hasFinalizer = true) := by
  unfold handleFinalizer
  by_cases hd : ro.deleting = true
  · by_cases hc : ro.term = .completed ∧ ro.hasFinalizer = true
    · simp [hd, hc]
    · simp only [hd, if_true, hc, if_false]
      refine ⟨?_, ?_, ?_⟩
      · intro h; cases h
      · intro h1 h2; rw [h1] at h2; cases h2
      · intro h; cases h
  · by_cases hf : ro.hasFinalizer = true
    · simp [hd, hf]
    · simp [hd, hf]

end RV.Props.Rollout
