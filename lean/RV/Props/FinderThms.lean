import RV.Lemmas.Finder
/-!
# What the Rollout controller sees of a workload — the ControllerFinder (C10, C08, C03)

Model: `RV.Finder` (pkg/util/controller_finder.go and the helpers it calls).  Declarative side: `RV.Oracle.Finder.Facts`
— per kind, what the record must say.  All statements quantify over every cluster (any number of objects of every
kind, any ReplicaSet / canary-Deployment sets, any fault placement), every strategy, namespace and reference.

Reading guide
* `finder_total`   — clause 1 (the finder does not panic)
* `rollback_detected`, `no_false_rollback`, `rollback_iff_*`, `rollback_implies_in_progress` — clause 2
* `inconsistent_is_opaque`, `skew_is_opaque`, `consistent_reads_status` — clause 3
* `dispatch_by_style_and_kind`, `owners_*`, `no_owner_nothing`, `canary_style_finder_wins`, `advanced_finder_*` — clause 4
* `stable_rs_choice`, `stable_rs_none_iff`, `latest_canary_choice`, `no_canary_empty_hash`, `pod_template_hash_from_canary_rs` — clause 5
* `revision_suffix_*` — clause 6
* `*_holds` — each run-time oracle, evaluated on the model's own output, is `true`
-/
namespace RV.Props.Finder
open RV.Finder RV.Oracle.Finder RV.Lemmas.Finder

/-! ## 6. revision suffix -/

/-- the slice `s[strings.LastIndex(s, "-")+1:]` never goes out of range, and is the part after the last dash -/
theorem revision_suffix_total (s : String) : revSuffix? s = some (suffix s) := revSuffix?_eq s

/-- it is the identity on names without a dash -/
theorem revision_suffix_id (s : String) (h : '-' ∉ s.toList) : revSuffix? s = some s := by
  rw [revSuffix?_eq]
  unfold suffix
  have := afterLast_nodash s.toList h
  unfold afterLast at this
  rw [this, String.ofList_toList]

/-- with a dash: the name is `prefix-suffix`, and the suffix has no dash -/
theorem revision_suffix_split (s : String) (h : '-' ∈ s.toList) :
    ∃ pre, s.toList = pre ++ '-' :: (suffix s).toList ∧ '-' ∉ (suffix s).toList := by
  rcases lastIndexDash_spec s.toList with ⟨_, h2⟩ | ⟨pre, suf, h1, _, h3⟩
  · exact absurd h h2
  · refine ⟨pre, ?_, ?_⟩
    all_goals
      unfold suffix
      have := afterLast_split pre suf h3
      unfold afterLast at this
      rw [String.toList_ofList, h1, this]
    exact h3

/-! ## 5. the stable ReplicaSet and the latest canary Deployment -/

/-- which ReplicaSets count for a Deployment (as coded in `GetReplicaSetsForDeployment`) -/
theorem active_owned_iff (c : Cluster) (d : Deployment) (rs : ReplicaSet) :
    rs ∈ activeOwned c d ↔
      rs ∈ c.replicaSets ∧ rs.m.ns = d.m.ns ∧ d.selector.mts rs.app = true ∧ rs.m.deleting = false ∧
      rs.replicas ≠ some 0 ∧ rs.owner = some d.m.uid := by
  unfold activeOwned
  simp [List.mem_filter, and_assoc]

/-- `GetDeploymentStableRs` returns an oldest ReplicaSet among those that count — for every cluster and whichever
    `List` call it is -/
theorem stable_rs_choice (c : Cluster) (d : Deployment) (n : Nat) (rs : ReplicaSet)
    (h : getDeploymentStableRs c d n = .ok (some rs)) :
    rs ∈ activeOwned c d ∧ ∀ o ∈ activeOwned c d, rs.m.created ≤ o.m.created :=
  oldestRs_spec c d rs (stableRs_ok c d n _ h).symm

/-- … and none exactly when none counts (so the index `rss[0]` is always in range) -/
theorem stable_rs_none_iff (c : Cluster) (d : Deployment) (n : Nat) (r : Option ReplicaSet)
    (h : getDeploymentStableRs c d n = .ok r) : r = none ↔ activeOwned c d = [] := by
  rw [stableRs_ok c d n r h]
  exact minBy_none _ _

/-- `getLatestCanaryDeployment` returns a newest canary Deployment (label `rollouts.kruise.io/canary-deployment` =
    the stable's name, same namespace) among those not in deletion -/
theorem latest_canary_choice (c : Cluster) (d cd : Deployment) (h : getLatestCanaryDeployment c d = .ok (some cd)) :
    cd ∈ canariesOf c d ∧ cd.m.deleting = false ∧
    ∀ o ∈ canariesOf c d, o.m.deleting = false → o.m.created ≤ cd.m.created :=
  newestLiveCanary_spec c d cd (canary_ok c d _ h).symm

theorem latest_canary_none (c : Cluster) (d : Deployment) (h : getLatestCanaryDeployment c d = .ok none) :
    ∀ o ∈ canariesOf c d, o.m.deleting = true := by
  have := (canary_ok c d _ h).symm
  unfold newestLiveCanary at this
  rw [minBy_none, List.filter_eq_nil_iff] at this
  intro o ho
  simpa using this o ho

/-! ## the record agrees with the facts -/

/-- **Main theorem.**  Whenever `GetWorkloadForRef` returns a record without an error, the workload the Rollout
    designates has facts (`Oracle.Finder.facts`: those of the first finder, in dispatch order, that holds an object) and
    the record agrees with them: it says "wait" exactly when the facts demand it and is then empty; otherwise its name,
    rollback flag, stable / canary revision, pod-template-hash, revision label key and in-progress flag are the facts'. -/
theorem record_agrees_with_facts (c : Cluster) (s : Strategy) (ns : String) (ref : Ref) (w : W)
    (h : getWorkloadForRef c s ns ref = .wl w) : ∃ F, facts c s ns ref = some F ∧ agrees w F = true :=
  facts_sound c s ns ref w h

/-- unfolding `agrees` for a consistent record -/
theorem agrees_consistent (w : W) (F : Facts) (h : agrees w F = true) (hc : w.isStatusConsistent = true) :
    F.waits = false ∧ w.name = F.name ∧ w.isInRollback = F.rollingBack ∧ w.stableRevision = F.stable ∧
    w.canaryRevision = F.canary ∧ w.podTemplateHash = F.pth ∧ w.revisionLabelKey = F.key ∧ w.inRolloutProgressing = F.inProgress := by
  unfold agrees at h
  cases hw : F.waits
  · simp [hw] at h
    obtain ⟨_, ⟨⟨⟨⟨⟨⟨h1, h2⟩, h3⟩, h4⟩, h5⟩, h6⟩, h7⟩⟩ := h
    exact ⟨rfl, h1, h2, h3, h4, h5, h6, h7⟩
  · simp [hw, hc] at h

theorem agrees_waits (w : W) (F : Facts) (h : agrees w F = true) (hw : F.waits = true) : w = W.opaque := by
  unfold agrees at h
  simp [hw] at h
  exact h.2

/-- in the facts of every kind a rollback implies "in progress" -/
theorem facts_rollback_in_progress (c : Cluster) (s : Strategy) (ns : String) (ref : Ref) (F : Facts)
    (h : facts c s ns ref = some F) (hr : F.rollingBack = true) : F.inProgress = true := by
  unfold facts at h
  cases hs : getRollingStyle s with
  | none => simp [hs] at h
  | some st =>
    simp only [hs] at h
    obtain ⟨f, _, hf⟩ := List.exists_of_findSome?_eq_some h
    cases f with
    | cloneSet =>
      simp only [factsOf, Option.map_eq_some_iff] at hf
      obtain ⟨x, _, rfl⟩ := hf
      simp only [cloneSetFacts, Bool.and_eq_true] at hr ⊢; exact hr.1.1
    | daemonSet =>
      simp only [factsOf, Option.map_eq_some_iff] at hf
      obtain ⟨x, _, rfl⟩ := hf
      simp [daemonSetFacts] at hr
    | stsLike =>
      simp only [factsOf, Option.map_eq_some_iff] at hf
      obtain ⟨x, _, rfl⟩ := hf
      simp only [infoFacts, Bool.and_eq_true] at hr ⊢; exact hr.1.1
    | advancedDeployment =>
      simp only [factsOf, Option.map_eq_some_iff] at hf
      obtain ⟨x, _, rfl⟩ := hf
      simp only [advancedDeploymentFacts, Bool.and_eq_true] at hr ⊢; exact hr.1.1
    | deployment =>
      simp only [factsOf, Option.map_eq_some_iff] at hf
      obtain ⟨x, _, rfl⟩ := hf
      unfold canaryDeploymentFacts at hr ⊢
      cases ho : oldestRs c x with
      | none => simp [ho] at hr
      | some rs => simp only [ho, Bool.and_eq_true] at hr ⊢; exact hr.1

/-- without a (live) canary Deployment, or while that has no counting ReplicaSet, the canary-style finder leaves
    `PodTemplateHash` empty — which is what makes the traffic routing wait -/
theorem no_canary_empty_hash (c : Cluster) (ns : String) (ref : Ref) (w : W) (d : Deployment)
    (h : getDeployment c ns ref = .wl w) (hd : lookup Deployment.m c.deployments ns ref.name = some d)
    (hno : newestLiveCanary c d = none ∨ ∃ cd, newestLiveCanary c d = some cd ∧ oldestRs c cd = none) :
    w.podTemplateHash = "" := by
  obtain ⟨d', hl, ha⟩ := deployment_wl c ns ref w h
  rw [hd] at hl; cases hl
  rcases agrees_opaque w _ ha with hc | ho'
  · rw [(agrees_consistent w _ ha hc).2.2.2.2.2.1]
    unfold canaryDeploymentFacts
    cases ho : oldestRs c d with
    | none => rfl
    | some rs =>
      rcases hno with hn | ⟨cd, hn, hc2⟩
      · simp only [hn]; split <;> rfl
      · simp only [hn, hc2]; split <;> rfl
  · rw [ho']; rfl

/-! ## 2. rollback detection (C10) -/

/-- **C10 `rollback_detected`** — if the designated workload is being rolled back (per kind: `Facts.rollingBack`) and the
    finder reports a consistent record, the record says `IsInRollback` -/
theorem rollback_detected (c : Cluster) (s : Strategy) (ns : String) (ref : Ref) (w : W) (F : Facts)
    (h : getWorkloadForRef c s ns ref = .wl w) (hF : facts c s ns ref = some F)
    (hc : w.isStatusConsistent = true) (hr : F.rollingBack = true) : w.isInRollback = true := by
  obtain ⟨F', hF', ha⟩ := facts_sound c s ns ref w h
  rw [hF] at hF'; cases hF'
  rw [(agrees_consistent w F ha hc).2.2.1, hr]

/-- **C10 `no_false_rollback`** — a reported rollback is one: the record is consistent and the facts say so -/
theorem no_false_rollback (c : Cluster) (s : Strategy) (ns : String) (ref : Ref) (w : W)
    (h : getWorkloadForRef c s ns ref = .wl w) (hr : w.isInRollback = true) :
    w.isStatusConsistent = true ∧ ∃ F, facts c s ns ref = some F ∧ F.rollingBack = true := by
  obtain ⟨F, hF, ha⟩ := facts_sound c s ns ref w h
  have hc : w.isStatusConsistent = true := by
    rcases agrees_opaque w F ha with h1 | h1
    · exact h1
    · rw [h1] at hr; simp [W.opaque] at hr
  exact ⟨hc, F, hF, by rw [← (agrees_consistent w F ha hc).2.2.1, hr]⟩

/-- corollary: a rollback is only ever reported for a workload marked in progress -/
theorem rollback_implies_in_progress (c : Cluster) (s : Strategy) (ns : String) (ref : Ref) (w : W)
    (h : getWorkloadForRef c s ns ref = .wl w ∨ getWorkloadForRef c s ns ref = .wlErr w)
    (hr : w.isInRollback = true) : w.inRolloutProgressing = true := by
  rcases h with h | h
  · obtain ⟨hc, F, hF, hrb⟩ := no_false_rollback c s ns ref w h hr
    obtain ⟨F', hF', ha⟩ := facts_sound c s ns ref w h
    rw [hF] at hF'; cases hF'
    rw [(agrees_consistent w F ha hc).2.2.2.2.2.2.2]
    exact facts_rollback_in_progress c s ns ref F hF hrb
  · -- a record returned together with an error never carries the rollback flag
    exfalso
    cases hs : getRollingStyle s with
    | none => simp [getWorkloadForRef, hs] at h
    | some st =>
      rw [dispatch c s ns ref st hs] at h
      have hm := firstHit_mem _ _ h (by simp)
      obtain ⟨f, _, hf⟩ := List.mem_map.1 hm
      have := (run_wlErr c ns ref f w hf).1
      rw [this] at hr; cases hr

/-! ### the right-hand side per kind, in readable form -/

/-- CloneSet: rollback ⇔ in-progress annotation ∧ update revision = current revision ∧ updated replicas ≠ replicas -/
theorem rollback_iff_cloneSet (c : Cluster) (ns : String) (ref : Ref) (w : W)
    (h : getKruiseCloneSet c ns ref = .wl w) (hc : w.isStatusConsistent = true) :
    ∃ cs, lookup CloneSet.m c.cloneSets ns ref.name = some cs ∧
      (w.isInRollback = true ↔ cs.m.inProgress = true ∧ cs.currentRevision = cs.updateRevision ∧ cs.updatedReplicas ≠ cs.statusReplicas) := by
  obtain ⟨cs, hl, ha⟩ := cloneSet_wl c ns ref w h
  refine ⟨cs, hl, ?_⟩
  rw [(agrees_consistent w _ ha hc).2.2.1]
  simp [cloneSetFacts, and_assoc]

/-- StatefulSet-like (native / Advanced StatefulSet, unstructured, and the typed objects `ParseWorkload` accepts):
    rollback ⇔ in-progress annotation ∧ update revision = stable revision ∧ updated replicas ≠ replicas -/
theorem rollback_iff_stsLike (c : Cluster) (ns : String) (ref : Ref) (w : W)
    (h : getStatefulSetLikeWorkload c ns ref = .wl w) (hc : w.isStatusConsistent = true) :
    ∃ i, stsTarget c ns ref = some i ∧
      (w.isInRollback = true ↔ i.inProgress = true ∧ i.updateRevision = i.stableRevision ∧ i.updatedReplicas ≠ i.statusReplicas) := by
  obtain ⟨i, hl, ha⟩ := stsLike_wl c ns ref w h
  refine ⟨i, hl, ?_⟩
  rw [(agrees_consistent w _ ha hc).2.2.1]
  simp [infoFacts, and_assoc]

/-- Advanced DaemonSet through `getKruiseDaemonSet`: never a rollback (there is no stable revision to compare with) -/
theorem rollback_never_daemonSet (c : Cluster) (ns : String) (ref : Ref) (w : W)
    (h : getKruiseDaemonSet c ns ref = .wl w) : w.isInRollback = false := by
  obtain ⟨ds, _, ha⟩ := daemonSet_wl c ns ref w h
  rcases agrees_opaque w _ ha with hc | ho
  · rw [(agrees_consistent w _ ha hc).2.2.1]; rfl
  · rw [ho]; rfl

/-- canary-style Deployment: rollback ⇔ in-progress annotation ∧ the Deployment's template equals (ignoring the hash
    label) the template of its oldest counting ReplicaSet -/
theorem rollback_iff_deployment (c : Cluster) (ns : String) (ref : Ref) (w : W)
    (h : getDeployment c ns ref = .wl w) (hc : w.isStatusConsistent = true) :
    ∃ d rs, lookup Deployment.m c.deployments ns ref.name = some d ∧ oldestRs c d = some rs ∧
      (w.isInRollback = true ↔ d.m.inProgress = true ∧ rs.template = d.template) := by
  obtain ⟨d, hl, ha⟩ := deployment_wl c ns ref w h
  have hcons := agrees_consistent w _ ha hc
  cases ho : oldestRs c d with
  | none => simp [canaryDeploymentFacts, ho] at hcons
  | some rs =>
    refine ⟨d, rs, hl, ho, ?_⟩
    rw [hcons.2.2.1]
    simp [canaryDeploymentFacts, ho]

/-- partition / blue-green style Deployment: rollback ⇔ in-progress annotation ∧ the stable-revision label is non-empty
    and equals the hash label of the counting ReplicaSet that carries the Deployment's template (the last one in
    revision order) -/
theorem rollback_iff_advancedDeployment (c : Cluster) (ns : String) (ref : Ref) (w : W)
    (h : getAdvancedDeployment c ns ref = .wl w) (hc : w.isStatusConsistent = true) :
    ∃ d, lookup Deployment.m c.deployments ns ref.name = some d ∧
      (w.isInRollback = true ↔ d.m.inProgress = true ∧ d.stableLabel ≠ "" ∧
        ∃ rs, newRsOf c d = some rs ∧ rs.hashLabel = d.stableLabel) := by
  obtain ⟨d, hl, ha⟩ := advanced_wl c ns ref w h
  refine ⟨d, hl, ?_⟩
  rw [(agrees_consistent w _ ha hc).2.2.1]
  unfold advancedDeploymentFacts
  cases hp : d.m.inProgress
  · simp
  · cases hn : newRsOf c d with
    | none =>
      simp only [if_true, Bool.true_and, Bool.and_eq_true, bne_iff_ne, ne_eq, beq_iff_eq, true_and]
      constructor
      · rintro ⟨h1, h2⟩; exact absurd h2 h1
      · rintro ⟨_, rs, hrs, _⟩; cases hrs
    | some rs =>
      simp only [if_true, Bool.true_and, Bool.and_eq_true, bne_iff_ne, ne_eq, beq_iff_eq, true_and]
      constructor
      · rintro ⟨h1, h2⟩; exact ⟨h1, rs, rfl, h2.symm⟩
      · rintro ⟨h1, rs', hrs, h2⟩; cases hrs; exact ⟨h1, h2.symm⟩

/-! ## 3. an inconsistent record is opaque (C02 / C10) -/

/-- whatever the finder returns (with or without an error): a record that is not consistent carries nothing at all -/
theorem inconsistent_is_opaque (c : Cluster) (s : Strategy) (ns : String) (ref : Ref) (w : W)
    (h : getWorkloadForRef c s ns ref = .wl w ∨ getWorkloadForRef c s ns ref = .wlErr w)
    (hc : w.isStatusConsistent = false) : w = W.opaque := by
  rcases h with h | h
  · obtain ⟨F, _, ha⟩ := facts_sound c s ns ref w h
    rcases agrees_opaque w F ha with h1 | h1
    · rw [h1] at hc; cases hc
    · exact h1
  · cases hs : getRollingStyle s with
    | none => simp [getWorkloadForRef, hs] at h
    | some st =>
      rw [dispatch c s ns ref st hs] at h
      have hm := firstHit_mem _ _ h (by simp)
      obtain ⟨f, _, hf⟩ := List.mem_map.1 hm
      rcases (run_wlErr c ns ref f w hf).2 with h1 | h1
      · rw [h1] at hc; cases hc
      · exact h1

/-- generation ≠ observedGeneration (and, for the canary-style Deployment, "no stable ReplicaSet yet") ⇒ the record
    is the empty one: the controller waits -/
theorem skew_is_opaque (c : Cluster) (s : Strategy) (ns : String) (ref : Ref) (w : W) (F : Facts)
    (h : getWorkloadForRef c s ns ref = .wl w) (hF : facts c s ns ref = some F) (hw : F.waits = true) : w = W.opaque := by
  obtain ⟨F', hF', ha⟩ := facts_sound c s ns ref w h
  rw [hF] at hF'; cases hF'
  exact agrees_waits w F ha hw

/-- conversely a consistent record carries the revisions the facts read from the *status* (CloneSet / DaemonSet: the
    suffix of `status.currentRevision` / `updateRevision` / `daemonSetHash`; StatefulSet-like: the status strings;
    Deployment: the stable ReplicaSet's hash label resp. the stable-revision label, and the hash of a template whose
    generation has been observed) -/
theorem consistent_reads_status (c : Cluster) (s : Strategy) (ns : String) (ref : Ref) (w : W)
    (h : getWorkloadForRef c s ns ref = .wl w) (hc : w.isStatusConsistent = true) :
    ∃ F, facts c s ns ref = some F ∧ F.waits = false ∧ w.stableRevision = F.stable ∧ w.canaryRevision = F.canary := by
  obtain ⟨F, hF, ha⟩ := facts_sound c s ns ref w h
  have := agrees_consistent w F ha hc
  exact ⟨F, hF, this.1, this.2.2.2.1, this.2.2.2.2.1⟩

/-! ## 5'. pod-template-hash (C03) -/

/-- **C03** — the pod-template-hash of a consistent record is the facts' (`Facts.pth`); for the canary-style Deployment:
    the hash label of the oldest counting ReplicaSet of the newest live canary Deployment, empty otherwise -/
theorem pod_template_hash_from_canary_rs (c : Cluster) (s : Strategy) (ns : String) (ref : Ref) (w : W)
    (h : getWorkloadForRef c s ns ref = .wl w) (hc : w.isStatusConsistent = true) :
    ∃ F, facts c s ns ref = some F ∧ w.podTemplateHash = F.pth := by
  obtain ⟨F, hF, ha⟩ := facts_sound c s ns ref w h
  exact ⟨F, hF, (agrees_consistent w F ha hc).2.2.2.2.2.1⟩

/-! ## 4. dispatch (C08 / C09) -/

/-- **`dispatch_by_style_and_kind`** — `GetWorkloadForRef` consults exactly the finders `owners style filter group kind`
    in that order; `owners` is a function of the rolling style, the reference's group and kind (and the
    `filter-workload-type` flag) only — not of the version, the name, the namespace or the cluster -/
theorem dispatch_by_style_and_kind (c : Cluster) (s : Strategy) (ns : String) (ref : Ref) (st : Style)
    (hs : getRollingStyle s = some st) :
    getWorkloadForRef c s ns ref = firstHit ((owners st c.filter (groupOf ref) ref.kind).map (runFinder c ns ref)) :=
  dispatch c s ns ref st hs

/-- a reference no finder owns yields `nil, nil` -/
theorem no_owner_nothing (c : Cluster) (s : Strategy) (ns : String) (ref : Ref) (st : Style)
    (hs : getRollingStyle s = some st) (ho : owners st c.filter (groupOf ref) ref.kind = []) :
    getWorkloadForRef c s ns ref = .nothing := by
  rw [dispatch c s ns ref st hs, ho]; rfl

/-- the dispatch table for apps/Deployment (tests on the finite table: style × filter) -/
theorem owners_deployment :
    (∀ f, owners .canary f (some "apps") "Deployment" = [.deployment, .advancedDeployment, .stsLike]) ∧
    (∀ f, owners .partition f (some "apps") "Deployment" = [.advancedDeployment, .stsLike]) ∧
    (∀ f, owners .blueGreen f (some "apps") "Deployment" = [.advancedDeployment]) := by decide

/-- … for the Kruise kinds and the StatefulSets: the CloneSet finder; the StatefulSet-like finder (which therefore also
    takes an Advanced DaemonSet *before* `getKruiseDaemonSet` does); nothing for these under blue-green except CloneSet -/
theorem owners_others :
    (∀ st f, owners st f (some "apps.kruise.io") "CloneSet" = if st = .blueGreen then [.cloneSet] else [.cloneSet, .stsLike]) ∧
    (∀ f, owners .partition f (some "apps.kruise.io") "DaemonSet" = [.stsLike, .daemonSet]) ∧
    (∀ f, owners .partition f (some "apps") "StatefulSet" = [.stsLike]) ∧
    (∀ f, owners .partition f (some "apps.kruise.io") "StatefulSet" = [.stsLike]) ∧
    (∀ f g k, owners .blueGreen f g k = [] ∨ (g = some "apps" ∧ k = "Deployment") ∨ (g = some "apps.kruise.io" ∧ k = "CloneSet")) := by
  refine ⟨by intro st f; cases st <;> cases f <;> decide, by decide, by decide, by decide, ?_⟩
  intro f g k
  by_cases h1 : g = some "apps" ∧ k = "Deployment"
  · exact Or.inr (Or.inl h1)
  · by_cases h2 : g = some "apps.kruise.io" ∧ k = "CloneSet"
    · exact Or.inr (Or.inr h2)
    · left
      have e1 : (g == some "apps" && k == "Deployment") = false := by
        cases h : (g == some "apps" && k == "Deployment")
        · rfl
        · simp at h; exact absurd h h1
      have e2 : (g == some "apps.kruise.io" && k == "CloneSet") = false := by
        cases h : (g == some "apps.kruise.io" && k == "CloneSet")
        · rfl
        · simp at h; exact absurd h h2
      simp [owners, finders, owns, List.filter_cons, e1, e2]

/-- with the filter on (the default), a group/kind outside the known table has no owner at all -/
theorem unknown_kind_no_owner (st : Style) (g : Option String) (k : String) (h : knownRef g k = false) :
    owners st true g k = [] := by
  have hk : ∀ g' k', knownRef (some g') k' = knownGroupKind g' k' := fun _ _ => rfl
  cases g with
  | none => cases st <;> simp [owners, finders, partitionStyleFinders, owns, List.filter_cons, knownRef]
  | some g =>
    rw [hk] at h
    have n1 : ¬(g = "apps" ∧ k = "Deployment") := by rintro ⟨rfl, rfl⟩; exact absurd h (by decide)
    have n2 : ¬(g = "apps.kruise.io" ∧ k = "CloneSet") := by rintro ⟨rfl, rfl⟩; exact absurd h (by decide)
    have n3 : ¬(g = "apps.kruise.io" ∧ k = "DaemonSet") := by rintro ⟨rfl, rfl⟩; exact absurd h (by decide)
    have e4 : knownRef (some g) k = false := by rw [hk]; exact h
    cases st <;> simp [owners, finders, partitionStyleFinders, owns, List.filter_cons, n1, n2, n3, e4]

/-- the canary-style finder wins for apps/Deployment under the canary rolling style -/
theorem canary_style_finder_wins (c : Cluster) (s : Strategy) (ns : String) (ref : Ref)
    (hs : getRollingStyle s = some .canary) (hg : groupOf ref = some "apps") (hk : ref.kind = "Deployment")
    (hne : getDeployment c ns ref ≠ .nothing) : getWorkloadForRef c s ns ref = getDeployment c ns ref := by
  rw [dispatch c s ns ref .canary hs, hg, hk, owners_deployment.1]
  simp only [List.map_cons, runFinder]
  cases h : getDeployment c ns ref <;> simp_all [firstHit]

/-- … and the advanced-Deployment finder under the partition and the blue-green style -/
theorem advanced_finder_wins (c : Cluster) (s : Strategy) (ns : String) (ref : Ref) (st : Style)
    (hs : getRollingStyle s = some st) (hst : st ≠ .canary) (hg : groupOf ref = some "apps") (hk : ref.kind = "Deployment")
    (hne : getAdvancedDeployment c ns ref ≠ .nothing) : getWorkloadForRef c s ns ref = getAdvancedDeployment c ns ref := by
  rw [dispatch c s ns ref st hs, hg, hk]
  cases st with
  | canary => exact absurd rfl hst
  | partition =>
    rw [owners_deployment.2.1]
    simp only [List.map_cons, runFinder]
    cases h : getAdvancedDeployment c ns ref <;> simp_all [firstHit]
  | blueGreen =>
    rw [owners_deployment.2.2]
    simp only [List.map_cons, runFinder]
    cases h : getAdvancedDeployment c ns ref <;> simp_all [firstHit]

/-- `verifyGroupKind` looks at group and kind only: two references that differ in the version get the same verdict -/
theorem verifyGroupKind_ignores_version (ref ref' : Ref) (k g : String)
    (hg : groupOf ref = groupOf ref') (hk : ref.kind = ref'.kind) :
    (verifyGroupKind ref k [g]).ok = (verifyGroupKind ref' k [g]).ok := by
  rw [vgk_ok, vgk_ok, hg, hk]

/-! ## 1. totality (C09-style, attached to C10) -/

/-- **`finder_total`** — no cluster of admissible objects (replicas of the typed kinds defaulted; unstructured objects arbitrary) and no reference
    makes `GetWorkloadForRef` panic, for a Rollout whose strategy the validating webhook admits -/
theorem finder_total (c : Cluster) (s : Strategy) (ns : String) (ref : Ref)
    (hadm : admissible c = true) (hs : strategyOK s = true) : getWorkloadForRef c s ns ref ≠ .panic := by
  intro h
  cases hst : getRollingStyle s with
  | none =>
    unfold getRollingStyle at hst
    unfold strategyOK at hs
    cases hb : s.blueGreen <;> cases hc : s.canary <;> simp_all
    rename_i v; cases v <;> simp at hst
  | some st =>
    rw [dispatch c s ns ref st hst] at h
    have hm := firstHit_mem _ _ h (by simp)
    obtain ⟨f, hf, hrun⟩ := List.mem_map.1 hm
    exact run_no_panic c ns ref f hadm hrun

/-- the cluster of the former finding (a Rollout referring to an existing apps/v1 ReplicaSet): now `nil, nil` -/
def witnessCluster : Cluster :=
  { cloneSets := [], daemonSets := [], deployments := [], nativeSts := [], kruiseSts := [], unstructured := [],
    replicaSets := [{ m := { ns := "ns1", name := "wl", uid := "u1", generation := 1, inProgress := false, deleting := false, created := 0 },
                      app := some "demo", hashLabel := "h1", owner := none, replicas := some 1, template := 1, revision := some 1 }],
    failGet := [], failListRS := none, failListDeploy := false, filter := true }

example : getWorkloadForRef witnessCluster ⟨false, some false⟩ "ns1" ⟨"apps/v1", "ReplicaSet", "wl"⟩ = .nothing := by decide

/-- a `status.updateRevision` / `currentRevision` of another JSON type (number, bool, object) reads exactly like an absent
    one — it is not a crash (fixed: `parseStatusStringFromUnstructured` used the unchecked assertion `value.(string)`) -/
theorem nonstring_revision_reads_as_absent (u : Unstr) :
    parseUnstr u =
      parseUnstr { u with updateRevision := (match u.updateRevision with | .wrongType => .absent | x => x),
                          currentRevision := (match u.currentRevision with | .wrongType => .absent | x => x) } := by
  unfold parseUnstr
  cases u.updateRevision <;> cases u.currentRevision <;> rfl

/-- the StatefulSet-like finder on an unstructured object never panics — whatever its fields are -/
theorem unstructured_never_panics (c : Cluster) (ns : String) (ref : Ref) (gvk : GVK)
    (h : getEmptyWorkloadObject c.filter (fromAPIVersionAndKind ref.apiVersion ref.kind) = some (.unstructured gvk)) :
    getStatefulSetLikeWorkload c ns ref ≠ .panic := by
  intro hp
  unfold getStatefulSetLikeWorkload at hp
  rw [h] at hp
  obtain ⟨x, _, hx⟩ := afterGet_panic _ _ hp
  simp [parseUnstr] at hx

/-! ## the run-time oracles hold of the model's own output -/

theorem finder_no_panic_holds (c : Cluster) (s : Strategy) (ns : String) (ref : Ref)
    (hadm : admissible c = true) (hs : strategyOK s = true) :
    noPanic (getWorkloadForRef c s ns ref) = true := by
  have := finder_total c s ns ref hadm hs
  unfold noPanic
  simpa using this

theorem rollbackDetected_holds (c : Cluster) (s : Strategy) (ns : String) (ref : Ref) :
    rollbackDetected c s ns ref (getWorkloadForRef c s ns ref) = true := by
  unfold rollbackDetected
  cases h : getWorkloadForRef c s ns ref with
  | wl w =>
    obtain ⟨F, hF, ha⟩ := facts_sound c s ns ref w h
    simp only [hF]
    cases hc : w.isStatusConsistent
    · simp
    · cases hr : F.rollingBack
      · simp
      · simp [rollback_detected c s ns ref w F h hF hc hr]
  | _ => simp

theorem noFalseRollback_holds (c : Cluster) (s : Strategy) (ns : String) (ref : Ref) :
    noFalseRollback c s ns ref (getWorkloadForRef c s ns ref) = true := by
  unfold noFalseRollback
  cases h : getWorkloadForRef c s ns ref with
  | wl w =>
    simp only [Out.w?]
    cases hr : w.isInRollback
    · simp
    · obtain ⟨hc, F, hF, hrb⟩ := no_false_rollback c s ns ref w h hr
      have hp := rollback_implies_in_progress c s ns ref w (Or.inl h) hr
      simp [hc, hp, hF, hrb, facts_rollback_in_progress c s ns ref F hF hrb]
  | wlErr w =>
    simp only [Out.w?]
    cases hr : w.isInRollback
    · simp
    · have hp := rollback_implies_in_progress c s ns ref w (Or.inr h) hr
      -- impossible: shown inside `rollback_implies_in_progress`; re-derive the contradiction
      exfalso
      cases hs : getRollingStyle s with
      | none => simp [getWorkloadForRef, hs] at h
      | some st =>
        rw [dispatch c s ns ref st hs] at h
        have hm := firstHit_mem _ _ h (by simp)
        obtain ⟨f, _, hf⟩ := List.mem_map.1 hm
        have := (run_wlErr c ns ref f w hf).1
        rw [this] at hr; cases hr
  | _ => simp [Out.w?]

theorem inconsistentIsOpaque_holds (c : Cluster) (s : Strategy) (ns : String) (ref : Ref) :
    inconsistentIsOpaque c s ns ref (getWorkloadForRef c s ns ref) = true := by
  unfold inconsistentIsOpaque
  cases h : getWorkloadForRef c s ns ref with
  | wl w =>
    simp only [Out.w?]
    obtain ⟨F, hF, ha⟩ := facts_sound c s ns ref w h
    simp only [hF]
    cases hc : w.isStatusConsistent
    · have := inconsistent_is_opaque c s ns ref w (Or.inl h) hc
      have hw : F.waits = true := by
        unfold agrees at ha
        simp [hc] at ha
        exact ha.1
      simp [this, hw, W.opaque]
    · have := agrees_consistent w F ha hc
      simp [this.1, this.2.2.2.1, this.2.2.2.2.1, this.2.2.2.2.2.2.2]
  | wlErr w =>
    simp only [Out.w?]
    cases hc : w.isStatusConsistent
    · simp [inconsistent_is_opaque c s ns ref w (Or.inr h) hc]
    · simp
  | _ => simp [Out.w?]

theorem podTemplateHashFromCanaryRs_holds (c : Cluster) (s : Strategy) (ns : String) (ref : Ref) :
    podTemplateHashFromCanaryRs c s ns ref (getWorkloadForRef c s ns ref) = true := by
  unfold podTemplateHashFromCanaryRs
  cases h : getWorkloadForRef c s ns ref with
  | wl w =>
    obtain ⟨F, hF, ha⟩ := facts_sound c s ns ref w h
    simp only [hF]
    cases hc : w.isStatusConsistent
    · simp
    · simp [(agrees_consistent w F ha hc).2.2.2.2.2.1]
  | _ => simp

theorem finderDispatch_holds (c : Cluster) (s : Strategy) (ns : String) (ref : Ref) :
    finderDispatch c s ns ref (getWorkloadForRef c s ns ref) = true := by
  unfold finderDispatch
  cases hs : getRollingStyle s with
  | none => rfl
  | some st =>
    simp only
    have h1 : ((owners st c.filter (groupOf ref) ref.kind).isEmpty = true → getWorkloadForRef c s ns ref = .nothing) := by
      intro he
      exact no_owner_nothing c s ns ref st hs (List.isEmpty_iff.1 he)
    have h2 : (c.failGet.isEmpty = true ∧ (owners st c.filter (groupOf ref) ref.kind).all (fun f => !present c ns ref f) = true) →
        getWorkloadForRef c s ns ref = .nothing := by
      rintro ⟨hf, hall⟩
      rw [dispatch c s ns ref st hs]
      have hf' : c.failGet = [] := List.isEmpty_iff.1 hf
      have : ∀ l : List FinderId, l.all (fun f => !present c ns ref f) = true → firstHit (l.map (runFinder c ns ref)) = .nothing := by
        intro l hl
        induction l with
        | nil => rfl
        | cons f fs ih =>
          simp only [List.all_cons, Bool.and_eq_true, Bool.not_eq_true'] at hl
          simp only [List.map_cons, run_absent c ns ref f hf' hl.1, firstHit]
          exact ih hl.2
      exact this _ hall
    have h3 : (match getWorkloadForRef c s ns ref, facts c s ns ref with
        | .wl w, some F => !w.isStatusConsistent || (w.name == F.name && w.revisionLabelKey == F.key && w.stableRevision == F.stable)
        | .wl w, none => !w.isStatusConsistent
        | _, _ => true) = true := by
      cases h : getWorkloadForRef c s ns ref with
      | wl w =>
        obtain ⟨F, hF, ha⟩ := facts_sound c s ns ref w h
        simp only [hF]
        cases hc : w.isStatusConsistent
        · simp
        · have := agrees_consistent w F ha hc
          simp [this.2.1, this.2.2.2.1, this.2.2.2.2.2.2.1]
      | _ => simp
    simp only [Bool.and_eq_true, Bool.or_eq_true, Bool.not_eq_true', beq_iff_eq]
    refine ⟨⟨?_, ?_⟩, h3⟩
    · cases he : (owners st c.filter (groupOf ref) ref.kind).isEmpty
      · exact Or.inl rfl
      · exact Or.inr (h1 he)
    · cases he : (c.failGet.isEmpty && (owners st c.filter (groupOf ref) ref.kind).all (fun f => !present c ns ref f))
      · exact Or.inl rfl
      · simp only [Bool.and_eq_true] at he
        exact Or.inr (h2 he)

/-! ## non-vacuity (tests on literals) -/

private def mkMeta (name uid : String) (inProgress : Bool) (created : Int) : Meta :=
  { ns := "ns1", name := name, uid := uid, generation := 2, inProgress := inProgress, deleting := false, created := created }

/-- a CloneSet rolled back to its stable revision during a rollout, two of five pods still on the abandoned one -/
private def csCluster : Cluster :=
  { witnessCluster with
    replicaSets := [],
    cloneSets := [{ m := mkMeta "wl" "u1" true 0, observedGeneration := 2, replicas := some 5, currentRevision := "wl-6f8c",
                    updateRevision := "wl-6f8c", updatedReplicas := 3, statusReplicas := 5 }] }

example :
    getWorkloadForRef csCluster ⟨false, some false⟩ "ns1" ⟨"apps.kruise.io/v1alpha1", "CloneSet", "wl"⟩ =
      .wl { name := "wl", kind := "CloneSet", generation := 2, replicas := 5, stableRevision := "6f8c", canaryRevision := "6f8c",
            podTemplateHash := "6f8c", revisionLabelKey := "pod-template-hash", isInRollback := true, inRolloutProgressing := true,
            isStatusConsistent := true } ∧
    (facts csCluster ⟨false, some false⟩ "ns1" ⟨"apps.kruise.io/v1alpha1", "CloneSet", "wl"⟩).map (·.rollingBack) = some true := by decide

/-- a canary-style Deployment in progress: stable ReplicaSet (older), a second ReplicaSet of a foreign owner, a deleted
    one; two canary Deployments, the newer in deletion — the hash comes from the older canary's ReplicaSet -/
private def depCluster : Cluster :=
  { witnessCluster with
    deployments :=
      [{ m := mkMeta "wl" "u1" true 10, observedGeneration := 2, replicas := some 5, selector := .app "demo", template := 2,
         templateHash := "hash2", stableLabel := "", canaryOf := none, statusReplicas := 5, updatedReplicas := 0 },
       { m := mkMeta "wl-c1" "u2" false 20, observedGeneration := 2, replicas := some 1, selector := .app "demo", template := 2,
         templateHash := "hash2", stableLabel := "", canaryOf := some "wl", statusReplicas := 1, updatedReplicas := 1 },
       { m := { mkMeta "wl-c2" "u3" false 30 with deleting := true }, observedGeneration := 2, replicas := some 1, selector := .app "demo",
         template := 2, templateHash := "hash2", stableLabel := "", canaryOf := some "wl", statusReplicas := 1, updatedReplicas := 1 }],
    replicaSets :=
      [{ m := mkMeta "rs-new" "r2" false 15, app := some "demo", hashLabel := "h2", owner := some "u1", replicas := some 0, template := 2, revision := some 2 },
       { m := mkMeta "rs-old" "r1" false 5, app := some "demo", hashLabel := "h1", owner := some "u1", replicas := some 5, template := 1, revision := some 1 },
       { m := mkMeta "rs-foreign" "r3" false 1, app := some "demo", hashLabel := "hx", owner := some "other", replicas := some 5, template := 1, revision := none },
       { m := mkMeta "rs-c1" "r4" false 21, app := some "demo", hashLabel := "hc1", owner := some "u2", replicas := some 1, template := 2, revision := some 1 },
       { m := mkMeta "rs-c2" "r5" false 31, app := some "demo", hashLabel := "hc2", owner := some "u3", replicas := some 1, template := 2, revision := some 1 }] }

example :
    getWorkloadForRef depCluster ⟨false, some true⟩ "ns1" ⟨"apps/v1", "Deployment", "wl"⟩ =
      .wl { name := "wl", kind := "Deployment", generation := 2, replicas := 5, stableRevision := "h1", canaryRevision := "hash2",
            podTemplateHash := "hc1", revisionLabelKey := "pod-template-hash", isInRollback := false, inRolloutProgressing := true,
            isStatusConsistent := true } := by decide

/-- the same cluster under the partition style: the advanced-Deployment finder answers (stable revision from the label) -/
example :
    getWorkloadForRef depCluster ⟨false, some false⟩ "ns1" ⟨"apps/v1", "Deployment", "wl"⟩ =
      .wl { name := "wl", kind := "Deployment", generation := 2, replicas := 5, stableRevision := "", canaryRevision := "hash2",
            podTemplateHash := "", revisionLabelKey := "pod-template-hash", isInRollback := false, inRolloutProgressing := true,
            isStatusConsistent := true } := by decide

/-- generation skew: nothing but "not consistent" -/
example :
    getWorkloadForRef { csCluster with cloneSets := csCluster.cloneSets.map fun x => { x with observedGeneration := 1 } }
      ⟨false, some false⟩ "ns1" ⟨"apps.kruise.io/v1alpha1", "CloneSet", "wl"⟩ = .wl W.opaque := by decide

/-- the hypotheses of `finder_total_partial` are satisfiable on a non-trivial cluster -/
example : admissible depCluster = true ∧ strategyOK ⟨false, some true⟩ = true := by decide

/-- `stable_rs_choice` / `latest_canary_choice` speak about real situations -/
example : (getDeploymentStableRs depCluster depCluster.deployments.head! 0).toOption.map (·.map (·.m.name)) = some (some "rs-old") := by decide
example : (getLatestCanaryDeployment depCluster depCluster.deployments.head!).toOption.map (·.map (·.m.name)) = some (some "wl-c1") := by decide

/-- revision suffix on names with 0, 1, 2 dashes and a trailing dash -/
example : revSuffix? "6f8c" = some "6f8c" ∧ revSuffix? "wl-6f8c" = some "6f8c" ∧ revSuffix? "my-wl-6f8c" = some "6f8c" ∧
    revSuffix? "wl-" = some "" ∧ revSuffix? "" = some "" := by decide


/-- a StatefulSet-like custom resource whose `status.updateRevision` is not a string and whose `currentRevision` is absent:
    admissible (nothing is assumed about it), and the finder reports empty revisions instead of crashing -/
private def nonStringCluster : Cluster :=
  { witnessCluster with
    replicaSets := [], filter := false,
    unstructured := [{ gvk := ⟨"foo.io", "v1", "Bar"⟩, m := mkMeta "wl" "u1" true 0, specReplicas := .val 4, observedGeneration := .val 2,
                       statusReplicas := .val 4, updatedReplicas := .val 1, updateRevision := .wrongType, currentRevision := .absent }] }

example :
    admissible nonStringCluster = true ∧
    getWorkloadForRef nonStringCluster ⟨false, some false⟩ "ns1" ⟨"foo.io/v1", "Bar", "wl"⟩ =
      .wl { name := "wl", kind := "Bar", generation := 2, replicas := 4, stableRevision := "", canaryRevision := "",
            podTemplateHash := "", revisionLabelKey := "controller-revision-hash", isInRollback := true, inRolloutProgressing := true,
            isStatusConsistent := true } := by decide

end RV.Props.Finder
