import RV.Props.RolloutThms
import RV.Props.CanaryStyleThms
import RV.Oracle.RolloutSM
/-!
# C02 — a step's pause is satisfied before the controller calls it ready

`runCanary_ready_needs_pause`: one round of the release manager (canary and blue-green, partition and canary style)
turns `StepPaused` into `StepReady` only when `doCanaryPaused` says the pause is satisfied, which `pauseSatisfied` spells
out on the status the round started from: the step is the last one of a canary plan and releases `100%` (the literal
percentage — an absolute number of pods never counts, however large), or the step's pause has a duration that has elapsed
since the last status update.  Every plan, every status, every workload / BatchRelease / network state.
-/
namespace RV.Props.Pause
open RV.Arith RV.Traffic RV.RolloutSM RV.Oracle.RolloutSM RV.Props.Rollout RV.Props.Reconcile RV.Props.CanaryStyle

theorem callTM_lastUpdate_cases (f : TCtx → Net → Mem → TOut) (c c' : Ctx) (cb d e : Bool)
    (h : callTM f c cb = some (c', d, e)) :
    c'.sub.lastUpdate = c.sub.lastUpdate ∨ c'.sub.lastUpdate = .fresh := by
  unfold callTM at h
  split at h
  · cases h
  · simp only [Option.some.injEq, Prod.mk.injEq] at h
    obtain ⟨hc, _, _⟩ := h
    subst hc
    dsimp only
    split
    · right; rfl
    · left; rfl

theorem syncStep_lastUpdate (c : Ctx) : (syncStep c).sub.lastUpdate = c.sub.lastUpdate := by
  unfold syncStep
  dsimp only
  cases c.br with
  | none => dsimp only; split <;> rfl
  | some b => dsimp only; split <;> split <;> rfl

/-- `doCanaryPaused` answers "done" only when `pauseSatisfied` holds of any status with the same step index whose
    last-update age is the same or fresher -/
theorem paused_done_satisfied (ro : Rollout) (s s0 : Sub) (step : Step) (rq : Bool)
    (h : doCanaryPaused ro s step = some (true, rq)) (hstep : ro.steps[(s0.curIdx - 1).toNat]? = some step)
    (hc : s.curIdx = s0.curIdx) (hl : s.lastUpdate = s0.lastUpdate ∨ s.lastUpdate = .fresh) :
    pauseSatisfied ro s0 = true := by
  unfold pauseSatisfied
  rw [hstep]
  unfold doCanaryPaused at h
  split at h
  · rename_i hfull
    obtain ⟨h1, h2, h3⟩ := hfull
    simp [h1, ← hc, h2, h3]
  · cases hp : step.pause with
    | manual => rw [hp] at h; simp at h
    | long => rw [hp] at h; dsimp only at h; split at h <;> simp at h
    | short =>
      rw [hp] at h
      dsimp only at h
      cases hlu : s.lastUpdate with
      | none => rw [hlu] at h; simp at h
      | fresh => rw [hlu] at h; simp at h
      | elapsed =>
        rcases hl with hl | hl
        · rw [hlu] at hl; simp [← hl, hp]
        · rw [hlu] at hl; cases hl

/-- **C02.i (one `runCanary`)** -/
theorem runCanary_ready_needs_pause (c0 c' : Ctx) (err : Bool) (h : runCanary c0 = .ok c' err)
    (hst : c0.sub.state = .paused) (hr : c'.sub.state = .ready) : pauseSatisfied c0.ro c0.sub = true := by
  obtain ⟨y1, y2, y3, y4, y5⟩ := syncStep_sub c0
  have y6 := syncStep_lastUpdate c0
  unfold runCanary at h
  dsimp only at h
  split at h
  · cases h
  · -- a jump lands in StepInit or StepTrafficRouting, never in StepReady
    rename_i s2 hj
    simp only [RunOut.ok.injEq] at h; obtain ⟨hc, _⟩ := h; subst hc
    obtain ⟨_, hjs⟩ := jump_spec _ _ _ _ hj
    obtain ⟨_, _, _, _, _, j6, _⟩ := hjs rfl
    dsimp only at hr
    rcases j6 with j6 | j6 <;> rw [j6] at hr <;> cases hr
  · rename_i s2 hj
    obtain ⟨hsame, _⟩ := jump_spec _ _ _ _ hj
    have hs2 : s2 = (syncStep c0).sub := hsame rfl
    subst hs2
    split at h
    · cases h
    · rename_i step hstep
      split at h
      · cases h
      · rename_i c3 done e hpre
        have hc3 : c3.sub.curIdx = c0.sub.curIdx ∧ c3.sub.state = .paused ∧ c3.ro = c0.ro ∧
            (c3.sub.lastUpdate = c0.sub.lastUpdate ∨ c3.sub.lastUpdate = .fresh) := by
          unfold preStep at hpre
          split at hpre
          · obtain ⟨a, b, _, r, _, _, _⟩ := callTM_sub _ _ _ _ _ _ hpre
            have l := callTM_lastUpdate_cases _ _ _ _ _ _ hpre
            dsimp only at a b r l
            refine ⟨by rw [a, y1], by rw [b, y3, hst], by rw [r, y4], ?_⟩
            rcases l with l | l
            · left; rw [l, y6]
            · right; exact l
          · simp only [Option.some.injEq, Prod.mk.injEq] at hpre
            rw [← hpre.1]; exact ⟨y1, by rw [y3, hst], y4, Or.inl y6⟩
        have hstep0 : c0.ro.steps[(c0.sub.curIdx - 1).toNat]? = some step := by
          have : (syncStep c0).sub.curIdx = c0.sub.curIdx := y1
          rw [this] at hstep
          exact hstep
        split at h
        · simp only [RunOut.ok.injEq] at h; obtain ⟨hc, _⟩ := h
          rw [← hc, hc3.2.1] at hr; cases hr
        · split at h
          · simp only [RunOut.ok.injEq] at h; obtain ⟨hc, _⟩ := h
            rw [← hc] at hr; dsimp only at hr; rw [hc3.2.1] at hr; cases hr
          · simp only [stateStep, hc3.2.1] at h
            split at h
            · cases h
            · rename_i rq hp
              exact paused_done_satisfied c0.ro c3.sub c0.sub step rq hp hstep0 hc3.1 hc3.2.2.2
            · rename_i rq hp
              simp only [RunOut.ok.injEq] at h; obtain ⟨hc, _⟩ := h
              rw [← hc] at hr; dsimp only at hr; rw [hc3.2.1] at hr; cases hr


/-- the in-rolling dispatch (`doProgressingInRolling`) turns `StepPaused` into `StepReady` only through the release manager's
    `runCanary` (normal rolling) — or on a plan edit, which is excluded here -/
theorem inRolling_ready (w : World) (old ns : Rollout) (s os : Sub) (wl : WL) (r : StepResult) (s' : Sub)
    (hold : old.sub = some os) (hns : ns.sub = some s)
    (h : inRolling w old ns s wl = .val r) (hs' : r.w.ro.sub = some s')
    (hfrom : s.state = .paused) (hto : s'.state = .ready) (hhash : os.hash ≠ .differs) :
    ∃ (c0 c' : Ctx) (err : Bool), runCanary c0 = .ok c' err ∧ c0.ro = ns ∧ c0.sub.curIdx = s.curIdx ∧
      c0.sub.state = s.state ∧ c0.sub.lastUpdate = s.lastUpdate ∧ c'.sub = s' := by
  have hne : s'.state ≠ s.state := by rw [hfrom, hto]; simp
  have stay : ∀ (P : Prop), s'.state = s.state → P := fun P h2 => absurd h2 hne
  unfold inRolling at h
  dsimp only at h
  rw [hold] at h
  dsimp only at h
  split at h
  · cases h; dsimp only at hs'; cases hs'; exact stay _ rfl
  · split at h
    · cases h; dsimp only at hs'; rw [hns] at hs'; cases hs'; exact stay _ rfl
    · split at h
      · cases h; dsimp only at hs'; cases hs'
        dsimp only at hto; cases hto
      · split at h
        · split at h
          · cases h; dsimp only at hs'; rw [hns] at hs'; cases hs'; exact stay _ rfl
          · split at h
            · cases h
            · rename_i c d e hreset
              obtain ⟨_, _, st⟩ := reset_next _ _ _ _ hreset
              unfold toCtx at st
              dsimp only at st
              split at h
              · cases h; unfold ofCtx at hs'; dsimp only at hs'; cases hs'; exact stay _ st
              · split at h
                · cases h; unfold ofCtx at hs'; dsimp only at hs'; cases hs'
                · cases h; unfold ofCtx at hs'; dsimp only at hs'; cases hs'; exact stay _ st
        · split at h
          · rename_i hplan
            exfalso
            obtain ⟨h1, h2⟩ := hplan
            cases hh : os.hash with
            | empty => exact h1 hh
            | same => exact h2 hh
            | differs => exact hhash hh
          · split at h
            · cases h; dsimp only at hs'; rw [hns] at hs'; cases hs'; exact stay _ rfl
            · split at h
              · cases h
              · rename_i c e hrun
                cases h
                unfold ofCtx at hs'; dsimp only at hs'; cases hs'
                generalize hs0 : (if s.nextIdx ≤ 0 ∨ s.nextIdx > (ns.steps.length : Int) then
                    { s with nextIdx := nextBatchIndex ns.steps.length s.curIdx } else s) = s0 at hrun
                have hc0 : s0.curIdx = s.curIdx := by rw [← hs0]; split <;> rfl
                have hst0 : s0.state = s.state := by rw [← hs0]; split <;> rfl
                have hl0 : s0.lastUpdate = s.lastUpdate := by rw [← hs0]; split <;> rfl
                exact ⟨_, _, _, hrun, by unfold toCtx; rfl, by unfold toCtx; exact hc0,
                  by unfold toCtx; exact hst0, by unfold toCtx; exact hl0, rfl⟩

theorem pauseSatisfied_congr (ro ro' : Rollout) (s s' : Sub) (h1 : ro'.steps = ro.steps) (h2 : ro'.style = ro.style)
    (h3 : s'.curIdx = s.curIdx) (h4 : s'.lastUpdate = s.lastUpdate) : pauseSatisfied ro' s' = pauseSatisfied ro s := by
  unfold pauseSatisfied
  rw [h1, h2, h3, h4]

/-- **C02.i (whole reconcile)** — for every world: a reconcile turns `StepPaused` into `StepReady` (same step, plan not
    edited) only when the step's pause is satisfied: the literal `100%` on the last step of a canary plan, or a pause
    duration that has elapsed.  Approval by the user is a write of `StepReady` by the user, not a reconcile. -/
theorem ready_needs_pause_core (w : World) (r : StepResult) (h : reconcileCore w = .val r) : readyNeedsPause w r = true := by
  unfold readyNeedsPause
  cases hos : w.ro.sub with
  | none => rfl
  | some os =>
  cases hs' : r.w.ro.sub with
  | none => rfl
  | some s' =>
  dsimp only
  split
  · rename_i hc
    obtain ⟨hnow, hrr, hfrom, hto, hidx, hhash⟩ := hc
    have hnow' := hnow
    unfold inRollingNow at hnow'
    simp only [Bool.and_eq_true, decide_eq_true_eq, Bool.not_eq_true'] at hnow'
    obtain ⟨⟨hph, hr⟩, hndel⟩ := hnow'
    have hstne : s'.state ≠ os.state := by rw [hfrom, hto]; simp
    cases hw : w.wl with
    | none =>
      rcases reconcile_nowl_core w r hph hndel hw h with h1 | h1
      · rw [hs'] at h1; cases h1
      · rw [hs', hos] at h1; cases h1; exact absurd rfl hstne
    | some wl =>
      cases hcons : wl.consistent with
      | false =>
        have := reconcile_inconsistent_core w wl r hndel hw hcons h
        rw [hs', hos] at this; cases this; exact absurd rfl hstne
      | true =>
        obtain ⟨ns, s, hsame, hs, hcore, hreason, hrec⟩ := reconcile_inRolling_core w wl os hph hr hw hcons hos
        simp only [subCore, Prod.mk.injEq] at hcore
        obtain ⟨c1, _, c3, c4, _, _, _⟩ := hcore
        rw [hrec] at h
        split at h
        · cases h
        · rename_i r0 hir
          split at h
          · cases h
            exfalso
            dsimp only at hs'; rw [hf_frame w.ro] at hs'; dsimp only at hs'; rw [hos] at hs'; cases hs'
            exact hstne rfl
          · cases h
            obtain ⟨c0, c', err, hrun, hro, hcidx, hcst, hclu, hsub⟩ :=
              inRolling_ready w w.ro ns s os wl r0 s' hos hs hir hs' (by rw [c3]; exact hfrom) hto hhash
            have hp := runCanary_ready_needs_pause c0 c' err hrun (by rw [hcst, c3]; exact hfrom) (by rw [hsub]; exact hto)
            rw [← hp]
            symm
            apply pauseSatisfied_congr
            · rw [hro]; exact hsame.1
            · rw [hro]; exact hsame.2.2.1
            · rw [hcidx, c1]
            · rw [hclu, c4]
  · rfl

/-- non-vacuity: the last canary step releasing `100%` is satisfied without approval, the same step written as the
    absolute number 100 (on a larger workload) is not -/
example : pauseSatisfied { (default : Rollout) with style := .canary, steps := [⟨.pct 100, none, .manual⟩] }
    { (default : Sub) with curIdx := 1, state := .paused } = true := by decide
example : pauseSatisfied { (default : Rollout) with style := .canary, steps := [⟨.int 100, none, .manual⟩] }
    { (default : Sub) with curIdx := 1, state := .paused } = false := by decide

/-! ### the whole reconcile (body + cursor reset, see `RV.Props.Reconcile`, section Transfer) -/

theorem readyNeedsPause_reset (w : World) (r : StepResult) : readyNeedsPause w (resetOnExit w r) = readyNeedsPause w r := by
  unfold readyNeedsPause; reset_frame
  cases w.ro.sub <;> cases r.w.ro.sub <;> rfl

/-- **C02.i (whole reconcile)** — for every world: a reconcile turns `StepPaused` into `StepReady` (same step, plan not
    edited) only when the step's pause is satisfied (see `ready_needs_pause_core`). -/
theorem ready_needs_pause (w : World) (r : StepResult) (h : reconcile w = .val r) : readyNeedsPause w r = true :=
  transfer readyNeedsPause readyNeedsPause_reset ready_needs_pause_core w r h

end RV.Props.Pause
