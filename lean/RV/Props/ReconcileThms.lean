/-
  Theorems about one whole `RolloutReconciler.Reconcile` (model `RV.RolloutSM.reconcile`):
  C09.ii totality, C02 no self-made jump requests, C02.iii pause, C10 rollback first, C18 finalizer.
-/
import RV.Oracle.RolloutSM
import RV.Props.RolloutThms
import RV.Props.ClusterThms
import RV.Lemmas.ResetOnExit
namespace RV.Props.Reconcile
open RV.Arith RV.Traffic RV.RolloutSM RV.Oracle.RolloutSM RV.Props.Rollout

/-! ### frames of the status calculation -/

theorem hf_frame (ro : Rollout) :
    (handleFinalizer ro).1 = { ro with hasFinalizer := (handleFinalizer ro).1.hasFinalizer } := by
  unfold handleFinalizer
  split
  · split <;> rfl
  · split <;> rfl

/-- the part of the sub-status the release manager's safety depends on -/
def subCore (s : Sub) : Int × Int × StepState × Age × FinStep × String × HashRel :=
  (s.curIdx, s.nextIdx, s.state, s.lastUpdate, s.finStep, s.canaryRev, s.hash)

/-- the user-owned configuration of a rollout, which no status calculation touches -/
def Same (a b : Rollout) : Prop :=
  b.steps = a.steps ∧ b.hasTraffic = a.hasTraffic ∧ b.style = a.style ∧ b.paused = a.paused ∧
  b.rollbackInBatch = a.rollbackInBatch ∧ b.disableGen = a.disableGen ∧ b.grace = a.grace ∧ b.disabled = a.disabled ∧
  b.deleting = a.deleting ∧ b.realPartition = a.realPartition

theorem Same.rfl' (a : Rollout) : Same a a := ⟨rfl, rfl, rfl, rfl, rfl, rfl, rfl, rfl, rfl, rfl⟩
theorem Same.trans {a b c : Rollout} (h1 : Same a b) (h2 : Same b c) : Same a c := by
  obtain ⟨a1, a2, a3, a4, a5, a6, a7, a8, a9, a10⟩ := h1
  obtain ⟨b1, b2, b3, b4, b5, b6, b7, b8, b9, b10⟩ := h2
  exact ⟨b1.trans a1, b2.trans a2, b3.trans a3, b4.trans a4, b5.trans a5, b6.trans a6, b7.trans a7, b8.trans a8, b9.trans a9, b10.trans a10⟩

theorem csDisable_same (ro : Rollout) : Same ro (csDisable ro) ∧ (csDisable ro).sub = ro.sub := by
  unfold csDisable; split
  · split <;> exact ⟨Same.rfl' _, rfl⟩
  · exact ⟨Same.rfl' _, rfl⟩

theorem csInitial_same (ro : Rollout) : Same ro (csInitial ro) ∧ (csInitial ro).sub = ro.sub := by
  unfold csInitial; split <;> exact ⟨Same.rfl' _, rfl⟩

theorem csObserve_same (ro : Rollout) (w : WL) :
    Same ro (csObserve ro w) ∧ (csObserve ro w).sub.map subCore = ro.sub.map subCore ∧ (csObserve ro w).phase = ro.phase := by
  unfold csObserve
  split
  · rename_i s hs
    split
    · exact ⟨Same.rfl' _, by rw [hs]; rfl, rfl⟩
    · exact ⟨Same.rfl' _, rfl, rfl⟩
  · exact ⟨Same.rfl' _, rfl, rfl⟩

/-- outside phase Healthy the per-phase switch keeps the sub-status -/
theorem csPhase_same (ro ns : Rollout) (w : WL) :
    Same ns (csPhase ro ns w) ∧ (ns.phase ≠ .healthy → (csPhase ro ns w).sub = ns.sub) := by
  unfold csPhase
  split
  · exact ⟨Same.rfl' _, fun _ => rfl⟩
  · rename_i hp
    refine ⟨?_, fun h => absurd hp h⟩
    split
    · exact Same.rfl' _
    · split <;> exact Same.rfl' _
  · split <;> exact ⟨Same.rfl' _, fun _ => rfl⟩
  · exact ⟨Same.rfl' _, fun _ => rfl⟩

theorem csDisable_phase (ro : Rollout) (h : ro.phase = .progressing ∨ ro.phase = .terminating ∨ ro.phase = .disabling) :
    (csDisable ro).phase = .progressing ∨ (csDisable ro).phase = .terminating ∨ (csDisable ro).phase = .disabling ∨
    (csDisable ro).phase = .disabled := by
  unfold csDisable; split
  · split <;> simp
  · rcases h with h | h | h <;> simp [h]

/-- **status calculation frame** — the new status keeps the user's configuration; and for a rollout that is
    Progressing / Terminating / Disabling with a readable workload, the safety-relevant part of its sub-status -/
theorem cs_frame (ro ns : Rollout) (wl : Option WL) (h : calculateStatus ro wl = some ns) :
    Same ro ns ∧
    ((ro.phase = .progressing ∨ ro.phase = .terminating ∨ ro.phase = .disabling) → (wl.isSome ∨ ro.deleting = true ∨ ro.disabled = true) →
      ns.sub.map subCore = ro.sub.map subCore) := by
  unfold calculateStatus at h
  split at h
  · rename_i hdel
    injection h with h; subst h
    split <;> exact ⟨Same.rfl' _, fun _ _ => rfl⟩
  · rename_i hndel
    dsimp only at h
    obtain ⟨d1, d2⟩ := csDisable_same ro
    obtain ⟨i1, i2⟩ := csInitial_same (csDisable ro)
    split at h
    · -- no workload
      split at h
      · rename_i hnd
        injection h with h; subst h
        refine ⟨Same.trans d1 i1, fun _ hw => ?_⟩
        rcases hw with hw | hw | hw
        · cases hw
        · exact absurd hw hndel
        · exact absurd hw hnd
      · injection h with h; subst h
        exact ⟨Same.trans d1 i1, fun _ _ => by rw [i2, d2]⟩
    · rename_i w
      split at h
      · cases h
      · injection h with h; subst h
        obtain ⟨o1, o2, o3⟩ := csObserve_same (csInitial (csDisable ro)) w
        obtain ⟨p1, p2⟩ := csPhase_same ro (csObserve (csInitial (csDisable ro)) w) w
        refine ⟨Same.trans (Same.trans d1 i1) (Same.trans o1 p1), fun hph _ => ?_⟩
        have hnh : (csObserve (csInitial (csDisable ro)) w).phase ≠ .healthy := by
          rw [o3]
          have := csDisable_phase ro hph
          unfold csInitial
          split
          · simp
          · rcases this with h | h | h | h <;> simp [h]
        rw [p2 hnh, o2, i2, d2]

/-! ### C09.ii — no crash -/

theorem finTask_total (c : Ctx) (wr : Bool) (h : c.ro.steps ≠ []) : finTask c wr ≠ none := by
  unfold finTask
  split <;> first | exact callTM_total _ _ _ h | simp

theorem stripAnno_ro (c : Ctx) : (stripAnno c).ro = c.ro := (stripAnno_frame c).2

theorem doFinalising_total (c : Ctx) (r : Reason) (wr : Bool) (h : c.ro.steps ≠ []) : doFinalising c r wr ≠ none := by
  unfold doFinalising
  dsimp only
  rw [stripAnno_ro]
  have hne : c.ro.steps.isEmpty = false := by cases hs : c.ro.steps <;> simp_all
  simp only [hne, Bool.false_eq_true, if_false]
  split
  · simp
  · split
    · simp
    · have : (startCursor (stripAnno c) (nextTask (taskList c.ro.style r) (stripAnno c).sub.finStep)).ro.steps ≠ [] := by
        unfold startCursor; split <;> (try dsimp only) <;> (rw [stripAnno_ro]; exact h)
      have ht := finTask_total _ wr this
      split
      · rename_i hn; exact absurd hn ht
      · split <;> simp

theorem finalise_total (w : World) (ns : Rollout) (wl : Option WL) (r : Reason) (wr : Bool) (h : ns.steps ≠ []) :
    finalise w ns wl r wr ≠ none := by
  unfold finalise
  split
  · simp
  · split
    · dsimp only
      have := doFinalising_total { (toCtx { w with ro := ns } ‹Sub› { (default : WL) with inProgressAnno := false }) with wlSeen := false } r wr
        (by unfold toCtx; exact h)
      split
      · rename_i hn; exact absurd hn this
      · simp
    · split
      · have := doFinalising_total { (toCtx { w with ro := ns } ‹Sub› { ‹WL› with inProgressAnno := false }) with wlSeen := false } r wr
          (by unfold toCtx; exact h)
        split
        · rename_i hn; exact absurd hn this
        · simp
      · have := doFinalising_total (toCtx { w with ro := ns } ‹Sub› ‹WL›) r wr (by unfold toCtx; exact h)
        split
        · rename_i hn; exact absurd hn this
        · simp

theorem prStage3_total (c : Ctx) (h : c.ro.steps ≠ []) : prStage3 c ≠ none := by
  unfold prStage3
  have := callTM_total removeCanaryService c false h
  split
  · rename_i hn; exact absurd hn this
  · split <;> simp

theorem prStage2_total (c : Ctx) (h : c.ro.steps ≠ []) : prStage2 c ≠ none := by
  unfold prStage2
  dsimp only
  split
  · simp
  · exact prStage3_total _ h

theorem prCursor_ro (c : Ctx) : (prCursor c).ro = c.ro := by
  unfold prCursor; split <;> rfl

theorem doProgressingReset_total (c : Ctx) (h : c.ro.steps ≠ []) : doProgressingReset c ≠ none := by
  have hne : c.ro.steps.isEmpty = false := by cases hs : c.ro.steps <;> simp_all
  have h1 : (prCursor c).ro.steps ≠ [] := by rw [prCursor_ro]; exact h
  unfold doProgressingReset
  split
  · simp
  · simp only [hne, Bool.false_eq_true, if_false]
    split
    · have := callTM_total restoreGateway (prCursor c) true h1
      split
      · rename_i hn; exact absurd hn this
      · rename_i c2 rt e hc
        split
        · simp
        · refine prStage2_total _ ?_
          obtain ⟨_, _, _, hro, _⟩ := callTM_sub _ _ _ _ _ _ hc
          dsimp only; rw [hro]; exact h1
    · exact prStage2_total _ h1
    · exact prStage3_total _ h1

theorem recalc_go_bound (ro : Rollout) (wl : WL) (cr : Int) (order : List Nat) (acc : Int)
    (hacc : 1 ≤ acc ∨ order ≠ []) (hacc2 : acc ≤ ro.steps.length)
    (hord : ∀ i ∈ order, i < ro.steps.length) :
    1 ≤ recalculateCanaryStep.go ro wl cr order acc ∧ recalculateCanaryStep.go ro wl cr order acc ≤ ro.steps.length := by
  induction order generalizing acc with
  | nil =>
    unfold recalculateCanaryStep.go
    rcases hacc with h | h
    · exact ⟨h, hacc2⟩
    · exact absurd rfl h
  | cons i is ih =>
    have hi := hord i (by simp)
    unfold recalculateCanaryStep.go
    split
    · constructor <;> omega
    · split
      · constructor <;> omega
      · exact ih _ (Or.inl (by omega)) (by omega) (fun j hj => hord j (by simp [hj]))

/-- the BatchRelease is one the recalculation can read: a batch partition inside its own plan -/
def BrOk (br : Option BR) : Prop :=
  ∀ b, br = some b → ∃ p, b.partition = some p ∧ 0 ≤ p ∧ p < b.batches.length

theorem recalc_total (ro : Rollout) (s : Sub) (wl : WL) (br : Option BR) (hb : BrOk br) (hs : ro.steps ≠ []) :
    ∃ k, recalculateCanaryStep ro s wl br = some k ∧ 1 ≤ k ∧ k ≤ ro.steps.length := by
  unfold recalculateCanaryStep
  cases hbr : br with
  | none =>
    refine ⟨1, rfl, by omega, ?_⟩
    cases h : ro.steps with
    | nil => exact absurd h hs
    | cons a l => simp; omega
  | some b =>
    obtain ⟨p, hp, h0, h1⟩ := hb b hbr
    dsimp only
    rw [hp]
    dsimp only
    rw [if_neg (by omega)]
    have hget : ∃ e, b.batches[p.toNat]? = some e := by
      have : p.toNat < b.batches.length := by omega
      exact ⟨b.batches[p.toNat], by simp [this]⟩
    obtain ⟨e, he⟩ := hget
    rw [he]
    dsimp only
    refine ⟨_, rfl, ?_⟩
    apply recalc_go_bound
    · right
      -- the visiting order is not empty because the plan is not
      intro hnil
      have hlen : ro.steps.length ≠ 0 := by
        intro h0; exact hs (List.eq_nil_of_length_eq_zero h0)
      have := congrArg List.length hnil
      simp only [List.length_append, List.length_nil] at this
      by_cases hc : s.curIdx - 1 ≥ 0 ∧ s.curIdx - 1 < ro.steps.length
      · rw [if_pos hc] at this; simp at this
      · rw [if_neg hc] at this
        simp only [List.length_nil, Nat.zero_add] at this
        -- no index is filtered out when the current index is outside the plan
        have hall : ((List.range ro.steps.length).filter fun (i : Nat) => decide ((i : Int) ≠ s.curIdx - 1)) = List.range ro.steps.length := by
          apply List.filter_eq_self.mpr
          intro i hi
          simp only [List.mem_range] at hi
          simp only [decide_eq_true_eq]
          intro heq; exact hc ⟨by omega, by omega⟩
        rw [hall] at this
        simp at this
        exact hs this
    · omega
    · intro i hi
      simp only [List.mem_append, List.mem_filter, List.mem_range] at hi
      rcases hi with hi | hi
      · split at hi
        · rename_i hc; simp only [List.mem_singleton] at hi; omega
        · cases hi
      · exact hi.1

theorem inRolling_total (w : World) (old ns : Rollout) (s os : Sub) (wl : WL)
    (hold : old.sub = some os) (hsteps : ns.steps ≠ []) (h1 : 1 ≤ s.curIdx) (h2 : s.curIdx ≤ ns.steps.length)
    (h4 : s.lastUpdate ≠ .none) (hbr : BrOk w.br) :
    inRolling w old ns s wl ≠ .panic := by
  unfold inRolling
  dsimp only
  rw [hold]
  dsimp only
  split
  · simp
  · split
    · simp
    · split
      · simp
      · split
        · -- continuous release
          split
          · simp
          · have := doProgressingReset_total (toCtx { w with ro := ns } s wl) (by unfold toCtx; exact hsteps)
            split
            · rename_i hn; exact absurd hn this
            · split
              · simp
              · split <;> simp
        · split
          · -- plan changed
            obtain ⟨k, hk, k1, k2⟩ := recalc_total ns s wl w.br hbr hsteps
            rw [hk]
            dsimp only
            split
            · simp
            · have := jump_total ns { s with nextIdx := k, lastUpdate := .fresh, hash := .same } h1 h2 k2
              split
              · rename_i hn; exact absurd hn this
              · simp
          · -- normal rolling
            split
            · simp
            · have hok : SubOk ns (if s.nextIdx ≤ 0 ∨ s.nextIdx > (ns.steps.length : Int) then
                  { s with nextIdx := nextBatchIndex ns.steps.length s.curIdx } else s) := by
                unfold SubOk
                split
                · refine ⟨h1, h2, ?_, h4⟩
                  dsimp only; unfold nextBatchIndex; split <;> omega
                · rename_i hc
                  exact ⟨h1, h2, by omega, h4⟩
              have := runCanary_total (toCtx { w with ro := ns } (if s.nextIdx ≤ 0 ∨ s.nextIdx > (ns.steps.length : Int) then
                  { s with nextIdx := nextBatchIndex ns.steps.length s.curIdx } else s) wl) (by unfold toCtx; exact hok)
              split
              · rename_i hn; exact absurd hn this
              · simp

/-- what `corrupted w = false` gives -/
theorem not_corrupted (w : World) (h : corrupted w = false) :
    w.ro.steps ≠ [] ∧ ¬ (w.ro.phase = .progressing ∧ w.ro.reason = .none) ∧ ¬ (w.ro.phase = .terminating ∧ w.ro.term = .none) ∧
    ¬ (w.ro.phase = .progressing ∧ w.ro.reason = .inRolling ∧ w.ro.sub = none) ∧
    (w.ro.phase = .progressing → w.ro.reason = .inRolling →
      ∀ s, w.ro.sub = some s → 1 ≤ s.curIdx ∧ s.curIdx ≤ w.ro.steps.length ∧ s.lastUpdate ≠ .none) ∧
    (w.ro.phase = .progressing → w.ro.reason = .inRolling → BrOk w.br) := by
  unfold corrupted at h
  simp only [Bool.or_eq_false_iff, Bool.and_eq_false_iff] at h
  obtain ⟨⟨⟨⟨⟨a, b⟩, c⟩, d⟩, e⟩, f⟩ := h
  refine ⟨?_, ?_, ?_, ?_, ?_, ?_⟩
  · intro hs; rw [hs] at a; simp at a
  · intro ⟨h1, h2⟩; rcases b with b | b <;> simp [h1, h2] at b
  · intro ⟨h1, h2⟩; rcases c with c | c <;> simp [h1, h2] at c
  · intro ⟨h1, h2, h3⟩
    rcases d with (d | d) | d
    · simp [h1] at d
    · simp [h2] at d
    · simp [h3] at d
  · intro h1 h2 s hs
    rcases e with (e | e) | e
    · simp [h1] at e
    · simp [h2] at e
    · rw [hs] at e
      simp only [Bool.or_eq_false_iff, decide_eq_false_iff_not, not_or, Int.not_lt] at e
      obtain ⟨⟨e1, e2⟩, e3⟩ := e
      refine ⟨by omega, by omega, ?_⟩
      intro hl; rw [hl] at e3; simp at e3
  · intro h1 h2 b hb
    rcases f with (f | f) | f
    · simp [h1] at f
    · simp [h2] at f
    · rw [hb] at f
      dsimp only at f
      cases hp : b.partition with
      | none => rw [hp] at f; simp at f
      | some p =>
        rw [hp] at f
        simp only [decide_eq_false_iff_not, not_or, Int.not_lt] at f
        exact ⟨p, rfl, by omega, by omega⟩

/-- **C09.ii (whole reconcile)** — for every world (rollout, workload, BatchRelease, network state, grace
    memory) that is not internally corrupted — in particular for **every** value a user can patch into
    `nextStepIndex` and `currentStepState`, every plan edit the webhook accepts, every BatchRelease
    progress report — one `Reconcile` of the Rollout controller does not crash. -/
theorem reconcile_total_core (w : World) (h : corrupted w = false) : reconcileCore w ≠ .panic := by
  obtain ⟨hsteps, hnr, hnt, hns, hsub, hbr⟩ := not_corrupted w h
  have hfr := hf_frame w.ro
  unfold reconcileCore
  dsimp only
  generalize hro1 : (handleFinalizer w.ro).1 = ro1 at *
  have e_steps : ro1.steps = w.ro.steps := by rw [hfr]
  have e_sub : ro1.sub = w.ro.sub := by rw [hfr]
  have e_phase : ro1.phase = w.ro.phase := by rw [hfr]
  have e_del : ro1.deleting = w.ro.deleting := by rw [hfr]
  have e_dis : ro1.disabled = w.ro.disabled := by rw [hfr]
  split
  · simp
  · rename_i ns hcs
    obtain ⟨hsame, hsubrel⟩ := cs_frame ro1 ns w.wl hcs
    have nsteps : ns.steps ≠ [] := by rw [hsame.1, e_steps]; exact hsteps
    split
    · -- Progressing
      rename_i hph
      split
      · simp
      · rename_i wl hwl
        split
        · simp
        · have hrel := hsubrel (Or.inl (by rw [e_phase]; exact hph)) (Or.inl (by rw [hwl]; rfl))
          rw [e_sub] at hrel
          split
          · rename_i hr; exact absurd ⟨hph, hr⟩ hnr
          · -- initializing
            have : ¬ (ns.hasTraffic = true ∧ ns.steps.isEmpty = true) := by
              intro ⟨_, he⟩; exact nsteps (List.isEmpty_iff.mp he)
            rw [if_neg this]
            split
            · simp
            · split <;> simp
          · -- inRolling
            rename_i hr
            split
            · rename_i hnone
              rw [hnone] at hrel
              have : w.ro.sub = none := by
                cases hs : w.ro.sub with
                | none => rfl
                | some x => rw [hs] at hrel; simp at hrel
              exact absurd ⟨hph, hr, this⟩ hns
            · rename_i s hs
              rw [hs] at hrel
              cases hos : w.ro.sub with
              | none => rw [hos] at hrel; simp at hrel
              | some os =>
                rw [hos] at hrel
                simp only [Option.map_some, Option.some.injEq, subCore, Prod.mk.injEq] at hrel
                obtain ⟨c1, _, _, c4, _⟩ := hrel
                obtain ⟨b1, b2, b3⟩ := hsub hph hr os hos
                have := inRolling_total w w.ro ns s os wl hos nsteps (by omega)
                  (by rw [hsame.1, e_steps]; omega) (by rw [c4]; exact b3) (hbr hph hr)
                split
                · rename_i hn; exact absurd hn this
                · split <;> simp
          · -- finalising
            have := finalise_total w ns (some wl) .success true nsteps
            split
            · rename_i hn; exact absurd hn this
            · split
              · simp
              · split <;> simp
          · split <;> simp
          · -- cancelling
            have := finalise_total w ns (some wl) .rollback false nsteps
            split
            · rename_i hn; exact absurd hn this
            · split
              · simp
              · split <;> simp
          · simp
          · simp
    · -- Terminating
      rename_i hph
      split
      · rename_i ht; exact absurd ⟨hph, ht⟩ hnt
      · simp
      · have := finalise_total w ns w.wl .other false nsteps
        split
        · rename_i hn; exact absurd hn this
        · split
          · simp
          · split <;> simp
    · -- Disabling
      have := finalise_total w ns w.wl .other false nsteps
      split
      · rename_i hn; exact absurd hn this
      · split
        · simp
        · split <;> simp
    · simp

/-- non-vacuity: a mid-rollout world with an illegal, user-patched next-step index is not corrupted -/
def exampleSteps : List Step := [{ replicas := .pct 20, weight := some 20, pause := .manual }, { replicas := .pct 100, weight := none, pause := .manual }]
def exampleSub : Sub := { (default : Sub) with curIdx := 1, nextIdx := 77, state := .paused, lastUpdate := .elapsed }
def exampleRo : Rollout :=
  { (default : Rollout) with steps := exampleSteps, phase := .progressing, reason := .inRolling, hasFinalizer := true, sub := some exampleSub }
def exampleWorld : World :=
  { ro := exampleRo, wl := some { (default : WL) with consistent := true, replicas := 5 }, br := none,
    net := { stableExists := true, stableSel := none, canarySvc := none, stableIngress := true, canaryIng := none }, mem := Mem.empty }

example : corrupted exampleWorld = false := by
  simp [corrupted, exampleWorld, exampleRo, exampleSub, exampleSteps]

/-! ### the in-rolling dispatch (C10, C02.iii) -/

theorem cs_reason (ro ns : Rollout) (w : WL) (h : calculateStatus ro (some w) = some ns)
    (hph : ro.phase = .progressing) : ns.reason = ro.reason := by
  unfold calculateStatus at h
  split at h
  · injection h with h; subst h; split <;> rfl
  · dsimp only at h
    split at h
    · cases h
    · injection h with h; subst h
      have e1 : (csInitial (csDisable ro)).reason = ro.reason ∧
          ((csInitial (csDisable ro)).phase = .progressing ∨ (csInitial (csDisable ro)).phase = .disabling) := by
        unfold csInitial csDisable
        repeat' split
        all_goals simp_all
      have e2 : (csObserve (csInitial (csDisable ro)) w).reason = (csInitial (csDisable ro)).reason ∧
          (csObserve (csInitial (csDisable ro)) w).phase = (csInitial (csDisable ro)).phase := by
        unfold csObserve
        repeat' split
        all_goals exact ⟨rfl, rfl⟩
      have e3 : (csPhase ro (csObserve (csInitial (csDisable ro)) w) w).reason = (csObserve (csInitial (csDisable ro)) w).reason := by
        unfold csPhase
        split
        · rfl
        · rename_i hp; rw [e2.2] at hp; rcases e1.2 with h' | h' <;> rw [h'] at hp <;> cases hp
        · split <;> rfl
        · rfl
      rw [e3, e2.1, e1.1]

theorem cs_some (ro : Rollout) (wl : WL) (h : wl.consistent = true) : ∃ ns, calculateStatus ro (some wl) = some ns := by
  unfold calculateStatus
  split
  · exact ⟨_, rfl⟩
  · dsimp only; rw [if_neg (by simp [h])]; exact ⟨_, rfl⟩

/-- how a reconcile of a rolling rollout with a readable workload is computed -/
theorem reconcile_inRolling_core (w : World) (wl : WL) (os : Sub)
    (hph : w.ro.phase = .progressing) (hr : w.ro.reason = .inRolling) (hwl : w.wl = some wl)
    (hc : wl.consistent = true) (hos : w.ro.sub = some os) :
    ∃ ns s, Same w.ro ns ∧ ns.sub = some s ∧ subCore s = subCore os ∧ ns.reason = w.ro.reason ∧
      reconcileCore w =
        (match inRolling w w.ro ns s wl with
         | .panic => .panic
         | .val r =>
           if r.err then .val { w := { r.w with ro := (handleFinalizer w.ro).1 }, roGone := (handleFinalizer w.ro).2.1, requeue := false,
                                err := true, writes := (handleFinalizer w.ro).2.2 ++ r.writes }
           else .val { w := r.w, roGone := (handleFinalizer w.ro).2.1, requeue := r.requeue, err := false,
                       writes := (handleFinalizer w.ro).2.2 ++ r.writes }) := by
  have hfr := hf_frame w.ro
  obtain ⟨ns, hcs⟩ := cs_some (handleFinalizer w.ro).1 wl hc
  obtain ⟨hsame, hsubrel⟩ := cs_frame _ ns (some wl) hcs
  have e_phase : (handleFinalizer w.ro).1.phase = w.ro.phase := by rw [hfr]
  have e_sub : (handleFinalizer w.ro).1.sub = w.ro.sub := by rw [hfr]
  have hrel := hsubrel (Or.inl (by rw [e_phase]; exact hph)) (Or.inl rfl)
  rw [e_sub, hos] at hrel
  cases hs : ns.sub with
  | none => rw [hs] at hrel; simp at hrel
  | some s =>
    rw [hs] at hrel
    simp only [Option.map_some, Option.some.injEq] at hrel
    have hsame' : Same w.ro ns := by
      obtain ⟨a1, a2, a3, a4, a5, a6, a7, a8, a9⟩ := hsame
      rw [hfr] at a1 a2 a3 a4 a5 a6 a7 a8 a9
      exact ⟨a1, a2, a3, a4, a5, a6, a7, a8, a9⟩
    have hreason : ns.reason = w.ro.reason := by
      rw [cs_reason _ ns wl hcs (by rw [e_phase]; exact hph), hfr]
    refine ⟨ns, s, hsame', hs, hrel, hreason, ?_⟩
    unfold reconcileCore
    dsimp only
    rw [hwl, hcs]
    dsimp only
    rw [hph]
    dsimp only
    rw [if_neg (by simp [hc]), hr]
    dsimp only
    rw [hs]
    first | rfl | (dsimp only; done) | (dsimp only; rfl)

/-- **C10 (whole reconcile)** — for every world: a rollback of the workload observed while the rollout is
    rolling is dispatched before anything else (pause, plan change, continuous release, normal progress):
    the reason becomes Cancelling — which runs the rollback task list, traffic back to stable first — and
    this reconcile writes nothing to the BatchRelease or the network. -/
theorem rollback_first_core (w : World) (r : StepResult) (h : reconcileCore w = .val r) : rollbackFirst w r = true := by
  unfold rollbackFirst
  split
  · rename_i os wl hos hwl
    split
    · rename_i hc
      obtain ⟨hin, hcons, hrb, hrev, hnb⟩ := hc
      unfold inRollingNow at hin
      simp only [Bool.and_eq_true, decide_eq_true_eq, Bool.not_eq_true'] at hin
      obtain ⟨⟨hph, hr⟩, _⟩ := hin
      obtain ⟨ns, s, hsame, hs, hcore, hreason, hrec⟩ := reconcile_inRolling_core w wl os hph hr hwl hcons hos
      rw [hrec] at h
      -- the first branch of the dispatch
      have hbr : inRolling w w.ro ns s wl =
          .val { w := { w with ro := { ns with reason := .cancelling, sub := some { s with canaryRev := wl.canaryRev } } },
                 roGone := false, requeue := false, err := false, writes := [] } := by
        unfold inRolling
        dsimp only
        rw [hos]
        dsimp only
        have : wl.inRollback = true ∧ wl.canaryRev ≠ os.canaryRev ∧
            ¬ (¬ ns.hasTraffic = true ∧ ns.realPartition = true ∧ ns.rollbackInBatch = true) := by
          refine ⟨hrb, hrev, ?_⟩
          rw [hsame.2.1, hsame.2.2.2.2.1, hsame.2.2.2.2.2.2.2.2.2]
          exact hnb
        rw [if_pos this]
      rw [hbr] at h
      simp only [Bool.false_eq_true, if_false, Out.val.injEq] at h
      subst h
      simp
    · rfl
  · rfl

/-- **C02.iii (whole reconcile)** — for every world: while `spec.strategy.paused` is set, a reconcile of a
    rolling rollout (no rollback pending) changes neither the step index nor the sub-state, and writes
    nothing to the BatchRelease, the workload or the network. -/
theorem paused_no_progress_core (w : World) (r : StepResult) (h : reconcileCore w = .val r) (hfin : w.ro.hasFinalizer = true) :
    pausedNoProgress w r = true := by
  unfold pausedNoProgress
  split
  · rename_i wl hwl
    split
    · rename_i hc
      obtain ⟨hin, hp, hcons, hnrb, hnd⟩ := hc
      unfold inRollingNow at hin
      simp only [Bool.and_eq_true, decide_eq_true_eq, Bool.not_eq_true'] at hin
      obtain ⟨⟨hph, hr⟩, hndel⟩ := hin
      have hhf : handleFinalizer w.ro = (w.ro, false, []) := by
        unfold handleFinalizer; simp [hndel, hfin]
      cases hos : w.ro.sub with
      | none =>
        -- no sub-status: the pause is honoured as well
        unfold reconcileCore at h
        dsimp only at h
        rw [hhf] at h
        dsimp only at h
        obtain ⟨ns, hcs⟩ := cs_some w.ro wl hcons
        obtain ⟨hsame, hsubrel⟩ := cs_frame _ ns (some wl) hcs
        have hrel := hsubrel (Or.inl hph) (Or.inl rfl)
        rw [hos] at hrel
        have hnsub : ns.sub = none := by
          cases hx : ns.sub with
          | none => rfl
          | some x => rw [hx] at hrel; simp at hrel
        rw [hwl, hcs] at h
        dsimp only at h
        rw [hph] at h
        dsimp only at h
        rw [if_neg (by simp [hcons]), hr] at h
        dsimp only at h
        rw [hnsub] at h
        dsimp only at h
        rw [if_neg (by simpa using hnrb), if_pos (by rw [hsame.2.2.2.1]; exact hp)] at h
        simp only [Out.val.injEq] at h
        subst h
        simp [hnsub, hwl]
      | some os =>
        obtain ⟨ns, s, hsame, hs, hcore, hreason, hrec⟩ := reconcile_inRolling_core w wl os hph hr hwl hcons hos
        rw [hrec, hhf] at h
        have hbr : inRolling w w.ro ns s wl =
            .val { w := { w with ro := { ns with reason := .paused } }, roGone := false, requeue := false, err := false, writes := [] } := by
          unfold inRolling
          dsimp only
          rw [hos]
          dsimp only
          rw [if_neg (by intro hh; exact hnrb hh.1), if_pos (by rw [hsame.2.2.2.1]; exact hp)]
        rw [hbr] at h
        simp only [Bool.false_eq_true, if_false, Out.val.injEq] at h
        subst h
        simp only [subCore, Prod.mk.injEq] at hcore
        simp [hs, hcore.1, hcore.2.2.1]
    · rfl
  · rfl

/-! ### C04 / C02 — an unreadable workload status means "wait" (whole reconcile) -/

/-- **whole reconcile** — for every world: while the workload's status lags behind its spec and the Rollout is not being
    deleted, a reconcile writes nothing to the BatchRelease, the workload or the network, keeps the status cursor, the
    phase and the Progressing reason, and asks to be run again.  In particular a *disabled* Rollout does not start (or
    continue) its clean-up in that window. -/
theorem inconsistent_waits_core (w : World) (r : StepResult) (h : reconcileCore w = .val r) : inconsistentWaits w r = true := by
  unfold inconsistentWaits
  split
  · rename_i wl hwl
    split
    · rename_i hc
      obtain ⟨hcons, hdel⟩ := hc
      have hdel' : w.ro.deleting = false := by simpa using hdel
      have hhf : (handleFinalizer w.ro).1.deleting = false ∧ (handleFinalizer w.ro).1.sub = w.ro.sub ∧
          (handleFinalizer w.ro).1.phase = w.ro.phase ∧ (handleFinalizer w.ro).1.reason = w.ro.reason := by
        unfold handleFinalizer
        simp only [hdel', Bool.false_eq_true, if_false]
        split <;> refine ⟨?_, rfl, rfl, rfl⟩ <;> first | rfl | exact hdel'
      have hcs : calculateStatus (handleFinalizer w.ro).1 w.wl = none := by
        unfold calculateStatus
        rw [if_neg (by simp [hhf.1]), hwl]
        dsimp only
        rw [if_pos hcons]
      unfold reconcileCore at h
      dsimp only at h
      rw [hcs] at h
      simp only [Out.val.injEq] at h
      subst h
      simp [hhf.2.1, hhf.2.2.1, hhf.2.2.2]
    · rfl
  · rfl

example : inconsistentWaits
    { ro := { (default : Rollout) with phase := .disabling, hasFinalizer := true }, wl := some { (default : WL) with consistent := false },
      br := none, net := default, mem := default }
    { w := { ro := { (default : Rollout) with phase := .disabling, hasFinalizer := true }, wl := some { (default : WL) with consistent := false },
             br := none, net := default, mem := default }, roGone := false, requeue := true, err := false, writes := [] } = true := by decide

/-! ### C18 — the Rollout's own finalizer (whole reconcile) -/

theorem cs_fin (ro ns : Rollout) (wl : Option WL) (h : calculateStatus ro wl = some ns) :
    ns.hasFinalizer = ro.hasFinalizer ∧ (ro.deleting = false → ns.term = ro.term ∨ (wl = none ∧ ro.disabled = false ∧ ns.term = .none)) ∧
    (ro.deleting = true → ns.term = ro.term ∨ (ro.phase ≠ .terminating ∧ ns.term = .inTerminating)) := by
  unfold calculateStatus at h
  split at h
  · rename_i hd
    injection h with h; subst h
    split
    · rename_i hp; exact ⟨rfl, fun h' => (by rw [hd] at h'; cases h'), fun _ => Or.inr ⟨hp, rfl⟩⟩
    · exact ⟨rfl, fun _ => Or.inl rfl, fun _ => Or.inl rfl⟩
  · rename_i hd
    have hd' : ro.deleting = false := by simpa using hd
    dsimp only at h
    have e1 : (csInitial (csDisable ro)).hasFinalizer = ro.hasFinalizer ∧ (csInitial (csDisable ro)).term = ro.term := by
      unfold csInitial csDisable
      repeat' split
      all_goals exact ⟨rfl, rfl⟩
    split at h
    · split at h
      · rename_i hnd
        injection h with h; subst h
        exact ⟨e1.1, fun _ => Or.inr ⟨rfl, (by simpa using hnd), rfl⟩, fun h' => (by rw [hd'] at h'; cases h')⟩
      · injection h with h; subst h
        exact ⟨e1.1, fun _ => Or.inl e1.2, fun h' => (by rw [hd'] at h'; cases h')⟩
    · rename_i w
      split at h
      · cases h
      · injection h with h; subst h
        have e2 : (csPhase ro (csObserve (csInitial (csDisable ro)) w) w).hasFinalizer = (csInitial (csDisable ro)).hasFinalizer ∧
            (csPhase ro (csObserve (csInitial (csDisable ro)) w) w).term = (csInitial (csDisable ro)).term := by
          unfold csPhase csObserve
          repeat' split
          all_goals exact ⟨rfl, rfl⟩
        exact ⟨e2.1.trans e1.1, fun _ => Or.inl (e2.2.trans e1.2), fun h' => (by rw [hd'] at h'; cases h')⟩

theorem inRolling_fin (w : World) (old ns : Rollout) (s : Sub) (wl : WL) (r : StepResult)
    (h : inRolling w old ns s wl = .val r) :
    r.w.ro.hasFinalizer = ns.hasFinalizer ∧ r.w.ro.term = ns.term ∧ r.roGone = false := by
  unfold inRolling at h
  dsimp only at h
  repeat' split at h
  all_goals first
    | (cases h; done)
    | (cases h; exact ⟨rfl, rfl, rfl⟩)

theorem finalise_fin (w w' : World) (ns : Rollout) (wl : Option WL) (reason : Reason) (wr done err : Bool) (ws : List String)
    (h : finalise w ns wl reason wr = some (w', done, err, ws)) :
    w'.ro.hasFinalizer = ns.hasFinalizer ∧ w'.ro.term = ns.term ∧
    (done = true → w'.ro.sub = none ∨ ∃ s', w'.ro.sub = some s' ∧ s'.finStep = .end_) := by
  unfold finalise at h
  split at h
  · injection h with h
    simp only [Prod.mk.injEq] at h
    obtain ⟨hw, _, _, _⟩ := h
    subst hw
    have hn : ns.sub = none := by assumption
    exact ⟨rfl, rfl, fun _ => Or.inl hn⟩
  · split at h
    · dsimp only at h
      split at h
      · cases h
      · rename_i c d e hd
        injection h with h
        simp only [Prod.mk.injEq] at h
        obtain ⟨hw, hdn, _, _⟩ := h
        subst hw; subst hdn
        refine ⟨rfl, rfl, fun hdone => Or.inr ⟨c.sub, rfl, ?_⟩⟩
        exact ((doFinalising_cursor _ _ _ _ _ _ hd).1 hdone).1
    · split at h
      · split at h
        · cases h
        · rename_i c d e hd
          injection h with h
          simp only [Prod.mk.injEq] at h
          obtain ⟨hw, hdn, _, _⟩ := h
          subst hw; subst hdn
          refine ⟨rfl, rfl, fun hdone => Or.inr ⟨c.sub, rfl, ?_⟩⟩
          exact ((doFinalising_cursor _ _ _ _ _ _ hd).1 hdone).1
      · split at h
        · cases h
        · rename_i c d e hd
          injection h with h
          simp only [Prod.mk.injEq] at h
          obtain ⟨hw, hdn, _, _⟩ := h
          subst hw; subst hdn
          refine ⟨rfl, rfl, fun hdone => Or.inr ⟨c.sub, rfl, ?_⟩⟩
          exact ((doFinalising_cursor _ _ _ _ _ _ hd).1 hdone).1

/-- every result of `reconcile`: whether the object disappeared, its finalizer flag, and how its
    Terminating reason can have become Completed -/
theorem reconcile_fin_core (w : World) (r : StepResult) (h : reconcileCore w = .val r) :
    r.roGone = (handleFinalizer w.ro).2.1 ∧ r.w.ro.hasFinalizer = (handleFinalizer w.ro).1.hasFinalizer ∧
    (r.w.ro.term = .completed → w.ro.term ≠ .completed →
      r.w.ro.sub = none ∨ ∃ s', r.w.ro.sub = some s' ∧ s'.finStep = .end_) := by
  have hfr := hf_frame w.ro
  have e_term : (handleFinalizer w.ro).1.term = w.ro.term := by rw [hfr]
  have e_del : (handleFinalizer w.ro).1.deleting = w.ro.deleting := by rw [hfr]
  have e_phase : (handleFinalizer w.ro).1.phase = w.ro.phase := by rw [hfr]
  unfold reconcileCore at h
  dsimp only at h
  split at h
  · cases h
    exact ⟨rfl, rfl, fun h1 h2 => absurd (e_term ▸ h1) h2⟩
  · rename_i ns hcs
    obtain ⟨cf, ct1, ct2⟩ := cs_fin _ ns w.wl hcs
    -- the status calculation never sets Completed
    have hnsT : ns.term = .completed → w.ro.term = .completed := by
      intro hc
      cases hd : w.ro.deleting with
      | false =>
        rcases ct1 (by rw [e_del]; exact hd) with h1 | ⟨_, _, h1⟩
        · rw [← e_term, ← h1]; exact hc
        · rw [h1] at hc; cases hc
      | true =>
        rcases ct2 (by rw [e_del]; exact hd) with h1 | ⟨_, h1⟩
        · rw [← e_term, ← h1]; exact hc
        · rw [h1] at hc; cases hc
    have plain : ∀ ro' : Rollout, ro'.hasFinalizer = ns.hasFinalizer → ro'.term = ns.term →
        (ro'.hasFinalizer = (handleFinalizer w.ro).1.hasFinalizer ∧
         (ro'.term = .completed → w.ro.term ≠ .completed → ro'.sub = none ∨ ∃ s', ro'.sub = some s' ∧ s'.finStep = .end_)) :=
      fun ro' h1 h2 => ⟨h1.trans cf, fun hc hn => absurd (hnsT (h2 ▸ hc)) hn⟩
    have plain1 : ((handleFinalizer w.ro).1.term = .completed → w.ro.term ≠ .completed →
        (handleFinalizer w.ro).1.sub = none ∨ ∃ s', (handleFinalizer w.ro).1.sub = some s' ∧ s'.finStep = .end_) :=
      fun hc hn => absurd (e_term ▸ hc) hn
    -- a finalise call: only the Terminating branch writes Completed, and only when done
    have fin : ∀ (wl : Option WL) (reason : Reason) (wr : Bool) (w' : World) (done err : Bool) (ws : List String),
        finalise w ns wl reason wr = some (w', done, err, ws) →
        w'.ro.hasFinalizer = (handleFinalizer w.ro).1.hasFinalizer ∧ (w'.ro.term = .completed → w.ro.term = .completed) ∧
        (done = true → w'.ro.sub = none ∨ ∃ s', w'.ro.sub = some s' ∧ s'.finStep = .end_) := by
      intro wl reason wr w' done err ws hf
      obtain ⟨f1, f2, f3⟩ := finalise_fin _ _ _ _ _ _ _ _ _ hf
      exact ⟨f1.trans cf, fun hc => hnsT (f2 ▸ hc), f3⟩
    -- closing tactics for the three kinds of leaves
    have leafNs : ∀ (ro' : Rollout) (w0 : World) (rq e : Bool) (ws : List String),
        Out.val { w := { w0 with ro := ro' }, roGone := (handleFinalizer w.ro).2.1, requeue := rq, err := e, writes := ws } = Out.val r →
        ro'.hasFinalizer = ns.hasFinalizer → ro'.term = ns.term →
        r.roGone = (handleFinalizer w.ro).2.1 ∧ r.w.ro.hasFinalizer = (handleFinalizer w.ro).1.hasFinalizer ∧
        (r.w.ro.term = .completed → w.ro.term ≠ .completed → r.w.ro.sub = none ∨ ∃ s', r.w.ro.sub = some s' ∧ s'.finStep = .end_) := by
      intro ro' w0 rq e ws hh h1 h2
      cases hh
      exact ⟨rfl, (plain ro' h1 h2).1, (plain ro' h1 h2).2⟩
    have leafRo1 : ∀ (w0 : World) (rq e : Bool) (ws : List String),
        Out.val { w := { w0 with ro := (handleFinalizer w.ro).1 }, roGone := (handleFinalizer w.ro).2.1, requeue := rq, err := e, writes := ws } = Out.val r →
        r.roGone = (handleFinalizer w.ro).2.1 ∧ r.w.ro.hasFinalizer = (handleFinalizer w.ro).1.hasFinalizer ∧
        (r.w.ro.term = .completed → w.ro.term ≠ .completed → r.w.ro.sub = none ∨ ∃ s', r.w.ro.sub = some s' ∧ s'.finStep = .end_) := by
      intro w0 rq e ws hh
      cases hh
      exact ⟨rfl, rfl, plain1⟩
    -- a finalising branch as a whole
    have finBranch : ∀ (wl : Option WL) (reason : Reason) (wr : Bool) (upd : Rollout → Rollout),
        (∀ x, (upd x).hasFinalizer = x.hasFinalizer ∧ (upd x).sub = x.sub ∧ ((upd x).term = x.term ∨ (upd x).term = .completed)) →
        (match finalise w ns wl reason wr with
         | none => Out.panic
         | some (w', done, err, ws) =>
           if err then .val { w := { w' with ro := (handleFinalizer w.ro).1 }, roGone := (handleFinalizer w.ro).2.1, requeue := false, err := true,
                              writes := (handleFinalizer w.ro).2.2 ++ ws }
           else if done then .val { w := { w' with ro := upd w'.ro }, roGone := (handleFinalizer w.ro).2.1, requeue := false, err := false,
                                    writes := (handleFinalizer w.ro).2.2 ++ ws }
           else .val { w := w', roGone := (handleFinalizer w.ro).2.1, requeue := true, err := false, writes := (handleFinalizer w.ro).2.2 ++ ws }) = Out.val r →
        r.roGone = (handleFinalizer w.ro).2.1 ∧ r.w.ro.hasFinalizer = (handleFinalizer w.ro).1.hasFinalizer ∧
        (r.w.ro.term = .completed → w.ro.term ≠ .completed → r.w.ro.sub = none ∨ ∃ s', r.w.ro.sub = some s' ∧ s'.finStep = .end_) := by
      intro wl reason wr upd hupd hh
      split at hh
      · cases hh
      · rename_i w' done err ws hfz
        obtain ⟨f1, f2, f3⟩ := fin _ _ _ _ _ _ _ hfz
        split at hh
        · exact leafRo1 _ _ _ _ hh
        · split at hh
          · rename_i hdone
            cases hh
            obtain ⟨u1, u2, u3⟩ := hupd w'.ro
            refine ⟨rfl, u1.trans f1, fun _ _ => ?_⟩
            dsimp only
            rw [u2]
            exact f3 hdone
          · cases hh
            exact ⟨rfl, f1, fun hc hn => absurd (f2 hc) hn⟩
    split at h
    · -- Progressing
      split at h
      · exact leafNs _ _ _ _ _ h rfl rfl
      · rename_i wl hwl
        split at h
        · exact leafNs _ _ _ _ _ h rfl rfl
        · split at h
          · cases h
          · -- initializing
            split at h
            · cases h
            · split at h
              · exact leafRo1 _ _ _ _ h
              · split at h
                · exact leafNs _ _ _ _ _ h rfl rfl
                · exact leafNs _ _ _ _ _ h rfl rfl
          · -- inRolling
            split at h
            · split at h
              · cases h
              · split at h
                · exact leafNs _ _ _ _ _ h rfl rfl
                · cases h
            · split at h
              · cases h
              · rename_i r0 hir
                obtain ⟨i1, i2, _⟩ := inRolling_fin _ _ _ _ _ _ hir
                split at h
                · exact leafRo1 _ _ _ _ h
                · cases h
                  exact ⟨rfl, i1.trans cf, fun hc hn => absurd (hnsT (i2 ▸ hc)) hn⟩
          · exact finBranch (some wl) .success true (fun x => { x with reason := .completed, succeeded := some true })
              (fun x => ⟨rfl, rfl, Or.inl rfl⟩) h
          · split at h
            · exact leafNs _ _ _ _ _ h rfl rfl
            · exact leafNs _ _ _ _ _ h rfl rfl
          · exact finBranch (some wl) .rollback false (fun x => { x with reason := .completed, succeeded := some false })
              (fun x => ⟨rfl, rfl, Or.inl rfl⟩) h
          · exact leafNs _ _ _ _ _ h rfl rfl
          · exact leafNs _ _ _ _ _ h rfl rfl
    · -- Terminating
      split at h
      · cases h
      · exact leafNs _ _ _ _ _ h rfl rfl
      · exact finBranch w.wl .other false (fun x => { x with term := .completed }) (fun x => ⟨rfl, rfl, Or.inr rfl⟩) h
    · -- Disabling
      exact finBranch w.wl .other false (fun x => { x with phase := .disabled }) (fun x => ⟨rfl, rfl, Or.inl rfl⟩) h
    · exact leafNs _ _ _ _ _ h rfl rfl

/-- **C18 (Rollout, whole reconcile)** — for every world and every result of one reconcile: the Rollout
    object disappears / loses its own finalizer only while it is being deleted and its Terminating
    condition already says Completed; and that condition becomes Completed only in a reconcile whose
    clean-up sequence ended with the cursor at END (or there was nothing to clean up). -/
theorem finalizer_guard_core (w : World) (r : StepResult) (h : reconcileCore w = .val r) : finalizerGuard w r = true := by
  obtain ⟨g1, g2, g3⟩ := reconcile_fin_core w r h
  obtain ⟨h1, h2, _⟩ := handleFinalizer_guard w.ro
  unfold finalizerGuard
  rw [Bool.and_eq_true]
  constructor
  · split
    · rename_i hc
      rcases hc with hc | ⟨hf, hnf⟩
      · rw [g1] at hc
        obtain ⟨a, b, _⟩ := h1 hc
        simp [a, b]
      · rw [g2] at hnf
        obtain ⟨a, b⟩ := h2 (by simpa using hnf) hf
        simp [a, b]
    · rfl
  · split
    · rename_i hc
      rcases g3 hc.1 hc.2 with hn | ⟨s', hs, he⟩
      · rw [hn]
      · rw [hs]; simp [he]
    · rfl

/-! ### C10 — blue-green refuses a newer revision (whole reconcile) -/

theorem bluegreen_refuses_continuous_core (w : World) (r : StepResult) (h : reconcileCore w = .val r) :
    blueGreenRefusesContinuous w r = true := by
  unfold blueGreenRefusesContinuous
  split
  · rename_i os wl hos hwl
    split
    · rename_i hc
      obtain ⟨hin, hcons, hnrb, hnp, hbg, hne, hrev⟩ := hc
      unfold inRollingNow at hin
      simp only [Bool.and_eq_true, decide_eq_true_eq, Bool.not_eq_true'] at hin
      obtain ⟨⟨hph, hr⟩, _⟩ := hin
      obtain ⟨ns, s, hsame, hs, hcore, hreason, hrec⟩ := reconcile_inRolling_core w wl os hph hr hwl hcons hos
      rw [hrec] at h
      have hbr : inRolling w w.ro ns s wl =
          .val { w := { w with ro := ns }, roGone := false, requeue := false, err := false, writes := [] } := by
        unfold inRolling
        dsimp only
        rw [hos]
        dsimp only
        rw [if_neg (by intro hh; exact hnrb hh.1), if_neg (by rw [hsame.2.2.2.1]; exact hnp),
            if_neg (by intro hh; exact hnrb hh.1), if_pos ⟨hne, hrev, hnrb⟩, if_pos (by rw [hsame.2.2.1]; exact hbg)]
      rw [hbr] at h
      simp only [Bool.false_eq_true, if_false, Out.val.injEq] at h
      subst h
      simp only [subCore, Prod.mk.injEq] at hcore
      simp [hs, hcore.1, hcore.2.2.1, hreason, hr]
    · rfl
  · rfl

/-! ### C02.ii — the controller never leaves a jump request behind (whole reconcile) -/

/-- no step jump is requested in this status (Prop mirror of `jumpRequested … = false`) -/
def NoReq (ro : Rollout) (s : Sub) : Prop :=
  ¬ (s.nextIdx ≠ nextBatchIndex ro.steps.length s.curIdx ∧ 0 < s.nextIdx ∧ s.nextIdx ≤ ro.steps.length)

theorem noReq_iff (ro : Rollout) (s : Sub) : jumpRequested ro s = false ↔ NoReq ro s := by
  unfold jumpRequested NoReq
  simp only [decide_eq_false_iff_not, gt_iff_lt]

theorem NoReq.congr {ro ro' : Rollout} {s s' : Sub} (h : NoReq ro s) (hs : ro'.steps = ro.steps)
    (h1 : s'.curIdx = s.curIdx) (h2 : s'.nextIdx = s.nextIdx) : NoReq ro' s' := by
  unfold NoReq at *; rw [hs, h1, h2]; exact h

theorem NoReq.natural (ro : Rollout) (s : Sub) (h : s.nextIdx = nextBatchIndex ro.steps.length s.curIdx) : NoReq ro s := by
  unfold NoReq; intro ⟨h1, _⟩; exact h1 h

/-- whatever the status said before, after `doCanaryJump` no request is pending -/
theorem jump_noreq (ro : Rollout) (s s' : Sub) (j : Bool) (h : doCanaryJump ro s = some (s', j)) : NoReq ro s' := by
  unfold doCanaryJump at h
  dsimp only at h
  split at h
  · cases h
  · split at h
    · split at h
      · cases h
      · injection h with h
        simp only [Prod.mk.injEq] at h
        obtain ⟨hs, _⟩ := h
        subst hs
        exact NoReq.natural _ _ rfl
    · rename_i hn
      injection h with h
      simp only [Prod.mk.injEq] at h
      obtain ⟨hs, _⟩ := h
      subst hs
      unfold NoReq
      intro ⟨h1, h2, _⟩
      exact hn ⟨h1, h2⟩

theorem afterRetry_next (r : Option (Ctx × Bool × Bool)) (k : Ctx → RunOut) (c0 c' : Ctx) (err : Bool)
    (hr : ∀ c1 rt e, r = some (c1, rt, e) → c1.sub.curIdx = c0.sub.curIdx ∧ c1.sub.nextIdx = c0.sub.nextIdx)
    (hk : ∀ c1, c1.sub.curIdx = c0.sub.curIdx ∧ c1.sub.nextIdx = c0.sub.nextIdx → k c1 = .ok c' err →
      c'.sub.curIdx = c0.sub.curIdx ∧ c'.sub.nextIdx = c0.sub.nextIdx)
    (h : afterRetryCall r k = .ok c' err) : c'.sub.curIdx = c0.sub.curIdx ∧ c'.sub.nextIdx = c0.sub.nextIdx := by
  obtain ⟨c1, rt, e, hcall, hcase⟩ := afterRetryCall_spec _ _ _ _ h
  have h1 := hr c1 rt e hcall
  rcases hcase with ⟨hc, _⟩ | ⟨hc, _⟩ | ⟨_, _, hk'⟩
  · subst hc; exact h1
  · subst hc; exact h1
  · exact hk c1 h1 hk'

theorem upgradeStep_next (ro : Rollout) (step : Step) (c c' : Ctx) (err : Bool) (h : upgradeStep ro step c = .ok c' err) :
    c'.sub.curIdx = c.sub.curIdx ∧ c'.sub.nextIdx = c.sub.nextIdx := by
  obtain ⟨a, b, _⟩ := upgradeStep_spec _ _ _ _ _ h
  exact ⟨a, b⟩

theorem callOpt_next (c c1 : Ctx) (p : Prop) [Decidable p] (f : TCtx → Net → Mem → TOut) (rt e : Bool)
    (h : (if p then callTM f c else some (c, false, false)) = some (c1, rt, e)) :
    c1.sub.curIdx = c.sub.curIdx ∧ c1.sub.nextIdx = c.sub.nextIdx := by
  split at h
  · obtain ⟨a, _, b, _⟩ := callTM_sub _ _ _ _ _ _ h; exact ⟨a, b⟩
  · cases h; exact ⟨rfl, rfl⟩

theorem initStep_next (ro : Rollout) (step : Step) (c c' : Ctx) (err : Bool) (h : initStep ro step c = .ok c' err) :
    c'.sub.curIdx = c.sub.curIdx ∧ c'.sub.nextIdx = c.sub.nextIdx := by
  unfold initStep at h
  dsimp only at h
  split at h
  · split at h
    · cases h; exact ⟨rfl, rfl⟩
    · refine afterRetry_next _ _ c c' err (fun c1 rt e hh => callOpt_next c c1 _ _ rt e hh) (fun c1 h1 hk => ?_) h
      refine afterRetry_next _ _ c1 c' err (fun c2 rt e hh => callOpt_next c1 c2 _ _ rt e hh) (fun c2 h2 hk2 => ?_) hk |>.imp (·.trans h1.1) (·.trans h1.2)
      obtain ⟨a, b⟩ := upgradeStep_next _ _ _ _ _ hk2
      exact ⟨a.trans h2.1, b.trans h2.2⟩
  · refine afterRetry_next _ _ c c' err (fun c1 rt e hh => callOpt_next c c1 _ _ rt e hh) (fun c1 h1 hk => ?_) h
    obtain ⟨a, b⟩ := upgradeStep_next _ _ _ _ _ hk
    exact ⟨a.trans h1.1, b.trans h1.2⟩

/-- one sub-state action either keeps (step, next step) or advances to the natural successor pair -/
theorem stateStep_noreq (ro : Rollout) (step : Step) (c c' : Ctx) (err : Bool) (h : stateStep ro step c = .ok c' err)
    (hn : NoReq ro c.sub) : NoReq ro c'.sub := by
  have keep : c'.sub.curIdx = c.sub.curIdx ∧ c'.sub.nextIdx = c.sub.nextIdx → NoReq ro c'.sub :=
    fun hk => hn.congr rfl hk.1 hk.2
  unfold stateStep at h
  split at h
  · exact keep (initStep_next _ _ _ _ _ h)
  · exact keep (upgradeStep_next _ _ _ _ _ h)
  · split at h
    · cases h
    · rename_i c4 d e hc
      obtain ⟨a, _, b, _⟩ := callTM_sub _ _ _ _ _ _ hc
      split at h
      · cases h; exact keep ⟨a, b⟩
      · split at h <;> (cases h; exact keep ⟨a, b⟩)
  · cases h; exact keep ⟨rfl, rfl⟩
  · split at h
    · cases h
    · cases h; exact keep ⟨rfl, rfl⟩
    · cases h; exact keep ⟨rfl, rfl⟩
  · dsimp only at h
    split at h
    · cases h; exact NoReq.natural _ _ rfl
    · cases h; exact keep ⟨rfl, rfl⟩
  · cases h; exact keep ⟨rfl, rfl⟩

/-- **one round of the release manager never leaves a jump request behind** — whatever was requested -/
theorem runCanary_noreq (c0 c' : Ctx) (err : Bool) (h : runCanary c0 = .ok c' err) : NoReq c0.ro c'.sub := by
  obtain ⟨y1, y2, _, _, _⟩ := syncStep_sub c0
  unfold runCanary at h
  dsimp only at h
  split at h
  · cases h
  · rename_i s2 hj
    cases h
    exact jump_noreq _ _ _ _ hj
  · rename_i s2 hj
    have hn2 := jump_noreq _ _ _ _ hj
    split at h
    · cases h
    · rename_i step _
      split at h
      · cases h
      · rename_i c3 d e hpre
        have hc3 : c3.sub.curIdx = s2.curIdx ∧ c3.sub.nextIdx = s2.nextIdx := by
          unfold preStep at hpre
          split at hpre
          · obtain ⟨a, _, b, _⟩ := callTM_sub _ _ _ _ _ _ hpre; exact ⟨a, b⟩
          · cases hpre; exact ⟨rfl, rfl⟩
        have hn3 : NoReq c0.ro c3.sub := hn2.congr rfl hc3.1 hc3.2
        split at h
        · cases h; exact hn3
        · split at h
          · cases h; exact hn3
          · exact stateStep_noreq _ _ _ _ _ h hn3

theorem prStage3_next (c c' : Ctx) (d e : Bool) (h : prStage3 c = some (c', d, e)) :
    c'.sub.curIdx = c.sub.curIdx ∧ c'.sub.nextIdx = c.sub.nextIdx ∧ c'.sub.state = c.sub.state := by
  unfold prStage3 at h
  split at h
  · cases h
  · rename_i c1 _ _ hc
    obtain ⟨a, st, b, _⟩ := callTM_sub _ _ _ _ _ _ hc
    split at h <;> (cases h; exact ⟨a, b, st⟩)

theorem prStage2_next (c c' : Ctx) (d e : Bool) (h : prStage2 c = some (c', d, e)) :
    c'.sub.curIdx = c.sub.curIdx ∧ c'.sub.nextIdx = c.sub.nextIdx ∧ c'.sub.state = c.sub.state := by
  unfold prStage2 at h
  dsimp only at h
  split at h
  · cases h; exact ⟨rfl, rfl, rfl⟩
  · have := prStage3_next _ _ _ _ h
    exact this

theorem reset_next (c c' : Ctx) (d e : Bool) (h : doProgressingReset c = some (c', d, e)) :
    c'.sub.curIdx = c.sub.curIdx ∧ c'.sub.nextIdx = c.sub.nextIdx ∧ c'.sub.state = c.sub.state := by
  have hcur : (prCursor c).sub.curIdx = c.sub.curIdx ∧ (prCursor c).sub.nextIdx = c.sub.nextIdx ∧ (prCursor c).sub.state = c.sub.state := by
    unfold prCursor; split <;> exact ⟨rfl, rfl, rfl⟩
  unfold doProgressingReset at h
  split at h
  · cases h; exact ⟨rfl, rfl, rfl⟩
  · split at h
    · cases h
    · dsimp only at h
      split at h
      · split at h
        · cases h
        · rename_i c2 rt er hc
          obtain ⟨a, st, b, _⟩ := callTM_sub _ _ _ _ _ _ hc
          split at h
          · cases h; exact ⟨a.trans hcur.1, b.trans hcur.2.1, st.trans hcur.2.2⟩
          · obtain ⟨x, y, z⟩ := prStage2_next _ _ _ _ h
            exact ⟨x.trans (a.trans hcur.1), y.trans (b.trans hcur.2.1), z.trans (st.trans hcur.2.2)⟩
      · obtain ⟨x, y, z⟩ := prStage2_next _ _ _ _ h
        exact ⟨x.trans hcur.1, y.trans hcur.2.1, z.trans hcur.2.2⟩
      · obtain ⟨x, y, z⟩ := prStage3_next _ _ _ _ h
        exact ⟨x.trans hcur.1, y.trans hcur.2.1, z.trans hcur.2.2⟩

theorem inRolling_noreq (w : World) (old ns : Rollout) (s : Sub) (wl : WL) (r : StepResult)
    (hns : ns.sub = some s) (hn : NoReq ns s) (h : inRolling w old ns s wl = .val r) :
    r.w.ro.steps = ns.steps ∧ ∀ s', r.w.ro.sub = some s' → NoReq ns s' := by
  have keepS : ∀ s' : Sub, s'.curIdx = s.curIdx → s'.nextIdx = s.nextIdx → NoReq ns s' :=
    fun s' h1 h2 => hn.congr rfl h1 h2
  unfold inRolling at h
  dsimp only at h
  split at h
  · -- no old sub-status
    split at h
    · cases h
    · split at h
      · cases h
        refine ⟨rfl, fun s' hs' => ?_⟩
        dsimp only at hs'; rw [hns] at hs'; cases hs'; exact hn
      · cases h
  · split at h
    · cases h
      refine ⟨rfl, fun s' hs' => ?_⟩
      dsimp only at hs'; cases hs'; exact keepS _ rfl rfl
    · split at h
      · cases h
        refine ⟨rfl, fun s' hs' => ?_⟩
        dsimp only at hs'; rw [hns] at hs'; cases hs'; exact hn
      · split at h
        · cases h
          refine ⟨rfl, fun s' hs' => ?_⟩
          dsimp only at hs'; cases hs'; exact NoReq.natural _ _ rfl
        · split at h
          · -- continuous release
            split at h
            · cases h
              refine ⟨rfl, fun s' hs' => ?_⟩
              dsimp only at hs'; rw [hns] at hs'; cases hs'; exact hn
            · split at h
              · cases h
              · rename_i c d e hreset
                obtain ⟨a, b, _⟩ := reset_next _ _ _ _ hreset
                unfold toCtx at a b
                dsimp only at a b
                split at h
                · cases h
                  refine ⟨rfl, fun s' hs' => ?_⟩
                  unfold ofCtx at hs'; dsimp only at hs'; cases hs'; exact keepS _ a b
                · split at h
                  · cases h
                    refine ⟨rfl, fun s' hs' => ?_⟩
                    unfold ofCtx at hs'; dsimp only at hs'; cases hs'
                  · cases h
                    refine ⟨rfl, fun s' hs' => ?_⟩
                    unfold ofCtx at hs'; dsimp only at hs'; cases hs'; exact keepS _ a b
          · split at h
            · -- plan changed
              split at h
              · cases h
              · split at h
                · cases h
                  refine ⟨rfl, fun s' hs' => ?_⟩
                  dsimp only at hs'; cases hs'; exact keepS _ rfl rfl
                · split at h
                  · cases h
                  · rename_i s2 j hj
                    cases h
                    refine ⟨rfl, fun s' hs' => ?_⟩
                    dsimp only at hs'; cases hs'; exact jump_noreq _ _ _ _ hj
            · split at h
              · cases h
                refine ⟨rfl, fun s' hs' => ?_⟩
                dsimp only at hs'; rw [hns] at hs'; cases hs'; exact hn
              · split at h
                · cases h
                · rename_i c e hrun
                  cases h
                  refine ⟨rfl, fun s' hs' => ?_⟩
                  unfold ofCtx at hs'; dsimp only at hs'; cases hs'
                  have := runCanary_noreq _ _ _ hrun
                  unfold toCtx at this
                  exact this

theorem finTask_next (c c' : Ctx) (wr rt e : Bool) (h : finTask c wr = some (c', rt, e)) :
    c'.sub.curIdx = c.sub.curIdx ∧ c'.sub.nextIdx = c.sub.nextIdx ∧ c'.ro = c.ro := by
  unfold finTask at h
  split at h
  all_goals first
    | (dsimp only at h; cases h; exact ⟨rfl, rfl, rfl⟩)
    | (cases h; exact ⟨rfl, rfl, rfl⟩)
    | (obtain ⟨a, _, b, d, _⟩ := callTM_sub _ _ _ _ _ _ h; exact ⟨a, b, d⟩)

theorem doFinalising_next (c c' : Ctx) (reason : Reason) (wr d e : Bool) (h : doFinalising c reason wr = some (c', d, e)) :
    c'.sub.curIdx = c.sub.curIdx ∧ c'.sub.nextIdx = c.sub.nextIdx ∧ c'.ro = c.ro := by
  obtain ⟨hs, hr⟩ := stripAnno_frame c
  have hsc : ∀ nx, (startCursor (stripAnno c) nx).sub.curIdx = c.sub.curIdx ∧ (startCursor (stripAnno c) nx).sub.nextIdx = c.sub.nextIdx ∧
      (startCursor (stripAnno c) nx).ro = c.ro := by
    intro nx; unfold startCursor; split <;> (try dsimp only) <;> rw [hs, hr] <;> exact ⟨rfl, rfl, rfl⟩
  unfold doFinalising at h
  dsimp only at h
  split at h
  · cases h
  · split at h
    · cases h; rw [hs, hr]; exact ⟨rfl, rfl, rfl⟩
    · split at h
      · cases h; exact hsc _
      · split at h
        · cases h
        · rename_i cr rt er hrun
          obtain ⟨a, b, d0⟩ := finTask_next _ _ _ _ _ hrun
          obtain ⟨x, y, z⟩ := hsc (nextTask (taskList (stripAnno c).ro.style reason) (stripAnno c).sub.finStep)
          split at h <;> (cases h; exact ⟨a.trans x, b.trans y, d0.trans z⟩)

theorem finalise_next (w w' : World) (ns : Rollout) (wl : Option WL) (reason : Reason) (wr done err : Bool) (ws : List String)
    (h : finalise w ns wl reason wr = some (w', done, err, ws)) :
    w'.ro.steps = ns.steps ∧ ∀ s', w'.ro.sub = some s' → ∃ s, ns.sub = some s ∧ s'.curIdx = s.curIdx ∧ s'.nextIdx = s.nextIdx := by
  unfold finalise at h
  split at h
  · cases h
    have hn : ns.sub = none := by assumption
    exact ⟨rfl, fun s' hs' => by dsimp only at hs'; rw [hn] at hs'; cases hs'⟩
  · rename_i s hs
    have leaf : ∀ (c0 c : Ctx) (d e : Bool), doFinalising c0 reason wr = some (c, d, e) → c0.sub = s →
        ∀ s', some c.sub = some s' → ∃ s0, ns.sub = some s0 ∧ s'.curIdx = s0.curIdx ∧ s'.nextIdx = s0.nextIdx := by
      intro c0 c d e hd hc0 s' hs'
      cases hs'
      obtain ⟨a, b, _⟩ := doFinalising_next _ _ _ _ _ _ hd
      exact ⟨s, hs, by rw [a, hc0], by rw [b, hc0]⟩
    split at h
    · dsimp only at h
      split at h
      · cases h
      · rename_i c d e hd
        cases h
        exact ⟨rfl, fun s' hs' => leaf _ c _ _ hd rfl s' (by unfold ofCtx at hs'; exact hs')⟩
    · split at h
      · split at h
        · cases h
        · rename_i c d e hd
          cases h
          exact ⟨rfl, fun s' hs' => leaf _ c _ _ hd rfl s' (by unfold ofCtx at hs'; exact hs')⟩
      · split at h
        · cases h
        · rename_i c d e hd
          cases h
          exact ⟨rfl, fun s' hs' => leaf _ c _ _ hd rfl s' (by unfold ofCtx at hs'; exact hs')⟩

/-- the status calculation keeps (step, next step) of an existing sub-status, and a sub-status it
    creates itself records the natural successor -/
theorem cs_next (ro ns : Rollout) (wl : Option WL) (h : calculateStatus ro wl = some ns) :
    ∀ s', ns.sub = some s' →
      (∃ s, ro.sub = some s ∧ s'.curIdx = s.curIdx ∧ s'.nextIdx = s.nextIdx) ∨
      s'.nextIdx = nextBatchIndex ns.steps.length s'.curIdx := by
  intro s' hs'
  unfold calculateStatus at h
  split at h
  · injection h with h; subst h
    left
    split at hs' <;> exact ⟨s', hs', rfl, rfl⟩
  · dsimp only at h
    obtain ⟨d1, d2⟩ := csDisable_same ro
    obtain ⟨i1, i2⟩ := csInitial_same (csDisable ro)
    split at h
    · split at h
      · injection h with h; subst h; cases hs'
      · injection h with h; subst h
        left; rw [i2, d2] at hs'; exact ⟨s', hs', rfl, rfl⟩
    · rename_i w
      split at h
      · cases h
      · injection h with h; subst h
        -- csObserve keeps (cur, next); csPhase keeps the sub-status or creates the completed one
        have hobs : ∀ t, (csObserve (csInitial (csDisable ro)) w).sub = some t →
            ∃ s, ro.sub = some s ∧ t.curIdx = s.curIdx ∧ t.nextIdx = s.nextIdx := by
          intro t ht
          obtain ⟨_, o2, _⟩ := csObserve_same (csInitial (csDisable ro)) w
          rw [ht, i2, d2] at o2
          cases hro : ro.sub with
          | none => rw [hro] at o2; simp at o2
          | some s0 =>
            rw [hro] at o2
            simp only [Option.map_some, Option.some.injEq, subCore, Prod.mk.injEq] at o2
            exact ⟨s0, rfl, o2.1, o2.2.1⟩
        unfold csPhase at hs'
        split at hs'
        · left; exact hobs s' hs'
        · split at hs'
          · left; exact hobs s' hs'
          · split at hs'
            · dsimp only at hs'
              cases hs'
              right
              rw [(csPhase_same ro _ w).1.1]
            · left; exact hobs s' hs'
        · split at hs' <;> (left; exact hobs s' hs')
        · left; exact hobs s' hs'

/-- **C02.ii (whole reconcile)** — for every world: if the status carries no jump request before a
    reconcile (or there is no sub-status yet), it carries none afterwards.  Only a user writes a jump
    request; the controller consumes it (`doCanaryJump`) and whenever it moves the step index itself it
    records the natural successor. -/
theorem no_self_jump_core (w : World) (r : StepResult) (h : reconcileCore w = .val r) : noSelfJump w r = true := by
  unfold noSelfJump
  split
  · rename_i s' hs'
    dsimp only
    generalize hg : ((match w.ro.sub with | some s => !jumpRequested w.ro s | none => true) && !r.roGone) = g
    cases g with
    | false => simp
    | true =>
      simp only [if_true]
      simp only [Bool.and_eq_true, Bool.not_eq_true'] at hg
      obtain ⟨hhad, hng⟩ := hg
      rw [Bool.not_eq_true', noReq_iff]
      -- input: no request pending
      have hin : ∀ s, w.ro.sub = some s → NoReq w.ro s := by
        intro s hs
        rw [hs] at hhad
        exact (noReq_iff _ _).mp (by simpa using hhad)
      have hfr := hf_frame w.ro
      have e_steps : (handleFinalizer w.ro).1.steps = w.ro.steps := by rw [hfr]
      have e_sub : (handleFinalizer w.ro).1.sub = w.ro.sub := by rw [hfr]
      have hro1 : ∀ s, (handleFinalizer w.ro).1.sub = some s → NoReq (handleFinalizer w.ro).1 s :=
        fun s hs => (hin s (e_sub ▸ hs)).congr e_steps rfl rfl
      unfold reconcileCore at h
      dsimp only at h
      -- result carrying the untouched rollout
      have leafRo1 : ∀ (w0 : World) (rq e : Bool) (ws : List String),
          Out.val { w := { w0 with ro := (handleFinalizer w.ro).1 }, roGone := (handleFinalizer w.ro).2.1, requeue := rq, err := e, writes := ws } = Out.val r →
          NoReq r.w.ro s' := by
        intro w0 rq e ws hh
        cases hh
        exact hro1 s' hs'
      split at h
      · exact leafRo1 _ _ _ _ h
      · rename_i ns hcs
        obtain ⟨hsame, _⟩ := cs_frame _ ns w.wl hcs
        have hnsteps : ns.steps = w.ro.steps := hsame.1.trans e_steps
        have hns : ∀ s, ns.sub = some s → NoReq ns s := by
          intro s hs
          rcases cs_next _ ns w.wl hcs s hs with ⟨s0, h0, h1, h2⟩ | hnat
          · exact (hro1 s0 h0).congr hsame.1 h1 h2
          · exact NoReq.natural _ _ hnat
        -- result carrying the new status with untouched sub-status and plan
        have leafNs : ∀ (ro' : Rollout) (w0 : World) (rq e : Bool) (ws : List String),
            Out.val { w := { w0 with ro := ro' }, roGone := (handleFinalizer w.ro).2.1, requeue := rq, err := e, writes := ws } = Out.val r →
            ro'.sub = ns.sub → ro'.steps = ns.steps → NoReq r.w.ro s' := by
          intro ro' w0 rq e ws hh h1 h2
          cases hh
          dsimp only at hs'
          exact (hns s' (h1 ▸ hs')).congr h2 rfl rfl
        have finBranch : ∀ (wl : Option WL) (reason : Reason) (wr : Bool) (upd : Rollout → Rollout),
            (∀ x, (upd x).sub = x.sub ∧ (upd x).steps = x.steps) →
            (match finalise w ns wl reason wr with
             | none => Out.panic
             | some (w', done, err, ws) =>
               if err then .val { w := { w' with ro := (handleFinalizer w.ro).1 }, roGone := (handleFinalizer w.ro).2.1, requeue := false, err := true,
                                  writes := (handleFinalizer w.ro).2.2 ++ ws }
               else if done then .val { w := { w' with ro := upd w'.ro }, roGone := (handleFinalizer w.ro).2.1, requeue := false, err := false,
                                        writes := (handleFinalizer w.ro).2.2 ++ ws }
               else .val { w := w', roGone := (handleFinalizer w.ro).2.1, requeue := true, err := false, writes := (handleFinalizer w.ro).2.2 ++ ws }) = Out.val r →
            NoReq r.w.ro s' := by
          intro wl reason wr upd hupd hh
          split at hh
          · cases hh
          · rename_i w' done err ws hfz
            obtain ⟨f1, f2⟩ := finalise_next _ _ _ _ _ _ _ _ _ hfz
            split at hh
            · exact leafRo1 _ _ _ _ hh
            · split at hh
              · cases hh
                obtain ⟨u1, u2⟩ := hupd w'.ro
                dsimp only at hs'
                rw [u1] at hs'
                obtain ⟨s0, h0, h1, h2⟩ := f2 s' hs'
                exact (hns s0 h0).congr (u2.trans f1) h1 h2
              · cases hh
                obtain ⟨s0, h0, h1, h2⟩ := f2 s' hs'
                exact (hns s0 h0).congr f1 h1 h2
        split at h
        · -- Progressing
          split at h
          · exact leafNs _ _ _ _ _ h rfl rfl
          · rename_i wl hwl
            split at h
            · exact leafNs _ _ _ _ _ h rfl rfl
            · split at h
              · cases h
              · -- initializing: a fresh sub-status with the natural successor
                split at h
                · cases h
                · split at h
                  · exact leafRo1 _ _ _ _ h
                  · split at h <;>
                    (cases h; dsimp only at hs'; cases hs'; exact NoReq.natural _ _ rfl)
              · -- inRolling
                split at h
                · split at h
                  · cases h
                  · split at h
                    · exact leafNs _ _ _ _ _ h rfl rfl
                    · cases h
                · rename_i s hs
                  split at h
                  · cases h
                  · rename_i r0 hir
                    obtain ⟨i1, i2⟩ := inRolling_noreq _ _ _ _ _ _ hs (hns s hs) hir
                    split at h
                    · exact leafRo1 _ _ _ _ h
                    · cases h
                      exact (i2 s' hs').congr i1 rfl rfl
              · exact finBranch (some wl) .success true (fun x => { x with reason := .completed, succeeded := some true })
                  (fun x => ⟨rfl, rfl⟩) h
              · split at h
                · exact leafNs _ _ _ _ _ h rfl rfl
                · exact leafNs _ _ _ _ _ h rfl rfl
              · exact finBranch (some wl) .rollback false (fun x => { x with reason := .completed, succeeded := some false })
                  (fun x => ⟨rfl, rfl⟩) h
              · exact leafNs _ _ _ _ _ h rfl rfl
              · exact leafNs _ _ _ _ _ h rfl rfl
        · split at h
          · cases h
          · exact leafNs _ _ _ _ _ h rfl rfl
          · exact finBranch w.wl .other false (fun x => { x with term := .completed }) (fun x => ⟨rfl, rfl⟩) h
        · exact finBranch w.wl .other false (fun x => { x with phase := .disabled }) (fun x => ⟨rfl, rfl⟩) h
        · exact leafNs _ _ _ _ _ h rfl rfl
  · rfl

/-! ### C02.i — step index and StepReady are gated (whole reconcile) -/

/-- what the in-rolling dispatch can do to (step index, sub-state) while the reason stays InRolling -/
theorem inRolling_gates (w : World) (old ns : Rollout) (s os : Sub) (wl : WL) (r : StepResult) (s' : Sub)
    (hold : old.sub = some os) (hcore : subCore s = subCore os) (hns : ns.sub = some s)
    (h : inRolling w old ns s wl = .val r) (hs' : r.w.ro.sub = some s') (hreason : r.w.ro.reason = ns.reason) :
    (s'.curIdx ≠ s.curIdx →
      (s.state = .ready ∧ s'.curIdx = s.curIdx + 1 ∧ s.curIdx < ns.steps.length ∧ NoReq ns s) ∨
      ¬ NoReq ns s ∨ s.hash = .differs ∨ (wl.inRollback = true ∧ wl.canaryRev ≠ s.canaryRev)) ∧
    (s'.state = .ready → s.state ≠ .ready → s'.curIdx = s.curIdx → s.state = .paused ∨ s.hash = .differs) := by
  simp only [subCore, Prod.mk.injEq] at hcore
  obtain ⟨_, _, _, _, _, hcrev, hhash⟩ := hcore
  have same : ∀ (P : Prop), s'.curIdx = s.curIdx → s'.state = s.state →
      (s'.curIdx ≠ s.curIdx → P) ∧ (s'.state = .ready → s.state ≠ .ready → s'.curIdx = s.curIdx → s.state = .paused ∨ s.hash = .differs) :=
    fun P h1 h2 => ⟨fun hne => absurd h1 hne, fun hr hnr _ => absurd (h2 ▸ hr) hnr⟩
  unfold inRolling at h
  dsimp only at h
  rw [hold] at h
  dsimp only at h
  split at h
  · cases h; dsimp only at hs'; cases hs'; exact same _ rfl rfl
  · split at h
    · cases h; dsimp only at hs'; rw [hns] at hs'; cases hs'; exact same _ rfl rfl
    · split at h
      · rename_i hb
        cases h; dsimp only at hs'; cases hs'
        exact ⟨fun _ => Or.inr (Or.inr (Or.inr ⟨hb.1, by rw [hcrev]; exact hb.2.1⟩)), fun hr => by cases hr⟩
      · split at h
        · split at h
          · cases h; dsimp only at hs'; rw [hns] at hs'; cases hs'; exact same _ rfl rfl
          · split at h
            · cases h
            · rename_i c d e hreset
              obtain ⟨a, _, st⟩ := reset_next _ _ _ _ hreset
              unfold toCtx at a st
              dsimp only at a st
              split at h
              · cases h; unfold ofCtx at hs'; dsimp only at hs'; cases hs'; exact same _ a st
              · split at h
                · cases h; unfold ofCtx at hs'; dsimp only at hs'; cases hs'
                · cases h; unfold ofCtx at hs'; dsimp only at hs'; cases hs'; exact same _ a st
        · split at h
          · rename_i hplan
            have hdiff : s.hash = .differs := by
              rw [hhash]; cases hh : os.hash <;> simp_all
            split at h
            · cases h
            · split at h
              · cases h; dsimp only at hs'; cases hs'
                exact ⟨fun _ => Or.inr (Or.inr (Or.inl hdiff)), fun _ _ _ => Or.inr hdiff⟩
              · split at h
                · cases h
                · cases h; dsimp only at hs'; cases hs'
                  exact ⟨fun _ => Or.inr (Or.inr (Or.inl hdiff)), fun _ _ _ => Or.inr hdiff⟩
          · split at h
            · cases h; dsimp only at hs'; rw [hns] at hs'; cases hs'; exact same _ rfl rfl
            · split at h
              · cases h
              · rename_i c e hrun
                cases h
                unfold ofCtx at hs'; dsimp only at hs'; cases hs'
                obtain ⟨g1, _, g3⟩ := runCanary_gated _ _ _ hrun
                unfold toCtx at g1 g3
                dsimp only at g1 g3
                -- the status the release manager started from: `s` with a corrected next-step index
                constructor
                · intro hne
                  have hcur : (if s.nextIdx ≤ 0 ∨ s.nextIdx > (ns.steps.length : Int) then
                      { s with nextIdx := nextBatchIndex ns.steps.length s.curIdx } else s).curIdx = s.curIdx := by split <;> rfl
                  have hst : (if s.nextIdx ≤ 0 ∨ s.nextIdx > (ns.steps.length : Int) then
                      { s with nextIdx := nextBatchIndex ns.steps.length s.curIdx } else s).state = s.state := by split <;> rfl
                  rcases g1 (by rw [hcur]; exact hne) with ⟨a1, a2, a3, a4⟩ | ⟨b1, _⟩
                  · left
                    refine ⟨hst ▸ a1, by rw [a2, hcur], by rw [← hcur]; exact a3, ?_⟩
                    intro ⟨q1, q2, q3⟩
                    apply a4
                    unfold JumpReq
                    rw [if_neg (by omega)]
                    exact ⟨q1, q2⟩
                  · right; left
                    intro hno
                    apply hno
                    unfold JumpReq at b1
                    split at b1
                    · exact absurd rfl b1.1
                    · rename_i hleg
                      exact ⟨b1.1, b1.2, by omega⟩
                · intro hr hnr _
                  have hst : (if s.nextIdx ≤ 0 ∨ s.nextIdx > (ns.steps.length : Int) then
                      { s with nextIdx := nextBatchIndex ns.steps.length s.curIdx } else s).state = s.state := by split <;> rfl
                  exact Or.inl (hst ▸ (g3 hr (by rw [hst]; exact hnr)).1)

/-- a rolling, not deleted rollout whose workload status is inconsistent: the reconcile only waits -/
theorem reconcile_inconsistent_core (w : World) (wl : WL) (r : StepResult) (hdel : w.ro.deleting = false) (hwl : w.wl = some wl)
    (hc : wl.consistent = false) (h : reconcileCore w = .val r) : r.w.ro.sub = w.ro.sub := by
  have hfr := hf_frame w.ro
  unfold reconcileCore at h
  dsimp only at h
  have : calculateStatus (handleFinalizer w.ro).1 w.wl = none := by
    unfold calculateStatus
    rw [hfr]; dsimp only
    rw [if_neg (by simp [hdel]), hwl]
    dsimp only
    rw [if_pos (by simp [hc])]
  rw [this] at h
  cases h
  dsimp only
  rw [hfr]

theorem advance_and_ready_gated_core (w : World) (r : StepResult) (h : reconcileCore w = .val r) :
    advanceGated w r = true ∧ readyGated w r = true := by
  -- both oracles only speak about a rolling rollout that has a sub-status before and after
  cases hos : w.ro.sub with
  | none => exact ⟨by unfold advanceGated; rw [hos], by unfold readyGated; rw [hos]⟩
  | some os =>
  cases hs' : r.w.ro.sub with
  | none => exact ⟨by unfold advanceGated; rw [hos, hs'], by unfold readyGated; rw [hos, hs']⟩
  | some s' =>
  by_cases hin : inRollingNow w.ro = true ∧ r.w.ro.reason = .inRolling
  case neg =>
    constructor
    · unfold advanceGated; rw [hos, hs']
      cases hw : w.wl with
      | none => rfl
      | some wl => dsimp only; rw [if_neg (fun hh => hin ⟨hh.1, hh.2.1⟩)]
    · unfold readyGated; rw [hos, hs']; dsimp only; rw [if_neg (fun hh => hin ⟨hh.1, hh.2.1⟩)]
  case pos =>
    obtain ⟨hnow, hrr⟩ := hin
    have hnow' := hnow
    unfold inRollingNow at hnow'
    simp only [Bool.and_eq_true, decide_eq_true_eq, Bool.not_eq_true'] at hnow'
    obtain ⟨⟨hph, hr⟩, hndel⟩ := hnow'
    -- the facts about (step index, sub-state)
    have key : ∀ wl, w.wl = some wl →
        (s'.curIdx ≠ os.curIdx →
          (os.state = .ready ∧ s'.curIdx = os.curIdx + 1 ∧ os.curIdx < w.ro.steps.length ∧ NoReq w.ro os) ∨
          ¬ NoReq w.ro os ∨ os.hash = .differs ∨ (wl.inRollback = true ∧ wl.canaryRev ≠ os.canaryRev)) ∧
        (s'.state = .ready → os.state ≠ .ready → s'.curIdx = os.curIdx → os.state = .paused ∨ os.hash = .differs) := by
      intro wl hwl
      cases hc : wl.consistent with
      | false =>
        have := reconcile_inconsistent_core w wl r hndel hwl hc h
        rw [hs', hos] at this
        cases this
        exact ⟨fun hne => absurd rfl hne, fun hr hnr _ => absurd hr hnr⟩
      | true =>
        obtain ⟨ns, s, hsame, hs, hcore, hreason, hrec⟩ := reconcile_inRolling_core w wl os hph hr hwl hc hos
        rw [hrec] at h
        split at h
        · cases h
        · rename_i r0 hir
          split at h
          · cases h
            dsimp only at hs'
            rw [hf_frame w.ro] at hs'
            dsimp only at hs'
            rw [hos] at hs'; cases hs'
            exact ⟨fun hne => absurd rfl hne, fun hr hnr _ => absurd hr hnr⟩
          · cases h
            have hr0r : r0.w.ro.reason = ns.reason := by rw [hrr, hreason, hr]
            obtain ⟨g1, g2⟩ := inRolling_gates w w.ro ns s os wl r0 s' hos hcore hs hir hs' hr0r
            simp only [subCore, Prod.mk.injEq] at hcore
            obtain ⟨c1, c2, c3, _, _, c6, c7⟩ := hcore
            have hno : NoReq ns s ↔ NoReq w.ro os :=
              ⟨fun hn => hn.congr hsame.1.symm c1.symm c2.symm, fun hn => hn.congr hsame.1 c1 c2⟩
            rw [c1, c3, c6, c7, hsame.1, hno] at g1
            rw [c1, c3, c7] at g2
            exact ⟨g1, g2⟩
    constructor
    · unfold advanceGated
      rw [hos, hs']
      cases hw : w.wl with
      | none => rfl
      | some wl =>
        dsimp only
        split
        · rename_i hc
          obtain ⟨k1, _⟩ := key wl hw
          rcases k1 hc.2.2 with ⟨a1, a2, a3, a4⟩ | hb | hd | ⟨e1, e2⟩
          · have : jumpRequested w.ro os = false := (noReq_iff _ _).mpr a4
            simp [a1, a2, a3, this]
          · have : jumpRequested w.ro os = true := by
              cases hj : jumpRequested w.ro os with
              | true => rfl
              | false => exact absurd ((noReq_iff _ _).mp hj) hb
            simp [this]
          · simp [hd]
          · simp [e1, e2]
        · rfl
    · unfold readyGated
      rw [hos, hs']
      dsimp only
      split
      · rename_i hc
        cases hw : w.wl with
        | none =>
          -- without a workload the reconcile of a rolling rollout returns the new status unchanged
          exfalso
          have hfr := hf_frame w.ro
          unfold reconcileCore at h
          dsimp only at h
          split at h
          · cases h
            dsimp only at hs'; rw [hfr] at hs'; dsimp only at hs'; rw [hos] at hs'; cases hs'
            exact hc.2.2.2.1 hc.2.2.1
          · rename_i ns hcs
            rw [hph] at h
            dsimp only at h
            rw [hw] at h
            dsimp only at h
            cases h
            dsimp only at hs'
            -- calculateStatus without a workload clears the sub-status or keeps it
            rw [hw] at hcs
            unfold calculateStatus at hcs
            rw [hfr] at hcs; dsimp only at hcs
            rw [if_neg (by simp [hndel])] at hcs
            try dsimp only at hcs
            split at hcs
            · cases hcs; cases hs'
            · cases hcs
              obtain ⟨_, d2⟩ := csDisable_same { w.ro with hasFinalizer := (handleFinalizer w.ro).1.hasFinalizer }
              obtain ⟨_, i2⟩ := csInitial_same (csDisable { w.ro with hasFinalizer := (handleFinalizer w.ro).1.hasFinalizer })
              rw [i2, d2] at hs'
              dsimp only at hs'
              rw [hos] at hs'; cases hs'
              exact hc.2.2.2.1 hc.2.2.1
        | some wl =>
          obtain ⟨_, k2⟩ := key wl hw
          rcases k2 hc.2.2.1 hc.2.2.2.1 hc.2.2.2.2 with hp | hd
          · simp [hp]
          · simp [hd]
      · rfl

/-! ### C03.ii — traffic routing is entered only with the step's pods ready (whole reconcile) -/

/-- `doCanaryUpgrade` reads the rollout only through its plan and the rollback-in-batch mark -/
theorem doCanaryUpgrade_ro (ro ro' : Rollout) (s : Sub) (wl : WL) (br : Option BR)
    (h1 : ro'.steps = ro.steps) (h2 : ro'.rollbackInBatch = ro.rollbackInBatch) :
    doCanaryUpgrade ro' s wl br = doCanaryUpgrade ro s wl br := by
  unfold doCanaryUpgrade runBatchRelease desiredBR
  rw [h1, h2]

/-- a BatchRelease whose rollout-id was just patched is not accepted as "pods ready" in the same round -/
theorem upgrade_done_unsynced (c : Ctx) (s : Sub) (h : (doCanaryUpgrade c.ro s c.wl (syncStep c).br).1 = true) :
    (syncStep c).br = c.br := by
  unfold syncStep at h ⊢
  dsimp only at h ⊢
  cases hb : c.br with
  | none => first | exact hb | rfl | simp [hb]
  | some b =>
    rw [hb] at h
    dsimp only at h ⊢
    split
    · rename_i hne
      rw [if_pos hne] at h
      exfalso
      dsimp only at h
      unfold doCanaryUpgrade runBatchRelease at h
      dsimp only at h
      split at h
      · dsimp only at h; simp at h
      · dsimp only at h; simp at h
    · first | exact hb | rfl

/-- **one round of the release manager** enters `StepTrafficRouting` or `StepMetricsAnalysis` (the sub-states after
    the step's pods are in place) only from a sub-state in which the pods were already reported ready, or from
    `StepUpgrade` / `BeforeStepUpgrade` of the same step in a round in which the BatchRelease reports them ready -/
theorem runCanary_pods_gated (c0 c' : Ctx) (err : Bool) (h : runCanary c0 = .ok c' err)
    (hst : c'.sub.state = .trafficRouting ∨ c'.sub.state = .metricsAnalysis)
    (hne : c0.sub.state ≠ c'.sub.state ∨ c'.sub.curIdx ≠ c0.sub.curIdx) :
    Upgraded c0.sub.state ∨
    ((c0.sub.state = .upgrade ∨ c0.sub.state = .init) ∧ c'.sub.curIdx = c0.sub.curIdx ∧
      ∃ c : Ctx, c.sub.curIdx = c0.sub.curIdx ∧ c.wl = c0.wl ∧ c.br = (syncStep c0).br ∧ UpgradeDone c0.ro c) := by
  obtain ⟨y1, y2, y3, y4, y5⟩ := syncStep_sub c0
  unfold runCanary at h
  dsimp only at h
  split at h
  · cases h
  · -- jumped: the target starts in StepInit, or in StepTrafficRouting when the pods were ready
    rename_i s2 hj
    simp only [RunOut.ok.injEq] at h; obtain ⟨hc, _⟩ := h; subst hc
    obtain ⟨_, hjs⟩ := jump_spec _ _ _ _ hj
    obtain ⟨_, _, _, _, _, j6, j7⟩ := hjs rfl
    rw [y3] at j7
    dsimp only at hst
    rcases j6 with j6 | j6
    · exact Or.inl (j7 j6)
    · rw [j6] at hst; rcases hst with h1 | h1 <;> cases h1
  · rename_i s2 hj
    obtain ⟨hsame, _⟩ := jump_spec _ _ _ _ hj
    have hs2 : s2 = (syncStep c0).sub := hsame rfl
    subst hs2
    split at h
    · cases h
    · rename_i step _
      split at h
      · cases h
      · rename_i c3 done e hpre
        have hc3 : c3.sub.curIdx = c0.sub.curIdx ∧ c3.sub.state = c0.sub.state ∧ c3.wl = c0.wl ∧ c3.br = (syncStep c0).br := by
          unfold preStep at hpre
          split at hpre
          · obtain ⟨a, b, _, _, d, e', _⟩ := callTM_sub _ _ _ _ _ _ hpre
            dsimp only at a b d e'
            exact ⟨by rw [a, y1], by rw [b, y3], by rw [d, y5], e'⟩
          · simp only [Option.some.injEq, Prod.mk.injEq] at hpre
            rw [← hpre.1]; exact ⟨y1, y3, y5, rfl⟩
        have stop : ∀ cx : Ctx, cx.sub = c3.sub → c' = cx → False := by
          intro cx h1 h2
          subst h2
          rcases hne with hn | hn
          · exact hn (by rw [h1, hc3.2.1])
          · exact hn (by rw [h1, hc3.1])
        split at h
        · simp only [RunOut.ok.injEq] at h; exact (stop c3 rfl h.1.symm).elim
        · split at h
          · simp only [RunOut.ok.injEq] at h; exact (stop { c3 with requeue := true } rfl h.1.symm).elim
          · have sp := stateStep_spec _ _ _ _ _ h
            by_cases hsame' : c'.sub.state = c3.sub.state
            · -- same sub-state: the index moved, which only happens from StepReady into StepInit
              rcases sp.cursor with hc | ⟨_, _, r3, _, _⟩
              · exfalso
                rcases hne with hn | hn
                · exact hn (by rw [hsame', hc3.2.1])
                · exact hn (by rw [hc, hc3.1])
              · rw [r3] at hst; rcases hst with h1 | h1 <;> cases h1
            · rcases sp.routing hst hsame' with ⟨r1, _⟩ | ⟨r1, r2⟩
              · left; rw [← hc3.2.1, r1]; unfold Upgraded; simp
              · right
                have hcur : c'.sub.curIdx = c0.sub.curIdx := by
                  rcases sp.cursor with hc | ⟨r', _, _, _, _⟩
                  · rw [hc, hc3.1]
                  · rcases r1 with r1 | r1 <;> rw [r1] at r' <;> cases r'
                exact ⟨by rw [← hc3.2.1]; exact r1, hcur, c3, hc3.1, hc3.2.2.1, hc3.2.2.2, r2⟩

theorem podsReady_iff (st : StepState) : podsReady st = true ↔ Upgraded st := by
  unfold podsReady Upgraded; cases st <;> simp

theorem inRolling_routing (w : World) (old ns : Rollout) (s os : Sub) (wl : WL) (r : StepResult) (s' : Sub)
    (hold : old.sub = some os) (hns : ns.sub = some s)
    (h : inRolling w old ns s wl = .val r) (hs' : r.w.ro.sub = some s')
    (hst : s'.state = .trafficRouting ∨ s'.state = .metricsAnalysis) (hch : s.state ≠ s'.state ∨ s'.curIdx ≠ s.curIdx) :
    Upgraded s.state ∨
    ((s.state = .upgrade ∨ s.state = .init) ∧ s'.curIdx = s.curIdx ∧
      (doCanaryUpgrade ns { s with nextIdx := s'.nextIdx } wl w.br).1 = true) := by
  have same : ∀ (P : Prop), s'.curIdx = s.curIdx → s'.state = s.state → P := by
    intro P h1 h2
    rcases hch with hc | hc
    · exact absurd h2.symm hc
    · exact absurd h1 hc
  unfold inRolling at h
  dsimp only at h
  rw [hold] at h
  dsimp only at h
  split at h
  · cases h; dsimp only at hs'; cases hs'; exact same _ rfl rfl
  · split at h
    · cases h; dsimp only at hs'; rw [hns] at hs'; cases hs'; exact same _ rfl rfl
    · split at h
      · cases h; dsimp only at hs'; cases hs'; rcases hst with h1 | h1 <;> cases h1
      · split at h
        · split at h
          · cases h; dsimp only at hs'; rw [hns] at hs'; cases hs'; exact same _ rfl rfl
          · split at h
            · cases h
            · rename_i c d e hreset
              obtain ⟨a, _, st⟩ := reset_next _ _ _ _ hreset
              unfold toCtx at a st
              dsimp only at a st
              split at h
              · cases h; unfold ofCtx at hs'; dsimp only at hs'; cases hs'; exact same _ a st
              · split at h
                · cases h; unfold ofCtx at hs'; dsimp only at hs'; cases hs'
                · cases h; unfold ofCtx at hs'; dsimp only at hs'; cases hs'; exact same _ a st
        · split at h
          · split at h
            · cases h
            · split at h
              · cases h; dsimp only at hs'; cases hs'; rcases hst with h1 | h1 <;> cases h1
              · split at h
                · cases h
                · rename_i s2 j hj
                  cases h; dsimp only at hs'; cases hs'
                  obtain ⟨j1, j2⟩ := jump_spec _ _ _ _ hj
                  cases j with
                  | false => have := j1 rfl; subst this; exact same _ rfl rfl
                  | true =>
                    obtain ⟨_, _, _, _, _, jst, jup⟩ := j2 rfl
                    rcases jst with jst | jst
                    · exact Or.inl (jup jst)
                    · rw [jst] at hst; rcases hst with h1 | h1 <;> cases h1
          · split at h
            · cases h; dsimp only at hs'; rw [hns] at hs'; cases hs'; exact same _ rfl rfl
            · split at h
              · cases h
              · rename_i c e hrun
                cases h
                unfold ofCtx at hs'; dsimp only at hs'; cases hs'
                -- the status the release manager started from
                generalize hs0 : (if s.nextIdx ≤ 0 ∨ s.nextIdx > (ns.steps.length : Int) then
                    { s with nextIdx := nextBatchIndex ns.steps.length s.curIdx } else s) = s0 at hrun
                have hcur : s0.curIdx = s.curIdx := by rw [← hs0]; split <;> rfl
                have hsta : s0.state = s.state := by rw [← hs0]; split <;> rfl
                have g2 := runCanary_pods_gated _ _ _ hrun hst (by unfold toCtx; dsimp only; rw [hsta, hcur]; exact hch)
                unfold toCtx at g2
                dsimp only at g2
                rcases g2 with hu | ⟨hui, hcs, cx, cx1, cx2, cx3, cx4⟩
                · exact Or.inl (hsta ▸ hu)
                · right
                  refine ⟨hsta ▸ hui, hcs.trans hcur, ?_⟩
                  unfold UpgradeDone at cx4
                  rw [cx2, cx3] at cx4
                  have hsync := upgrade_done_unsynced
                    { ro := ns, sub := s0, wl := wl, br := w.br, net := w.net, mem := w.mem } cx.sub cx4
                  dsimp only at hsync
                  rw [hsync] at cx4
                  rw [doCanaryUpgrade_congr ns s { s with nextIdx := c.sub.nextIdx } wl w.br rfl,
                      ← doCanaryUpgrade_congr ns s cx.sub wl w.br (by rw [cx1, hcur])]
                  exact cx4

theorem reconcile_nowl_core (w : World) (r : StepResult) (hph : w.ro.phase = .progressing) (hndel : w.ro.deleting = false)
    (hw : w.wl = none) (h : reconcileCore w = .val r) : r.w.ro.sub = none ∨ r.w.ro.sub = w.ro.sub := by
  have hfr := hf_frame w.ro
  unfold reconcileCore at h
  dsimp only at h
  split at h
  · cases h
    right; dsimp only; rw [hfr]
  · rename_i ns hcs
    rw [hph] at h
    dsimp only at h
    rw [hw] at h
    dsimp only at h
    cases h
    dsimp only
    rw [hw] at hcs
    unfold calculateStatus at hcs
    rw [hfr] at hcs; dsimp only at hcs
    rw [if_neg (by simp [hndel])] at hcs
    try dsimp only at hcs
    split at hcs
    · cases hcs; left; rfl
    · cases hcs
      obtain ⟨_, d2⟩ := csDisable_same { w.ro with hasFinalizer := (handleFinalizer w.ro).1.hasFinalizer }
      obtain ⟨_, i2⟩ := csInitial_same (csDisable { w.ro with hasFinalizer := (handleFinalizer w.ro).1.hasFinalizer })
      right; rw [i2, d2]

/-- **C03.ii (whole reconcile)** — for every world: a reconcile leaves a rolling rollout in
    `StepTrafficRouting` of a step it was not already routing only if that step's pods were already reported
    ready (sub-state past the upgrade), or it was in `StepUpgrade`/`BeforeStepUpgrade` of the same step and the
    BatchRelease — as it was before this reconcile wrote anything to it — reports the step's pods ready. -/
theorem enter_routing_gated_core (w : World) (r : StepResult) (h : reconcileCore w = .val r) : enterRoutingGated w r = true := by
  unfold enterRoutingGated
  cases hos : w.ro.sub with
  | none => rfl
  | some os =>
  cases hs' : r.w.ro.sub with
  | none => rfl
  | some s' =>
  dsimp only
  split
  · rename_i hc
    obtain ⟨hnow, hrr, hst, hch⟩ := hc
    have hnow' := hnow
    unfold inRollingNow at hnow'
    simp only [Bool.and_eq_true, decide_eq_true_eq, Bool.not_eq_true'] at hnow'
    obtain ⟨⟨hph, hr⟩, hndel⟩ := hnow'
    have unchanged : r.w.ro.sub = w.ro.sub → False := by
      intro he
      rw [hs', hos] at he; cases he
      rcases hch with hc | hc
      · exact hc rfl
      · exact hc rfl
    cases hw : w.wl with
    | none =>
      rcases reconcile_nowl_core w r hph hndel hw h with hn | hn
      · rw [hs'] at hn; cases hn
      · exact absurd hn unchanged
    | some wl =>
      cases hcons : wl.consistent with
      | false => exact absurd (reconcile_inconsistent_core w wl r hndel hw hcons h) unchanged
      | true =>
        obtain ⟨ns, s, hsame, hs, hcore, hreason, hrec⟩ := reconcile_inRolling_core w wl os hph hr hw hcons hos
        rw [hrec] at h
        split at h
        · cases h
        · rename_i r0 hir
          split at h
          · cases h
            exfalso; apply unchanged
            dsimp only; rw [hf_frame w.ro]
          · cases h
            simp only [subCore, Prod.mk.injEq] at hcore
            obtain ⟨c1, _, c3, _⟩ := hcore
            rcases inRolling_routing w w.ro ns s os wl r0 s' hos hs hir hs' hst (by rw [c3, c1]; exact hch) with hu | ⟨hui, hcs, hud⟩
            · rw [c3] at hu
              rw [Bool.or_eq_true]; right; exact (podsReady_iff _).mpr hu
            · rw [Bool.or_eq_true]; left
              rw [c3] at hui; rw [c1] at hcs
              unfold upgradeDoneObs
              rw [hw]
              try dsimp only
              rw [doCanaryUpgrade_ro w.ro ns _ wl w.br hsame.1 hsame.2.2.2.2.1,
                  doCanaryUpgrade_congr w.ro { os with nextIdx := s'.nextIdx } { s with nextIdx := s'.nextIdx } wl w.br (by exact c1)] at hud
              rcases hui with hui | hui
              · simp only [hui, hcs, decide_true, Bool.true_or, Bool.or_true, Bool.true_and, Bool.and_true]
                rw [← hui]; exact hud
              · simp only [hui, hcs, decide_true, Bool.true_or, Bool.or_true, Bool.true_and, Bool.and_true]
                rw [← hui]; exact hud
  · rfl

/-! ### C04 (stable half) — a step that replaces every stable pod (whole reconcile) -/

theorem runCanary_unpin (c0 c' : Ctx) (err : Bool) (h : runCanary c0 = .ok c' err)
    (hinit : c0.sub.state = .init) (hcur : c'.sub.curIdx = c0.sub.curIdx)
    (hleft : c'.sub.state = .upgrade ∨ c'.sub.state = .trafficRouting ∨ c'.sub.state = .metricsAnalysis)
    (hfull : fullStep c0.ro c0.sub c0.wl = true) (hhas : c0.ro.hasTraffic = true) (hseen : c0.wlSeen = true) :
    c'.net.stableExists = true → c'.net.stableSel.getD "" = "" := by
  obtain ⟨y1, y2, y3, y4, y5⟩ := syncStep_sub c0
  have hseen1 : (syncStep c0).wlSeen = true := by
    unfold syncStep; dsimp only
    cases c0.br with
    | none => exact hseen
    | some b => dsimp only; split <;> exact hseen
  have hne : c'.sub.state ≠ .init := by rcases hleft with h1 | h1 | h1 <;> rw [h1] <;> simp
  unfold runCanary at h
  dsimp only at h
  split at h
  · cases h
  · -- a jump lands in StepInit or StepTrafficRouting of the target step; from StepInit only in StepInit
    rename_i s2 hj
    cases h
    obtain ⟨_, j2⟩ := jump_spec _ _ _ _ hj
    obtain ⟨_, _, _, _, _, jst, jup⟩ := j2 rfl
    dsimp only at hne hleft
    rcases jst with jst | jst
    · have := jup jst
      rw [y3, hinit] at this
      unfold Upgraded at this
      simp at this
    · exact absurd jst hne
  · rename_i s2 hj
    obtain ⟨j1, _⟩ := jump_spec _ _ _ _ hj
    have hs2 := j1 rfl
    subst hs2
    split at h
    · cases h
    · rename_i step hstep
      -- the step the oracle speaks about
      have hstep' : c0.ro.steps[(c0.sub.curIdx - 1).toNat]? = some step := by rw [← y1]; exact hstep
      unfold fullStep at hfull
      rw [hstep'] at hfull
      simp only [Bool.and_eq_true, decide_eq_true_eq] at hfull
      obtain ⟨⟨⟨hstyle, htraffic⟩, hrepl⟩, hreal⟩ := hfull
      have hpre : preStep step { syncStep c0 with sub := (syncStep c0).sub } = some ({ syncStep c0 with sub := (syncStep c0).sub }, true, false) := by
        unfold preStep; simp [htraffic]
      rw [hpre] at h
      dsimp only at h
      simp only [Bool.false_eq_true, if_false, not_true_eq_false] at h
      unfold stateStep at h
      dsimp only at h
      rw [y3, hinit] at h
      dsimp only at h
      exact RV.Props.Cluster.initStep_full_unpins c0.ro step _ c' err (by simpa using hstyle) hreal htraffic (by dsimp only; exact y4) hhas
        (by dsimp only; exact hseen1) (by dsimp only; rw [y3]; exact hinit) (by dsimp only; rw [y5]; exact hrepl) h hne

theorem inRolling_unpin (w : World) (old ns : Rollout) (s os : Sub) (wl : WL) (r : StepResult) (s' : Sub)
    (hold : old.sub = some os) (hns : ns.sub = some s)
    (h : inRolling w old ns s wl = .val r) (hs' : r.w.ro.sub = some s')
    (hinit : s.state = .init) (hcur : s'.curIdx = s.curIdx)
    (hleft : s'.state = .upgrade ∨ s'.state = .trafficRouting ∨ s'.state = .metricsAnalysis)
    (hfull : fullStep ns s wl = true) (hhas : ns.hasTraffic = true) :
    r.w.net.stableExists = true → r.w.net.stableSel.getD "" = "" := by
  have stay : ∀ (P : Prop), s'.state = s.state → P := by
    intro P h2
    rw [h2, hinit] at hleft
    rcases hleft with h1 | h1 | h1 <;> cases h1
  unfold inRolling at h
  dsimp only at h
  rw [hold] at h
  dsimp only at h
  split at h
  · cases h; dsimp only at hs'; cases hs'; exact stay _ rfl
  · split at h
    · cases h; dsimp only at hs'; rw [hns] at hs'; cases hs'; exact stay _ rfl
    · split at h
      · cases h; dsimp only at hs'; cases hs'
        dsimp only at hleft; rcases hleft with h1 | h1 | h1 <;> cases h1
      · split at h
        · split at h
          · cases h; dsimp only at hs'; rw [hns] at hs'; cases hs'; exact stay _ rfl
          · split at h
            · cases h
            · rename_i c d e hreset
              obtain ⟨_, _, st⟩ := reset_next _ _ _ _ hreset
              unfold toCtx at st
              dsimp only at st
              split at h
              · cases h; unfold ofCtx at hs'; dsimp only at hs'; cases hs'; exact stay _ st
              · split at h
                · cases h; unfold ofCtx at hs'; dsimp only at hs'; cases hs'
                · cases h; unfold ofCtx at hs'; dsimp only at hs'; cases hs'; exact stay _ st
        · split at h
          · split at h
            · cases h
            · split at h
              · cases h; dsimp only at hs'; cases hs'
                dsimp only at hleft; rcases hleft with h1 | h1 | h1 <;> cases h1
              · split at h
                · cases h
                · rename_i s2 j hj
                  cases h; dsimp only at hs'; cases hs'
                  obtain ⟨j1, j2⟩ := jump_spec _ _ _ _ hj
                  cases j with
                  | false => have := j1 rfl; subst this; exact stay _ rfl
                  | true =>
                    obtain ⟨_, _, _, _, _, jst, jup⟩ := j2 rfl
                    rcases jst with jst | jst
                    · have := jup jst
                      dsimp only at this
                      rw [hinit] at this
                      unfold Upgraded at this
                      simp at this
                    · rw [jst] at hleft; rcases hleft with h1 | h1 | h1 <;> cases h1
          · split at h
            · rename_i hcomp
              rw [hinit] at hcomp; cases hcomp
            · split at h
              · cases h
              · rename_i c e hrun
                cases h
                unfold ofCtx at hs' ⊢; dsimp only at hs' ⊢; cases hs'
                generalize hs0 : (if s.nextIdx ≤ 0 ∨ s.nextIdx > (ns.steps.length : Int) then
                    { s with nextIdx := nextBatchIndex ns.steps.length s.curIdx } else s) = s0 at hrun
                have hc0 : s0.curIdx = s.curIdx := by rw [← hs0]; split <;> rfl
                have hst0 : s0.state = s.state := by rw [← hs0]; split <;> rfl
                refine runCanary_unpin _ _ _ hrun (by unfold toCtx; dsimp only; rw [hst0]; exact hinit)
                  (by unfold toCtx; dsimp only; rw [hc0]; exact hcur) hleft ?_ (by unfold toCtx; exact hhas) (by unfold toCtx; rfl)
                unfold toCtx; dsimp only
                unfold fullStep at hfull ⊢
                rw [hc0]; exact hfull

/-- **C04 (stable half, whole reconcile)** — for every world with a readable workload: when one reconcile moves a
    rolling partition-style (`realPartition`) canary rollout out of `StepInit` of a step (with traffic) whose replicas cover the whole
    workload — i.e. hands the batch that replaces the last stable pod to the BatchRelease — the stable
    Service, if it exists, is un-pinned afterwards. -/
theorem full_step_unpins_first_core (w : World) (r : StepResult) (h : reconcileCore w = .val r) :
    fullStepUnpinsFirst w r = true := by
  unfold fullStepUnpinsFirst
  cases hos : w.ro.sub with
  | none => rfl
  | some os =>
  cases hs' : r.w.ro.sub with
  | none => rfl
  | some s' =>
  cases hw : w.wl with
  | none => rfl
  | some wl =>
  dsimp only
  split
  · rename_i hc
    obtain ⟨hnow, hrr, hhas, hcons, h1, hinit, hleft, hcur, hfull⟩ := hc
    have hnow' := hnow
    unfold inRollingNow at hnow'
    simp only [Bool.and_eq_true, decide_eq_true_eq, Bool.not_eq_true'] at hnow'
    obtain ⟨⟨hph, hr⟩, hndel⟩ := hnow'
    obtain ⟨ns, s, hsame, hs, hcore, hreason, hrec⟩ := reconcile_inRolling_core w wl os hph hr hw hcons hos
    simp only [subCore, Prod.mk.injEq] at hcore
    obtain ⟨c1, _, c3, _⟩ := hcore
    rw [hrec] at h
    split at h
    · cases h
    · rename_i r0 hir
      split at h
      · cases h
        exfalso
        dsimp only at hs'; rw [hf_frame w.ro] at hs'; dsimp only at hs'; rw [hos] at hs'; cases hs'
        rw [hinit] at hleft; rcases hleft with h1 | h1 | h1 <;> cases h1
      · cases h
        have hfull' : fullStep ns s wl = true := by
          unfold fullStep at hfull ⊢
          rw [hsame.1, hsame.2.2.1, hsame.2.2.2.2.2.2.2.2.2, c1]; exact hfull
        have := inRolling_unpin w w.ro ns s os wl r0 s' hos hs hir hs' (by rw [c3]; exact hinit) (by rw [c1]; exact hcur)
          hleft hfull' (by rw [hsame.2.1]; exact hhas)
        cases hse : r0.w.net.stableExists with
        | false => simp
        | true => simp [this hse]
  · rfl

/-! ### C10 — supersession: the reset puts traffic back on stable first -/

theorem prStage3_net (c c' : Ctx) (d e : Bool) (h : prStage3 c = some (c', d, e)) :
    c'.net.canaryIng = c.net.canaryIng ∧ c'.br = c.br := by
  unfold prStage3 at h
  split at h
  · cases h
  · rename_i c1 _ _ hc
    have hnet : c1.net.canaryIng = c.net.canaryIng ∧ c1.br = c.br := by
      unfold callTM at hc
      split at hc
      · cases hc
      · simp only [Option.some.injEq, Prod.mk.injEq] at hc
        obtain ⟨hcc, _, _⟩ := hc
        subst hcc
        obtain ⟨_, hi, _⟩ := RV.Props.Traffic.rc_spec _ c.net c.mem
        exact ⟨hi, rfl⟩
    split at h <;> (cases h; exact hnet)

theorem prStage2_net (c c' : Ctx) (d e : Bool) (h : prStage2 c = some (c', d, e)) :
    c'.net.canaryIng = c.net.canaryIng := by
  unfold prStage2 at h
  dsimp only at h
  split at h
  · cases h; rfl
  · have := prStage3_net _ _ _ _ h
    exact this.1

/-- **C10 (reset)** — for every context with traffic routing whose reset has not yet passed its first stage:
    if `doProgressingReset` does not fail, either it touched neither the BatchRelease nor the canary Service
    (the gateway is still being restored), or no canary route is left. -/
theorem reset_routes_first (c c' : Ctx) (d : Bool) (hhas : c.ro.hasTraffic = true)
    (h1 : c.sub.finStep ≠ .releaseWorkloadControl) (h2 : c.sub.finStep ≠ .removeCanaryService)
    (h : doProgressingReset c = some (c', d, false)) :
    (c'.br = c.br ∧ c'.net.canarySvc = c.net.canarySvc) ∨ c'.net.canaryIng = none := by
  have hcur : (prCursor c).sub.finStep = .routeTrafficToStable ∧ (prCursor c).net = c.net ∧ (prCursor c).br = c.br ∧
      (prCursor c).ro = c.ro ∧ (prCursor c).mem = c.mem ∧ (prCursor c).wlSeen = c.wlSeen := by
    unfold prCursor
    split
    · rename_i hf; exact ⟨hf, rfl, rfl, rfl, rfl, rfl⟩
    · rename_i hf; exact absurd hf h1
    · rename_i hf; exact absurd hf h2
    · exact ⟨rfl, rfl, rfl, rfl, rfl, rfl⟩
  obtain ⟨k1, k2, k3, k4, _, _⟩ := hcur
  unfold doProgressingReset at h
  rw [if_neg (by simp [hhas])] at h
  split at h
  · cases h
  · dsimp only at h
    rw [k1] at h
    dsimp only at h
    split at h
    · cases h
    · rename_i c2 rt er hc
      -- what RestoreGateway leaves behind
      have hgw : c2.br = c.br ∧ c2.net.canarySvc = c.net.canarySvc ∧ c2.net.canaryIng = none := by
        unfold callTM at hc
        split at hc
        · cases hc
        · rename_i t ht
          simp only [Option.some.injEq, Prod.mk.injEq] at hc
          obtain ⟨hcc, _, _⟩ := hc
          subst hcc
          obtain ⟨_, hsv, _, _, _, hin, _⟩ := RV.Props.Traffic.rg_spec { t with hasRevKey := (prCursor c).wlSeen } (prCursor c).net (prCursor c).mem
          have href : t.hasRef = true := by
            unfold trCtx at ht; split at ht <;> simp at ht <;> (try rw [← ht]) <;> (try simp [k4, hhas])
          dsimp only
          exact ⟨k3, by rw [hsv, k2], hin (by simpa using href)⟩
      split at h
      · cases h
        exact Or.inl ⟨hgw.1, hgw.2.1⟩
      · right
        have := prStage2_net _ _ _ _ h
        rw [this]
        exact hgw.2.2

/-- **C10 (supersession, whole reconcile)** — for every world: while a newer revision supersedes the one being
    released, a reconcile that starts the reset deletes the BatchRelease / removes the canary Service only
    if it leaves no canary route behind. -/
theorem reset_routes_first_reconcile_core (w : World) (r : StepResult) (h : reconcileCore w = .val r) :
    resetRoutesFirst w r = true := by
  unfold resetRoutesFirst
  cases hos : w.ro.sub with
  | none => rfl
  | some os =>
  cases hw : w.wl with
  | none => rfl
  | some wl =>
  dsimp only
  split
  · rename_i hc
    obtain ⟨hnow, hcons, hnrb, hnp, hstyle, hhas, hne, hrev, hf1, hf2, hnerr⟩ := hc
    have hnow' := hnow
    unfold inRollingNow at hnow'
    simp only [Bool.and_eq_true, decide_eq_true_eq, Bool.not_eq_true'] at hnow'
    obtain ⟨⟨hph, hr⟩, _⟩ := hnow'
    obtain ⟨ns, s, hsame, hs, hcore, _, hrec⟩ := reconcile_inRolling_core w wl os hph hr hw hcons hos
    simp only [subCore, Prod.mk.injEq] at hcore
    obtain ⟨_, _, _, _, c5, c6, _⟩ := hcore
    rw [hrec] at h
    -- the dispatch takes the continuous-release branch of a canary rollout
    have hbr : inRolling w w.ro ns s wl =
        (match doProgressingReset (toCtx { w with ro := ns } s wl) with
         | none => .panic
         | some (c, done, err) =>
           if err then .val { w := ofCtx w c ns, roGone := false, requeue := false, err := true, writes := c.writes }
           else if done then
             .val { w := { (ofCtx w c ns) with ro := { (ofCtx w c ns).ro with sub := none, reason := .initializing } },
                    roGone := false, requeue := false, err := false, writes := c.writes }
           else .val { w := ofCtx w c ns, roGone := false, requeue := true, err := false, writes := c.writes }) := by
      unfold inRolling
      dsimp only
      rw [hos]
      dsimp only
      rw [if_neg (by intro hh; exact hnrb hh.1), if_neg (by rw [hsame.2.2.2.1]; exact hnp),
          if_neg (by intro hh; exact hnrb hh.1), if_pos ⟨hne, hrev, hnrb⟩,
          if_neg (by rw [hsame.2.2.1, hstyle]; simp)]
      first | rfl | (split <;> rfl) | (split <;> (try rfl) <;> (split <;> rfl))
    cases hres : doProgressingReset (toCtx { w with ro := ns } s wl) with
    | none => rw [hbr, hres] at h; cases h
    | some res =>
      obtain ⟨c, d, e⟩ := res
      have hval : ∃ r0 : StepResult, inRolling w w.ro ns s wl = .val r0 ∧ r0.err = e ∧ r0.w.br = c.br ∧ r0.w.net = c.net := by
        rw [hbr, hres]
        dsimp only
        cases e with
        | true => exact ⟨_, rfl, rfl, rfl, rfl⟩
        | false =>
          cases d with
          | true => exact ⟨_, rfl, rfl, rfl, rfl⟩
          | false => exact ⟨_, rfl, rfl, rfl, rfl⟩
      obtain ⟨r0, hr0, he0, hb0, hn0⟩ := hval
      rw [hr0] at h
      dsimp only at h
      cases e with
      | true =>
        rw [if_pos he0] at h
        cases h
        exact absurd rfl hnerr
      | false =>
        rw [if_neg (by simp [he0])] at h
        cases h
        dsimp only
        have hk : (c.br = w.br ∧ c.net.canarySvc = w.net.canarySvc) ∨ c.net.canaryIng = none := by
          have := reset_routes_first (toCtx { w with ro := ns } s wl) c d (by unfold toCtx; rw [hsame.2.1]; exact hhas)
            (by unfold toCtx; dsimp only; rw [c5]; exact hf1) (by unfold toCtx; dsimp only; rw [c5]; exact hf2) hres
          unfold toCtx at this
          exact this
        rw [hb0, hn0]
        rcases hk with ⟨k1, k2⟩ | k3
        · rw [k1, k2]
          cases hb : w.br with
          | none => simp; exact Or.inl (Classical.em _)
          | some b => simp; exact Or.inl (Classical.em _)
        · rw [k3]; simp
  · rfl

/-- a reconcile of a Progressing rollout never writes the Terminating reason Completed: only the Terminating branch does -/
theorem progressing_term_core (w : World) (r : StepResult) (h : reconcileCore w = .val r) (hph : w.ro.phase = .progressing) :
    r.w.ro.term = .completed → w.ro.term = .completed := by
  have hfr := hf_frame w.ro
  have e_term : (handleFinalizer w.ro).1.term = w.ro.term := by rw [hfr]
  have e_del : (handleFinalizer w.ro).1.deleting = w.ro.deleting := by rw [hfr]
  unfold reconcileCore at h
  dsimp only at h
  split at h
  · cases h
    exact fun h1 => e_term ▸ h1
  · rename_i ns hcs
    obtain ⟨cf, ct1, ct2⟩ := cs_fin _ ns w.wl hcs
    have hnsT : ns.term = .completed → w.ro.term = .completed := by
      intro hc
      cases hd : w.ro.deleting with
      | false =>
        rcases ct1 (by rw [e_del]; exact hd) with h1 | ⟨_, _, h1⟩
        · rw [← e_term, ← h1]; exact hc
        · rw [h1] at hc; cases hc
      | true =>
        rcases ct2 (by rw [e_del]; exact hd) with h1 | ⟨_, h1⟩
        · rw [← e_term, ← h1]; exact hc
        · rw [h1] at hc; cases hc
    have leafNs : ∀ (ro' : Rollout) (w0 : World) (rq e : Bool) (ws : List String),
        Out.val { w := { w0 with ro := ro' }, roGone := (handleFinalizer w.ro).2.1, requeue := rq, err := e, writes := ws } = Out.val r →
        ro'.term = ns.term → r.w.ro.term = .completed → w.ro.term = .completed := by
      intro ro' w0 rq e ws hh h2 hc
      cases hh
      exact hnsT (h2 ▸ hc)
    have leafRo1 : ∀ (w0 : World) (rq e : Bool) (ws : List String),
        Out.val { w := { w0 with ro := (handleFinalizer w.ro).1 }, roGone := (handleFinalizer w.ro).2.1, requeue := rq, err := e, writes := ws } = Out.val r →
        r.w.ro.term = .completed → w.ro.term = .completed := by
      intro w0 rq e ws hh hc
      cases hh
      exact e_term ▸ hc
    have finBranch : ∀ (wl : Option WL) (reason : Reason) (wr : Bool) (upd : Rollout → Rollout),
        (∀ x, (upd x).term = x.term) →
        (match finalise w ns wl reason wr with
         | none => Out.panic
         | some (w', done, err, ws) =>
           if err then .val { w := { w' with ro := (handleFinalizer w.ro).1 }, roGone := (handleFinalizer w.ro).2.1, requeue := false, err := true,
                              writes := (handleFinalizer w.ro).2.2 ++ ws }
           else if done then .val { w := { w' with ro := upd w'.ro }, roGone := (handleFinalizer w.ro).2.1, requeue := false, err := false,
                                    writes := (handleFinalizer w.ro).2.2 ++ ws }
           else .val { w := w', roGone := (handleFinalizer w.ro).2.1, requeue := true, err := false, writes := (handleFinalizer w.ro).2.2 ++ ws }) = Out.val r →
        r.w.ro.term = .completed → w.ro.term = .completed := by
      intro wl reason wr upd hupd hh
      split at hh
      · cases hh
      · rename_i w' done err ws hfz
        obtain ⟨_, f2, _⟩ := finalise_fin _ _ _ _ _ _ _ _ _ hfz
        split at hh
        · exact leafRo1 _ _ _ _ hh
        · split at hh
          · cases hh
            intro hc
            exact hnsT (f2 ▸ (hupd w'.ro) ▸ hc)
          · cases hh
            intro hc
            exact hnsT (f2 ▸ hc)
    rw [hph] at h
    dsimp only at h
    split at h
    · exact leafNs _ _ _ _ _ h rfl
    · rename_i wl hwl
      split at h
      · exact leafNs _ _ _ _ _ h rfl
      · split at h
        · cases h
        · -- initializing
          split at h
          · cases h
          · split at h
            · exact leafRo1 _ _ _ _ h
            · split at h
              · exact leafNs _ _ _ _ _ h rfl
              · exact leafNs _ _ _ _ _ h rfl
        · -- inRolling
          split at h
          · split at h
            · cases h
            · split at h
              · exact leafNs _ _ _ _ _ h rfl
              · cases h
          · split at h
            · cases h
            · rename_i r0 hir
              obtain ⟨_, i2, _⟩ := inRolling_fin _ _ _ _ _ _ hir
              split at h
              · exact leafRo1 _ _ _ _ h
              · cases h
                exact fun hc => hnsT (i2 ▸ hc)
        · exact finBranch (some wl) .success true (fun x => { x with reason := .completed, succeeded := some true })
            (fun x => rfl) h
        · split at h
          · exact leafNs _ _ _ _ _ h rfl
          · exact leafNs _ _ _ _ _ h rfl
        · exact finBranch (some wl) .rollback false (fun x => { x with reason := .completed, succeeded := some false })
            (fun x => rfl) h
        · exact leafNs _ _ _ _ _ h rfl
        · exact leafNs _ _ _ _ _ h rfl

/-- the phase `calculateRolloutStatus` computes for a Progressing rollout that is neither deleted nor disabled is not
    Terminating and not Disabling -/
theorem cs_phase_alive (ro ns : Rollout) (wl : Option WL) (h : calculateStatus ro wl = some ns)
    (hph : ro.phase = .progressing) (hdel : ro.deleting = false) (hdis : ro.disabled = false) :
    ns.phase ≠ .terminating ∧ ns.phase ≠ .disabling := by
  have e1 : csInitial (csDisable ro) = ro := by
    unfold csDisable; rw [if_neg (by simp [hdis])]
    unfold csInitial; rw [if_neg (by simp [hph])]
  unfold calculateStatus at h
  rw [if_neg (by simp [hdel])] at h
  dsimp only at h
  rw [e1] at h
  split at h
  · rw [if_pos (by simp [hdis])] at h
    cases h; exact ⟨by simp, by simp⟩
  · rename_i wl0
    split at h
    · cases h
    · cases h
      have e3 : (csObserve ro wl0).phase = .progressing := by
        unfold csObserve
        split
        · split <;> exact hph
        · exact hph
      have e4 : csPhase ro (csObserve ro wl0) wl0 = csObserve ro wl0 := by
        unfold csPhase; rw [e3]
      rw [e4, e3]; exact ⟨by simp, by simp⟩

theorem inRolling_phase (w : World) (old ns : Rollout) (s : Sub) (wl : WL) (r : StepResult)
    (h : inRolling w old ns s wl = .val r) : r.w.ro.phase = ns.phase := by
  unfold inRolling at h
  dsimp only at h
  repeat' split at h
  all_goals first
    | (cases h; done)
    | (cases h; rfl)

theorem finalise_phase (w w' : World) (ns : Rollout) (wl : Option WL) (reason : Reason) (wr done err : Bool) (ws : List String)
    (h : finalise w ns wl reason wr = some (w', done, err, ws)) : w'.ro.phase = ns.phase := by
  unfold finalise at h
  split at h
  · injection h with h; simp only [Prod.mk.injEq] at h; obtain ⟨hw, _⟩ := h; subst hw; rfl
  · split at h
    · dsimp only at h
      split at h
      · cases h
      · injection h with h; simp only [Prod.mk.injEq] at h; obtain ⟨hw, _⟩ := h; subst hw; rfl
    · split at h
      · split at h
        · cases h
        · injection h with h; simp only [Prod.mk.injEq] at h; obtain ⟨hw, _⟩ := h; subst hw; rfl
      · split at h
        · cases h
        · injection h with h; simp only [Prod.mk.injEq] at h; obtain ⟨hw, _⟩ := h; subst hw; rfl

/-- a reconcile of a Progressing rollout that is neither being deleted nor disabled does not leave it Terminating or Disabling -/
theorem alive_stays_core (w : World) (r : StepResult) (h : reconcileCore w = .val r) (hph : w.ro.phase = .progressing)
    (hdel : w.ro.deleting = false) (hdis : w.ro.disabled = false) :
    r.w.ro.phase ≠ .terminating ∧ r.w.ro.phase ≠ .disabling := by
  have hfr := hf_frame w.ro
  have e_phase : (handleFinalizer w.ro).1.phase = w.ro.phase := by rw [hfr]
  have e_del : (handleFinalizer w.ro).1.deleting = w.ro.deleting := by rw [hfr]
  have e_dis : (handleFinalizer w.ro).1.disabled = w.ro.disabled := by rw [hfr]
  have hro1 : (handleFinalizer w.ro).1.phase ≠ .terminating ∧ (handleFinalizer w.ro).1.phase ≠ .disabling := by
    rw [e_phase, hph]; exact ⟨by simp, by simp⟩
  unfold reconcileCore at h
  dsimp only at h
  split at h
  · cases h; exact hro1
  · rename_i ns hcs
    have hns := cs_phase_alive _ ns w.wl hcs (e_phase.trans hph) (e_del.trans hdel) (e_dis.trans hdis)
    have leafNs : ∀ (ro' : Rollout) (w0 : World) (rq e : Bool) (ws : List String),
        Out.val { w := { w0 with ro := ro' }, roGone := (handleFinalizer w.ro).2.1, requeue := rq, err := e, writes := ws } = Out.val r →
        (ro'.phase = ns.phase ∨ ro'.phase = .healthy) → r.w.ro.phase ≠ .terminating ∧ r.w.ro.phase ≠ .disabling := by
      intro ro' w0 rq e ws hh h2
      cases hh
      rcases h2 with h2 | h2
      · dsimp only; rw [h2]; exact hns
      · dsimp only; rw [h2]; exact ⟨by simp, by simp⟩
    have leafRo1 : ∀ (w0 : World) (rq e : Bool) (ws : List String),
        Out.val { w := { w0 with ro := (handleFinalizer w.ro).1 }, roGone := (handleFinalizer w.ro).2.1, requeue := rq, err := e, writes := ws } = Out.val r →
        r.w.ro.phase ≠ .terminating ∧ r.w.ro.phase ≠ .disabling := by
      intro w0 rq e ws hh
      cases hh
      exact hro1
    have finBranch : ∀ (wl : Option WL) (reason : Reason) (wr : Bool) (upd : Rollout → Rollout),
        (∀ x, (upd x).phase = x.phase) →
        (match finalise w ns wl reason wr with
         | none => Out.panic
         | some (w', done, err, ws) =>
           if err then .val { w := { w' with ro := (handleFinalizer w.ro).1 }, roGone := (handleFinalizer w.ro).2.1, requeue := false, err := true,
                              writes := (handleFinalizer w.ro).2.2 ++ ws }
           else if done then .val { w := { w' with ro := upd w'.ro }, roGone := (handleFinalizer w.ro).2.1, requeue := false, err := false,
                                    writes := (handleFinalizer w.ro).2.2 ++ ws }
           else .val { w := w', roGone := (handleFinalizer w.ro).2.1, requeue := true, err := false, writes := (handleFinalizer w.ro).2.2 ++ ws }) = Out.val r →
        r.w.ro.phase ≠ .terminating ∧ r.w.ro.phase ≠ .disabling := by
      intro wl reason wr upd hupd hh
      split at hh
      · cases hh
      · rename_i w' done err ws hfz
        have f2 := finalise_phase _ _ _ _ _ _ _ _ _ hfz
        split at hh
        · exact leafRo1 _ _ _ _ hh
        · split at hh
          · cases hh
            dsimp only; rw [hupd, f2]; exact hns
          · cases hh
            rw [f2]; exact hns
    rw [hph] at h
    dsimp only at h
    split at h
    · exact leafNs _ _ _ _ _ h (Or.inl rfl)
    · rename_i wl hwl
      split at h
      · exact leafNs _ _ _ _ _ h (Or.inl rfl)
      · split at h
        · cases h
        · -- initializing
          split at h
          · cases h
          · split at h
            · exact leafRo1 _ _ _ _ h
            · split at h
              · exact leafNs _ _ _ _ _ h (Or.inl rfl)
              · exact leafNs _ _ _ _ _ h (Or.inl rfl)
        · -- inRolling
          split at h
          · split at h
            · cases h
            · split at h
              · exact leafNs _ _ _ _ _ h (Or.inl rfl)
              · cases h
          · split at h
            · cases h
            · rename_i r0 hir
              have i2 := inRolling_phase _ _ _ _ _ _ hir
              split at h
              · exact leafRo1 _ _ _ _ h
              · cases h
                dsimp only; rw [i2]; exact hns
        · exact finBranch (some wl) .success true (fun x => { x with reason := .completed, succeeded := some true })
            (fun x => rfl) h
        · split at h
          · exact leafNs _ _ _ _ _ h (Or.inl rfl)
          · exact leafNs _ _ _ _ _ h (Or.inl rfl)
        · exact finBranch (some wl) .rollback false (fun x => { x with reason := .completed, succeeded := some false })
            (fun x => rfl) h
        · exact leafNs _ _ _ _ _ h (Or.inr rfl)
        · exact leafNs _ _ _ _ _ h (Or.inl rfl)

/-- **the reset concerns deletion and disabling only**: for a rollout that is neither being deleted nor disabled the whole
    reconcile is the body -/
theorem reconcile_eq_core_of_alive (w : World) (hdel : w.ro.deleting = false) (hdis : w.ro.disabled = false) :
    reconcile w = reconcileCore w := by
  by_cases hph : w.ro.phase = .progressing
  · rw [reconcile_def]
    cases hc : reconcileCore w with
    | panic => rfl
    | val r0 =>
      obtain ⟨h1, h2⟩ := alive_stays_core w r0 hc hph hdel hdis
      simp only [Out.map]; rw [resetOnExit_of_stays w r0 h1 h2]
  · exact reconcile_eq_core_of_phase w hph

/-! ### the whole reconcile: body + cursor reset (fix "cursor reset")

`reconcile w = (reconcileCore w).map (resetOnExit w)`: after the switch on the old phase and before the status is written,
a Progressing rollout whose new status says Terminating / Disabling gets its clean-up cursor cleared.  The theorems above
(`…_core`) are about the body; the oracles below do not see the reset (`…_reset`: the oracle's value on the result after
the reset equals its value before — none of them reads the cursor of the result in a state where the reset fires), so every
one of them holds of the whole reconcile by `RV.RolloutSM.transfer`. -/

section Transfer
open RV.RolloutSM

/-- the tactic behind every `…_reset` lemma: rewrite what the reset leaves alone, then look at the sub-status -/
scoped macro "reset_frame" : tactic =>
  `(tactic| (simp only [resetOnExit_br, resetOnExit_net, resetOnExit_wl, resetOnExit_mem, resetOnExit_roGone, resetOnExit_requeue,
      resetOnExit_err, resetOnExit_writes, resetOnExit_phase, resetOnExit_reason, resetOnExit_term, resetOnExit_steps,
      resetOnExit_style, resetOnExit_paused, resetOnExit_disabled, resetOnExit_deleting, resetOnExit_hasFinalizer,
      resetOnExit_hasTraffic, resetOnExit_succeeded, resetOnExit_condAge, resetOnExit_realPartition, resetOnExit_sub]))

theorem rollbackFirst_reset (w : World) (r : StepResult) : rollbackFirst w (resetOnExit w r) = rollbackFirst w r := by
  unfold rollbackFirst; reset_frame

theorem pausedNoProgress_reset (w : World) (r : StepResult) : pausedNoProgress w (resetOnExit w r) = pausedNoProgress w r := by
  unfold pausedNoProgress; reset_frame; cases w.ro.sub <;> cases r.w.ro.sub <;> cases w.wl <;> rfl

theorem blueGreenRefusesContinuous_reset (w : World) (r : StepResult) :
    blueGreenRefusesContinuous w (resetOnExit w r) = blueGreenRefusesContinuous w r := by
  unfold blueGreenRefusesContinuous; reset_frame; cases w.ro.sub <;> cases r.w.ro.sub <;> cases w.wl <;> rfl

theorem jumpRequested_clear (ro ro' : Rollout) (s : Sub) (f : FinStep) (h : ro'.steps = ro.steps) :
    jumpRequested ro' { s with finStep := f } = jumpRequested ro s := by
  unfold jumpRequested; rw [h]

theorem noSelfJump_reset (w : World) (r : StepResult) : noSelfJump w (resetOnExit w r) = noSelfJump w r := by
  unfold noSelfJump; reset_frame
  cases r.w.ro.sub with
  | none => rfl
  | some s => simp only [Option.map_some]; rw [jumpRequested_clear _ _ _ _ (resetOnExit_steps w r)]

theorem advanceGated_reset (w : World) (r : StepResult) : advanceGated w (resetOnExit w r) = advanceGated w r := by
  unfold advanceGated; reset_frame; cases w.ro.sub <;> cases r.w.ro.sub <;> cases w.wl <;> rfl

theorem readyGated_reset (w : World) (r : StepResult) : readyGated w (resetOnExit w r) = readyGated w r := by
  unfold readyGated; reset_frame; cases w.ro.sub <;> cases r.w.ro.sub <;> cases w.wl <;> rfl

theorem enterRoutingGated_reset (w : World) (r : StepResult) : enterRoutingGated w (resetOnExit w r) = enterRoutingGated w r := by
  unfold enterRoutingGated; reset_frame; cases w.ro.sub <;> cases r.w.ro.sub <;> cases w.wl <;> rfl

theorem fullStepUnpinsFirst_reset (w : World) (r : StepResult) :
    fullStepUnpinsFirst w (resetOnExit w r) = fullStepUnpinsFirst w r := by
  unfold fullStepUnpinsFirst; reset_frame; cases w.ro.sub <;> cases r.w.ro.sub <;> cases w.wl <;> rfl

theorem resetRoutesFirst_reset (w : World) (r : StepResult) : resetRoutesFirst w (resetOnExit w r) = resetRoutesFirst w r := by
  unfold resetRoutesFirst; reset_frame

/-- `inconsistentWaits` compares the cursor, but also the phase: where the reset fires the phase has changed and the oracle is
    false before and after -/
theorem inconsistentWaits_reset (w : World) (r : StepResult) : inconsistentWaits w (resetOnExit w r) = inconsistentWaits w r := by
  cases hx : exitsProgressing w r with
  | false => rw [resetOnExit_of_not w r hx]
  | true =>
    have hne : (r.w.ro.phase == w.ro.phase) = false := by
      simp only [exitsProgressing, Bool.and_eq_true, Bool.or_eq_true, decide_eq_true_eq] at hx
      obtain ⟨h1, h2⟩ := hx
      rw [h1]; rcases h2 with h2 | h2 <;> rw [h2] <;> rfl
    unfold inconsistentWaits; reset_frame
    cases w.wl with
    | none => rfl
    | some wl => simp only [hne, Bool.and_false, Bool.false_and]

/-- **C09.ii (whole reconcile)** — for every world (rollout, workload, BatchRelease, network state, grace
    memory) that is not internally corrupted — in particular for **every** value a user can patch into
    `nextStepIndex` and `currentStepState`, every plan edit the webhook accepts, every BatchRelease
    progress report — one `Reconcile` of the Rollout controller does not crash. -/
theorem reconcile_total (w : World) (h : corrupted w = false) : reconcile w ≠ .panic := by
  rw [Ne, reconcile_panic_iff]; exact reconcile_total_core w h

/-- **C10 (whole reconcile)** — for every world: a rollback of the workload observed while the rollout is
    rolling is dispatched before anything else (pause, plan change, continuous release, normal progress):
    the reason becomes Cancelling — which runs the rollback task list, traffic back to stable first — and
    this reconcile writes nothing to the BatchRelease or the network. -/
theorem rollback_first (w : World) (r : StepResult) (h : reconcile w = .val r) : rollbackFirst w r = true :=
  transfer rollbackFirst rollbackFirst_reset rollback_first_core w r h

/-- **C02.iii (whole reconcile)** — for every world: while `spec.strategy.paused` is set, a reconcile of a rolling rollout
    (finalizer in place) writes nothing and moves nothing; the reason becomes Paused (see `paused_no_progress_core`). -/
theorem paused_no_progress (w : World) (r : StepResult) (h : reconcile w = .val r) (hfin : w.ro.hasFinalizer = true) :
    pausedNoProgress w r = true := by
  obtain ⟨r0, h0, rfl⟩ := reconcile_val h
  rw [pausedNoProgress_reset]; exact paused_no_progress_core w r0 h0 hfin

/-- **whole reconcile** — for every world: while the workload's status lags behind its spec and the Rollout is not being
    deleted, a reconcile writes nothing to the BatchRelease, the workload or the network, keeps the status cursor, the
    phase and the reason, and requeues. -/
theorem inconsistent_waits (w : World) (r : StepResult) (h : reconcile w = .val r) : inconsistentWaits w r = true :=
  transfer inconsistentWaits inconsistentWaits_reset inconsistent_waits_core w r h

/-- **C10 (whole reconcile)** — blue-green refuses a newer revision: nothing changes. -/
theorem bluegreen_refuses_continuous (w : World) (r : StepResult) (h : reconcile w = .val r) :
    blueGreenRefusesContinuous w r = true :=
  transfer blueGreenRefusesContinuous blueGreenRefusesContinuous_reset bluegreen_refuses_continuous_core w r h

/-- **C02.ii (whole reconcile)** — for every world: if the status carries no jump request before a
    reconcile (or there is no sub-status yet), it carries none afterwards.  Only a user writes a jump request. -/
theorem no_self_jump (w : World) (r : StepResult) (h : reconcile w = .val r) : noSelfJump w r = true :=
  transfer noSelfJump noSelfJump_reset no_self_jump_core w r h

/-- **C02.i (whole reconcile)** — the step index and `StepReady` are gated. -/
theorem advance_and_ready_gated (w : World) (r : StepResult) (h : reconcile w = .val r) :
    advanceGated w r = true ∧ readyGated w r = true := by
  obtain ⟨r0, h0, rfl⟩ := reconcile_val h
  rw [advanceGated_reset, readyGated_reset]; exact advance_and_ready_gated_core w r0 h0

/-- **C03.ii (whole reconcile)** — for every world: a reconcile leaves a rolling rollout in
    `StepTrafficRouting` / `StepMetricsAnalysis` of a step it was not in before only if the
    BatchRelease — as it was before this reconcile wrote anything to it — reports the step's pods ready. -/
theorem enter_routing_gated (w : World) (r : StepResult) (h : reconcile w = .val r) : enterRoutingGated w r = true :=
  transfer enterRoutingGated enterRoutingGated_reset enter_routing_gated_core w r h

/-- **C04 (stable half, whole reconcile)** — a full step leaves `StepInit` towards the upgrade only with the stable Service
    un-pinned. -/
theorem full_step_unpins_first (w : World) (r : StepResult) (h : reconcile w = .val r) :
    fullStepUnpinsFirst w r = true :=
  transfer fullStepUnpinsFirst fullStepUnpinsFirst_reset full_step_unpins_first_core w r h

/-- **C10 (supersession, whole reconcile)** — for every world: while a newer revision supersedes the one being
    released, a reconcile that starts the reset deletes the BatchRelease / removes the canary Service only
    with traffic back on stable. -/
theorem reset_routes_first_reconcile (w : World) (r : StepResult) (h : reconcile w = .val r) :
    resetRoutesFirst w r = true :=
  transfer resetRoutesFirst resetRoutesFirst_reset reset_routes_first_reconcile_core w r h

/-- **C18 (Rollout, whole reconcile)** — for every world and every result of one reconcile: the Rollout
    loses its finalizer (or disappears) only while being deleted with its Terminating
    condition already saying Completed; and that condition becomes Completed only in a reconcile whose
    clean-up cursor is at END (or without sub-status).  The condition becomes Completed only in the Terminating branch —
    the old phase is Terminating, the reset (old phase Progressing) does not fire — so the cursor read here is the body's
    (`progressing_term_core`). -/
theorem finalizer_guard (w : World) (r : StepResult) (h : reconcile w = .val r) : finalizerGuard w r = true := by
  obtain ⟨r0, h0, rfl⟩ := reconcile_val h
  have hcore := finalizer_guard_core w r0 h0
  cases hx : exitsProgressing w r0 with
  | false => rw [resetOnExit_of_not w r0 hx]; exact hcore
  | true =>
    have hph : w.ro.phase = .progressing := by
      simp only [exitsProgressing, Bool.and_eq_true, decide_eq_true_eq] at hx; exact hx.1
    have hterm := progressing_term_core w r0 h0 hph
    unfold finalizerGuard at hcore ⊢
    reset_frame
    simp only [Bool.and_eq_true] at hcore ⊢
    refine ⟨hcore.1, ?_⟩
    rw [if_neg (by intro hc; exact hc.2 (hterm hc.1))]

end Transfer
