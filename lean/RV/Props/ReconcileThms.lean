/-
  Theorems about one whole `RolloutReconciler.Reconcile` (model `RV.RolloutSM.reconcile`):
  C09.ii totality, C02 no self-made jump requests, C02.iii pause, C10 rollback first, C18 finalizer.
-/
import RV.Oracle.RolloutSM
import RV.Props.RolloutThms
namespace RV.Props.Reconcile
open RV.Arith RV.Traffic RV.RolloutSM RV.Oracle.RolloutSM RV.Props.Rollout

/-! ### frames of the status calculation -/

theorem hf_frame (ro : Rollout) :
    (handleFinalizer ro).1 = { ro with hasFinalizer := (handleFinalizer ro).1.hasFinalizer } := by
  unfold handleFinalizer
  split
  · split <;> rfl
  · split <;> rfl

/-- the part of the sub-status the release manager's safety depends on -/
def subCore (s : Sub) : Int × Int × StepState × Age × FinStep × String × HashRel :=
  (s.curIdx, s.nextIdx, s.state, s.lastUpdate, s.finStep, s.canaryRev, s.hash)

/-- the user-owned configuration of a rollout, which no status calculation touches -/
def Same (a b : Rollout) : Prop :=
  b.steps = a.steps ∧ b.hasTraffic = a.hasTraffic ∧ b.style = a.style ∧ b.paused = a.paused ∧
  b.rollbackInBatch = a.rollbackInBatch ∧ b.disableGen = a.disableGen ∧ b.grace = a.grace ∧ b.disabled = a.disabled ∧
  b.deleting = a.deleting

theorem Same.rfl' (a : Rollout) : Same a a := ⟨rfl, rfl, rfl, rfl, rfl, rfl, rfl, rfl, rfl⟩
theorem Same.trans {a b c : Rollout} (h1 : Same a b) (h2 : Same b c) : Same a c := by
  obtain ⟨a1, a2, a3, a4, a5, a6, a7, a8, a9⟩ := h1
  obtain ⟨b1, b2, b3, b4, b5, b6, b7, b8, b9⟩ := h2
  exact ⟨b1.trans a1, b2.trans a2, b3.trans a3, b4.trans a4, b5.trans a5, b6.trans a6, b7.trans a7, b8.trans a8, b9.trans a9⟩

theorem csDisable_same (ro : Rollout) : Same ro (csDisable ro) ∧ (csDisable ro).sub = ro.sub := by
  unfold csDisable; split
  · split <;> exact ⟨Same.rfl' _, rfl⟩
  · exact ⟨Same.rfl' _, rfl⟩

theorem csInitial_same (ro : Rollout) : Same ro (csInitial ro) ∧ (csInitial ro).sub = ro.sub := by
  unfold csInitial; split <;> exact ⟨Same.rfl' _, rfl⟩

theorem csObserve_same (ro : Rollout) (w : WL) :
    Same ro (csObserve ro w) ∧ (csObserve ro w).sub.map subCore = ro.sub.map subCore ∧ (csObserve ro w).phase = ro.phase := by
  unfold csObserve
  split
  · rename_i s hs
    split
    · exact ⟨Same.rfl' _, by rw [hs]; rfl, rfl⟩
    · exact ⟨Same.rfl' _, rfl, rfl⟩
  · exact ⟨Same.rfl' _, rfl, rfl⟩

/-- outside phase Healthy the per-phase switch keeps the sub-status -/
theorem csPhase_same (ro ns : Rollout) (w : WL) :
    Same ns (csPhase ro ns w) ∧ (ns.phase ≠ .healthy → (csPhase ro ns w).sub = ns.sub) := by
  unfold csPhase
  split
  · exact ⟨Same.rfl' _, fun _ => rfl⟩
  · rename_i hp
    refine ⟨?_, fun h => absurd hp h⟩
    split
    · exact Same.rfl' _
    · split <;> exact Same.rfl' _
  · split <;> exact ⟨Same.rfl' _, fun _ => rfl⟩
  · exact ⟨Same.rfl' _, fun _ => rfl⟩

theorem csDisable_phase (ro : Rollout) (h : ro.phase = .progressing ∨ ro.phase = .terminating ∨ ro.phase = .disabling) :
    (csDisable ro).phase = .progressing ∨ (csDisable ro).phase = .terminating ∨ (csDisable ro).phase = .disabling ∨
    (csDisable ro).phase = .disabled := by
  unfold csDisable; split
  · split <;> simp
  · rcases h with h | h | h <;> simp [h]

/-- **status calculation frame** — the new status keeps the user's configuration; and for a rollout that is
    Progressing / Terminating / Disabling with a readable workload, the safety-relevant part of its sub-status -/
theorem cs_frame (ro ns : Rollout) (wl : Option WL) (h : calculateStatus ro wl = some ns) :
    Same ro ns ∧
    ((ro.phase = .progressing ∨ ro.phase = .terminating ∨ ro.phase = .disabling) → (wl.isSome ∨ ro.deleting = true ∨ ro.disabled = true) →
      ns.sub.map subCore = ro.sub.map subCore) := by
  unfold calculateStatus at h
  split at h
  · rename_i hdel
    injection h with h; subst h
    split <;> exact ⟨Same.rfl' _, fun _ _ => rfl⟩
  · rename_i hndel
    dsimp only at h
    obtain ⟨d1, d2⟩ := csDisable_same ro
    obtain ⟨i1, i2⟩ := csInitial_same (csDisable ro)
    split at h
    · -- no workload
      split at h
      · rename_i hnd
        injection h with h; subst h
        refine ⟨Same.trans d1 i1, fun _ hw => ?_⟩
        rcases hw with hw | hw | hw
        · cases hw
        · exact absurd hw hndel
        · exact absurd hw hnd
      · injection h with h; subst h
        exact ⟨Same.trans d1 i1, fun _ _ => by rw [i2, d2]⟩
    · rename_i w
      split at h
      · cases h
      · injection h with h; subst h
        obtain ⟨o1, o2, o3⟩ := csObserve_same (csInitial (csDisable ro)) w
        obtain ⟨p1, p2⟩ := csPhase_same ro (csObserve (csInitial (csDisable ro)) w) w
        refine ⟨Same.trans (Same.trans d1 i1) (Same.trans o1 p1), fun hph _ => ?_⟩
        have hnh : (csObserve (csInitial (csDisable ro)) w).phase ≠ .healthy := by
          rw [o3]
          have := csDisable_phase ro hph
          unfold csInitial
          split
          · simp
          · rcases this with h | h | h | h <;> simp [h]
        rw [p2 hnh, o2, i2, d2]

/-! ### C09.ii — no crash -/

theorem finTask_total (c : Ctx) (wr : Bool) (h : c.ro.steps ≠ []) : finTask c wr ≠ none := by
  unfold finTask
  split <;> first | exact callTM_total _ _ _ h | simp

theorem stripAnno_ro (c : Ctx) : (stripAnno c).ro = c.ro := (stripAnno_frame c).2

theorem doFinalising_total (c : Ctx) (r : Reason) (wr : Bool) (h : c.ro.steps ≠ []) : doFinalising c r wr ≠ none := by
  unfold doFinalising
  dsimp only
  rw [stripAnno_ro]
  have hne : c.ro.steps.isEmpty = false := by cases hs : c.ro.steps <;> simp_all
  simp only [hne, Bool.false_eq_true, if_false]
  split
  · simp
  · split
    · simp
    · have : (startCursor (stripAnno c) (nextTask (taskList c.ro.style r) (stripAnno c).sub.finStep)).ro.steps ≠ [] := by
        unfold startCursor; split <;> (try dsimp only) <;> (rw [stripAnno_ro]; exact h)
      have ht := finTask_total _ wr this
      split
      · rename_i hn; exact absurd hn ht
      · split <;> simp

theorem finalise_total (w : World) (ns : Rollout) (wl : Option WL) (r : Reason) (wr : Bool) (h : ns.steps ≠ []) :
    finalise w ns wl r wr ≠ none := by
  unfold finalise
  split
  · simp
  · split
    · dsimp only
      have := doFinalising_total { (toCtx { w with ro := ns } ‹Sub› { (default : WL) with inProgressAnno := false }) with wlSeen := false } r wr
        (by unfold toCtx; exact h)
      split
      · rename_i hn; exact absurd hn this
      · simp
    · split
      · have := doFinalising_total { (toCtx { w with ro := ns } ‹Sub› { ‹WL› with inProgressAnno := false }) with wlSeen := false } r wr
          (by unfold toCtx; exact h)
        split
        · rename_i hn; exact absurd hn this
        · simp
      · have := doFinalising_total (toCtx { w with ro := ns } ‹Sub› ‹WL›) r wr (by unfold toCtx; exact h)
        split
        · rename_i hn; exact absurd hn this
        · simp

theorem prStage3_total (c : Ctx) (h : c.ro.steps ≠ []) : prStage3 c ≠ none := by
  unfold prStage3
  have := callTM_total removeCanaryService c false h
  split
  · rename_i hn; exact absurd hn this
  · split <;> simp

theorem prStage2_total (c : Ctx) (h : c.ro.steps ≠ []) : prStage2 c ≠ none := by
  unfold prStage2
  dsimp only
  split
  · simp
  · exact prStage3_total _ h

theorem prCursor_ro (c : Ctx) : (prCursor c).ro = c.ro := by
  unfold prCursor; split <;> rfl

theorem doProgressingReset_total (c : Ctx) (h : c.ro.steps ≠ []) : doProgressingReset c ≠ none := by
  have hne : c.ro.steps.isEmpty = false := by cases hs : c.ro.steps <;> simp_all
  have h1 : (prCursor c).ro.steps ≠ [] := by rw [prCursor_ro]; exact h
  unfold doProgressingReset
  split
  · simp
  · simp only [hne, Bool.false_eq_true, if_false]
    split
    · have := callTM_total restoreGateway (prCursor c) true h1
      split
      · rename_i hn; exact absurd hn this
      · rename_i c2 rt e hc
        split
        · simp
        · refine prStage2_total _ ?_
          obtain ⟨_, _, _, hro, _⟩ := callTM_sub _ _ _ _ _ _ hc
          dsimp only; rw [hro]; exact h1
    · exact prStage2_total _ h1
    · exact prStage3_total _ h1

theorem recalc_go_bound (ro : Rollout) (wl : WL) (cr : Int) (order : List Nat) (acc : Int)
    (hacc : 1 ≤ acc ∨ order ≠ []) (hacc2 : acc ≤ ro.steps.length)
    (hord : ∀ i ∈ order, i < ro.steps.length) :
    1 ≤ recalculateCanaryStep.go ro wl cr order acc ∧ recalculateCanaryStep.go ro wl cr order acc ≤ ro.steps.length := by
  induction order generalizing acc with
  | nil =>
    unfold recalculateCanaryStep.go
    rcases hacc with h | h
    · exact ⟨h, hacc2⟩
    · exact absurd rfl h
  | cons i is ih =>
    have hi := hord i (by simp)
    unfold recalculateCanaryStep.go
    split
    · constructor <;> omega
    · split
      · constructor <;> omega
      · exact ih _ (Or.inl (by omega)) (by omega) (fun j hj => hord j (by simp [hj]))

/-- the BatchRelease is one the recalculation can read: a batch partition inside its own plan -/
def BrOk (br : Option BR) : Prop :=
  ∀ b, br = some b → ∃ p, b.partition = some p ∧ 0 ≤ p ∧ p < b.batches.length

theorem recalc_total (ro : Rollout) (s : Sub) (wl : WL) (br : Option BR) (hb : BrOk br) (hs : ro.steps ≠ []) :
    ∃ k, recalculateCanaryStep ro s wl br = some k ∧ 1 ≤ k ∧ k ≤ ro.steps.length := by
  unfold recalculateCanaryStep
  cases hbr : br with
  | none =>
    refine ⟨1, rfl, by omega, ?_⟩
    cases h : ro.steps with
    | nil => exact absurd h hs
    | cons a l => simp; omega
  | some b =>
    obtain ⟨p, hp, h0, h1⟩ := hb b hbr
    dsimp only
    rw [hp]
    dsimp only
    rw [if_neg (by omega)]
    have hget : ∃ e, b.batches[p.toNat]? = some e := by
      have : p.toNat < b.batches.length := by omega
      exact ⟨b.batches[p.toNat], by simp [this]⟩
    obtain ⟨e, he⟩ := hget
    rw [he]
    dsimp only
    refine ⟨_, rfl, ?_⟩
    apply recalc_go_bound
    · right
      -- the visiting order is not empty because the plan is not
      intro hnil
      have hlen : ro.steps.length ≠ 0 := by
        intro h0; exact hs (List.eq_nil_of_length_eq_zero h0)
      have := congrArg List.length hnil
      simp only [List.length_append, List.length_nil] at this
      by_cases hc : s.curIdx - 1 ≥ 0 ∧ s.curIdx - 1 < ro.steps.length
      · rw [if_pos hc] at this; simp at this
      · rw [if_neg hc] at this
        simp only [List.length_nil, Nat.zero_add] at this
        -- no index is filtered out when the current index is outside the plan
        have hall : ((List.range ro.steps.length).filter fun (i : Nat) => decide ((i : Int) ≠ s.curIdx - 1)) = List.range ro.steps.length := by
          apply List.filter_eq_self.mpr
          intro i hi
          simp only [List.mem_range] at hi
          simp only [decide_eq_true_eq]
          intro heq; exact hc ⟨by omega, by omega⟩
        rw [hall] at this
        simp at this
        exact hs this
    · omega
    · intro i hi
      simp only [List.mem_append, List.mem_filter, List.mem_range] at hi
      rcases hi with hi | hi
      · split at hi
        · rename_i hc; simp only [List.mem_singleton] at hi; omega
        · cases hi
      · exact hi.1

theorem inRolling_total (w : World) (old ns : Rollout) (s os : Sub) (wl : WL)
    (hold : old.sub = some os) (hsteps : ns.steps ≠ []) (h1 : 1 ≤ s.curIdx) (h2 : s.curIdx ≤ ns.steps.length)
    (h4 : s.lastUpdate ≠ .none) (hbr : BrOk w.br) :
    inRolling w old ns s wl ≠ .panic := by
  unfold inRolling
  dsimp only
  rw [hold]
  dsimp only
  split
  · simp
  · split
    · simp
    · split
      · simp
      · split
        · -- continuous release
          split
          · simp
          · have := doProgressingReset_total (toCtx { w with ro := ns } s wl) (by unfold toCtx; exact hsteps)
            split
            · rename_i hn; exact absurd hn this
            · split
              · simp
              · split <;> simp
        · split
          · -- plan changed
            obtain ⟨k, hk, k1, k2⟩ := recalc_total ns s wl w.br hbr hsteps
            rw [hk]
            dsimp only
            split
            · simp
            · have := jump_total ns { s with nextIdx := k, lastUpdate := .fresh, hash := .same } h1 h2 k2
              split
              · rename_i hn; exact absurd hn this
              · simp
          · -- normal rolling
            split
            · simp
            · have hok : SubOk ns (if s.nextIdx ≤ 0 ∨ s.nextIdx > (ns.steps.length : Int) then
                  { s with nextIdx := nextBatchIndex ns.steps.length s.curIdx } else s) := by
                unfold SubOk
                split
                · refine ⟨h1, h2, ?_, h4⟩
                  dsimp only; unfold nextBatchIndex; split <;> omega
                · rename_i hc
                  exact ⟨h1, h2, by omega, h4⟩
              have := runCanary_total (toCtx { w with ro := ns } (if s.nextIdx ≤ 0 ∨ s.nextIdx > (ns.steps.length : Int) then
                  { s with nextIdx := nextBatchIndex ns.steps.length s.curIdx } else s) wl) (by unfold toCtx; exact hok)
              split
              · rename_i hn; exact absurd hn this
              · simp

/-- what `corrupted w = false` gives -/
theorem not_corrupted (w : World) (h : corrupted w = false) :
    w.ro.steps ≠ [] ∧ ¬ (w.ro.phase = .progressing ∧ w.ro.reason = .none) ∧ ¬ (w.ro.phase = .terminating ∧ w.ro.term = .none) ∧
    ¬ (w.ro.phase = .progressing ∧ w.ro.reason = .inRolling ∧ w.ro.sub = none) ∧
    (∀ s, w.ro.sub = some s → 1 ≤ s.curIdx ∧ s.curIdx ≤ w.ro.steps.length ∧ s.lastUpdate ≠ .none) ∧
    (w.ro.phase = .progressing → w.ro.reason = .inRolling → BrOk w.br) := by
  unfold corrupted at h
  simp only [Bool.or_eq_false_iff, Bool.and_eq_false_iff] at h
  obtain ⟨⟨⟨⟨⟨a, b⟩, c⟩, d⟩, e⟩, f⟩ := h
  refine ⟨?_, ?_, ?_, ?_, ?_, ?_⟩
  · intro hs; rw [hs] at a; simp at a
  · intro ⟨h1, h2⟩; rcases b with b | b <;> simp [h1, h2] at b
  · intro ⟨h1, h2⟩; rcases c with c | c <;> simp [h1, h2] at c
  · intro ⟨h1, h2, h3⟩
    rcases d with (d | d) | d
    · simp [h1] at d
    · simp [h2] at d
    · simp [h3] at d
  · intro s hs
    rw [hs] at e
    simp only [Bool.or_eq_false_iff, decide_eq_false_iff_not, not_or, Int.not_lt] at e
    obtain ⟨⟨e1, e2⟩, e3⟩ := e
    refine ⟨by omega, by omega, ?_⟩
    intro hl; rw [hl] at e3; simp at e3
  · intro h1 h2 b hb
    rcases f with (f | f) | f
    · simp [h1] at f
    · simp [h2] at f
    · rw [hb] at f
      dsimp only at f
      cases hp : b.partition with
      | none => rw [hp] at f; simp at f
      | some p =>
        rw [hp] at f
        simp only [decide_eq_false_iff_not, not_or, Int.not_lt] at f
        exact ⟨p, rfl, by omega, by omega⟩

/-- **C09.ii (whole reconcile)** — for every world (rollout, workload, BatchRelease, network state, grace
    memory) that is not internally corrupted — in particular for **every** value a user can patch into
    `nextStepIndex` and `currentStepState`, every plan edit the webhook accepts, every BatchRelease
    progress report — one `Reconcile` of the Rollout controller does not crash. -/
theorem reconcile_total (w : World) (h : corrupted w = false) : reconcile w ≠ .panic := by
  obtain ⟨hsteps, hnr, hnt, hns, hsub, hbr⟩ := not_corrupted w h
  have hfr := hf_frame w.ro
  unfold reconcile
  dsimp only
  generalize hro1 : (handleFinalizer w.ro).1 = ro1 at *
  have e_steps : ro1.steps = w.ro.steps := by rw [hfr]
  have e_sub : ro1.sub = w.ro.sub := by rw [hfr]
  have e_phase : ro1.phase = w.ro.phase := by rw [hfr]
  have e_del : ro1.deleting = w.ro.deleting := by rw [hfr]
  have e_dis : ro1.disabled = w.ro.disabled := by rw [hfr]
  split
  · simp
  · rename_i ns hcs
    obtain ⟨hsame, hsubrel⟩ := cs_frame ro1 ns w.wl hcs
    have nsteps : ns.steps ≠ [] := by rw [hsame.1, e_steps]; exact hsteps
    split
    · -- Progressing
      rename_i hph
      split
      · simp
      · rename_i wl hwl
        split
        · simp
        · have hrel := hsubrel (Or.inl (by rw [e_phase]; exact hph)) (Or.inl (by rw [hwl]; rfl))
          rw [e_sub] at hrel
          split
          · rename_i hr; exact absurd ⟨hph, hr⟩ hnr
          · -- initializing
            have : ¬ (ns.hasTraffic = true ∧ ns.steps.isEmpty = true) := by
              intro ⟨_, he⟩; exact nsteps (List.isEmpty_iff.mp he)
            rw [if_neg this]
            split
            · simp
            · split <;> simp
          · -- inRolling
            rename_i hr
            split
            · rename_i hnone
              rw [hnone] at hrel
              have : w.ro.sub = none := by
                cases hs : w.ro.sub with
                | none => rfl
                | some x => rw [hs] at hrel; simp at hrel
              exact absurd ⟨hph, hr, this⟩ hns
            · rename_i s hs
              rw [hs] at hrel
              cases hos : w.ro.sub with
              | none => rw [hos] at hrel; simp at hrel
              | some os =>
                rw [hos] at hrel
                simp only [Option.map_some, Option.some.injEq, subCore, Prod.mk.injEq] at hrel
                obtain ⟨c1, _, _, c4, _⟩ := hrel
                obtain ⟨b1, b2, b3⟩ := hsub os hos
                have := inRolling_total w w.ro ns s os wl hos nsteps (by omega)
                  (by rw [hsame.1, e_steps]; omega) (by rw [c4]; exact b3) (hbr hph hr)
                split
                · rename_i hn; exact absurd hn this
                · split <;> simp
          · -- finalising
            have := finalise_total w ns (some wl) .success true nsteps
            split
            · rename_i hn; exact absurd hn this
            · split
              · simp
              · split <;> simp
          · split <;> simp
          · -- cancelling
            have := finalise_total w ns (some wl) .rollback false nsteps
            split
            · rename_i hn; exact absurd hn this
            · split
              · simp
              · split <;> simp
          · simp
          · simp
    · -- Terminating
      rename_i hph
      split
      · rename_i ht; exact absurd ⟨hph, ht⟩ hnt
      · simp
      · have := finalise_total w ns w.wl .other false nsteps
        split
        · rename_i hn; exact absurd hn this
        · split
          · simp
          · split <;> simp
    · -- Disabling
      have := finalise_total w ns w.wl .other false nsteps
      split
      · rename_i hn; exact absurd hn this
      · split
        · simp
        · split <;> simp
    · simp

/-- non-vacuity: a mid-rollout world with an illegal, user-patched next-step index is not corrupted -/
def exampleSteps : List Step := [{ replicas := .pct 20, weight := some 20, pause := .manual }, { replicas := .pct 100, weight := none, pause := .manual }]
def exampleSub : Sub := { (default : Sub) with curIdx := 1, nextIdx := 77, state := .paused, lastUpdate := .elapsed }
def exampleRo : Rollout :=
  { (default : Rollout) with steps := exampleSteps, phase := .progressing, reason := .inRolling, hasFinalizer := true, sub := some exampleSub }
def exampleWorld : World :=
  { ro := exampleRo, wl := some { (default : WL) with consistent := true, replicas := 5 }, br := none,
    net := { stableExists := true, stableSel := none, canarySvc := none, stableIngress := true, canaryIng := none }, mem := Mem.empty }

example : corrupted exampleWorld = false := by
  simp [corrupted, exampleWorld, exampleRo, exampleSub, exampleSteps]

/-! ### the in-rolling dispatch (C10, C02.iii) -/

theorem cs_some (ro : Rollout) (wl : WL) (h : wl.consistent = true) : ∃ ns, calculateStatus ro (some wl) = some ns := by
  unfold calculateStatus
  split
  · exact ⟨_, rfl⟩
  · dsimp only; rw [if_neg (by simp [h])]; exact ⟨_, rfl⟩

/-- how a reconcile of a rolling rollout with a readable workload is computed -/
theorem reconcile_inRolling (w : World) (wl : WL) (os : Sub)
    (hph : w.ro.phase = .progressing) (hr : w.ro.reason = .inRolling) (hwl : w.wl = some wl)
    (hc : wl.consistent = true) (hos : w.ro.sub = some os) :
    ∃ ns s, Same w.ro ns ∧ ns.sub = some s ∧ subCore s = subCore os ∧
      reconcile w =
        (match inRolling w w.ro ns s wl with
         | .panic => .panic
         | .val r =>
           if r.err then .val { w := { r.w with ro := (handleFinalizer w.ro).1 }, roGone := (handleFinalizer w.ro).2.1, requeue := false,
                                err := true, writes := (handleFinalizer w.ro).2.2 ++ r.writes }
           else .val { w := r.w, roGone := (handleFinalizer w.ro).2.1, requeue := r.requeue, err := false,
                       writes := (handleFinalizer w.ro).2.2 ++ r.writes }) := by
  have hfr := hf_frame w.ro
  obtain ⟨ns, hcs⟩ := cs_some (handleFinalizer w.ro).1 wl hc
  obtain ⟨hsame, hsubrel⟩ := cs_frame _ ns (some wl) hcs
  have e_phase : (handleFinalizer w.ro).1.phase = w.ro.phase := by rw [hfr]
  have e_sub : (handleFinalizer w.ro).1.sub = w.ro.sub := by rw [hfr]
  have hrel := hsubrel (Or.inl (by rw [e_phase]; exact hph)) (Or.inl rfl)
  rw [e_sub, hos] at hrel
  cases hs : ns.sub with
  | none => rw [hs] at hrel; simp at hrel
  | some s =>
    rw [hs] at hrel
    simp only [Option.map_some, Option.some.injEq] at hrel
    have hsame' : Same w.ro ns := by
      obtain ⟨a1, a2, a3, a4, a5, a6, a7, a8, a9⟩ := hsame
      rw [hfr] at a1 a2 a3 a4 a5 a6 a7 a8 a9
      exact ⟨a1, a2, a3, a4, a5, a6, a7, a8, a9⟩
    refine ⟨ns, s, hsame', hs, hrel, ?_⟩
    unfold reconcile
    dsimp only
    rw [hwl, hcs]
    dsimp only
    rw [hph]
    dsimp only
    rw [if_neg (by simp [hc]), hr]
    dsimp only
    rw [hs]
    first | rfl | (dsimp only; done) | (dsimp only; rfl)

/-- **C10 (whole reconcile)** — for every world: a rollback of the workload observed while the rollout is
    rolling is dispatched before anything else (pause, plan change, continuous release, normal progress):
    the reason becomes Cancelling — which runs the rollback task list, traffic back to stable first — and
    this reconcile writes nothing to the BatchRelease or the network. -/
theorem rollback_first (w : World) (r : StepResult) (h : reconcile w = .val r) : rollbackFirst w r = true := by
  unfold rollbackFirst
  split
  · rename_i os wl hos hwl
    split
    · rename_i hc
      obtain ⟨hin, hcons, hrb, hrev, hnb⟩ := hc
      unfold inRollingNow at hin
      simp only [Bool.and_eq_true, decide_eq_true_eq, Bool.not_eq_true'] at hin
      obtain ⟨⟨hph, hr⟩, _⟩ := hin
      obtain ⟨ns, s, hsame, hs, hcore, hrec⟩ := reconcile_inRolling w wl os hph hr hwl hcons hos
      rw [hrec] at h
      -- the first branch of the dispatch
      have hbr : inRolling w w.ro ns s wl =
          .val { w := { w with ro := { ns with reason := .cancelling, sub := some { s with canaryRev := wl.canaryRev } } },
                 roGone := false, requeue := false, err := false, writes := [] } := by
        unfold inRolling
        dsimp only
        rw [hos]
        dsimp only
        have : wl.inRollback = true ∧ wl.canaryRev ≠ os.canaryRev ∧ ¬ (¬ ns.hasTraffic = true ∧ ns.rollbackInBatch = true) := by
          refine ⟨hrb, hrev, ?_⟩
          rw [hsame.2.1, hsame.2.2.2.2.1]
          exact hnb
        rw [if_pos this]
      rw [hbr] at h
      simp only [Bool.false_eq_true, if_false, Out.val.injEq] at h
      subst h
      simp
    · rfl
  · rfl

/-- **C02.iii (whole reconcile)** — for every world: while `spec.strategy.paused` is set, a reconcile of a
    rolling rollout (no rollback pending) changes neither the step index nor the sub-state, and writes
    nothing to the BatchRelease, the workload or the network. -/
theorem paused_no_progress (w : World) (r : StepResult) (h : reconcile w = .val r) (hfin : w.ro.hasFinalizer = true) :
    pausedNoProgress w r = true := by
  unfold pausedNoProgress
  split
  · rename_i wl hwl
    split
    · rename_i hc
      obtain ⟨hin, hp, hcons, hnrb, hnd⟩ := hc
      unfold inRollingNow at hin
      simp only [Bool.and_eq_true, decide_eq_true_eq, Bool.not_eq_true'] at hin
      obtain ⟨⟨hph, hr⟩, hndel⟩ := hin
      have hhf : handleFinalizer w.ro = (w.ro, false, []) := by
        unfold handleFinalizer; simp [hndel, hfin]
      cases hos : w.ro.sub with
      | none =>
        -- no sub-status: the pause is honoured as well
        unfold reconcile at h
        dsimp only at h
        rw [hhf] at h
        dsimp only at h
        obtain ⟨ns, hcs⟩ := cs_some w.ro wl hcons
        obtain ⟨hsame, hsubrel⟩ := cs_frame _ ns (some wl) hcs
        have hrel := hsubrel (Or.inl hph) (Or.inl rfl)
        rw [hos] at hrel
        have hnsub : ns.sub = none := by
          cases hx : ns.sub with
          | none => rfl
          | some x => rw [hx] at hrel; simp at hrel
        rw [hwl, hcs] at h
        dsimp only at h
        rw [hph] at h
        dsimp only at h
        rw [if_neg (by simp [hcons]), hr] at h
        dsimp only at h
        rw [hnsub] at h
        dsimp only at h
        rw [if_neg (by simpa using hnrb), if_pos (by rw [hsame.2.2.2.1]; exact hp)] at h
        simp only [Out.val.injEq] at h
        subst h
        simp [hnsub, hwl]
      | some os =>
        obtain ⟨ns, s, hsame, hs, hcore, hrec⟩ := reconcile_inRolling w wl os hph hr hwl hcons hos
        rw [hrec, hhf] at h
        have hbr : inRolling w w.ro ns s wl =
            .val { w := { w with ro := { ns with reason := .paused } }, roGone := false, requeue := false, err := false, writes := [] } := by
          unfold inRolling
          dsimp only
          rw [hos]
          dsimp only
          rw [if_neg (by intro hh; exact hnrb hh.1), if_pos (by rw [hsame.2.2.2.1]; exact hp)]
        rw [hbr] at h
        simp only [Bool.false_eq_true, if_false, Out.val.injEq] at h
        subst h
        simp only [subCore, Prod.mk.injEq] at hcore
        simp [hs, hcore.1, hcore.2.2.1]
    · rfl
  · rfl
