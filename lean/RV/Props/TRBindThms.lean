/-
  # Rollouts bound to a TrafficRouting custom resource — the two-party protocol (C03 / C05 / C06 / C09 / C18)

  Part 2: every transition of the closed loop (`RV.TRBind.step`) and every history (`RV.TRBind.run`).
  Part 1 (`RV/Lemmas/TRBindSteps.lean`, same namespace): the TrafficRouting reconcile, the two binding functions, the
  case analysis of one bound Rollout reconcile, `rolling_origin`, and the TrafficRouting-side step theorems
  `routes_only_while_held`, `held_not_restored`, `tr_finalizer_guard`, `tr_keeps_holders`, `trReconcile_eq_TRSM`.
-/
import RV.Lemmas.TRBindSteps
namespace RV.Props.TRBind
open RV.Traffic RV.TRBind RV.Oracle.TRBind RV.Lemmas.TRBind

end RV.Props.TRBind
